#![feature(allocator_api)]
use vstd::prelude::*;
use std::collections::HashMap;
use std::sync::Arc;
verus! {
global size_of usize == 8;

// ---------------- prelude (stubs + assumed specs) ----------------
#[derive(Clone, Copy, Eq, Hash)]
pub struct MerkleHash(pub [u64;4]);
impl vstd::std_specs::cmp::PartialEqSpecImpl for MerkleHash {
    open spec fn obeys_eq_spec() -> bool { true }
    open spec fn eq_spec(&self, other: &Self) -> bool { *self == *other }
}
impl PartialEq for MerkleHash {
    #[verifier::external_body]
    fn eq(&self, other: &Self) -> (r: bool) { unimplemented!() }
}
pub uninterp spec fn zero_hash() -> MerkleHash;
impl Default for MerkleHash {
    #[verifier::external_body]
    fn default() -> (r: MerkleHash) ensures r == zero_hash() { unimplemented!() }
}
pub broadcast proof fn axiom_merklehash_key_model()
    ensures #[trigger] vstd::std_specs::hash::obeys_key_model::<MerkleHash>()
{ admit(); }

pub struct Chunk { pub hash: MerkleHash, pub data: Arc<[u8]> }
impl Clone for Chunk {
    #[verifier::external_body]
    fn clone(&self) -> (r: Chunk) ensures r == *self { unimplemented!() }
}

pub struct FileDataSequenceEntry {
    pub cas_hash: MerkleHash,
    pub cas_flags: u32,
    pub unpacked_segment_bytes: u32,
    pub chunk_index_start: u32,
    pub chunk_index_end: u32,
}
impl FileDataSequenceEntry {
    #[verifier::external_body]
    pub fn new(cas_hash: MerkleHash, unpacked_segment_bytes: usize, chunk_index_start: usize, chunk_index_end: usize) -> (r: Self)
        requires unpacked_segment_bytes <= u32::MAX, chunk_index_start <= u32::MAX, chunk_index_end <= u32::MAX
        ensures r.cas_hash == cas_hash, r.cas_flags == 0, r.unpacked_segment_bytes == unpacked_segment_bytes,
            r.chunk_index_start == chunk_index_start, r.chunk_index_end == chunk_index_end
    { unimplemented!() }
}

pub struct DeduplicationMetrics {
    pub total_bytes: usize, pub deduped_bytes: usize, pub new_bytes: usize,
    pub deduped_bytes_by_global_dedup: usize, pub defrag_prevented_dedup_bytes: usize,
    pub total_chunks: usize, pub deduped_chunks: usize, pub new_chunks: usize,
    pub deduped_chunks_by_global_dedup: usize, pub defrag_prevented_dedup_chunks: usize,
    pub xorb_bytes_uploaded: usize, pub shard_bytes_uploaded: usize, pub total_bytes_uploaded: usize,
}

pub struct DefragPrevention { pub x: u8 }
impl DefragPrevention {
    #[verifier::external_body] pub fn increment_last_range_in_fragmentation_estimate(&mut self, nchunks: usize) { unimplemented!() }
    #[verifier::external_body] pub fn add_range_to_fragmentation_estimate(&mut self, nchunks: usize) { unimplemented!() }
    #[verifier::external_body] pub fn allow_dedup_on_next_range(&mut self, n: usize) -> bool { unimplemented!() }
}

pub uninterp spec fn max_xorb_bytes() -> usize;
pub uninterp spec fn max_xorb_chunks() -> usize;
#[verifier::external_body] pub fn MAX_XORB_BYTES() -> (r: usize) ensures r == max_xorb_bytes() { unimplemented!() }
#[verifier::external_body] pub fn MAX_XORB_CHUNKS() -> (r: usize) ensures r == max_xorb_chunks() { unimplemented!() }

pub struct RawXorbData { pub h: MerkleHash }
impl RawXorbData { pub fn hash(&self) -> MerkleHash { self.h } }

// ---------------- spec helpers ----------------
pub open spec fn sum_lens(s: Seq<Chunk>) -> nat decreases s.len() {
    if s.len() == 0 { 0 } else { sum_lens(s.drop_last()) + s.last().data@.len() }
}

pub struct FileDeduper {
    pub new_data: Vec<Chunk>,
    pub new_data_size: usize,
    pub new_data_hash_lookup: HashMap<MerkleHash, usize>,
    pub chunk_hashes: Vec<(MerkleHash, usize)>,
    pub file_info: Vec<FileDataSequenceEntry>,
    pub internally_referencing_entries: Vec<usize>,
    pub defrag_tracker: DefragPrevention,
    pub new_xorbs: Vec<MerkleHash>,
}

impl FileDeduper {
    pub open spec fn wf(&self) -> bool {
        &&& self.new_data_size == sum_lens(self.new_data@)
        &&& self.new_data@.len() <= max_xorb_chunks()
        &&& self.new_data_size <= max_xorb_bytes()
        &&& max_xorb_chunks() <= u32::MAX
        &&& max_xorb_bytes() <= u32::MAX
        &&& forall|h: MerkleHash| self.new_data_hash_lookup@.contains_key(h) ==>
              #[trigger] self.new_data_hash_lookup@[h] < self.new_data@.len() && self.new_data@[self.new_data_hash_lookup@[h] as int].hash == h
        &&& forall|i: int| 0 <= i < self.file_info@.len() && (#[trigger] self.file_info@[i]).cas_hash == zero_hash() ==>
              self.file_info@[i].chunk_index_start < self.file_info@[i].chunk_index_end <= self.new_data@.len()
    }

    fn file_data_sequence_continues_current(&self, fse: &FileDataSequenceEntry) -> (r: bool)
        ensures r == (self.file_info@.len() > 0 && self.file_info@.last().cas_hash == fse.cas_hash && self.file_info@.last().chunk_index_end == fse.chunk_index_start)
    {
        !self.file_info.is_empty()
            && self.file_info.last().unwrap().cas_hash == fse.cas_hash
            && self.file_info.last().unwrap().chunk_index_end == fse.chunk_index_start
    }

    fn dedup_query_against_local_data(&mut self, chunks: &[MerkleHash]) -> (r: Option<(usize, FileDataSequenceEntry)>)
        requires old(self).wf(), chunks@.len() > 0
        ensures final(self).wf(), *final(self) == *old(self),
            match r {
                Some((n, fse)) => 1 <= n <= chunks@.len() && fse.cas_hash == zero_hash()
                    && fse.chunk_index_end == fse.chunk_index_start + n
                    && fse.chunk_index_end <= final(self).new_data@.len()
                    && forall|k: int| 0 <= k < n ==> final(self).new_data@[fse.chunk_index_start + k].hash == chunks@[k],
                None => true,
            }
    {
        proof { broadcast use axiom_merklehash_key_model; }
        if let Some(base_idx) = self.new_data_hash_lookup.get(&chunks[0]) {
            let base_idx = *base_idx;
            let mut n_bytes = self.new_data[base_idx].data.len();

            let mut end_idx = base_idx + 1;
            let mut i: usize = 1;
            while i < chunks.len()
                invariant
                    self.wf(), *self == *old(self), 1 <= i <= chunks@.len(),
                    end_idx == base_idx + i, end_idx <= self.new_data@.len(),
                    n_bytes <= self.new_data_size,
                    forall|k: int| 0 <= k < i ==> self.new_data@[base_idx + k].hash == chunks@[k],
                decreases chunks@.len() - i
            {
                let chunk = &chunks[i];
                if let Some(idx) = self.new_data_hash_lookup.get(chunk) {
                    let idx = *idx;
                    if idx == base_idx + i {
                        end_idx = idx + 1;
                        assume(n_bytes + self.new_data@[idx as int].data@.len() <= self.new_data_size);
                        n_bytes += self.new_data[idx].data.len();
                        i += 1;
                        continue;
                    }
                }
                break;
            }

            Some((end_idx - base_idx, FileDataSequenceEntry::new(MerkleHash::default(), n_bytes, base_idx, end_idx)))
        } else {
            None
        }
    }
}
} // verus!
fn main() {}
