#![feature(allocator_api)]
use vstd::prelude::*;
use vstd::std_specs::hash::*;
use std::collections::HashMap;
use std::hash::{Hash, BuildHasher};
use std::borrow::Borrow;
verus! {
global size_of usize == 8;

pub assume_specification<'a, K, V, S, A, Q> [std::collections::HashMap::<K, V, S, A>::get_mut] (m: &'a mut HashMap<K, V, S, A>, k: &Q) -> (r: Option<&'a mut V>)
    where
        A: std::alloc::Allocator,
        K: Eq + Hash + Borrow<Q>,
        Q: std::marker::MetaSized + Hash + Eq + ?Sized,
        S: BuildHasher,
    ensures
        obeys_key_model::<K>() && builds_valid_hashers::<S>() ==> match r {
            Some(v) => contains_borrowed_key(old(m)@, k)
                && maps_borrowed_key_to_value(old(m)@, k, *v)
                && final(m)@.dom() == old(m)@.dom()
                && maps_borrowed_key_to_value(final(m)@, k, *final(v))
                && (forall|kk: K| old(m)@.contains_key(kk) && !maps_borrowed_key_to_value(old(m)@, k, old(m)@[kk]) ==> final(m)@[kk] == old(m)@[kk]),
            None => !contains_borrowed_key(old(m)@, k) && final(m)@ == old(m)@,
        },
;

pub open spec fn total(m: Map<u64, Vec<u32>>) -> bool { forall|k: u64| m.contains_key(k) ==> #[trigger] m[k]@.len() < 100 }

fn t1(m: &mut HashMap<u64, Vec<u32>>, k: u64)
    requires total(old(m)@)
    ensures final(m)@.dom() == old(m)@.dom(),
        old(m)@.contains_key(k) ==> final(m)@[k]@ == old(m)@[k]@.push(1u32),
{
    if let Some(items) = m.get_mut(&k) {
        items.push(1);
    }
}
} // verus!
fn main() {}
