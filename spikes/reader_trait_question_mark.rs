use vstd::prelude::*;
verus! {
global size_of usize == 8;

pub struct E { pub h: u64, pub b: u32 }

pub trait Reader {
    spec fn content(&self) -> Seq<E>;
    spec fn pos(&self) -> nat;
    fn next(&mut self) -> (r: Result<E, u8>)
        ensures
            final(self).content() == old(self).content(),
            match r {
                Ok(e) => old(self).pos() < old(self).content().len() && e == old(self).content()[old(self).pos() as int] && final(self).pos() == old(self).pos() + 1,
                Err(_) => true,
            };
}

pub open spec fn sum_b(s: Seq<E>, a: int, b: int) -> int decreases b - a {
    if a >= b { 0 } else { sum_b(s, a, b - 1) + s[b - 1].b }
}

fn query<R: Reader>(reader: &mut R, q: &[u64], num_entries: u32, off: u32) -> (r: Result<Option<(usize, u32)>, u8>)
    requires q@.len() > 0, old(reader).pos() == off, off < num_entries, num_entries <= old(reader).content().len(),
        sum_b(old(reader).content(), 0, old(reader).content().len() as int) <= u32::MAX,
{
    let first = reader.next()?;
    if first.h != q[0] { return Ok(None); }
    let mut n_bytes = first.b;
    let mut end_idx = 0;
    for i in 1.. {
        if off as usize + i == num_entries as usize {
            end_idx = i;
            break;
        }
        let chunk = reader.next()?;
        if i == q.len() || chunk.h != q[i] {
            end_idx = i;
            break;
        }
        assume(n_bytes + chunk.b <= u32::MAX);
        n_bytes += chunk.b;
    }
    Ok(Some((end_idx, n_bytes)))
}
}
fn main() {}
