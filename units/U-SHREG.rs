//@ unit U-SHREG
//@ props C18 C05 C11
//@ verus-args --rlimit 150
//@ config CHUNK_INDEX_TABLE_MAX_SIZE
//@ gsubst `PathBuf` => `VxPathBuf` :: R11 stub type (std::path::PathBuf; never inspected by the function under proof)
//@ gsubst `AtomicBool` => `VxAtomicBool` :: R11 stub type (std::sync::atomic::AtomicBool; never inspected)
//@ gsubst `SystemTime` => `VxSystemTime` :: R11 stub type (std::time::SystemTime; never inspected)
#![feature(allocator_api)]
#![allow(non_snake_case, unused)]
use vstd::prelude::*;
use std::collections::{BTreeMap, HashMap};
use std::sync::Arc;
verus! {
global size_of usize == 8;

//@ include prelude/ims_merklehash.rs
//@ include prelude/shq_io.rs

// ---- dependencies ---------------------------------------------------------------------------------------------------
pub struct VxPathBuf { pub x: u8 }
pub struct VxAtomicBool { pub x: u8 }
pub struct VxSystemTime { pub x: u8 }
pub struct MDBFileInfo { pub x: u8 }   // file half of the in-memory shard, untouched here

// tokio::sync::RwLock: `read().await` (R1: `.await` erased) yields a guard that derefs to the protected value; the stub
// yields the shared reference itself. No statement about concurrency: the contract below speaks about the values read
// under the two guards (the in-memory guard is dropped before the bookkeeper guard is taken, as in the code).
pub struct RwLock<T> { pub inner: T }
impl<T> RwLock<T> {
    #[verifier::external_body]
    pub fn read(&self) -> (r: &T) ensures *r == self.inner { unimplemented!() }
}

// mdb_shard::utils::truncate_hash: first 64-bit word of the hash
pub uninterp spec fn spec_truncate(h: MerkleHash) -> u64;
#[verifier::external_body]
pub fn truncate_hash(hash: &MerkleHash) -> (r: u64) ensures r == spec_truncate(*hash) { unimplemented!() }

//@ extract mdb_shard/src/cas_structs.rs struct CASChunkSequenceHeader
//@ end
//@ extract mdb_shard/src/cas_structs.rs struct CASChunkSequenceEntry
//@ end
//@ extract mdb_shard/src/cas_structs.rs struct MDBCASInfo
//@ end
//@ extract mdb_shard/src/file_structs.rs struct FileDataSequenceEntry
//@ end
//@ extract mdb_shard/src/shard_format.rs struct MDBShardFileHeader
//@ end
//@ extract mdb_shard/src/shard_format.rs struct MDBShardFileFooter
//@ end
//@ extract mdb_shard/src/shard_format.rs struct MDBShardInfo
//@ end
//@ extract mdb_shard/src/shard_in_memory.rs struct MDBInMemoryShard
//@ end
//@ extract mdb_shard/src/shard_file_handle.rs struct MDBShardFile
//@ end
//@ extract mdb_shard/src/shard_file_manager.rs struct ChunkCacheElement
//@ end
//@ extract mdb_shard/src/shard_file_manager.rs struct KeyedShardCollection
//@ end
//@ extract mdb_shard/src/shard_file_manager.rs struct ShardBookkeeper
//@ end
//@ extract mdb_shard/src/shard_file_manager.rs struct ShardFileManager
//@ end

//@ include prelude/ims_sum.rs
//@ include prelude/shq_truthful.rs
//@ include prelude/shq_vocab.rs
//@ include prelude/ims_vocab.rs

//@ include prelude/sfmq_vocab.rs

// ---- dependencies ---------------------------------------------------------------------------------------------------------
pub uninterp spec fn spec_CHUNK_INDEX_TABLE_MAX_SIZE() -> usize;
#[verifier::external_body] pub fn CHUNK_INDEX_TABLE_MAX_SIZE() -> (r: usize) ensures r == spec_CHUNK_INDEX_TABLE_MAX_SIZE() { unimplemented!() }
// configuration predicate (the shipped value is 64 Mi): keeps `total_indexed_chunks += n` inside usize
spec fn shreg_config_ok() -> bool { spec_CHUNK_INDEX_TABLE_MAX_SIZE() <= isize::MAX }

impl VxPathBuf {
    // `Path::starts_with`, only used by the debug assertion "the shard is in the shard directory"
    uninterp spec fn starts_with(&self, base: &VxPathBuf) -> bool;
}

// the truncated-hash table of a shard file as `read_all_truncated_hashes` returns it: an abstract list of
// (truncated keyed chunk hash, (flat index of the block header, chunk offset in the block))
uninterp spec fn trunc_table(s: MDBShardFile) -> Seq<(u64, (u32, u32))>;
// shard file well-formed as written by `serialize_from`: every position its table names is valid for the direct query
// (U-SHQ `direct_pre`)
spec fn shard_table_ok(s: MDBShardFile) -> bool {
    forall|i: int| 0 <= i < trunc_table(s).len() ==>
        direct_pre(file_bytes(s), s.shard, (#[trigger] trunc_table(s)[i]).1.0, trunc_table(s)[i].1.1)
}
impl MDBShardFile {
    #[verifier::external_body]
    fn verify_shard_integrity_debug_only(&self) { }
    // stub: reads the table from the file; the list is abstract. `len <= isize::MAX` holds for every Vec of a non-ZST.
    #[verifier::external_body]
    fn read_all_truncated_hashes(&self) -> (r: Result<Vec<(u64, (u32, u32))>>)
        ensures r matches Ok(v) ==> v@ == trunc_table(*self) && v@.len() <= isize::MAX,
    { unimplemented!() }
}
impl KeyedShardCollection {
    // `Self { hmac_key, ..Default::default() }` (derived Default: empty list, empty map)
    #[verifier::external_body]
    fn new(hmac_key: HMACKey) -> (r: Self)
        ensures r.hmac_key == hmac_key, r.shard_list@.len() == 0, r.chunk_lookup@ == Map::<u64, ChunkCacheElement>::empty(),
    { unimplemented!() }
}
// outline target of rule R7e: `*m.entry(k).or_insert(v)`; contract = std semantics, assumed
#[verifier::external_body]
fn vx_entry_or_insert(m: &mut HashMap<MerkleHash, usize>, k: MerkleHash, v: usize) -> (r: usize)
    ensures
        old(m)@.contains_key(k) ==> final(m)@ == old(m)@ && r == old(m)@[k],
        !old(m)@.contains_key(k) ==> final(m)@ == old(m)@.insert(k, v) && r == v,
{ *m.entry(k).or_insert(v) }

// outline target of rule R7e (statement form): `m.entry(k).or_insert(v);` — keeps an existing value. Unused on the pinned
// tree (which calls `insert`, specified by vstd: the new value replaces an existing one); present so that a change of the
// table-filling call from `insert` to `entry().or_insert()` is decided, not undecided.
#[verifier::external_body]
fn vx_entry_or_insert_drop(m: &mut HashMap<u64, ChunkCacheElement>, k: u64, v: ChunkCacheElement)
    ensures
        old(m)@.contains_key(k) ==> final(m)@ == old(m)@,
        !old(m)@.contains_key(k) ==> final(m)@ == old(m)@.insert(k, v),
{ m.entry(k).or_insert(v); }

// ---- abstract view of the bookkeeper: the sequence of collections (key, shards, lookup map), the key -> index map, the
// shard-hash -> location map ---------------------------------------------------------------------------------------------
spec fn skey(s: MDBShardFile) -> MerkleHash { s.shard.metadata.chunk_hash_hmac_key }

spec fn bk_wf(bk: ShardBookkeeper) -> bool { bk_wf_parts(bk.shard_collections@, bk.collection_by_key@, bk.shard_lookup_by_shard_hash@) }
spec fn bk_wf_parts(cs: Seq<KeyedShardCollection>, bykey: Map<MerkleHash, usize>, byhash: Map<MerkleHash, (usize, usize)>) -> bool {
    // (a) the registration invariant U-SFMQ requires (same predicate text, prelude/sfmq_vocab.rs)
    &&& colls_wf(cs)
    // (b) the key -> index map points at a collection of that key
    &&& forall|k: MerkleHash| bykey.contains_key(k) ==> (#[trigger] bykey[k]) < cs.len() && cs[bykey[k] as int].hmac_key == k
    // (c) every collection is THE collection of its key: exactly one collection per distinct key, no unreachable duplicates
    &&& forall|i: int| 0 <= i < cs.len() ==> bykey.contains_key((#[trigger] cs[i]).hmac_key) && bykey[cs[i].hmac_key] == i
    // (d) every shard sits in the collection of its own footer key
    &&& forall|i: int, j: int| 0 <= i < cs.len() && 0 <= j < cs[i].shard_list@.len() ==>
            skey(*(#[trigger] cs[i].shard_list@[j])) == cs[i].hmac_key
    // (f) the shard-hash -> location map names a shard with that hash
    &&& forall|h: MerkleHash| byhash.contains_key(h) ==> {
            let loc = #[trigger] byhash[h];
            loc.0 < cs.len() && loc.1 < cs[loc.0 as int].shard_list@.len() && cs[loc.0 as int].shard_list@[loc.1 as int].shard_hash == h
        }
}
// `shard_index as u16` must not truncate: fewer than 65536 shards per collection after the batch
spec fn room_for(bk: ShardBookkeeper, batch: int) -> bool {
    batch <= 65536 && forall|i: int| 0 <= i < bk.shard_collections@.len() ==> (#[trigger] bk.shard_collections@[i]).shard_list@.len() + batch <= 65536
}
// the old collection list is preserved: keys kept, shard lists only grow at the end; a collection whose key no shard of the
// batch carries is untouched
spec fn colls_extend(old_cs: Seq<KeyedShardCollection>, new_cs: Seq<KeyedShardCollection>, batch: Seq<Arc<MDBShardFile>>, upto: int) -> bool {
    &&& old_cs.len() <= new_cs.len()
    &&& forall|i: int| 0 <= i < old_cs.len() ==> (#[trigger] new_cs[i]).hmac_key == old_cs[i].hmac_key
            && old_cs[i].shard_list@.len() <= new_cs[i].shard_list@.len()
            && (forall|j: int| 0 <= j < old_cs[i].shard_list@.len() ==> new_cs[i].shard_list@[j] == old_cs[i].shard_list@[j])
    &&& forall|i: int| 0 <= i < old_cs.len() && (forall|k: int| 0 <= k < upto ==> skey(*batch[k]) != old_cs[i].hmac_key) ==>
            (#[trigger] new_cs[i]).shard_list@ == old_cs[i].shard_list@ && new_cs[i].chunk_lookup@ == old_cs[i].chunk_lookup@
}
// every location recorded during this call (hash not known before) holds a shard of the batch with that hash — the first one
// processed — in the collection whose key is that shard's key, which is the collection the key -> index map names
spec fn new_entries_ok(old_byhash: Map<MerkleHash, (usize, usize)>, cs: Seq<KeyedShardCollection>, bykey: Map<MerkleHash, usize>,
                       byhash: Map<MerkleHash, (usize, usize)>, batch: Seq<Arc<MDBShardFile>>, upto: int) -> bool {
    forall|h: MerkleHash| #[trigger] byhash.contains_key(h) && !old_byhash.contains_key(h) ==> entry_from_batch(cs, bykey, byhash[h], h, batch, upto)
}
spec fn entry_from_batch(cs: Seq<KeyedShardCollection>, bykey: Map<MerkleHash, usize>, loc: (usize, usize), h: MerkleHash, batch: Seq<Arc<MDBShardFile>>, upto: int) -> bool {
    exists|kk: int| 0 <= kk < upto && (#[trigger] batch[kk]).shard_hash == h
        && loc.0 < cs.len() && loc.1 < cs[loc.0 as int].shard_list@.len()
        && cs[loc.0 as int].shard_list@[loc.1 as int] == batch[kk]
        && cs[loc.0 as int].hmac_key == skey(*batch[kk])
        && bykey.contains_key(skey(*batch[kk])) && bykey[skey(*batch[kk])] == loc.0
}
// one step of the bookkeeper: collections cs0 -> cs2, maps grow
spec fn step_rel(cs0: Seq<KeyedShardCollection>, cs2: Seq<KeyedShardCollection>, bykey0: Map<MerkleHash, usize>, bykey2: Map<MerkleHash, usize>,
                 byhash0: Map<MerkleHash, (usize, usize)>, byhash2: Map<MerkleHash, (usize, usize)>) -> bool {
    &&& cs0.len() <= cs2.len()
    &&& forall|i: int| 0 <= i < cs0.len() ==> (#[trigger] cs2[i]).hmac_key == cs0[i].hmac_key
            && cs0[i].shard_list@.len() <= cs2[i].shard_list@.len()
            && (forall|j: int| 0 <= j < cs0[i].shard_list@.len() ==> cs2[i].shard_list@[j] == cs0[i].shard_list@[j])
    &&& forall|k: MerkleHash| #[trigger] bykey0.contains_key(k) ==> bykey2.contains_key(k) && bykey2[k] == bykey0[k]
    &&& forall|h: MerkleHash| #[trigger] byhash0.contains_key(h) ==> byhash2.contains_key(h) && byhash2[h] == byhash0[h]
}
proof fn lemma_entries_step(old_byhash: Map<MerkleHash, (usize, usize)>, cs0: Seq<KeyedShardCollection>, cs2: Seq<KeyedShardCollection>,
        bykey0: Map<MerkleHash, usize>, bykey2: Map<MerkleHash, usize>, byhash0: Map<MerkleHash, (usize, usize)>, byhash2: Map<MerkleHash, (usize, usize)>,
        batch: Seq<Arc<MDBShardFile>>, k: int)
    requires new_entries_ok(old_byhash, cs0, bykey0, byhash0, batch, k), step_rel(cs0, cs2, bykey0, bykey2, byhash0, byhash2), 0 <= k < batch.len(),
        forall|h: MerkleHash| byhash2.contains_key(h) && !byhash0.contains_key(h) ==> entry_from_batch(cs2, bykey2, #[trigger] byhash2[h], h, batch, k + 1),
    ensures new_entries_ok(old_byhash, cs2, bykey2, byhash2, batch, k + 1),
{
    assert forall|h: MerkleHash| #[trigger] byhash2.contains_key(h) && !old_byhash.contains_key(h) implies entry_from_batch(cs2, bykey2, byhash2[h], h, batch, k + 1) by {
        if byhash0.contains_key(h) {
            let loc = byhash0[h];
            assert(entry_from_batch(cs0, bykey0, loc, h, batch, k));
            let kk = choose|kk: int| 0 <= kk < k && (#[trigger] batch[kk]).shard_hash == h
                && loc.0 < cs0.len() && loc.1 < cs0[loc.0 as int].shard_list@.len()
                && cs0[loc.0 as int].shard_list@[loc.1 as int] == batch[kk]
                && cs0[loc.0 as int].hmac_key == skey(*batch[kk])
                && bykey0.contains_key(skey(*batch[kk])) && bykey0[skey(*batch[kk])] == loc.0;
            assert(byhash2[h] == loc);
            assert(cs2[loc.0 as int].hmac_key == cs0[loc.0 as int].hmac_key);
            assert(bykey2[skey(*batch[kk])] == bykey0[skey(*batch[kk])]);
            assert(batch[kk].shard_hash == h);
        }
    }
}
proof fn lemma_step_trans(cs0: Seq<KeyedShardCollection>, cs1: Seq<KeyedShardCollection>, cs2: Seq<KeyedShardCollection>,
        bk0: Map<MerkleHash, usize>, bk1: Map<MerkleHash, usize>, bk2: Map<MerkleHash, usize>,
        bh0: Map<MerkleHash, (usize, usize)>, bh1: Map<MerkleHash, (usize, usize)>, bh2: Map<MerkleHash, (usize, usize)>)
    requires step_rel(cs0, cs1, bk0, bk1, bh0, bh1), step_rel(cs1, cs2, bk1, bk2, bh1, bh2),
    ensures step_rel(cs0, cs2, bk0, bk2, bh0, bh2),
{
    assert forall|i: int| 0 <= i < cs0.len() implies (#[trigger] cs2[i]).hmac_key == cs0[i].hmac_key
        && cs0[i].shard_list@.len() <= cs2[i].shard_list@.len()
        && (forall|j: int| 0 <= j < cs0[i].shard_list@.len() ==> cs2[i].shard_list@[j] == cs0[i].shard_list@[j]) by {
        assert(cs1[i].hmac_key == cs0[i].hmac_key);
        assert forall|j: int| 0 <= j < cs0[i].shard_list@.len() implies cs2[i].shard_list@[j] == cs0[i].shard_list@[j] by { assert(cs1[i].shard_list@[j] == cs0[i].shard_list@[j]); }
    }
    assert forall|k: MerkleHash| #[trigger] bk0.contains_key(k) implies bk2.contains_key(k) && bk2[k] == bk0[k] by { assert(bk1.contains_key(k)); }
    assert forall|h: MerkleHash| #[trigger] bh0.contains_key(h) implies bh2.contains_key(h) && bh2[h] == bh0[h] by { assert(bh1.contains_key(h)); }
}
// key step: `entry(K).or_insert(n)` + conditional push of an empty collection for K
proof fn lemma_key_step(cs0: Seq<KeyedShardCollection>, bykey0: Map<MerkleHash, usize>, byhash: Map<MerkleHash, (usize, usize)>,
        key: MerkleHash, cs1: Seq<KeyedShardCollection>, bykey1: Map<MerkleHash, usize>, idx: usize)
    requires bk_wf_parts(cs0, bykey0, byhash),
        /*@C18,C11,C05*/ bykey0.contains_key(key) ==> bykey1 == bykey0 && idx == bykey0[key] && cs1 == cs0,
        /*@C18,C11,C05*/ !bykey0.contains_key(key) ==> bykey1 == bykey0.insert(key, idx) && idx == cs0.len() && cs1.len() == cs0.len() + 1
            && (forall|i: int| 0 <= i < cs0.len() ==> cs1[i] == cs0[i])
            && cs1[cs0.len() as int].hmac_key == key && cs1[cs0.len() as int].shard_list@.len() == 0
            && cs1[cs0.len() as int].chunk_lookup@ == Map::<u64, ChunkCacheElement>::empty(),
    ensures bk_wf_parts(cs1, bykey1, byhash), idx < cs1.len(), cs1[idx as int].hmac_key == key, bykey1.contains_key(key), bykey1[key] == idx,
        step_rel(cs0, cs1, bykey0, bykey1, byhash, byhash),
{
    if !bykey0.contains_key(key) {
        let n = cs0.len() as int;
        assert(coll_wf(cs1[n]));
        assert forall|i: int| 0 <= i < cs1.len() implies coll_wf(#[trigger] cs1[i]) by { if i < n { assert(cs1[i] == cs0[i]); } }
        assert forall|k: MerkleHash| bykey1.contains_key(k) implies (#[trigger] bykey1[k]) < cs1.len() && cs1[bykey1[k] as int].hmac_key == k by {
            if k != key { assert(bykey1[k] == bykey0[k]); assert(cs1[bykey0[k] as int] == cs0[bykey0[k] as int]); }
        }
        assert forall|i: int| 0 <= i < cs1.len() implies bykey1.contains_key((#[trigger] cs1[i]).hmac_key) && bykey1[cs1[i].hmac_key] == i by {
            if i < n { assert(cs1[i] == cs0[i]); assert(bykey0.contains_key(cs0[i].hmac_key)); }
        }
        assert forall|i: int, j: int| 0 <= i < cs1.len() && 0 <= j < cs1[i].shard_list@.len() implies
            skey(*(#[trigger] cs1[i].shard_list@[j])) == cs1[i].hmac_key by { if i < n { assert(cs1[i] == cs0[i]); } }
        assert forall|h: MerkleHash| byhash.contains_key(h) implies ({
            let loc = #[trigger] byhash[h];
            loc.0 < cs1.len() && loc.1 < cs1[loc.0 as int].shard_list@.len() && cs1[loc.0 as int].shard_list@[loc.1 as int].shard_hash == h
        }) by { let loc = byhash[h]; assert(cs1[loc.0 as int] == cs0[loc.0 as int]); }
        assert forall|i: int| 0 <= i < cs0.len() implies (#[trigger] cs1[i]).hmac_key == cs0[i].hmac_key
            && cs0[i].shard_list@.len() <= cs1[i].shard_list@.len()
            && (forall|j: int| 0 <= j < cs0[i].shard_list@.len() ==> cs1[i].shard_list@[j] == cs0[i].shard_list@[j]) by { assert(cs1[i] == cs0[i]); }
    }
}
// shard step: collection idx replaced by cf = (same key, shards + s, a coll_wf table); optionally the location of s recorded
proof fn lemma_shard_step(cs1: Seq<KeyedShardCollection>, bykey: Map<MerkleHash, usize>, byhash1: Map<MerkleHash, (usize, usize)>,
        idx: usize, cf: KeyedShardCollection, s: Arc<MDBShardFile>, cs2: Seq<KeyedShardCollection>, byhash2: Map<MerkleHash, (usize, usize)>, sidx: usize)
    requires bk_wf_parts(cs1, bykey, byhash1), idx < cs1.len(), sidx == cs1[idx as int].shard_list@.len(),
        cf.hmac_key == cs1[idx as int].hmac_key, cf.shard_list@ == cs1[idx as int].shard_list@.push(s), skey(*s) == cf.hmac_key, coll_wf(cf),
        cs2.len() == cs1.len(), cs2[idx as int] == cf, forall|i: int| 0 <= i < cs1.len() && i != idx ==> cs2[i] == cs1[i],
        byhash2 == byhash1 || (!byhash1.contains_key(s.shard_hash) && byhash2 == byhash1.insert(s.shard_hash, (idx, sidx))),
    ensures bk_wf_parts(cs2, bykey, byhash2), step_rel(cs1, cs2, bykey, bykey, byhash1, byhash2),
{
    let n0 = cs1[idx as int].shard_list@.len() as int;
    assert forall|i: int| 0 <= i < cs2.len() implies coll_wf(#[trigger] cs2[i]) by { if i != idx { assert(cs2[i] == cs1[i]); } }
    assert forall|k: MerkleHash| bykey.contains_key(k) implies (#[trigger] bykey[k]) < cs2.len() && cs2[bykey[k] as int].hmac_key == k by {
        if bykey[k] != idx { assert(cs2[bykey[k] as int] == cs1[bykey[k] as int]); }
    }
    assert forall|i: int| 0 <= i < cs2.len() implies bykey.contains_key((#[trigger] cs2[i]).hmac_key) && bykey[cs2[i].hmac_key] == i by {
        if i != idx { assert(cs2[i] == cs1[i]); } assert(bykey.contains_key(cs1[i].hmac_key));
    }
    assert forall|i: int, j: int| 0 <= i < cs2.len() && 0 <= j < cs2[i].shard_list@.len() implies
        skey(*(#[trigger] cs2[i].shard_list@[j])) == cs2[i].hmac_key by {
        if i != idx { assert(cs2[i] == cs1[i]); } else if j < n0 { assert(cf.shard_list@[j] == cs1[i].shard_list@[j]); }
    }
    assert forall|h: MerkleHash| byhash2.contains_key(h) implies ({
        let loc = #[trigger] byhash2[h];
        loc.0 < cs2.len() && loc.1 < cs2[loc.0 as int].shard_list@.len() && cs2[loc.0 as int].shard_list@[loc.1 as int].shard_hash == h
    }) by {
        if byhash1.contains_key(h) && byhash2[h] == byhash1[h] {
            let loc = byhash1[h];
            if loc.0 != idx { assert(cs2[loc.0 as int] == cs1[loc.0 as int]); } else { assert(cf.shard_list@[loc.1 as int] == cs1[idx as int].shard_list@[loc.1 as int]); }
        } else {
            assert(byhash2 != byhash1);
            assert(h == s.shard_hash);
            assert(byhash2[h] == (idx, sidx));
            assert(cs2[idx as int] == cf);
            assert(cf.shard_list@[n0] == s);
        }
    }
    assert forall|i: int| 0 <= i < cs1.len() implies (#[trigger] cs2[i]).hmac_key == cs1[i].hmac_key
        && cs1[i].shard_list@.len() <= cs2[i].shard_list@.len()
        && (forall|j: int| 0 <= j < cs1[i].shard_list@.len() ==> cs2[i].shard_list@[j] == cs1[i].shard_list@[j]) by {
        if i != idx { assert(cs2[i] == cs1[i]); }
    }
}
// colls_extend composes with a step in which only the collection of key `key` may have changed
proof fn lemma_extend_step(old_cs: Seq<KeyedShardCollection>, cs0: Seq<KeyedShardCollection>, cs2: Seq<KeyedShardCollection>, batch: Seq<Arc<MDBShardFile>>, k: int,
        bykey0: Map<MerkleHash, usize>, bykey2: Map<MerkleHash, usize>, byhash0: Map<MerkleHash, (usize, usize)>, byhash2: Map<MerkleHash, (usize, usize)>)
    requires colls_extend(old_cs, cs0, batch, k), 0 <= k < batch.len(), step_rel(cs0, cs2, bykey0, bykey2, byhash0, byhash2),
        forall|i: int| 0 <= i < cs0.len() && cs0[i].hmac_key != skey(*batch[k]) ==> (#[trigger] cs2[i]).shard_list@ == cs0[i].shard_list@ && cs2[i].chunk_lookup@ == cs0[i].chunk_lookup@,
    ensures colls_extend(old_cs, cs2, batch, k + 1),
{
    assert forall|i: int| 0 <= i < old_cs.len() implies (#[trigger] cs2[i]).hmac_key == old_cs[i].hmac_key
        && old_cs[i].shard_list@.len() <= cs2[i].shard_list@.len()
        && (forall|j: int| 0 <= j < old_cs[i].shard_list@.len() ==> cs2[i].shard_list@[j] == old_cs[i].shard_list@[j]) by {
        assert(cs0[i].hmac_key == old_cs[i].hmac_key);
        assert forall|j: int| 0 <= j < old_cs[i].shard_list@.len() implies cs2[i].shard_list@[j] == old_cs[i].shard_list@[j] by {
            assert(cs0[i].shard_list@[j] == old_cs[i].shard_list@[j]);
        }
    }
    assert forall|i: int| 0 <= i < old_cs.len() && (forall|kk: int| 0 <= kk < k + 1 ==> skey(*batch[kk]) != old_cs[i].hmac_key) implies
        (#[trigger] cs2[i]).shard_list@ == old_cs[i].shard_list@ && cs2[i].chunk_lookup@ == old_cs[i].chunk_lookup@ by {
        assert(cs0[i].hmac_key == old_cs[i].hmac_key);
        assert(skey(*batch[k]) != old_cs[i].hmac_key);
        assert(forall|kk: int| 0 <= kk < k ==> skey(*batch[kk]) != old_cs[i].hmac_key);
        assert(cs0[i].shard_list@ == old_cs[i].shard_list@);
    }
}

// preservation of coll_wf by one table insertion / by the push of the shard (pure map/seq reasoning)
proof fn lemma_coll_push(c0: KeyedShardCollection, c1: KeyedShardCollection, s: Arc<MDBShardFile>)
    requires coll_wf(c0), c1.hmac_key == c0.hmac_key, c1.chunk_lookup@ == c0.chunk_lookup@, c1.shard_list@ == c0.shard_list@.push(s),
    ensures coll_wf(c1),
{
    assert forall|k: u64| c1.chunk_lookup@.contains_key(k) implies ({
        let e = #[trigger] c1.chunk_lookup@[k];
        &&& (e.shard_index as int) < c1.shard_list@.len()
        &&& c1.shard_list@[e.shard_index as int].shard.metadata.chunk_hash_hmac_key == c1.hmac_key
        &&& direct_pre(file_bytes(*c1.shard_list@[e.shard_index as int]), c1.shard_list@[e.shard_index as int].shard, e.cas_start_index, e.cas_chunk_offset as u32)
    }) by {
        let e = c0.chunk_lookup@[k];
        assert(c1.shard_list@[e.shard_index as int] == c0.shard_list@[e.shard_index as int]);
    }
}
// stated over the table the insertion WOULD produce, so that the hint can sit before the table-filling call
proof fn lemma_coll_insert(key: MerkleHash, shards: Seq<Arc<MDBShardFile>>, lookup: Map<u64, ChunkCacheElement>, h: u64, e: ChunkCacheElement)
    requires coll_wf_parts(key, shards, lookup),
        (e.shard_index as int) < shards.len(),
        skey(*shards[e.shard_index as int]) == key,
        direct_pre(file_bytes(*shards[e.shard_index as int]), shards[e.shard_index as int].shard, e.cas_start_index, e.cas_chunk_offset as u32),
    ensures coll_wf_parts(key, shards, lookup.insert(h, e)),
{
    let l1 = lookup.insert(h, e);
    assert forall|k: u64| l1.contains_key(k) implies ({
        let e1 = #[trigger] l1[k];
        &&& (e1.shard_index as int) < shards.len()
        &&& shards[e1.shard_index as int].shard.metadata.chunk_hash_hmac_key == key
        &&& direct_pre(file_bytes(*shards[e1.shard_index as int]), shards[e1.shard_index as int].shard, e1.cas_start_index, e1.cas_chunk_offset as u32)
    }) by {
        if k != h { let e0 = lookup[k]; }
    }
}

// ---- C11: a just-registered shard answers for its own chunks ---------------------------------------------------------------
// number of shards collection i held when the call started (0 for a collection created by the call)
spec fn oldlen(old_cs: Seq<KeyedShardCollection>, i: int) -> int { if 0 <= i < old_cs.len() { old_cs[i].shard_list@.len() as int } else { 0 } }
spec fn oldlookup(old_cs: Seq<KeyedShardCollection>, i: int) -> Map<u64, ChunkCacheElement> { if 0 <= i < old_cs.len() { old_cs[i].chunk_lookup@ } else { Map::empty() } }
// the table entry for truncated hash h designates a shard pushed at/after position l, i.e. a shard of THIS call
spec fn fresh(c: KeyedShardCollection, l: int, h: u64) -> bool { c.chunk_lookup@.contains_key(h) && c.chunk_lookup@[h].shard_index as int >= l }
// every dedup-eligible row of shard s's truncated-hash table (chunk offset representable in the entry's u16) is answered by a shard of this call
spec fn shard_fresh(c: KeyedShardCollection, l: int, s: MDBShardFile) -> bool {
    forall|j: int| 0 <= j < trunc_table(s).len() && (#[trigger] trunc_table(s)[j]).1.1 <= 65535 ==> fresh(c, l, trunc_table(s)[j].0)
}
spec fn coll_fresh(l: int, c: KeyedShardCollection) -> bool {
    forall|j: int| l <= j < c.shard_list@.len() ==> shard_fresh(c, l, *#[trigger] c.shard_list@[j])
}
spec fn all_fresh(old_cs: Seq<KeyedShardCollection>, cs: Seq<KeyedShardCollection>) -> bool {
    forall|i: int| 0 <= i < cs.len() ==> coll_fresh(oldlen(old_cs, i), #[trigger] cs[i])
}
// frame: a truncated hash that occurs in the table of no shard pushed by this call keeps its entry (or its absence)
spec fn table_has(s: MDBShardFile, h: u64) -> bool { exists|j: int| 0 <= j < trunc_table(s).len() && (#[trigger] trunc_table(s)[j]).0 == h }
spec fn same_at(a: Map<u64, ChunkCacheElement>, b: Map<u64, ChunkCacheElement>, h: u64) -> bool {
    (a.contains_key(h) <==> b.contains_key(h)) && (a.contains_key(h) ==> a[h] == b[h])
}
spec fn coll_frame(old_lookup: Map<u64, ChunkCacheElement>, l: int, c: KeyedShardCollection) -> bool {
    forall|h: u64| (forall|j: int| l <= j < c.shard_list@.len() ==> !table_has(*#[trigger] c.shard_list@[j], h)) ==> #[trigger] same_at(c.chunk_lookup@, old_lookup, h)
}
spec fn all_frame(old_cs: Seq<KeyedShardCollection>, cs: Seq<KeyedShardCollection>) -> bool {
    forall|i: int| 0 <= i < cs.len() ==> coll_frame(oldlookup(old_cs, i), oldlen(old_cs, i), #[trigger] cs[i])
}
// one shard's worth of table filling, at collection level
proof fn lemma_coll_c11(old_lookup: Map<u64, ChunkCacheElement>, l: int, c0: KeyedShardCollection, cf: KeyedShardCollection, s: Arc<MDBShardFile>, indexed: bool)
    requires
        coll_frame(old_lookup, l, c0), 0 <= l <= c0.shard_list@.len(), cf.shard_list@ == c0.shard_list@.push(s),
        forall|h: u64| !table_has(*s, h) ==> #[trigger] same_at(cf.chunk_lookup@, c0.chunk_lookup@, h),
        indexed ==> shard_fresh(cf, l, *s) && coll_fresh(l, c0) && (forall|h: u64| #[trigger] fresh(c0, l, h) ==> fresh(cf, l, h)),
    ensures coll_frame(old_lookup, l, cf), indexed ==> coll_fresh(l, cf),
{
    let n0 = c0.shard_list@.len() as int;
    assert forall|h: u64| (forall|j: int| l <= j < cf.shard_list@.len() ==> !table_has(*#[trigger] cf.shard_list@[j], h)) implies #[trigger] same_at(cf.chunk_lookup@, old_lookup, h) by {
        assert(cf.shard_list@[n0] == s);
        assert(!table_has(*s, h));
        assert forall|j: int| l <= j < c0.shard_list@.len() implies !table_has(*#[trigger] c0.shard_list@[j], h) by { assert(cf.shard_list@[j] == c0.shard_list@[j]); }
        assert(same_at(c0.chunk_lookup@, old_lookup, h));
        assert(same_at(cf.chunk_lookup@, c0.chunk_lookup@, h));
    }
    if indexed {
        assert forall|j: int| l <= j < cf.shard_list@.len() implies shard_fresh(cf, l, *#[trigger] cf.shard_list@[j]) by {
            if j < n0 {
                assert(cf.shard_list@[j] == c0.shard_list@[j]);
                let t = *c0.shard_list@[j];
                assert(shard_fresh(c0, l, t));
                assert forall|jj: int| 0 <= jj < trunc_table(t).len() && (#[trigger] trunc_table(t)[jj]).1.1 <= 65535 implies fresh(cf, l, trunc_table(t)[jj].0) by {
                    assert(fresh(c0, l, trunc_table(t)[jj].0));
                }
            } else { assert(cf.shard_list@[j] == s); }
        }
    }
}
// collections other than the updated one are carried over
proof fn lemma_all_c11(old_cs: Seq<KeyedShardCollection>, cs0: Seq<KeyedShardCollection>, cs2: Seq<KeyedShardCollection>, idx: int, fresh_known: bool)
    requires all_frame(old_cs, cs0), fresh_known ==> all_fresh(old_cs, cs0),
        old_cs.len() <= cs0.len() <= cs2.len(), 0 <= idx < cs2.len(),
        coll_frame(oldlookup(old_cs, idx), oldlen(old_cs, idx), cs2[idx]), fresh_known ==> coll_fresh(oldlen(old_cs, idx), cs2[idx]),
        forall|i: int| 0 <= i < cs0.len() && i != idx ==> (#[trigger] cs2[i]).shard_list@ == cs0[i].shard_list@ && cs2[i].chunk_lookup@ == cs0[i].chunk_lookup@,
        forall|i: int| cs0.len() <= i < cs2.len() && i != idx ==> (#[trigger] cs2[i]).shard_list@.len() == 0 && cs2[i].chunk_lookup@ == Map::<u64, ChunkCacheElement>::empty(),
    ensures all_frame(old_cs, cs2), fresh_known ==> all_fresh(old_cs, cs2),
{
    assert forall|i: int| 0 <= i < cs2.len() implies coll_frame(oldlookup(old_cs, i), oldlen(old_cs, i), #[trigger] cs2[i]) by {
        if i != idx {
            if i < cs0.len() {
                assert(coll_frame(oldlookup(old_cs, i), oldlen(old_cs, i), cs0[i]));
                assert forall|h: u64| (forall|j: int| oldlen(old_cs, i) <= j < cs2[i].shard_list@.len() ==> !table_has(*#[trigger] cs2[i].shard_list@[j], h))
                    implies #[trigger] same_at(cs2[i].chunk_lookup@, oldlookup(old_cs, i), h) by {
                    assert forall|j: int| oldlen(old_cs, i) <= j < cs0[i].shard_list@.len() implies !table_has(*#[trigger] cs0[i].shard_list@[j], h) by {
                        assert(cs2[i].shard_list@[j] == cs0[i].shard_list@[j]);
                    }
                    assert(same_at(cs0[i].chunk_lookup@, oldlookup(old_cs, i), h));
                }
            } else {
                assert forall|h: u64| true implies #[trigger] same_at(cs2[i].chunk_lookup@, oldlookup(old_cs, i), h) by {}
            }
        }
    }
    if fresh_known {
        assert forall|i: int| 0 <= i < cs2.len() implies coll_fresh(oldlen(old_cs, i), #[trigger] cs2[i]) by {
            if i != idx && i < cs0.len() {
                assert(coll_fresh(oldlen(old_cs, i), cs0[i]));
                assert forall|j: int| oldlen(old_cs, i) <= j < cs2[i].shard_list@.len() implies shard_fresh(cs2[i], oldlen(old_cs, i), *#[trigger] cs2[i].shard_list@[j]) by {
                    let t = *cs0[i].shard_list@[j];
                    assert(shard_fresh(cs0[i], oldlen(old_cs, i), t));
                    assert forall|jj: int| 0 <= jj < trunc_table(t).len() && (#[trigger] trunc_table(t)[jj]).1.1 <= 65535 implies fresh(cs2[i], oldlen(old_cs, i), trunc_table(t)[jj].0) by {
                        assert(fresh(cs0[i], oldlen(old_cs, i), trunc_table(t)[jj].0));
                    }
                }
            }
        }
    }
}

// the key step appends at most one empty collection
proof fn lemma_all_c11_key(old_cs: Seq<KeyedShardCollection>, cs0: Seq<KeyedShardCollection>, cs1: Seq<KeyedShardCollection>, fresh_known: bool)
    requires all_frame(old_cs, cs0), fresh_known ==> all_fresh(old_cs, cs0), old_cs.len() <= cs0.len(),
        cs1 == cs0 || (cs1.len() == cs0.len() + 1 && (forall|i: int| 0 <= i < cs0.len() ==> cs1[i] == cs0[i])
            && cs1[cs0.len() as int].shard_list@.len() == 0 && cs1[cs0.len() as int].chunk_lookup@ == Map::<u64, ChunkCacheElement>::empty()),
    ensures all_frame(old_cs, cs1), fresh_known ==> all_fresh(old_cs, cs1),
{
    if cs1 != cs0 {
        let n = cs0.len() as int;
        assert forall|i: int| 0 <= i < cs1.len() implies coll_frame(oldlookup(old_cs, i), oldlen(old_cs, i), #[trigger] cs1[i]) by {
            if i < n { assert(cs1[i] == cs0[i]); } else { assert forall|h: u64| true implies #[trigger] same_at(cs1[i].chunk_lookup@, oldlookup(old_cs, i), h) by {} }
        }
        if fresh_known {
            assert forall|i: int| 0 <= i < cs1.len() implies coll_fresh(oldlen(old_cs, i), #[trigger] cs1[i]) by { if i < n { assert(cs1[i] == cs0[i]); } }
        }
    }
}

impl ShardFileManager {
//@ extract mdb_shard/src/shard_file_manager.rs in `impl ShardFileManager` region register_shards
//@ from `let num_shards = new_shards.len();`
//@ to `Ok(())`
//@ sig `fn register_shards_locked(&self, sbkp_lg: &mut ShardBookkeeper, new_shards: Vec<Arc<MDBShardFile>>) -> (r: Result<()>)`
//@ rules R4g shq.R4j shq.R7e
//@ contract
        requires
            shreg_config_ok(),
            bk_wf(*old(sbkp_lg)),
            room_for(*old(sbkp_lg), new_shards@.len() as int),
            old(sbkp_lg).shard_collections@.len() + new_shards@.len() <= usize::MAX,
            forall|k: int| 0 <= k < new_shards@.len() ==> shard_table_ok(*#[trigger] new_shards@[k]),
            // the debug assertion of the loop: every shard of the batch lies in the shard directory
            forall|k: int| 0 <= k < new_shards@.len() ==> (#[trigger] new_shards@[k]).path.starts_with(&self.shard_directory),
        ensures
            // (2),(3): the invariant — including the registration invariant U-SFMQ requires — is preserved, on success AND on error
            /*@C18,C05*/ bk_wf(*final(sbkp_lg)),
            // (4) old collections keep key and shards (append only); collections of keys absent from the batch are untouched
            /*@C18*/ colls_extend(old(sbkp_lg).shard_collections@, final(sbkp_lg).shard_collections@, new_shards@, new_shards@.len() as int),
            // (1) after Ok every shard of the batch is known by hash; and every location recorded by this call holds a shard of the
            // batch with that hash, in the collection of that shard's own key, which is the one the key -> index map names
            /*@C18*/ r is Ok ==> forall|k: int| 0 <= k < new_shards@.len() ==> final(sbkp_lg).shard_lookup_by_shard_hash@.contains_key((#[trigger] new_shards@[k]).shard_hash),
            /*@C18*/ new_entries_ok(old(sbkp_lg).shard_lookup_by_shard_hash@, final(sbkp_lg).shard_collections@, final(sbkp_lg).collection_by_key@,
                                    final(sbkp_lg).shard_lookup_by_shard_hash@, new_shards@, new_shards@.len() as int),
            // (5) a just-registered shard answers for its own chunks: while the index cap is not reached, for every shard pushed by
            // this call and every dedup-eligible truncated hash of its table, the collection's entry for that hash designates a
            // shard pushed by THIS call (index at/after the collection's length at entry) — newest registration wins across calls
            /*@C11*/ r is Ok && final(sbkp_lg).total_indexed_chunks < spec_CHUNK_INDEX_TABLE_MAX_SIZE() ==>
                all_fresh(old(sbkp_lg).shard_collections@, final(sbkp_lg).shard_collections@),
            // (6) frame: the entry (or absence) for a truncated hash that occurs in no table of a shard pushed by this call is unchanged
            /*@C11*/ all_frame(old(sbkp_lg).shard_collections@, final(sbkp_lg).shard_collections@),
//@ loop 1
            invariant
                shreg_config_ok(),
                bk_wf(*sbkp_lg),
                vx_n1 <= new_shards@.len(),
                room_for(*sbkp_lg, new_shards@.len() - vx_n1),
                sbkp_lg.shard_collections@.len() <= old(sbkp_lg).shard_collections@.len() + vx_n1,
                old(sbkp_lg).shard_collections@.len() + new_shards@.len() <= usize::MAX,
                forall|k: int| 0 <= k < new_shards@.len() ==> shard_table_ok(*#[trigger] new_shards@[k]),
                forall|k: int| 0 <= k < new_shards@.len() ==> (#[trigger] new_shards@[k]).path.starts_with(&self.shard_directory),
                colls_extend(old(sbkp_lg).shard_collections@, sbkp_lg.shard_collections@, new_shards@, vx_n1 as int),
                forall|h: MerkleHash| old(sbkp_lg).shard_lookup_by_shard_hash@.contains_key(h) ==> #[trigger] sbkp_lg.shard_lookup_by_shard_hash@.contains_key(h),
                forall|k: int| 0 <= k < vx_n1 ==> sbkp_lg.shard_lookup_by_shard_hash@.contains_key((#[trigger] new_shards@[k]).shard_hash),
                new_entries_ok(old(sbkp_lg).shard_lookup_by_shard_hash@, sbkp_lg.shard_collections@, sbkp_lg.collection_by_key@,
                               sbkp_lg.shard_lookup_by_shard_hash@, new_shards@, vx_n1 as int),
                all_frame(old(sbkp_lg).shard_collections@, sbkp_lg.shard_collections@),
                sbkp_lg.total_indexed_chunks < spec_CHUNK_INDEX_TABLE_MAX_SIZE() ==> all_fresh(old(sbkp_lg).shard_collections@, sbkp_lg.shard_collections@),
            decreases new_shards@.len() - vx_n1,
//@ before `s.verify_shard_integrity_debug_only();`
            let ghost bk0 = *sbkp_lg; let ghost k0 = (vx_n1 - 1) as int;
            let ghost ocs = old(sbkp_lg).shard_collections@; let ghost obh = old(sbkp_lg).shard_lookup_by_shard_hash@;
            proof {
                // the `continue` case: nothing changes, the processed prefix grows by one
                lemma_extend_step(ocs, bk0.shard_collections@, bk0.shard_collections@, new_shards@, k0, bk0.collection_by_key@, bk0.collection_by_key@, bk0.shard_lookup_by_shard_hash@, bk0.shard_lookup_by_shard_hash@);
                lemma_entries_step(obh, bk0.shard_collections@, bk0.shard_collections@, bk0.collection_by_key@, bk0.collection_by_key@, bk0.shard_lookup_by_shard_hash@, bk0.shard_lookup_by_shard_hash@, new_shards@, k0);
            }
//@ before `let shard_index;`
            let ghost bk1 = *sbkp_lg;
            proof {
                lemma_key_step(bk0.shard_collections@, bk0.collection_by_key@, bk0.shard_lookup_by_shard_hash@, shard_hmac_key, bk1.shard_collections@, bk1.collection_by_key@, shard_col_index);
            }
            let ghost c0 = sbkp_lg.shard_collections@[shard_col_index as int];
            let ghost mut cf = c0;
            let ghost ll = oldlen(ocs, shard_col_index as int);
            proof {
                // C11 bookkeeping carried across the key step (the only possible change so far: an empty collection appended)
                lemma_all_c11_key(ocs, bk0.shard_collections@, bk1.shard_collections@, update_chunk_lookup);
                assert(0 <= ll <= c0.shard_list@.len());
            }
//@ before `let old_chunk_lookup_size`
                proof {
                    lemma_coll_push(c0, *shard_col, *s);
                    cf = *shard_col;
                    // the state an error exit of `read_all_truncated_hashes()?` leaves behind: shard pushed, no table entry, no location
                    let cs2 = bk1.shard_collections@.update(shard_col_index as int, cf);
                    lemma_shard_step(bk1.shard_collections@, bk1.collection_by_key@, bk1.shard_lookup_by_shard_hash@, shard_col_index, cf, *s, cs2, bk1.shard_lookup_by_shard_hash@, shard_index);
                    lemma_step_trans(bk0.shard_collections@, bk1.shard_collections@, cs2, bk0.collection_by_key@, bk1.collection_by_key@, bk1.collection_by_key@,
                                     bk0.shard_lookup_by_shard_hash@, bk0.shard_lookup_by_shard_hash@, bk1.shard_lookup_by_shard_hash@);
                    lemma_extend_step(ocs, bk0.shard_collections@, cs2, new_shards@, k0, bk0.collection_by_key@, bk1.collection_by_key@, bk0.shard_lookup_by_shard_hash@, bk1.shard_lookup_by_shard_hash@);
                    lemma_entries_step(obh, bk0.shard_collections@, cs2, bk0.collection_by_key@, bk1.collection_by_key@, bk0.shard_lookup_by_shard_hash@, bk1.shard_lookup_by_shard_hash@, new_shards@, k0);
                    // frame on that exit: no table entry touched
                    assert forall|hh: u64| !table_has(**s, hh) implies #[trigger] same_at(cf.chunk_lookup@, c0.chunk_lookup@, hh) by {}
                    lemma_coll_c11(oldlookup(ocs, shard_col_index as int), ll, c0, cf, *s, false);
                    lemma_all_c11(ocs, bk1.shard_collections@, cs2, shard_col_index as int, false);
                }
//@ loop 2
                        invariant
                            vx_n2 <= insert_hashes@.len(),
                            insert_hashes@ == trunc_table(**s), shard_table_ok(**s),
                            shard_col.hmac_key == c0.hmac_key, shard_col.shard_list@ == c0.shard_list@.push(*s),
                            coll_wf(*shard_col), skey(**s) == c0.hmac_key,
                            shard_index == c0.shard_list@.len(), shard_index <= 65535,
                            shard_col.chunk_lookup@.dom().finite(),
                            old_chunk_lookup_size <= shard_col.chunk_lookup@.len() <= old_chunk_lookup_size + vx_n2,
                            0 <= ll <= shard_index,
                            /*@C11*/ forall|jj: int| 0 <= jj < vx_n2 && (#[trigger] trunc_table(**s)[jj]).1.1 <= 65535 ==> fresh(*shard_col, ll, trunc_table(**s)[jj].0),
                            forall|hh: u64| #[trigger] fresh(c0, ll, hh) ==> fresh(*shard_col, ll, hh),
                            forall|hh: u64| (forall|jj: int| 0 <= jj < vx_n2 ==> (#[trigger] trunc_table(**s)[jj]).0 != hh) ==> #[trigger] same_at(shard_col.chunk_lookup@, c0.chunk_lookup@, hh),
                        decreases insert_hashes@.len() - vx_n2,
//@ after `let cas_chunk_offset = cas_chunk_offset as u16;`
                        proof {
                            // everything is stated about the table `insert(h, e)` WOULD produce; a call that leaves the table unchanged
                            // is covered by the invariants as they stand
                            let e = ChunkCacheElement { cas_start_index, cas_chunk_offset, shard_index: shard_index as u16 };
                            let m0 = shard_col.chunk_lookup@; let m1 = m0.insert(h, e);
                            // what goes into the index IS the shard's table row (xorb header position, chunk offset): the fact that makes a
                            // later query look at the right xorb header and report the right chunk range (C05), not a proof convenience
                            /*@C05,C11,C18*/ assert(trunc_table(**s)[vx_n2 - 1] == (h, (cas_start_index, cas_chunk_offset as u32)));
                            lemma_coll_insert(shard_col.hmac_key, shard_col.shard_list@, m0, h, e);
                            assert forall|hh: u64| (forall|jj: int| 0 <= jj < vx_n2 ==> (#[trigger] trunc_table(**s)[jj]).0 != hh)
                                implies #[trigger] same_at(m1, c0.chunk_lookup@, hh) by {
                                assert(trunc_table(**s)[vx_n2 - 1].0 != hh);
                                assert(same_at(m0, c0.chunk_lookup@, hh));
                            }
                        }
//@ before `num_inserted_chunks =`
                proof {
                    cf = *shard_col;
                    assert forall|hh: u64| !table_has(**s, hh) implies #[trigger] same_at(cf.chunk_lookup@, c0.chunk_lookup@, hh) by {
                        if update_chunk_lookup { assert(forall|jj: int| 0 <= jj < trunc_table(**s).len() ==> (#[trigger] trunc_table(**s)[jj]).0 != hh); }
                    }
                    assert(coll_frame(oldlookup(ocs, shard_col_index as int), ll, c0));
                    if update_chunk_lookup { assert(coll_fresh(ll, c0)); }
                    lemma_coll_c11(oldlookup(ocs, shard_col_index as int), ll, c0, cf, *s, update_chunk_lookup);
                }
//@ before `sbkp_lg.total_indexed_chunks += num_inserted_chunks;`
            proof {
                let bk3 = *sbkp_lg;
                lemma_shard_step(bk1.shard_collections@, bk1.collection_by_key@, bk1.shard_lookup_by_shard_hash@, shard_col_index, cf, *s, bk3.shard_collections@, bk3.shard_lookup_by_shard_hash@, shard_index);
                lemma_step_trans(bk0.shard_collections@, bk1.shard_collections@, bk3.shard_collections@, bk0.collection_by_key@, bk1.collection_by_key@, bk3.collection_by_key@,
                                 bk0.shard_lookup_by_shard_hash@, bk0.shard_lookup_by_shard_hash@, bk3.shard_lookup_by_shard_hash@);
                lemma_extend_step(ocs, bk0.shard_collections@, bk3.shard_collections@, new_shards@, k0, bk0.collection_by_key@, bk3.collection_by_key@, bk0.shard_lookup_by_shard_hash@, bk3.shard_lookup_by_shard_hash@);
                // carries the property: the location the code recorded IS (collection of s's key, position s was pushed at)
                /*@C18*/ assert(entry_from_batch(bk3.shard_collections@, bk3.collection_by_key@, (shard_col_index, shard_index), s.shard_hash, new_shards@, k0 + 1)) by {
                    assert(new_shards@[k0].shard_hash == s.shard_hash);
                }
                lemma_entries_step(obh, bk0.shard_collections@, bk3.shard_collections@, bk0.collection_by_key@, bk3.collection_by_key@, bk0.shard_lookup_by_shard_hash@, bk3.shard_lookup_by_shard_hash@, new_shards@, k0);
                lemma_all_c11(ocs, bk1.shard_collections@, bk3.shard_collections@, shard_col_index as int, update_chunk_lookup);
                assert forall|i: int| 0 <= i < bk3.shard_collections@.len() implies (#[trigger] bk3.shard_collections@[i]).shard_list@.len() + (new_shards@.len() - vx_n1) <= 65536 by {
                    if i != shard_col_index { assert(bk3.shard_collections@[i] == bk1.shard_collections@[i]); if i < bk0.shard_collections@.len() { assert(bk1.shard_collections@[i].shard_list@.len() == bk0.shard_collections@[i].shard_list@.len()) by { if bk0.collection_by_key@.contains_key(shard_hmac_key) {} else { assert(bk1.shard_collections@[i] == bk0.shard_collections@[i]); } } } }
                    else if i < bk0.shard_collections@.len() { assert(bk1.shard_collections@[i] == bk0.shard_collections@[i]); }
                }
            }
//@ end
}

} // verus!
fn main() {}
