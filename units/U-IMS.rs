//@ unit U-IMS
//@ props C05 C11
//@ verus-args --rlimit 100
#![feature(allocator_api)]
#![allow(non_snake_case, unused)]
use vstd::prelude::*;
use std::collections::{BTreeMap, HashMap};
use std::mem::size_of;
use std::sync::Arc;
verus! {
global size_of usize == 8;

//@ include prelude/ims_merklehash.rs

// ---- dependencies ---------------------------------------------------------------------------------------------------
pub struct MDBShardError { pub x: u8 }
pub type Result<T> = std::result::Result<T, MDBShardError>;
#[verifier::external_body] pub fn vx_abort() ensures false { panic!() }

// BTreeMap: vstd's own specification (std_specs/btree.rs) is used; nothing in C05 depends on `cas_content` /
// `file_content` (the query reads `chunk_hash_lookup` only).
// stub for the file half of the shard (not touched by the functions under proof)
//@ extract mdb_shard/src/file_structs.rs struct FileDataSequenceHeader
//@ end
// file record: only the header's `file_hash` (the key) and the serialized size are used here
struct MDBFileInfo { metadata: FileDataSequenceHeader, x: u8 }
uninterp spec fn spec_file_num_bytes(f: MDBFileInfo) -> u64;
impl MDBFileInfo {
    // `size_of::<FileDataSequenceHeader>() + num_info_entry_following() * MDB_FILE_INFO_ENTRY_SIZE`: serialized size, opaque here
    #[verifier::external_body]
    fn num_bytes(&self) -> (r: u64) ensures r == spec_file_num_bytes(*self) { unimplemented!() }
}

//@ extract mdb_shard/src/cas_structs.rs struct CASChunkSequenceHeader
//@ end
//@ extract mdb_shard/src/cas_structs.rs struct CASChunkSequenceEntry
//@ end
//@ extract mdb_shard/src/cas_structs.rs struct MDBCASInfo
//@ end
//@ extract mdb_shard/src/file_structs.rs struct FileDataSequenceEntry
//@ end
//@ extract mdb_shard/src/shard_in_memory.rs struct MDBInMemoryShard
//@ end

global size_of CASChunkSequenceHeader == 48;
global size_of CASChunkSequenceEntry == 48;

// ---- specification vocabulary -----------------------------------------------------------------------------------------
//@ include prelude/ims_sum.rs
proof fn lemma_sum_mono(s: Seq<CASChunkSequenceEntry>, a: int, b: int, c: int)
    requires a <= b <= c,
    ensures sum_unpacked(s, a, c) == sum_unpacked(s, a, b) + sum_unpacked(s, b, c), sum_unpacked(s, a, b) >= 0,
    decreases c - a,
{
    if b < c { lemma_sum_mono(s, a, b, c - 1); }
    else if a < b { lemma_sum_mono(s, a, b - 1, b - 1); assert(sum_unpacked(s, b, c) == 0); }
}
proof fn lemma_sum_sub(s: Seq<CASChunkSequenceEntry>, a: int, b: int)
    requires 0 <= a <= b <= s.len(),
    ensures sum_unpacked(s.subrange(a, b), 0, b - a) == sum_unpacked(s, a, b),
    decreases b - a,
{
    if a < b {
        lemma_sum_sub(s, a, b - 1);
        let t = s.subrange(a, b); let u = s.subrange(a, b - 1);
        assert(t[b - a - 1] == s[b - 1]);
        lemma_sum_ext(t, u, b - a - 1);
    }
}
proof fn lemma_sum_ext(t: Seq<CASChunkSequenceEntry>, u: Seq<CASChunkSequenceEntry>, n: int)
    requires 0 <= n <= t.len(), n <= u.len(), forall|i: int| 0 <= i < n ==> t[i] == u[i],
    ensures sum_unpacked(t, 0, n) == sum_unpacked(u, 0, n),
    decreases n,
{
    if n > 0 { lemma_sum_ext(t, u, n - 1); }
}

//@ include prelude/ims_vocab.rs
//@ include prelude/sess_btree.rs
//@ include prelude/sess_ims_post.rs

// outline (R7): `chunks.iter().map(|sb| sb.unpacked_segment_bytes).sum()` — iterator chain, not parseable by Verus.
// The body is that expression; the contract is assumed: u32 `Sum` is the arithmetic sum when it does not overflow
// (it panics in debug / wraps in release otherwise, hence the precondition).
#[verifier::external_body]
fn vx_sum_unpacked(chunks: &[CASChunkSequenceEntry]) -> (r: u32)
    requires sum_unpacked(chunks@, 0, chunks@.len() as int) <= u32::MAX,
    ensures r == sum_unpacked(chunks@, 0, chunks@.len() as int),
{ chunks.iter().map(|sb| sb.unpacked_segment_bytes).sum() }

impl FileDataSequenceEntry {
    #[verifier::external_body]
    fn default() -> (r: Self)
        ensures r.cas_hash == zero_hash(), r.cas_flags == 0, r.unpacked_segment_bytes == 0, r.chunk_index_start == 0, r.chunk_index_end == 0,
    { unimplemented!() }

//@ extract mdb_shard/src/file_structs.rs in `impl FileDataSequenceEntry` fn from_cas_entries
//@ ret r
//@ subst `<I1: TryInto<u32>>` => `` :: R11 monomorphised at the instance used by the caller under proof (I1 = usize)
//@ subst `I1` => `usize` :: R11 monomorphised at the instance used by the caller under proof (I1 = usize)
//@ subst `where <usize as TryInto<u32>>::Error: std::fmt::Debug,` => `` :: R11 bound of the erased type parameter
//@ subst `chunks.iter().map(|sb| sb.unpacked_segment_bytes).sum()` => `vx_sum_unpacked(chunks)` :: R7 outline: iterator chain; contract assumed (u32 Sum = arithmetic sum when it fits)
//@ contract
        requires
            sum_unpacked(chunks@, 0, chunks@.len() as int) <= u32::MAX,
            chunk_index_start <= u32::MAX, chunk_index_end <= u32::MAX,
        ensures
            /*@C05*/ chunks@.len() > 0 ==> r.cas_hash == metadata.cas_hash && r.cas_flags == metadata.cas_flags
                && r.chunk_index_start == chunk_index_start && r.chunk_index_end == chunk_index_end
                && r.unpacked_segment_bytes == sum_unpacked(chunks@, 0, chunks@.len() as int),
            chunks@.len() == 0 ==> r.cas_hash == zero_hash() && r.chunk_index_start == 0 && r.chunk_index_end == 0 && r.unpacked_segment_bytes == 0,
//@ end
}

impl MDBCASInfo {
//@ extract mdb_shard/src/cas_structs.rs in `impl MDBCASInfo` fn num_bytes
//@ ret r
//@ contract
        requires self.chunks@.len() <= u32::MAX,
        ensures r == 48 + 48 * self.chunks@.len(),
//@ end
}

impl MDBInMemoryShard {
    spec fn wf(&self) -> bool { ims_wf(self.chunk_hash_lookup@) }

    // base case of the invariant: `MDBInMemoryShard::default()` (empty lookup) is wf
    proof fn lemma_wf_empty(&self)
        requires self.chunk_hash_lookup@ == Map::<MerkleHash, (Arc<MDBCASInfo>, u64)>::empty(),
        ensures self.wf(),
    {}

//@ extract mdb_shard/src/shard_in_memory.rs in `impl MDBInMemoryShard` fn add_cas_block
//@ ret r
//@ rules R4a
//@ contract
        requires
            old(self).wf(),
            size_inv(*old(self)),
            cas_fits(cas_block_contents),
            // shard-size bookkeeping (not part of C05): the running byte count does not overflow u64
            old(self).current_shard_file_size + 64 * cas_block_contents.chunks@.len() + 60 <= u64::MAX,
        ensures
            /*@C05*/ final(self).wf(),
            // the whole abstract view after the call (prelude/sess_ims_post.rs, shared with U-SESSSHARD): xorb map, lookup, frame, size
            /*@C05,C11*/ ims_add_cas_post(*old(self), *final(self), cas_block_contents),
            r is Ok,
//@ body-start
        broadcast use {mh_cmp_axioms::axiom_merklehash_cmp_model, vstd::std_specs::btree::group_btree_axioms};
        let ghost ocas = old(self).cas_content@; let ghost ofile = old(self).file_content@; let ghost hh = cas_block_contents.metadata.cas_hash;
        let ghost sub: int = if ocas.contains_key(hh) { cas_rec_size(ocas[hh]) } else { 0 };
        proof {
            // the accounting invariant bounds the counter from below by the size of any stored block: the subtraction cannot underflow
            if ocas.contains_key(hh) { lemma_total_remove(ocas, cas_size_fn(), hh); }
            lemma_total_nonneg(ocas.remove(hh), cas_size_fn()); lemma_total_nonneg(ofile, file_size_fn());
        }
//@ loop 1
            invariant
                sub == (if ocas.contains_key(hh) { cas_rec_size(ocas[hh]) } else { 0 }), 0 <= sub <= old(self).current_shard_file_size,
                ocas == old(self).cas_content@, ofile == old(self).file_content@, hh == cas_block_contents.metadata.cas_hash,
                size_inv(*old(self)),
                *dest_content_v == cas_block_contents,
                cas_fits(cas_block_contents),
                self.wf(),
                self.current_shard_file_size == old(self).current_shard_file_size - sub + 16 * i,
                old(self).current_shard_file_size + 64 * cas_block_contents.chunks@.len() + 60 <= u64::MAX,
                forall|h: MerkleHash| #[trigger] self.chunk_hash_lookup@.contains_key(h) <==>
                    (old(self).chunk_hash_lookup@.contains_key(h) || exists|j: int| 0 <= j < i && #[trigger] cas_block_contents.chunks@[j].chunk_hash == h),
                forall|h: MerkleHash| (forall|j: int| 0 <= j < i ==> #[trigger] cas_block_contents.chunks@[j].chunk_hash != h)
                    && old(self).chunk_hash_lookup@.contains_key(h) ==> #[trigger] self.chunk_hash_lookup@[h] == old(self).chunk_hash_lookup@[h],
                forall|j: int| 0 <= j < i ==> *(#[trigger] self.chunk_hash_lookup@[cas_block_contents.chunks@[j].chunk_hash]).0 == cas_block_contents,
                forall|j: int| 0 <= j < i ==> last_occ(cas_block_contents.chunks@, i as int, (#[trigger] cas_block_contents.chunks@[j]).chunk_hash,
                                                        self.chunk_hash_lookup@[cas_block_contents.chunks@[j].chunk_hash].1 as int),
                self.file_content@ == old(self).file_content@,
                self.cas_content@ == old(self).cas_content@.insert(cas_block_contents.metadata.cas_hash, dest_content_v),
//@ before `Ok(())`
        proof {
            lemma_total_insert(ocas, cas_size_fn(), hh, dest_content_v);
            assert(ocas.dom().finite());
        }
//@ end

//@ extract mdb_shard/src/shard_in_memory.rs in `impl MDBInMemoryShard` fn add_file_reconstruction_info
//@ ret r
//@ contract
        requires size_inv(*old(self)), old(self).current_shard_file_size + spec_file_num_bytes(file_info) + 12 <= u64::MAX,
        ensures /*@C11*/ ims_add_file_post(*old(self), *final(self), file_info), r is Ok,
//@ body-start
        broadcast use {mh_cmp_axioms::axiom_merklehash_cmp_model, vstd::std_specs::btree::group_btree_axioms};
        let ghost ocas = old(self).cas_content@; let ghost ofile = old(self).file_content@; let ghost fh = file_info.metadata.file_hash;
        let ghost fi = file_info;
        proof {
            if ofile.contains_key(fh) { lemma_total_remove(ofile, file_size_fn(), fh); }
            lemma_total_nonneg(ofile.remove(fh), file_size_fn()); lemma_total_nonneg(ocas, cas_size_fn());
            lemma_total_insert(ofile, file_size_fn(), fh, fi);
        }
//@ end

//@ extract mdb_shard/src/shard_in_memory.rs in `impl MDBInMemoryShard` fn chunk_hash_dedup_query
//@ ret r
//@ contract
        requires self.wf(),
        ensures
            /*@C05*/ ims_query_post(self.chunk_hash_lookup@, query_hashes@, r),
//@ loop 1
            invariant
                self.wf(),
                query_hashes@.len() > 0,
                self.chunk_hash_lookup@.contains_key(query_hashes@[0]),
                **chunk_ref == *self.chunk_hash_lookup@[query_hashes@[0]].0,
                chunk_index_start == self.chunk_hash_lookup@[query_hashes@[0]].1,
                chunk_index_start < chunk_ref.chunks@.len(),
                cas_fits(**chunk_ref),
                chunk_index_start + query_idx <= chunk_ref.chunks@.len(),
                query_idx <= query_hashes@.len(),
                forall|k: int| 0 <= k < query_idx ==> (#[trigger] chunk_ref.chunks@[chunk_index_start + k]).chunk_hash == query_hashes@[k],
            ensures
                query_idx >= 1,
            decreases chunk_ref.chunks@.len() - chunk_index_start - query_idx,
//@ before `Some((`
        proof {
            let s = chunk_ref.chunks@; let a = chunk_index_start as int; let b = a + query_idx;
            lemma_sum_sub(s, a, b);
            lemma_sum_mono(s, 0, a, b); lemma_sum_mono(s, 0, b, s.len() as int); lemma_sum_mono(s, b, s.len() as int, s.len() as int);
        }
//@ end
}

} // verus!
fn main() {}
