//@ unit U-SHWRITEOUT
//@ props C10 C19
//@ verus-args --rlimit 100
//@ rules-from crashfs
#![allow(non_snake_case, unused)]
use vstd::prelude::*;
use vstd::std_specs::cmp::*;
use std::cmp::Ordering;
use std::sync::Arc;
verus! {
global size_of usize == 8;

//@ include prelude/setops_merklehash.rs

// ================= paths, names, the ghost directory and the process-wide shard-file cache ===========================
// stands for std::path::{Path, PathBuf}
struct PathBuf { id: int }
type Path = PathBuf;
struct SystemTime { t: u64 }
struct MDBShardInfo { x: u64 }
struct MDBShardError { k: u8 }
type Result<T> = std::result::Result<T, MDBShardError>;

// std::path::absolute (lexical): the directory is keyed by absolute paths
uninterp spec fn abs(p: PathBuf) -> PathBuf;
uninterp spec fn spec_join(dir: PathBuf, name: Seq<char>) -> PathBuf;
// utils::shard_file_name: `format!("{}.mdb", hash.hex())`;  utils::temp_shard_file_name: `format!(".{uuid}.mdb_temp")`
uninterp spec fn shard_name(h: MerkleHash) -> Seq<char>;
uninterp spec fn is_temp_name(n: Seq<char>) -> bool;
// utils::parse_shard_filename at specification level: the hash a path's file name spells (`^[0-9a-f]{64}\.mdb$`), if any
uninterp spec fn path_hash(p: PathBuf) -> Option<MerkleHash>;
// ASSUMED (name scheme): absolute is idempotent; a path `dir/<hex(h)>.mdb` spells h; a path `dir/.<uuid>.mdb_temp` spells no hash
#[verifier::external_body]
broadcast proof fn axiom_abs_idem(p: PathBuf) ensures #[trigger] abs(abs(p)) == abs(p) {}
#[verifier::external_body]
broadcast proof fn axiom_shard_path_hash(d: PathBuf, h: MerkleHash) ensures #[trigger] path_hash(abs(spec_join(d, shard_name(h)))) == Some(h) {}
#[verifier::external_body]
broadcast proof fn axiom_temp_path_hash(d: PathBuf, n: Seq<char>) requires is_temp_name(n) ensures #[trigger] path_hash(abs(spec_join(d, n))) is None {}

// merklehash::compute_data_hash
uninterp spec fn data_hash(b: Seq<u8>) -> MerkleHash;

//@ extract mdb_shard/src/shard_file_handle.rs struct MDBShardFile
//@ end

// the directory (absolute path -> content) and `MDB_SHARD_FILE_CACHE` (absolute path -> handle; entries are never removed)
struct VxFs { files: Ghost<Map<PathBuf, Seq<u8>>>, cache: Ghost<Map<PathBuf, Arc<MDBShardFile>>> }
// what every insertion into the cache maintains (proved below for the only place that inserts): the handle stored under a path
// carries that path, and the hash the path's name spells
spec fn cache_wf(fs: VxFs) -> bool {
    forall|p: PathBuf| #[trigger] fs.cache@.contains_key(p) ==> fs.cache@[p].path == p && path_hash(p) == Some(fs.cache@[p].shard_hash)
}
// final-name view: files whose name spells a hash (shard files); temp files are outside it
spec fn same_final_except(a: VxFs, b: VxFs, t: PathBuf) -> bool {
    forall|q: PathBuf| path_hash(q) is Some && q != t ==> (#[trigger] b.files@.contains_key(q) == a.files@.contains_key(q)) && b.files@[q] == a.files@[q]
}
// ... or the only difference is that the complete new shard file stands under its hash name (failure after the rename)
spec fn same_final_or_written(a: VxFs, b: VxFs, dir: PathBuf, data: Seq<u8>) -> bool {
    forall|q: PathBuf| path_hash(q) is Some ==> ((#[trigger] b.files@.contains_key(q) == a.files@.contains_key(q)) && b.files@[q] == a.files@[q])
        || (q == abs(spec_join(dir, shard_name(data_hash(data)))) && b.files@.contains_key(q) && b.files@[q] == data)
}

impl PathBuf {
    #[verifier::external_body]
    fn as_ref(&self) -> (r: &PathBuf) ensures *r == *self { unimplemented!() }
    #[verifier::external_body]
    fn to_path_buf(&self) -> (r: PathBuf) ensures r == *self { unimplemented!() }
    #[verifier::external_body]
    fn join(&self, name: String) -> (r: PathBuf) ensures r == spec_join(*self, name@) { unimplemented!() }
}
impl Clone for PathBuf { #[verifier::external_body] fn clone(&self) -> (r: PathBuf) ensures r == *self { unimplemented!() } }
#[verifier::external_body]
fn shard_file_name(hash: &MerkleHash) -> (r: String) ensures r@ == shard_name(*hash) { unimplemented!() }
#[verifier::external_body]
fn temp_shard_file_name() -> (r: String) ensures is_temp_name(r@) { unimplemented!() }

// std::fs::File (write side: the bytes handed to it so far; read side: the content at open time)
struct File { path: Ghost<PathBuf>, written: Ghost<Seq<u8>>, bytes: Ghost<Seq<u8>> }
struct Metadata { m: SystemTime }
// a reader (`R: Read`): the bytes it will still deliver
struct VxCursor { data: Ghost<Seq<u8>> }
// merklehash::HashedWrite<File> (its `write` is under contract in U-CRASHFS: the hasher sees exactly the bytes that go to the file)
struct HashedWrite { fed: Ghost<Seq<u8>>, file: File }

// The io::Error -> MDBShardError conversion of the `?` after each std call (thiserror `#[from]`) is absorbed in the stubs (Verus does not
// tie `?` to the From specification): they return the converted error.
// R7 outline of `std::fs::OpenOptions::new().write(true).create(true).truncate(true).open(p)`: afterwards the file exists and is empty
#[verifier::external_body]
fn vx_open_create_truncate(fs: &mut VxFs, path: &PathBuf) -> (r: Result<File>)
    ensures final(fs).cache@ == old(fs).cache@,
        r matches Ok(f) ==> f.path@ == abs(*path) && f.written@ == Seq::<u8>::empty() && final(fs).files@ == old(fs).files@.insert(abs(*path), Seq::<u8>::empty()),
        r is Err ==> final(fs).files@ == old(fs).files@,
{ unimplemented!() }
impl HashedWrite {
    #[verifier::external_body]
    fn new(writer: File) -> (r: HashedWrite) ensures r.file == writer, r.fed@ == Seq::<u8>::empty() { unimplemented!() }
    #[verifier::external_body]
    fn hash(&self) -> (r: MerkleHash) ensures r == data_hash(self.fed@) { unimplemented!() }
    // Write::flush: what was handed to the file is its content (only that file changes)
    #[verifier::external_body]
    fn flush(&mut self, fs: &mut VxFs) -> (r: Result<()>)
        ensures final(fs).cache@ == old(fs).cache@, final(self).fed@ == old(self).fed@, final(self).file.path@ == old(self).file.path@,
            final(self).file.written@ == old(self).file.written@,
            final(fs).files@ == old(fs).files@.insert(old(self).file.path@, final(fs).files@[old(self).file.path@]),
            r is Ok ==> final(fs).files@[old(self).file.path@] == old(self).file.written@,
    { unimplemented!() }
}
// std::io::copy(reader, &mut hashed_write): read + write_all until EOF; on Ok everything the reader had went through the writer
#[verifier::external_body]
fn vx_io_copy(fs: &mut VxFs, reader: &mut VxCursor, w: &mut HashedWrite) -> (r: Result<u64>)
    ensures final(fs).cache@ == old(fs).cache@, final(w).file.path@ == old(w).file.path@,
        final(fs).files@ == old(fs).files@.insert(old(w).file.path@, final(fs).files@[old(w).file.path@]),
        r is Ok ==> final(w).fed@ == old(w).fed@ + old(reader).data@ && final(w).file.written@ == old(w).file.written@ + old(reader).data@,
{ unimplemented!() }
mod fs {
    use super::*;
    // rename(2): `to` is atomically replaced by the file at `from`, the name `from` disappears
    #[verifier::external_body]
    pub(super) fn rename(fs: &mut VxFs, from: &PathBuf, to: &PathBuf) -> (r: Result<()>)
        ensures final(fs).cache@ == old(fs).cache@,
            r is Ok ==> old(fs).files@.contains_key(abs(*from))
                && final(fs).files@ == old(fs).files@.remove(abs(*from)).insert(abs(*to), old(fs).files@[abs(*from)]),
            r is Err ==> final(fs).files@ == old(fs).files@,
    { unimplemented!() }
    #[verifier::external_body]
    pub(super) fn remove_file(fs: &mut VxFs, p: &PathBuf) -> (r: Result<()>)
        ensures final(fs).cache@ == old(fs).cache@,
            r is Ok ==> final(fs).files@ == old(fs).files@.remove(abs(*p)),
            r is Err ==> final(fs).files@ == old(fs).files@,
    { unimplemented!() }
}
// std::path::absolute
#[verifier::external_body]
fn vx_absolute(p: &PathBuf) -> (r: Result<PathBuf>) ensures r matches Ok(a) ==> a == abs(*p) { unimplemented!() }
impl File {
    #[verifier::external_body]
    fn metadata(&self) -> (r: Result<Metadata>) { unimplemented!() }
}
impl Metadata {
    #[verifier::external_body]
    fn modified(&self) -> (r: Result<SystemTime>) { unimplemented!() }
}
impl MDBShardInfo {
    #[verifier::external_body]
    fn load_from_reader(f: &mut File) -> (r: Result<MDBShardInfo>) { unimplemented!() }
}
// the cache behind its RwLock: `MDB_SHARD_FILE_CACHE.read().unwrap().get(&path)` (a clone of the stored Arc, as the code clones it
// right away) and `MDB_SHARD_FILE_CACHE.write().unwrap().insert(path, sf)`
impl VxFs {
    #[verifier::external_body]
    fn cache_get(&self, p: &PathBuf) -> (r: Option<&Arc<MDBShardFile>>)
        ensures self.cache@.contains_key(*p) ==> r == Some(&self.cache@[*p]), !self.cache@.contains_key(*p) ==> r is None
    { unimplemented!() }
    #[verifier::external_body]
    fn cache_insert(&mut self, p: PathBuf, sf: Arc<MDBShardFile>)
        ensures final(self).files@ == old(self).files@, final(self).cache@ == old(self).cache@.insert(p, sf)
    { unimplemented!() }
    // std::fs::File::open
    #[verifier::external_body]
    fn open(&self, p: &PathBuf) -> (r: Result<File>)
        ensures r matches Ok(f) ==> self.files@.contains_key(abs(*p)) && f.path@ == abs(*p) && f.bytes@ == self.files@[abs(*p)]
    { unimplemented!() }
}

// what `load_from_hash_and_path` promises.  A cache hit returns the stored handle WITHOUT looking at the directory, so existence of the
// file is promised only for a miss.
spec fn load_post(fs0: VxFs, fs1: VxFs, shard_hash: MerkleHash, path: PathBuf, r: Result<Arc<MDBShardFile>>) -> bool {
    &&& fs1.files@ == fs0.files@
    &&& cache_wf(fs1)
    &&& forall|p: PathBuf| fs0.cache@.contains_key(p) ==> #[trigger] fs1.cache@.contains_key(p) && fs1.cache@[p] == fs0.cache@[p]
    &&& fs0.cache@.contains_key(abs(path)) ==> r is Err || r == Ok::<Arc<MDBShardFile>, MDBShardError>(fs0.cache@[abs(path)])
    &&& r matches Ok(sf) ==> sf.path == abs(path) && sf.shard_hash == shard_hash
    &&& (r is Ok && !fs0.cache@.contains_key(abs(path))) ==> fs0.files@.contains_key(abs(path))
}

impl MDBShardFile {
//@ extract mdb_shard/src/shard_file_handle.rs in `impl MDBShardFile` region load_from_hash_and_path
//@ from-after `= RwLock::new(HashMap::default()); }`
//@ to `Ok(sf)`
//@ sig `fn load_from_hash_and_path(vx_fs: &mut VxFs, shard_hash: MerkleHash, path: &Path) -> (r: Result<Arc<MDBShardFile>>)`
//@ subst `std::path::absolute(path)` => `vx_absolute(path)` :: R11 stub of std::path::absolute
//@ subst `let lg = MDB_SHARD_FILE_CACHE.read().unwrap();` => `let lg = &*vx_fs;` :: the process-wide cache is part of the explicit ghost state (read lock)
//@ subst `lg.get(&path)` => `lg.cache_get(&path)` :: the process-wide cache is part of the explicit ghost state
//@ subst `MDB_SHARD_FILE_CACHE.write().unwrap().insert(path, sf.clone());` => `vx_fs.cache_insert(path, sf.clone());` :: the process-wide cache is part of the explicit ghost state (write lock)
//@ subst `std::fs::File::open(&path)` => `vx_fs.open(&path)` :: explicit file system
//@ optsubst `Arc::new(Self {` => `Arc::new(MDBShardFile {` :: the region is lifted out of the impl's `Self`
//@ contract
    requires
        cache_wf(*old(vx_fs)),
        // the hash handed in is the one the file name spells (keeps the cache consistent; C10: names equal content hashes)
        /*@C10*/ path_hash(abs(*path)) == Some(shard_hash),
    ensures
        /*@C10,C19*/ load_post(*old(vx_fs), *final(vx_fs), shard_hash, *path, r),
//@ body-start
    proof { broadcast use axiom_abs_idem; }
//@ end

//@ extract mdb_shard/src/shard_file_handle.rs in `impl MDBShardFile` fn write_out_from_reader
//@ ret r
//@ rules crashfs.R20
//@ subst `<R: Read>(target_directory: impl AsRef<Path>, reader: &mut R)` => `(vx_fs: &mut VxFs, target_directory: &Path, reader: &mut VxCursor)` :: explicit file system; R11 reader stub
//@ subst `std::fs::OpenOptions::new() .write(true) .create(true) .truncate(true) .open(&temp_file_name)` => `vx_open_create_truncate(vx_fs, &temp_file_name)` :: R7 outline of the OpenOptions builder chain + explicit file system
//@ subst `std::io::copy(reader, &mut hashed_write)` => `vx_io_copy(vx_fs, reader, &mut hashed_write)` :: explicit file system
//@ subst `hashed_write.flush()` => `hashed_write.flush(vx_fs)` :: explicit file system
//@ subst `Self::load_from_hash_and_path(` => `Self::load_from_hash_and_path(vx_fs, ` :: explicit file system and cache
//@ contract
    requires cache_wf(*old(vx_fs)),
    ensures
        cache_wf(*final(vx_fs)),
        // C10/C19: a returned handle names a file that EXISTS, holds exactly the reader's bytes, and is named by their hash
        /*@C10,C19*/ r matches Ok(sf) ==> final(vx_fs).files@.contains_key(sf.path) && final(vx_fs).files@[sf.path] == old(reader).data@,
        /*@C10,C19*/ r matches Ok(sf) ==> sf.shard_hash == data_hash(old(reader).data@) && sf.path == abs(spec_join(*target_directory, shard_name(sf.shard_hash))),
        // final-name view: no other shard file appears, disappears or changes (temp files are outside this view); on failure none at all,
        // except that the complete new file may already stand under its hash name (a failure of the final load comes after the rename)
        /*@C19,C10*/ r matches Ok(sf) ==> same_final_except(*old(vx_fs), *final(vx_fs), sf.path),
        /*@C19,C10*/ r is Err ==> same_final_or_written(*old(vx_fs), *final(vx_fs), *target_directory, old(reader).data@),
//@ body-start
    proof { broadcast use axiom_abs_idem, axiom_shard_path_hash, axiom_temp_path_hash; }
//@ end
}

} // verus!
fn main() {}
