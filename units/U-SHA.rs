//@ unit U-SHA
//@ props C02
//@ verus-args --rlimit 100 --triggers-mode silent
#![feature(allocator_api)]
#![allow(non_snake_case, unused)]
use vstd::prelude::*;
use std::sync::Arc;
verus! {
global size_of usize == 8;

// =====================================================================================================================
// data/src/sha256.rs — ShaGenerator: a chain of background tasks, each taking the hasher returned by the previous one.
// Proved: the hasher that `finalize` digests has been fed exactly the concatenation, in order, of the chunk data of all blocks
// handed to `update` (C02: "the recorded SHA-256 equals the value recomputed from the original bytes").
// Model: `tokio::task::JoinHandle<T>` stub with a prophecy `outcome()` (what awaiting it yields); `tokio::spawn` of the R16
// opaque future; the task body is verified separately as a lifted region against the same spec predicate `sha_task_post`.
// =====================================================================================================================
pub mod tokio {
    pub mod task {
        use vstd::prelude::*;
        #[verifier::external_body] pub struct JoinError { _p: () }
        #[verifier::external_body]
        #[verifier::accept_recursive_types(T)]
        pub struct VxFuture<T> { _p: std::marker::PhantomData<T> }
        impl<T> VxFuture<T> { pub uninterp spec fn outcome(&self) -> Result<T, JoinError>; }
        /// A JoinHandle is modelled by the value that awaiting it will yield (prophecy): R1 erases `.await`, so `jh.await??`
        /// reads `jh??` on exactly that value.
        pub type JoinHandle<T> = Result<T, JoinError>;
    }
    use vstd::prelude::*;
    #[verifier::external_body]
    pub fn spawn<T>(f: task::VxFuture<T>) -> (jh: task::JoinHandle<T>) ensures jh == f.outcome() { unimplemented!() }
}
use tokio::task::{JoinError, JoinHandle, VxFuture};

pub struct MerkleHash(pub [u64; 4]);
pub uninterp spec fn zero_hash() -> MerkleHash;
#[verifier::external_body] pub struct DataHashHexParseError { _p: () }
pub uninterp spec fn spec_from_hex(s: Seq<char>) -> std::result::Result<MerkleHash, DataHashHexParseError>;
impl MerkleHash {
    #[verifier::external_body] pub fn from_hex(h: &str) -> (r: std::result::Result<MerkleHash, DataHashHexParseError>) ensures r == spec_from_hex(h@) { unimplemented!() }
}
impl Default for MerkleHash { #[verifier::external_body] fn default() -> (r: MerkleHash) ensures r == zero_hash() { unimplemented!() } }

//@ extract deduplication/src/chunking.rs struct Chunk
//@ end
spec fn concat_chunks(s: Seq<Chunk>) -> Seq<u8> decreases s.len() {
    if s.len() == 0 { Seq::<u8>::empty() } else { concat_chunks(s.drop_last()) + s.last().data@ }
}

// ---- sha2::Sha256 (R11 stub): ghost view = all bytes fed since default(); the digest is an uninterpreted function of them ----
#[verifier::external_body] pub struct Sha256 { _p: () }
#[verifier::external_body] pub struct VxDigest { _p: () }
pub uninterp spec fn sha256_spec(bytes: Seq<u8>) -> VxDigest;            // SHA-256 itself: not modelled
pub uninterp spec fn digest_hex(d: VxDigest) -> Seq<char>;               // `format!("{:x}")` of the 32 digest bytes
/// the MerkleHash that carries a digest: from_hex of its 64 hex digits (always parses)
pub open spec fn digest_as_hash(d: VxDigest) -> MerkleHash { spec_from_hex(digest_hex(d))->Ok_0 }
impl Sha256 {
    pub uninterp spec fn fed(&self) -> Seq<u8>;
    /// Digest::update(&mut self, data: impl AsRef<[u8]>) at the instantiation &Arc<[u8]>
    #[verifier::external_body] pub fn update(&mut self, data: &Arc<[u8]>) ensures final(self).fed() == old(self).fed() + data@ { unimplemented!() }
    #[verifier::external_body] pub fn finalize(self) -> (d: VxDigest) ensures d == sha256_spec(self.fed()) { unimplemented!() }
}
impl Default for Sha256 { #[verifier::external_body] fn default() -> (r: Sha256) ensures r.fed() == Seq::<u8>::empty() { unimplemented!() } }
// not needed by the unchanged code; keeps "swallowing" edits decidable
pub assume_specification<T: std::default::Default, E> [std::result::Result::<T, E>::unwrap_or_default] (r: std::result::Result<T, E>) -> (o: T)
    ensures match r { Ok(v) => o == v, Err(_) => call_ensures(T::default, (), o) };
/// R7 outline of `format!("{sha256:x}")`; ASSUMED: 64 hex digits, which `MerkleHash::from_hex` accepts
#[verifier::external_body]
pub fn vx_digest_hex(d: &VxDigest) -> (r: String) ensures r@ == digest_hex(*d), spec_from_hex(digest_hex(*d)) is Ok { unimplemented!() }

// ---- the task ----------------------------------------------------------------------------------------------------------------
/// contract of one hashing task: it returns the hasher it was given, fed with the chunk data of its block, in order
spec fn sha_task_post(h0: Seq<u8>, block: Seq<Chunk>, r: std::result::Result<Sha256, JoinError>) -> bool {
    r matches Ok(h) && h.fed() == h0 + concat_chunks(block)
}
/// R16 + capture link: the future built in `update` runs the task body (verified below as a lifted region against
/// sha_task_post) on the `hasher` and `new_chunks` of the spawn site.  ASSUMED: its outcome, if the task was not cancelled and
/// did not panic (outer Ok), satisfies that contract.
#[verifier::external_body]
fn vx_sha_task(h0: Ghost<Seq<u8>>, block: Ghost<Seq<Chunk>>) -> (f: VxFuture<std::result::Result<Sha256, JoinError>>)
    ensures f.outcome() matches Ok(r) ==> sha_task_post(h0@, block@, r)
{ unimplemented!() }

//@ extract data/src/sha256.rs struct ShaGenerator
//@ end

impl ShaGenerator {
    /// the bytes hashed so far, if the chain has not failed: None handle = nothing yet; Some(handle) = what its task will return
    spec fn state(&self) -> Option<Seq<u8>> {
        match self.hasher {
            None => Some(Seq::<u8>::empty()),
            Some(jh) => match jh { Ok(Ok(h)) => Some(h.fed()), _ => None },
        }
    }

//@ extract data/src/sha256.rs in `impl ShaGenerator` fn new
//@ ret ret
//@ contract
        ensures /*@C02*/ ret.state() == Some(Seq::<u8>::empty()), ret.hasher is None,
//@ end

//@ extract data/src/sha256.rs in `impl ShaGenerator` fn update
//@ ret ret
//@ rules ujoin.R16
//@ subst `vx_async_block()` => `vx_sha_task(Ghost(hasher.fed()), Ghost(new_chunks@))` :: R16 capture link: the task built here captures this `hasher` and `new_chunks`; assumed contract of vx_sha_task
//@ contract
        ensures
            // a failed predecessor is reported; otherwise the chain now stands for: previous bytes ++ this block's chunk data
            /*@C02*/ ret is Ok ==> old(self).state() is Some,
            /*@C02*/ ret is Ok && final(self).state() is Some ==> final(self).state()->Some_0 == old(self).state()->Some_0 + concat_chunks(new_chunks@),
            /*@C02*/ ret is Ok ==> final(self).hasher is Some,
//@ end

//@ extract data/src/sha256.rs in `impl ShaGenerator` fn finalize
//@ ret ret
//@ rules R14
//@ subst `format!("{sha256:x}")` => `vx_digest_hex(&sha256)` :: R7 outline of the hex formatting of the digest (format! is outside Verus); contract assumed
//@ contract
        ensures
            /*@C02*/ ret is Ok ==> self.state() is Some,
            // the digest is over exactly the bytes of all blocks fed, in order
            /*@C02*/ self.hasher is Some ==> (ret matches Ok(h) ==> h == digest_as_hash(sha256_spec(self.state()->Some_0))),
            // PROPERTY-DERIVED, not from the code (C02 "the recorded SHA-256 equals the value an independent validator recomputes
            // from the original bytes"): a never-updated generator (SingleFileCleaner: a file without chunks, i.e. the empty file)
            // must report SHA-256 of the empty input.  Failed on 02dc6c8 and earlier (zero hash); repaired by fix 3b157a4
            /*@C02*/ self.hasher is None ==> (ret matches Ok(h) ==> h == digest_as_hash(sha256_spec(Seq::<u8>::empty()))),
//@ end
}

// the body of the task spawned by `update`
//@ extract data/src/sha256.rs in `impl ShaGenerator` region update
//@ block `tokio::spawn(async move {`
//@ sig `fn update__task(mut hasher: Sha256, new_chunks: Arc<[Chunk]>) -> (ret: std::result::Result<Sha256, JoinError>)`
//@ rules ujoin.R17
//@ contract
        ensures /*@C02*/ sha_task_post(hasher.fed(), new_chunks@, ret),
//@ body-start
        let ghost h0 = hasher.fed();
        proof { assert(concat_chunks(new_chunks@.subrange(0, 0)) =~= Seq::<u8>::empty()); assert(h0 + Seq::<u8>::empty() =~= h0); }
//@ loop 1
            invariant /*@C02*/ hasher.fed() == h0 + concat_chunks(new_chunks@.subrange(0, vx_it.index@ as int)),
//@ after `hasher.update(&chunk.data);`
            proof {
                let k = vx_it.index@ as int;
                assert(new_chunks@.subrange(0, k + 1).drop_last() =~= new_chunks@.subrange(0, k));
                assert(new_chunks@.subrange(0, k + 1).last() == new_chunks@[k]);
                assert((h0 + concat_chunks(new_chunks@.subrange(0, k))) + chunk.data@ =~= h0 + (concat_chunks(new_chunks@.subrange(0, k)) + chunk.data@));
            }
//@ before `Ok(hasher)`
        proof { assert(new_chunks@.subrange(0, new_chunks@.len() as int) =~= new_chunks@); }
//@ end

} // verus!
impl std::fmt::Debug for DataHashHexParseError { fn fmt(&self, f: &mut std::fmt::Formatter<'_>) -> std::fmt::Result { Ok(()) } }
fn main() {}
