//@ unit U-EXPORTWRAP
//@ props C18
//@ verus-args --rlimit 100
//@ rules-from crashfs
#![allow(non_snake_case, unused)]
use vstd::prelude::*;
use vstd::std_specs::cmp::*;
use std::cmp::Ordering;
use std::sync::Arc;
verus! {
global size_of usize == 8;

//@ include prelude/setops_merklehash.rs
type HMACKey = MerkleHash;
// merklehash/src/data_hash.rs: `DataHash::default()` is the all-zero hash ("unkeyed"), as in prelude/keyexport_io.rs
pub uninterp spec fn zero_hash() -> MerkleHash;
impl Default for MerkleHash {
    #[verifier::external_body]
    fn default() -> (r: MerkleHash) ensures r == zero_hash() { unimplemented!() }
}
//@ include prelude/exportwrap_fs.rs

//@ extract mdb_shard/src/shard_format.rs struct MDBShardFileHeader
//@ end
//@ extract mdb_shard/src/shard_format.rs struct MDBShardFileFooter
//@ end
//@ extract mdb_shard/src/shard_format.rs struct MDBShardInfo
//@ end
//@ extract mdb_shard/src/shard_file_handle.rs struct MDBShardFile
//@ end
// `#[derive(Clone)]` of the footer (R10 drops the attribute): field-wise copy
impl Clone for MDBShardFileFooter {
    #[verifier::external_body]
    fn clone(&self) -> (r: MDBShardFileFooter) ensures r == *self { unimplemented!() }
}

// ================= C18 vocabulary at the wrapper layer ====================================================================
// std::time::Duration (a value; only compared for identity here)
pub struct Duration { pub secs: u64, pub nanos: u32 }
impl Clone for Duration { #[verifier::external_body] fn clone(&self) -> (r: Duration) ensures r == *self { unimplemented!() } }
impl Copy for Duration {}
impl Duration {
    #[verifier::external_body]
    pub fn from_secs(secs: u64) -> (r: Duration) ensures r == (Duration { secs: secs, nanos: 0 }) { unimplemented!() }
}
impl Default for Duration {
    #[verifier::external_body]
    fn default() -> (r: Duration) ensures r == (Duration { secs: 0, nanos: 0 }) { unimplemented!() }
}

// WHAT `MDBShardInfo::export_as_keyed_shard_impl` WRITES, as U-KEYEXPORT / U-KEYEXPORTSEC / U-EXPIRY prove it region by region, given a
// name: `out` is a re-export of the shard `src` under `hmac_key`, valid for `key_valid_for`, with the file section kept iff
// `include_file_info`, the xorb lookup table written iff `include_cas_lookup_table` and the chunk lookup table iff
// `include_chunk_lookup_table`.  PARAMETERS IN THE CALLEE'S DECLARED ORDER (shard_format.rs:1009-1019).  It is a relation, not a function,
// because the footer carries `SystemTime::now()` (creation time; expiry = now + key_valid_for).
// Uninterpreted: this unit is about the ROLES in which the wrappers hand their arguments on, not about the byte layout.
uninterp spec fn export_spec(out: Seq<u8>, src: Seq<u8>, hmac_key: HMACKey, key_valid_for: Duration,
    include_file_info: bool, include_cas_lookup_table: bool, include_chunk_lookup_table: bool) -> bool;
// the in-memory header/footer `info` is the one parsed from the shard bytes `src` (what `load_from_reader` returns); only needed for
// the callee's `self_verification` debug assertions
uninterp spec fn info_of(info: MDBShardInfo, src: Seq<u8>) -> bool;

// the source reader (`R: Read + Seek`): the shard bytes it delivers from its current position
struct VxSrc { data: Ghost<Seq<u8>> }

impl MDBShardInfo {
    // STUB OF THE CALLEE (proved elsewhere, assumed here).  What its postcondition abbreviates:
    //   U-KEYEXPORTSEC `export_file_post` / the `!include_file_info` clause of `export_file_section`  (file section kept / dropped per include_file_info),
    //   U-KEYEXPORTSEC `export_cas_post` + U-KEYEXPORT `out_entries` / `block_lookups` / `push_cas_lookup`  (headers kept, chunk hashes keyed with hmac_key,
    //       cas lookup iff include_cas_lookup_table, chunk lookup with truncated KEYED hashes iff include_chunk_lookup_table),
    //   U-KEYEXPORTSEC `tables_post` (tables written, footer offsets/counts), U-KEYEXPORT `set_footer_key` (footer key = hmac_key),
    //   U-EXPIRY (expiry = creation + key_valid_for).
    // `self_verification` only feeds `debug_assert`s (U-KEYEXPORTSEC `export_lookup_tables` requires the handle's counts to be the
    // source's): it must be the source's own info, and it does not influence the bytes written.
    #[verifier::external_body]
    fn export_as_keyed_shard_impl(reader: &mut VxSrc, writer: &mut Vec<u8>, hmac_key: HMACKey, key_valid_for: Duration,
        include_file_info: bool, include_cas_lookup_table: bool, include_chunk_lookup_table: bool,
        self_verification: Option<&MDBShardInfo>) -> (r: Result<usize>)
        requires
            self_verification matches Some(s) ==> info_of(*s, old(reader).data@),
        ensures
            r matches Ok(n) ==> exists|out: Seq<u8>| #![trigger export_spec(out, old(reader).data@, hmac_key, key_valid_for, include_file_info, include_cas_lookup_table, include_chunk_lookup_table)]
                final(writer)@ == old(writer)@ + out && n == out.len()
                && export_spec(out, old(reader).data@, hmac_key, key_valid_for, include_file_info, include_cas_lookup_table, include_chunk_lookup_table),
    { unimplemented!() }

// ---- the two thin wrappers of shard_format.rs ------------------------------------------------------------------------------------
//@ extract mdb_shard/src/shard_format.rs in `impl MDBShardInfo` fn export_as_keyed_shard
//@ ret r
//@ subst `<R: Read + Seek, W: Write>` => `` :: R11 reader/writer stubs instead of the generic parameters
//@ subst `reader: &mut R` => `reader: &mut VxSrc` :: R11 source reader stub (ghost: the bytes it delivers)
//@ subst `writer: &mut W` => `writer: &mut Vec<u8>` :: the only writer the callers use (`Vec<u8>`); its view is the bytes written
//@ subst `std::time::Duration` => `Duration` :: R11 Duration stub
//@ contract
        requires
            // `Some(self)` is handed to the callee's debug assertions: self must be the source's info
            /*@AUX*/ info_of(*self, old(reader).data@),
        ensures
            // C18: the bytes appended are a re-export of the source with THE CALLER'S arguments in the caller's named roles
            /*@C18*/ r matches Ok(n) ==> exists|out: Seq<u8>| #![trigger export_spec(out, old(reader).data@, hmac_key, key_valid_for, include_file_info, include_cas_lookup_table, include_chunk_lookup_table)]
                final(writer)@ == old(writer)@ + out && n == out.len()
                && export_spec(out, old(reader).data@, hmac_key, key_valid_for, include_file_info, include_cas_lookup_table, include_chunk_lookup_table),
//@ end

//@ extract mdb_shard/src/shard_format.rs in `impl MDBShardInfo` fn export_as_keyed_shard_streaming
//@ ret r
//@ subst `<R: Read + Seek, W: Write>` => `` :: R11 reader/writer stubs instead of the generic parameters
//@ subst `reader: &mut R` => `reader: &mut VxSrc` :: R11 source reader stub
//@ subst `writer: &mut W` => `writer: &mut Vec<u8>` :: writer = byte vector; its view is the bytes written
//@ subst `std::time::Duration` => `Duration` :: R11 Duration stub
//@ contract
        ensures
            /*@C18*/ r matches Ok(n) ==> exists|out: Seq<u8>| #![trigger export_spec(out, old(reader).data@, hmac_key, key_valid_for, include_file_info, include_cas_lookup_table, include_chunk_lookup_table)]
                final(writer)@ == old(writer)@ + out && n == out.len()
                && export_spec(out, old(reader).data@, hmac_key, key_valid_for, include_file_info, include_cas_lookup_table, include_chunk_lookup_table),
//@ end
}

// ================= export_with_expiration: vocabulary =====================================================================================
// footer codec (K-SHARDHDR / U-SHWRITE own the layout; here: a function of the footer value)
uninterp spec fn encode_footer(f: MDBShardFileFooter) -> Seq<u8>;
// std::time: `SystemTime::now()`, `Add<Duration>`, `duration_since`, `Result::unwrap_or_default`, `Duration::as_secs`, each stubbed as the
// uninterpreted function of its arguments it is (clock and Duration arithmetic are outside Verus).  `SystemTime` is the placeholder of the
// prelude; `VxSinceRes` stands for `Result<Duration, SystemTimeError>`.
uninterp spec fn is_now(s: SystemTime) -> bool;
uninterp spec fn st_add(s: SystemTime, d: Duration) -> SystemTime;
uninterp spec fn st_epoch() -> SystemTime;
struct VxSinceRes { r: std::result::Result<Duration, u8> }
uninterp spec fn st_since(a: SystemTime, b: SystemTime) -> VxSinceRes;
spec fn since_or_default(x: VxSinceRes) -> Duration { match x.r { Ok(d) => d, Err(_) => Duration { secs: 0, nanos: 0 } } }
impl SystemTime {
    #[verifier::external_body]
    fn now() -> (r: SystemTime) ensures is_now(r) { unimplemented!() }
    #[verifier::external_body]
    fn add(self, d: Duration) -> (r: SystemTime) ensures r == st_add(self, d) { unimplemented!() }
    #[verifier::external_body]
    fn duration_since(&self, earlier: SystemTime) -> (r: VxSinceRes) ensures r == st_since(*self, earlier) { unimplemented!() }
}
#[verifier::external_body]
fn vx_unix_epoch() -> (r: SystemTime) ensures r == st_epoch() { unimplemented!() }
impl VxSinceRes {
    #[verifier::external_body]
    fn unwrap_or_default(self) -> (r: Duration) ensures r == since_or_default(self) { unimplemented!() }
}
impl Duration {
    #[verifier::external_body]
    pub fn as_secs(&self) -> (r: u64) ensures r == self.secs { unimplemented!() }
}
// "the clock value `now` + `d`", in whole seconds since the epoch (0 if that lies before the epoch)
spec fn expiry_secs(now: SystemTime, d: Duration) -> u64 { since_or_default(st_since(st_add(now, d), st_epoch())).secs }
// `std::mem::size_of::<MDBShardFileFooter>()`: only a capacity hint
#[verifier::external_body]
fn vx_footer_size() -> (r: usize) { unimplemented!() }
impl MDBShardFileFooter {
    // `serialize<W: Write>`: appends the footer's encoding (its own contract: U-SHWRITE)
    #[verifier::external_body]
    fn serialize(&self, writer: &mut Vec<u8>) -> (r: Result<usize>)
        ensures r is Ok ==> final(writer)@ == old(writer)@ + encode_footer(*self),
    { unimplemented!() }
}
spec fn min_int(a: int, b: int) -> int { if a <= b { a } else { b } }
// the re-stamped copy: everything before the footer, then the footer with the new expiry and NOTHING else changed
spec fn restamped(src: Seq<u8>, footer: MDBShardFileFooter, e: u64) -> Seq<u8> {
    src.subrange(0, min_int(footer.footer_offset as int, src.len() as int)) + encode_footer(MDBShardFileFooter { shard_key_expiry: e, ..footer })
}
// `Read::take(n)` on the opened file, `Read::chain(next)`, `Cursor::new(vec)`: what the composed reader will deliver
struct VxTake { data: Ghost<Seq<u8>> }
impl File {
    #[verifier::external_body]
    fn chain(self, next: VxCursor) -> (r: VxCursor) ensures r.data@ == self.bytes@ + next.data@ { unimplemented!() }
    #[verifier::external_body]
    fn take(self, n: u64) -> (r: VxTake) ensures r.data@ == self.bytes@.subrange(0, min_int(n as int, self.bytes@.len() as int)) { unimplemented!() }
}
impl VxTake {
    #[verifier::external_body]
    fn chain(self, next: VxCursor) -> (r: VxCursor) ensures r.data@ == self.data@ + next.data@ { unimplemented!() }
}
impl VxCursor {
    #[verifier::external_body]
    fn new(v: Vec<u8>) -> (r: VxCursor) ensures r.data@ == v@ { unimplemented!() }
}

// ================= the two wrappers of shard_file_handle.rs ======================================================================
// what a failed wrapper leaves behind on the final-name view (U-SHWRITEOUT's `same_final_or_written`, for SOME complete output)
spec fn err_frame(a: VxFs, b: VxFs, dir: PathBuf) -> bool {
    forall|q: PathBuf| path_hash(q) is Some ==> ((#[trigger] b.files@.contains_key(q) == a.files@.contains_key(q)) && b.files@[q] == a.files@[q])
        || (b.files@.contains_key(q) && q == abs(spec_join(dir, shard_name(data_hash(b.files@[q])))))
}
impl MDBShardFile {
    // PROVED IN U-SHWRITEOUT (contract text copied verbatim; `impl AsRef<Path>` / `R: Read` as substituted there)
    #[verifier::external_body]
    fn write_out_from_reader(vx_fs: &mut VxFs, target_directory: &Path, reader: &mut VxCursor) -> (r: Result<Arc<MDBShardFile>>)
        requires cache_wf(*old(vx_fs)),
        ensures
            cache_wf(*final(vx_fs)),
            r matches Ok(sf) ==> final(vx_fs).files@.contains_key(sf.path) && final(vx_fs).files@[sf.path] == old(reader).data@,
            r matches Ok(sf) ==> sf.shard_hash == data_hash(old(reader).data@) && sf.path == abs(spec_join(*target_directory, shard_name(sf.shard_hash))),
            r matches Ok(sf) ==> same_final_except(*old(vx_fs), *final(vx_fs), sf.path),
            r is Err ==> same_final_or_written(*old(vx_fs), *final(vx_fs), *target_directory, old(reader).data@),
    { unimplemented!() }
    // PROVED IN U-SHHANDLE (`get_reader`: `BufReader::with_capacity(2048, File::open(&self.path)?)`; absent file => Err(NotFound), Ok => the
    // file's bytes), restated over the explicit directory of U-SHWRITEOUT (`File::open` resolves the path: key `abs(path)`)
    #[verifier::external_body]
    fn get_reader(&self, fs: &VxFs) -> (r: Result<VxSrc>)
        ensures
            !fs.files@.contains_key(abs(self.path)) ==> r is Err,
            r matches Ok(rd) ==> fs.files@.contains_key(abs(self.path)) && rd.data@ == fs.files@[abs(self.path)],
    { unimplemented!() }
    // `#[cfg(debug_assertions)] self.verify_shard_integrity()`: re-reads the file and panics on a mismatch; no effect on state
    #[verifier::external_body]
    fn verify_shard_integrity_debug_only(&self) { unimplemented!() }

//@ extract mdb_shard/src/shard_file_handle.rs in `impl MDBShardFile` fn export_as_keyed_shard
//@ ret r
//@ subst `target_directory: impl AsRef<Path>` => `vx_fs: &mut VxFs, target_directory: &Path` :: explicit file system (U-SHWRITEOUT's model); `impl AsRef<Path>` as there
//@ subst `self.get_reader()` => `self.get_reader(&*vx_fs)` :: explicit file system
//@ subst `Self::write_out_from_reader(` => `Self::write_out_from_reader(vx_fs, ` :: explicit file system and cache
//@ subst `Cursor::new` => `VxCursor::new` :: R11 reader stub of U-SHWRITEOUT
//@ contract
        requires
            cache_wf(*old(vx_fs)),
            // the handle's in-memory info is the one parsed from its file (`load_from_hash_and_path`); feeds the callee's debug assertions only
            /*@AUX*/ old(vx_fs).files@.contains_key(abs(self.path)) ==> info_of(self.shard, old(vx_fs).files@[abs(self.path)]),
        ensures
            cache_wf(*final(vx_fs)),
            // C18: the new shard FILE's content is a re-export of this handle's file under the caller's key / validity, with the file
            // records kept iff the caller's include_file_info, the xorb table iff the caller's include_cas_lookup_table, the chunk table iff
            // the caller's include_chunk_lookup_table
            /*@C18*/ r matches Ok(sf) ==> old(vx_fs).files@.contains_key(abs(self.path)) && final(vx_fs).files@.contains_key(sf.path)
                && export_spec(final(vx_fs).files@[sf.path], old(vx_fs).files@[abs(self.path)], hmac_key, key_valid_for,
                               include_file_info, include_cas_lookup_table, include_chunk_lookup_table),
            // the new file is named by the hash of the bytes written, in the target directory, and the returned handle refers to it
            /*@C18*/ r matches Ok(sf) ==> sf.shard_hash == data_hash(final(vx_fs).files@[sf.path])
                && sf.path == abs(spec_join(*target_directory, shard_name(sf.shard_hash))),
            // no other shard file appears, disappears or changes
            /*@AUX*/ r matches Ok(sf) ==> same_final_except(*old(vx_fs), *final(vx_fs), sf.path),
            // errors propagate: no source file => Err; after an Err the directory's shard files are as before, or one complete
            // hash-named file was added by the writer
            /*@C18*/ !old(vx_fs).files@.contains_key(abs(self.path)) ==> r is Err,
            /*@AUX*/ r is Err ==> err_frame(*old(vx_fs), *final(vx_fs), *target_directory),
//@ end

//@ extract mdb_shard/src/shard_file_handle.rs in `impl MDBShardFile` fn export_with_expiration
//@ ret r
//@ subst `target_directory: impl AsRef<Path>` => `vx_fs: &mut VxFs, target_directory: &Path` :: explicit file system (U-SHWRITEOUT's model)
//@ subst `std::time::UNIX_EPOCH` => `vx_unix_epoch()` :: R11 stub of the std constant (SystemTime is a stub type)
//@ subst `std::mem::size_of::<MDBShardFileFooter>()` => `vx_footer_size()` :: capacity hint only (size_of of a struct needs a layout declaration)
//@ subst `File::open(&self.path)` => `vx_fs.open(&self.path)` :: explicit file system
//@ subst `Self::write_out_from_reader(` => `Self::write_out_from_reader(vx_fs, ` :: explicit file system and cache
//@ subst `Cursor::new` => `VxCursor::new` :: R11 reader stub of U-SHWRITEOUT
//@ contract
        requires cache_wf(*old(vx_fs)),
        ensures
            cache_wf(*final(vx_fs)),
            // C18 (expiry half): the new file is the old one up to its footer, followed by the handle's footer with ONLY the expiry replaced
            // by (a clock reading taken during the call + the caller's shard_valid_for), in epoch seconds
            /*@C18*/ r matches Ok(sf) ==> old(vx_fs).files@.contains_key(abs(self.path)) && final(vx_fs).files@.contains_key(sf.path)
                && exists|now: SystemTime| #[trigger] is_now(now)
                    && final(vx_fs).files@[sf.path] == restamped(old(vx_fs).files@[abs(self.path)], self.shard.metadata, expiry_secs(now, shard_valid_for)),
            /*@C18*/ r matches Ok(sf) ==> sf.shard_hash == data_hash(final(vx_fs).files@[sf.path])
                && sf.path == abs(spec_join(*target_directory, shard_name(sf.shard_hash))),
            /*@AUX*/ r matches Ok(sf) ==> same_final_except(*old(vx_fs), *final(vx_fs), sf.path),
            /*@C18*/ !old(vx_fs).files@.contains_key(abs(self.path)) ==> r is Err,
            /*@AUX*/ r is Err ==> err_frame(*old(vx_fs), *final(vx_fs), *target_directory),
//@ end
}

} // verus!
fn main() {}
