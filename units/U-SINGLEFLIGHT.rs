//@ unit U-SINGLEFLIGHT
//@ props C20
//@ verus-args --rlimit 100 --triggers-mode silent
//@ gsubst `impl Future<Output = SingleflightResult<T, E>> + '_` => `VxResultFuture<T, E>` :: R11 the anonymous future type returned by `Call::get_future` is named: `Either<VxFuture<R>, VxFuture<R>>` of two outlined async blocks (R16c)
#![feature(allocator_api)]
#![allow(non_snake_case, unused)]
use vstd::prelude::*;
use vstd::std_specs::hash::*;
use std::collections::HashMap;
use std::fmt::Debug;
use std::marker::PhantomData;
use std::sync::Arc;
use std::task::{ready, Poll};
verus! {
global size_of usize == 8;

// std::task::Poll is used as is (the `ready!` macro of std expands to a match on it)
#[verifier::accept_recursive_types(T)]
#[verifier::external_type_specification]
pub struct ExPoll<T>(std::task::Poll<T>);

// =====================================================================================================================
// `HashMap<String, V>` looked up with `&str` keys: vstd specifies `get`/`remove` through the uninterpreted
// `contains_borrowed_key` family and only interprets it for `Q = K`.  Assumed: a `String` is determined by its characters
// (`skey`), `String: Borrow<str>` compares by characters, `String` hashes/compares deterministically.
// =====================================================================================================================
pub uninterp spec fn skey(k: Seq<char>) -> String;
pub broadcast axiom fn axiom_skey_view(k: Seq<char>) ensures (#[trigger] skey(k))@ == k;
pub broadcast axiom fn axiom_skey_ext(s: String) ensures #[trigger] skey(s@) == s;
pub broadcast axiom fn axiom_str_contains<V>(m: Map<String, V>, k: &str)
    ensures #[trigger] contains_borrowed_key(m, k) <==> m.contains_key(skey(k@));
pub broadcast axiom fn axiom_str_maps<V>(m: Map<String, V>, k: &str, v: V)
    ensures #[trigger] maps_borrowed_key_to_value(m, k, v) <==> m.contains_key(skey(k@)) && m[skey(k@)] == v;
pub broadcast axiom fn axiom_str_removed<V>(m: Map<String, V>, m2: Map<String, V>, k: &str)
    ensures #[trigger] borrowed_key_removed(m, m2, k) <==> m2 == m.remove(skey(k@));
pub broadcast axiom fn axiom_string_key_model() ensures #[trigger] obeys_key_model::<String>();
/// `Arc::clone` hands back the same allocation (vstd specifies the direct call `a.clone()` so, but not the `cloned(..)` relation
/// that `Option::<&Arc<_>>::cloned` is specified with)
pub broadcast axiom fn axiom_arc_cloned<X>(a: Arc<X>, b: Arc<X>) ensures #[trigger] cloned(a, b) ==> a == b;
pub broadcast group group_str_keys {
    axiom_arc_cloned, axiom_skey_view, axiom_skey_ext, axiom_str_contains, axiom_str_maps, axiom_str_removed, axiom_string_key_model
}

// =====================================================================================================================
// R11 stubs for tokio / parking_lot / std atomics
// =====================================================================================================================
pub mod tokio {
    pub mod sync {
        use vstd::prelude::*;
        #[verifier::external_body]
        #[verifier::accept_recursive_types(T)]
        pub struct Mutex<T> { _p: std::marker::PhantomData<T> }
        impl<T> Mutex<T> {
            /// the guard is modelled as `&mut T`; the protected value is ARBITRARY: whatever other tasks did before
            #[verifier::external_body]
            pub fn lock(&self) -> (r: &mut T) { unimplemented!() }
        }
        impl<T> Default for Mutex<T> {
            #[verifier::external_body]
            fn default() -> Self { unimplemented!() }
        }

        #[verifier::external_body]
        pub struct Notify { _p: () }
        /// a registration with a Notify (tokio: a `Notified` receives `notify_waiters()` wake-ups from its creation on)
        #[verifier::external_body]
        pub struct Notified { _p: () }
        impl Notified {
            pub uninterp spec fn source(&self) -> Notify;
        }
        /// `notify_waiters()` has been called on this Notify earlier in this activation
        pub uninterp spec fn vx_notified(nt: Notify) -> bool;
        /// capability: `notify_waiters()` may be called now (see `vx_allow_notify`)
        pub uninterp spec fn vx_may_notify(nt: Notify) -> bool;
        impl Notify {
            #[verifier::external_body]
            pub fn new() -> Self { unimplemented!() }
            #[verifier::external_body]
            pub fn notified(&self) -> (n: Notified)
                ensures n.source() == *self
            { unimplemented!() }
            #[verifier::external_body]
            pub fn notify_waiters(&self)
                requires /*@C20*/ vx_may_notify(*self),
                ensures vx_notified(*self),
            { unimplemented!() }
        }
    }
    pub mod task {
        use vstd::prelude::*;
        #[verifier::external_body]
        pub struct JoinError { _p: () }
        impl JoinError {
            /// stands for `<JoinError as ToString>::to_string`
            #[verifier::external_body]
            pub fn to_string(&self) -> String { unimplemented!() }
        }
        #[verifier::external_body]
        #[verifier::accept_recursive_types(R)]
        pub struct JoinHandle<R> { _p: std::marker::PhantomData<R> }
        impl<R> JoinHandle<R> {
            /// prophecy value: what awaiting the handle yields (Err = the task panicked or was cancelled)
            pub uninterp spec fn outcome(&self) -> Result<R, JoinError>;
        }
        /// the handle has been awaited to the end (the task is over: returned, panicked or cancelled) earlier in this activation
        pub uninterp spec fn vx_awaited<R>(h: JoinHandle<R>) -> bool;
    }
    pub mod runtime {
        use vstd::prelude::*;
        use super::task::JoinHandle;
        /// what `Handle::spawn` needs to know about a task type
        pub trait VxSpawnable: Sized {
            type Output;
            /// capability demanded of the spawner
            spec fn spawn_ok(&self) -> bool;
            /// marker obtained by spawning
            spec fn spawned(&self) -> bool;
            /// `h` is the join handle of this task
            spec fn handle_is(&self, h: JoinHandle<Self::Output>) -> bool;
        }
        pub struct Handle { _p: () }
        impl Handle {
            #[verifier::external_body]
            pub fn current() -> Handle { unimplemented!() }
            #[verifier::external_body]
            pub fn spawn<Fut: VxSpawnable>(&self, task: Fut) -> (h: JoinHandle<Fut::Output>)
                requires /*@C20*/ task.spawn_ok(),
                ensures task.spawned(), task.handle_is(h),
            { unimplemented!() }
        }
    }
}
use tokio::sync::{Mutex, Notify, Notified, vx_notified, vx_may_notify};
use tokio::task::{JoinError, JoinHandle, vx_awaited};
use tokio::runtime::{Handle, VxSpawnable};

// ---- parking_lot::RwLock: guards are objects with an explicit release (rule Rg writes the scope-end drop down) ---------
pub trait VxCloneRel: Sized {
    /// what `<Self as Clone>::clone` relates (argument, result)
    spec fn vx_clone_rel(a: Self, b: Self) -> bool;
}
#[verifier::external_body]
#[verifier::accept_recursive_types(T)]
pub struct RwLock<T> { _p: PhantomData<T> }
#[verifier::external_body]
#[verifier::accept_recursive_types(T)]
pub struct RwLockReadGuard<T> { _p: PhantomData<T> }
#[verifier::external_body]
#[verifier::accept_recursive_types(T)]
pub struct RwLockWriteGuard<T> { _p: PhantomData<T> }
impl<T> RwLock<T> {
    /// identity of the lock in the ghost set of locks the running activation holds (rule Rh threads that set)
    pub uninterp spec fn id(&self) -> int;
    #[verifier::external_body]
    pub fn new(v: T) -> Self { unimplemented!() }
    /// the protected value seen by the guard is ARBITRARY (whatever writers did before).
    /// parking_lot's RwLock is not re-entrant: acquiring it while this activation already holds a guard of the same lock
    /// (read or write) can deadlock, so the acquisition REQUIRES that the lock is not in the held set
    #[verifier::external_body]
    pub fn read(&self, Ghost(held): Ghost<Set<int>>) -> (g: RwLockReadGuard<T>)
        requires /*@C20*/ !held.contains(self.id()),
        ensures g.live(), g.lock_of() == *self,
    { unimplemented!() }
    #[verifier::external_body]
    pub fn write(&self, Ghost(held): Ghost<Set<int>>) -> (g: RwLockWriteGuard<T>)
        requires /*@C20*/ !held.contains(self.id()),
        ensures g.live(), g.lock_of() == *self,
    { unimplemented!() }
}
impl<T> RwLockReadGuard<T> {
    pub uninterp spec fn live(&self) -> bool;
    pub uninterp spec fn lock_of(&self) -> RwLock<T>;
    /// the protected value (cannot change while a read guard is live)
    pub uninterp spec fn value(&self) -> T;
}
impl<T: VxCloneRel> RwLockReadGuard<T> {
    /// stands for `Deref::deref(&guard).clone()` (a guard is not `Clone`: method resolution goes through the deref)
    #[verifier::external_body]
    pub fn clone(&self) -> (r: T)
        requires self.live(),
        ensures T::vx_clone_rel(self.value(), r),
    { unimplemented!() }
}
impl<T> RwLockWriteGuard<T> {
    pub uninterp spec fn live(&self) -> bool;
    pub uninterp spec fn lock_of(&self) -> RwLock<T>;
    pub uninterp spec fn value(&self) -> T;
    /// stands for `*guard = v` (DerefMut assignment)
    #[verifier::external_body]
    pub fn vx_store(&mut self, v: T)
        requires old(self).live(),
        ensures final(self).live(), final(self).lock_of() == old(self).lock_of(), final(self).value() == v,
    { unimplemented!() }
}
/// the scope-end drop of a read guard, written down by rule Rg
#[verifier::external_body]
pub fn vx_release_read<T>(g: &mut RwLockReadGuard<T>)
    requires old(g).live(),
    ensures !final(g).live(), final(g).lock_of() == old(g).lock_of(), final(g).value() == old(g).value(),
{ unimplemented!() }
#[verifier::external_body]
pub fn vx_release_write<T>(g: &mut RwLockWriteGuard<T>)
    requires old(g).live(),
    ensures !final(g).live(), final(g).lock_of() == old(g).lock_of(), final(g).value() == old(g).value(),
{ unimplemented!() }

// ---- std atomics -----------------------------------------------------------------------------------------------------
pub enum Ordering { SeqCst }
/// `store` takes `&mut self` here (std: `&self`): the code under proof reaches the flag only through the exclusive pin
/// projection (`&mut AtomicBool`), which rustc checks on the extracted text; under exclusive access the sequential spec is exact
#[verifier::external_body]
pub struct AtomicBool { _p: () }
impl AtomicBool {
    pub uninterp spec fn val(&self) -> bool;
    #[verifier::external_body] pub fn new(v: bool) -> (r: Self) ensures r.val() == v { unimplemented!() }
    #[verifier::external_body] pub fn store(&mut self, v: bool, o: Ordering) ensures final(self).val() == v { unimplemented!() }
    #[verifier::external_body] pub fn load(&self, o: Ordering) -> (r: bool) ensures r == self.val() { unimplemented!() }
}
#[verifier::external_body]
pub struct AtomicU16 { _p: () }
impl AtomicU16 {
    #[verifier::external_body] pub fn new(v: u16) -> Self { unimplemented!() }
    #[verifier::external_body] pub fn fetch_add(&self, v: u16, o: Ordering) -> u16 { unimplemented!() }
    #[verifier::external_body] pub fn load(&self, o: Ordering) -> u16 { unimplemented!() }
}

// ---- futures ---------------------------------------------------------------------------------------------------------
pub struct Context<'a> { _p: PhantomData<&'a ()> }
pub enum Either<A, B> { Left(A), Right(B) }
/// opaque future produced by R16c from an `async move { .. }` block
#[verifier::external_body]
#[verifier::accept_recursive_types(R)]
pub struct VxFuture<R> { _p: PhantomData<R> }
impl<R> VxFuture<R> {
    /// prophecy value: what awaiting it yields
    pub uninterp spec fn outcome(&self) -> R;
}
/// the async block that became `f` captured the variable whose value is `x`
pub uninterp spec fn vx_captures<R, X>(f: VxFuture<R>, x: X) -> bool;
#[verifier::external_body]
pub fn vx_async_block0<R>() -> (f: VxFuture<R>) { unimplemented!() }
#[verifier::external_body]
pub fn vx_async_block1<A, R>(a: A) -> (f: VxFuture<R>) ensures vx_captures(f, a) { unimplemented!() }
#[verifier::external_body]
pub fn vx_async_block2<A, B, R>(a: A, b: B) -> (f: VxFuture<R>) ensures vx_captures(f, a), vx_captures(f, b) { unimplemented!() }
pub type VxResultFuture<T, E> = Either<VxFuture<SingleflightResult<T, E>>, VxFuture<SingleflightResult<T, E>>>;
pub open spec fn either_outcome<R>(f: Either<VxFuture<R>, VxFuture<R>>) -> R {
    match f { Either::Left(a) => a.outcome(), Either::Right(b) => b.outcome() }
}
/// `f.await` of a future VALUE (R1 erases `.await`; for a call of an async fn that is all, for a stored future the value is taken here)
#[verifier::external_body]
pub fn vx_await<R>(f: Either<VxFuture<R>, VxFuture<R>>) -> (r: R) ensures r == either_outcome(f) { unimplemented!() }
/// `tokio::join!(h, f)`: both are awaited, the pair of their values is returned
#[verifier::external_body]
pub fn vx_join2<R, X>(h: JoinHandle<R>, f: Either<VxFuture<X>, VxFuture<X>>) -> (r: (Result<R, JoinError>, X))
    ensures r.0 == h.outcome(), r.1 == either_outcome(f), vx_awaited(h)
{ unimplemented!() }

/// the supplied task: `Future<Output = Result<T, E>> + Send` in the code; here a trait with an opaque `poll`
pub trait TaskFuture<T, E>: Sized {
    /// the task, in this state, finished with `x`
    spec fn vx_returned(&self, x: Result<T, E>) -> bool;
    fn poll(&mut self, cx: &mut Context<'_>) -> (r: Poll<Result<T, E>>)
        ensures r matches Poll::Ready(x) ==> old(self).vx_returned(x);
}

// ---- std specs missing from vstd ---------------------------------------------------------------------------------------
pub assume_specification<T: Clone, E: Clone> [<Result<T, E> as Clone>::clone] (a: &Result<T, E>) -> (r: Result<T, E>)
    ensures match (*a, r) { (Ok(t), Ok(t2)) => cloned(t, t2), (Err(e), Err(e2)) => call_ensures(E::clone, (&e,), e2), _ => false };
pub assume_specification<T, E, U> [Result::<T, E>::and] (a: Result<T, E>, b: Result<U, E>) -> (r: Result<U, E>)
    ensures r == (match a { Ok(_) => b, Err(e) => Err(e) });

// =====================================================================================================================
// the code's own types
// =====================================================================================================================
//@ extract utils/src/singleflight.rs trait ResultType
//@ end
impl<T: Send + Clone + Sync + Debug> ResultType for T {}   // blanket impl of the marker trait (singleflight.rs:67), no body
//@ extract utils/src/singleflight.rs trait ResultError
//@ end
impl<E: Send + Debug + Sync> ResultError for E {}           // blanket impl of the marker trait (singleflight.rs:73), no body
//@ extract utils/src/errors.rs enum SingleflightError
//@ subst `enum SingleflightError<E>` => `pub enum SingleflightError<E>` :: visibility restored (R10 drops `pub`; the `Clone` impl's postcondition must be able to name the variants)
//@ end
//@ extract utils/src/singleflight.rs type SingleflightResult
//@ end
//@ extract utils/src/singleflight.rs type CallMap
//@ end
//@ extract utils/src/singleflight.rs struct Call
//@ end
//@ extract utils/src/singleflight.rs struct Group
//@ subst `PhantomData<fn(E)>` => `PhantomData<E>` :: variance marker only (fn-pointer types are outside Verus); never read
//@ end
//@ extract utils/src/singleflight.rs struct OwnerTask
//@ end

// ---- Clone for SingleflightError (the waiters' copies): InternalError(e) becomes WaiterInternalError(format!("{e:?}")) ------
pub uninterp spec fn vx_debug_fmt<E>(e: E) -> Seq<char>;
/// R7 outline of `format!("{e:?}")`
#[verifier::external_body]
pub fn vx_debug_string<E: Debug>(e: &E) -> (r: String) ensures r@ == vx_debug_fmt(*e) { format!("{e:?}") }
pub open spec fn sf_err_cloned<E: ResultError>(a: SingleflightError<E>, b: SingleflightError<E>) -> bool {
    match a {
        SingleflightError::NoResult => b is NoResult,
        SingleflightError::CallMissing => b is CallMissing,
        SingleflightError::NoNotifierCreated => b is NoNotifierCreated,
        SingleflightError::InternalError(e) => b matches SingleflightError::WaiterInternalError(s) && s@ == vx_debug_fmt(e),
        SingleflightError::WaiterInternalError(s) => b matches SingleflightError::WaiterInternalError(s2) && s2@ == s@,
        SingleflightError::JoinError(s) => b matches SingleflightError::JoinError(s2) && s2@ == s@,
        SingleflightError::OwnerPanicked => b is OwnerPanicked,
    }
}
spec fn sf_res_cloned<T: ResultType, E: ResultError>(a: SingleflightResult<T, E>, b: SingleflightResult<T, E>) -> bool {
    match a {
        Ok(t) => b matches Ok(t2) && cloned(t, t2),
        Err(e) => b matches Err(e2) && sf_err_cloned(e, e2),
    }
}
impl<E: Send + std::fmt::Debug + Sync> Clone for SingleflightError<E> {
//@ extract utils/src/errors.rs in `impl<E: Send + std::fmt::Debug + Sync> Clone for SingleflightError<E>` fn clone
//@ ret r
//@ subst `format!("{e:?}")` => `vx_debug_string(e)` :: R7 outline of the Debug formatting (format! is outside Verus); result = uninterpreted function of `e`
//@ contract
        ensures sf_err_cloned(*self, r),
//@ end
}
/// the stored value as the read guard's `clone()` hands it out (Option / Result clone structurally, the error by the impl above)
impl<T: ResultType, E: ResultError> VxCloneRel for Option<SingleflightResult<T, E>> {
    closed spec fn vx_clone_rel(a: Self, b: Self) -> bool {
        match a { None => b is None, Some(x) => b matches Some(y) && sf_res_cloned(x, y) }
    }
}
/// `Result::map_err(|e| SingleflightError::InternalError(e))`
spec fn map_internal<T, E: ResultError>(x: Result<T, E>) -> SingleflightResult<T, E> {
    match x { Ok(t) => Ok(t), Err(e) => Err(SingleflightError::InternalError(e)) }
}

// =====================================================================================================================
// capabilities and ghost event markers (uninterpreted; each is obtainable ONLY from the stub / lemma named with it, which
// demands the facts it stands for at the place it is called.  Conservative: reading every one as `true` satisfies all
// assumed contracts, so they add no logical strength.)
// =====================================================================================================================
/// a critical section of the call_map found `key` absent and ended with `key -> call` inserted by this activation
pub uninterp spec fn vx_flight_owner<T: ResultType, E: ResultError>(key: Seq<char>, call: Arc<Call<T, E>>) -> bool;
/// a critical section of the call_map found `key -> call` and left the map unchanged
pub uninterp spec fn vx_flight_joined<T: ResultType, E: ResultError>(key: Seq<char>, call: Arc<Call<T, E>>) -> bool;
/// a critical section of the call_map ended with `key` absent
pub uninterp spec fn vx_key_absent(key: Seq<char>) -> bool;
/// `h` is the join handle of the OwnerTask spawned for `call`
pub uninterp spec fn vx_handle_for<T: ResultType, E: ResultError>(h: JoinHandle<Result<T, SingleflightError<E>>>, call: Arc<Call<T, E>>) -> bool;
/// capability: `remove_call(key)` may be called now (see `vx_allow_remove`)
pub uninterp spec fn vx_may_remove(key: Seq<char>) -> bool;
/// `fut` was wrapped in an OwnerTask for `call` and handed to the runtime
pub uninterp spec fn vx_spawned<F, T: ResultType, E: ResultError>(fut: F, call: Arc<Call<T, E>>) -> bool;
/// `res` may be published as the flight's outcome: it is a clone of the task's own (error-mapped) result, or the panic notice
/// issued with `got_response == false`
pub uninterp spec fn vx_publishable<T: ResultType, E: ResultError>(res: SingleflightResult<T, E>) -> bool;
/// under one write guard of `call.res`: `Some(res)` stored and `call.nt.notify_waiters()` called
pub uninterp spec fn vx_completed<T: ResultType, E: ResultError>(call: Call<T, E>, res: SingleflightResult<T, E>) -> bool;
/// the registration `n` existed while the read guard `g` was still held
pub uninterp spec fn vx_registered_before_release<X>(g: RwLockReadGuard<X>, n: Notified) -> bool;
/// `f` is `async move { v }` for a clone `v` of the value found stored under a read guard of `call.res`
pub uninterp spec fn vx_ready_future<T: ResultType, E: ResultError>(call: Call<T, E>, f: VxFuture<SingleflightResult<T, E>>) -> bool;
/// `f` is `async move { n.await; call.get() }` where the read guard of `call.res` saw None and `n` is a registration with
/// `call.nt` obtained before that guard was released
pub uninterp spec fn vx_waiting_future<T: ResultType, E: ResultError>(call: Call<T, E>, f: VxFuture<SingleflightResult<T, E>>) -> bool;
/// `r` is a clone of the value stored in `call.res`, or `Err(NoResult)` if nothing is stored (read under one read guard)
pub uninterp spec fn vx_got<T: ResultType, E: ResultError>(call: Call<T, E>, r: SingleflightResult<T, E>) -> bool;

/// what `Call::get_future` returns
spec fn vx_result_future<T: ResultType, E: ResultError>(call: Call<T, E>, f: VxResultFuture<T, E>) -> bool {
    match f { Either::Left(g) => vx_ready_future(call, g), Either::Right(g) => vx_waiting_future(call, g) }
}
#[verifier::external_body]
proof fn vx_mark_created<T: ResultType, E: ResultError>(key: &str, m0: Map<String, Arc<Call<T, E>>>, m1: Map<String, Arc<Call<T, E>>>, c: Arc<Call<T, E>>)
    requires
        /*@C20*/ !m0.contains_key(skey(key@)),
        /*@C20*/ m1 == m0.insert(skey(key@), c),
    ensures vx_flight_owner(key@, c),
{}
#[verifier::external_body]
proof fn vx_mark_joined<T: ResultType, E: ResultError>(key: &str, m0: Map<String, Arc<Call<T, E>>>, m1: Map<String, Arc<Call<T, E>>>, c: Arc<Call<T, E>>)
    requires
        /*@C20*/ m0.contains_key(skey(key@)) && m0[skey(key@)] == c,
        /*@C20*/ m1 == m0,
    ensures vx_flight_joined(key@, c),
{}
#[verifier::external_body]
proof fn vx_mark_absent<T: ResultType, E: ResultError>(key: &str, m1: Map<String, Arc<Call<T, E>>>)
    requires /*@C20*/ !m1.contains_key(skey(key@)),
    ensures vx_key_absent(key@),
{}
/// only the creator of the entry `key -> c` removes it, and only after the task it spawned for `c` has been joined
#[verifier::external_body]
proof fn vx_allow_remove<T: ResultType, E: ResultError>(key: &str, c: Arc<Call<T, E>>, h: JoinHandle<Result<T, SingleflightError<E>>>)
    requires
        /*@C20*/ vx_flight_owner(key@, c),
        /*@C20*/ vx_handle_for(h, c),
        /*@C20*/ vx_awaited(h),
    ensures vx_may_remove(key@),
{}
#[verifier::external_body]
proof fn vx_pub_task<T: ResultType, E: ResultError, F: TaskFuture<T, E>>(fut: F, x: Result<T, E>, res: SingleflightResult<T, E>)
    requires
        /*@C20*/ fut.vx_returned(x),
        /*@C20*/ res == map_internal(x),
    ensures forall|res2: SingleflightResult<T, E>| sf_res_cloned(res, res2) ==> #[trigger] vx_publishable(res2),
{}
#[verifier::external_body]
proof fn vx_pub_panic<T: ResultType, E: ResultError>(got_response: bool)
    requires /*@C20*/ !got_response,
    ensures vx_publishable::<T, E>(Err(SingleflightError::OwnerPanicked)),
{}
#[verifier::external_body]
proof fn vx_allow_notify<T: ResultType, E: ResultError>(call: &Call<T, E>, g: RwLockWriteGuard<Option<SingleflightResult<T, E>>>)
    requires
        /*@C20*/ g.live(),
        /*@C20*/ g.lock_of() == *call.res,
    ensures vx_may_notify(*call.nt),
{}
#[verifier::external_body]
proof fn vx_mark_completed<T: ResultType, E: ResultError>(call: &Call<T, E>, g: RwLockWriteGuard<Option<SingleflightResult<T, E>>>, res: SingleflightResult<T, E>)
    requires
        /*@C20*/ g.live(),
        /*@C20*/ g.lock_of() == *call.res,
        /*@C20*/ g.value() == Some(res),
        /*@C20*/ vx_notified(*call.nt),
    ensures vx_completed(*call, res),
{}
#[verifier::external_body]
proof fn vx_note_registered<X>(g: RwLockReadGuard<X>, n: Notified)
    requires /*@C20*/ g.live(),
    ensures vx_registered_before_release(g, n),
{}
#[verifier::external_body]
proof fn vx_mark_ready<T: ResultType, E: ResultError>(call: &Call<T, E>, g: RwLockReadGuard<Option<SingleflightResult<T, E>>>, f: VxFuture<SingleflightResult<T, E>>)
    requires
        /*@C20*/ g.live(),
        /*@C20*/ g.lock_of() == *call.res,
        /*@C20*/ exists|v: SingleflightResult<T, E>| (g.value() matches Some(x) && sf_res_cloned(x, v)) && #[trigger] vx_captures(f, v),
    ensures vx_ready_future(*call, f),
{}
#[verifier::external_body]
proof fn vx_mark_waiting<T: ResultType, E: ResultError>(call: &Call<T, E>, g: RwLockReadGuard<Option<SingleflightResult<T, E>>>, f: VxFuture<SingleflightResult<T, E>>)
    requires
        /*@C20*/ g.live(),
        /*@C20*/ g.lock_of() == *call.res,
        /*@C20*/ g.value() is None,
        /*@C20*/ exists|n: Notified| #[trigger] vx_captures(f, n) && n.source() == *call.nt && vx_registered_before_release(g, n),
        /*@C20*/ vx_captures(f, call),
    ensures vx_waiting_future(*call, f),
{}
#[verifier::external_body]
proof fn vx_mark_got<T: ResultType, E: ResultError>(call: &Call<T, E>, g: RwLockReadGuard<Option<SingleflightResult<T, E>>>, r: SingleflightResult<T, E>)
    requires
        /*@C20*/ g.live(),
        /*@C20*/ g.lock_of() == *call.res,
        /*@C20*/ match g.value() { None => r == Err::<T, SingleflightError<E>>(SingleflightError::NoResult), Some(x) => sf_res_cloned(x, r) },
    ensures vx_got(*call, r),
{}

impl<T: ResultType, E: ResultError, F: TaskFuture<T, E>> VxSpawnable for OwnerTask<T, E, F> {
    type Output = Result<T, SingleflightError<E>>;
    /// only the creator of the flight's map entry may spawn, and it spawns a task that has not answered yet
    closed spec fn spawn_ok(&self) -> bool {
        (exists|k: Seq<char>| #[trigger] vx_flight_owner(k, self.call)) && !self.got_response.val()
    }
    closed spec fn spawned(&self) -> bool { vx_spawned(self.fut, self.call) }
    closed spec fn handle_is(&self, h: JoinHandle<Self::Output>) -> bool { vx_handle_for(h, self.call) }
}

// =====================================================================================================================
// (d) Call: complete / get_future / get under the result RwLock
// =====================================================================================================================
impl<T, E> Call<T, E>
where
    T: ResultType,
    E: ResultError,
{
//@ extract utils/src/singleflight.rs in `impl<T, E> Call<T, E> where T: ResultType, E: ResultError,` fn new
//@ end

//@ extract utils/src/singleflight.rs in `impl<T, E> Call<T, E> where T: ResultType, E: ResultError,` fn complete
//@ rules R3k Rg Rh
//@ contract
        requires
            // the caller holds no guard of this call's result lock (the lock is not re-entrant)
            /*@C20*/ !vx_held0.contains(self.res.id()),
            // only the task's own result (cloned) or the panic notice is ever published
            /*@C20*/ vx_publishable(res),
        ensures
            // Some(res) is stored and the waiters are notified under one write guard
            /*@C20*/ vx_completed(*self, res),
//@ before `self.nt.notify_waiters();`
        proof { /*@C20*/ vx_allow_notify(self, val); }
//@ before `vx_release_write(&mut val);`
        proof { /*@C20*/ vx_mark_completed(self, val, res); }
//@ end

//@ extract utils/src/singleflight.rs in `impl<T, E> Call<T, E> where T: ResultType, E: ResultError,` fn get_future
//@ ret r
//@ rules R3k R16c Rg Rh
//@ contract
        requires
            // the caller holds no guard of this call's result lock (the lock is not re-entrant)
            /*@C20*/ !vx_held0.contains(self.res.id()),
        ensures
            // Left: a stored value is handed out immediately; Right: the waiter is registered with the notifier BEFORE the
            // read guard is released
            /*@C20*/ vx_result_future(*self, r),
//@ after `let notified = self.nt.notified();`
            proof { /*@C20*/ vx_note_registered(res, notified); }
//@ before `vx_release_read(&mut res);`
        let ghost vx_t = vx_tail;
        proof {
            match vx_t {
                Either::Left(f) => { /*@C20*/ vx_mark_ready(self, res, f); },
                Either::Right(f) => { /*@C20*/ vx_mark_waiting(self, res, f); },
            }
        }
//@ end

//@ extract utils/src/singleflight.rs in `impl<T, E> Call<T, E> where T: ResultType, E: ResultError,` fn get
//@ ret r
//@ rules R3k Rg Rh
//@ contract
        requires
            // the caller holds no guard of this call's result lock (the lock is not re-entrant)
            /*@C20*/ !vx_held0.contains(self.res.id()),
        ensures
            /*@C20*/ vx_got(*self, r),
//@ before `vx_release_read(&mut res);`
        proof { /*@C20*/ vx_mark_got(self, res, vx_tail); }
//@ end

// the two async blocks of get_future (what R16c leaves out there)
//@ extract utils/src/singleflight.rs in `impl<T, E> Call<T, E> where T: ResultType, E: ResultError,` region get_future
//@ block `Either::Left(async move {`
//@ sig `fn get_future__ready(result: SingleflightResult<T, E>) -> (r: SingleflightResult<T, E>)`
//@ contract
        ensures /*@C20*/ r == result,
//@ end
//@ extract utils/src/singleflight.rs in `impl<T, E> Call<T, E> where T: ResultType, E: ResultError,` region get_future
//@ block `Either::Right(async move {`
//@ sig `fn get_future__wait(&self, notified: Notified) -> (r: SingleflightResult<T, E>)`
//@ rules R3k Rh
//@ contract
        ensures /*@C20*/ vx_got(*self, r),
//@ end
}

// =====================================================================================================================
// (c) OwnerTask: poll and the pinned drop
// =====================================================================================================================
impl<T, E, F> OwnerTask<T, E, F>
where
    T: ResultType,
    E: ResultError,
    F: TaskFuture<T, E>,
{
//@ extract utils/src/singleflight.rs in `impl<T, E, F> OwnerTask<T, E, F> where T: ResultType, E: ResultError, F: TaskFuture<T, E>,` fn new
//@ ret r
//@ contract
        ensures r.fut == fut, r.call == call, !r.got_response.val(),
//@ end

//@ extract utils/src/singleflight.rs in `impl<T, E, F> Future for OwnerTask<T, E, F> where T: ResultType, E: ResultError, F: TaskFuture<T, E>,` fn poll
//@ ret r
//@ rules R3k Rpin Rcl Rh
//@ subst `Poll<Self::Output>` => `Poll<Result<T, SingleflightError<E>>>` :: R11 the associated type of the `Future` impl written out (the method is placed in an inherent impl: std's `Future`/`Pin` are outside Verus)
//@ contract
        ensures
            /*@C20*/ match r {
                // Ready(res): the flag is set, res is the task's result (error wrapped in InternalError), and the call was
                // completed with a clone of exactly that
                Poll::Ready(res) => final(self).got_response.val()
                    && (exists|x: Result<T, E>| #[trigger] old(self).fut.vx_returned(x) && res == map_internal(x))
                    && (exists|res2: SingleflightResult<T, E>| sf_res_cloned(res, res2) && #[trigger] vx_completed(*old(self).call, res2)),
                // Pending: flag untouched (and nothing completed: `complete` needs `vx_publishable`)
                Poll::Pending => final(self).got_response.val() == old(self).got_response.val(),
            },
            final(self).call == old(self).call,
//@ before `let call =`
        proof { /*@C20*/ vx_pub_task(old(self).fut, vx_x, res); }
//@ after `let res: Result<T, E> = ready!((&mut self.fut).poll(cx));`
        let ghost vx_x = res;
//@ end

//@ extract utils/src/singleflight.rs in `impl<T, E, F> PinnedDrop for OwnerTask<T, E, F> where T: ResultType, E: ResultError, F: TaskFuture<T, E>,` fn drop
//@ rules R3k Rpin Rh
//@ contract
        ensures
            // a task dropped without having answered (panic) publishes the panic notice
            /*@C20*/ !old(self).got_response.val() ==> vx_completed(*old(self).call, Err::<T, SingleflightError<E>>(SingleflightError::OwnerPanicked)),
            final(self).got_response.val() == old(self).got_response.val(),
//@ before `let call =`
            proof { /*@C20*/ vx_pub_panic::<T, E>(self.got_response.val()); }
//@ end
}

// =====================================================================================================================
// (a) (b) Group
// =====================================================================================================================
impl<T, E: 'static> Group<T, E>
where
    T: ResultType + 'static,
    E: ResultError,
{
// ---- (a) the two critical sections of the call_map, as functions of the map the lock hands out --------------------------
//@ extract utils/src/singleflight.rs in `impl<T, E: 'static> Group<T, E> where T: ResultType + 'static, E: ResultError,` region get_call_or_create
//@ from-after `let mut m = self.call_map.lock().await;`
//@ to `) }` #2
//@ sig `fn get_call_or_create__cs(m: &mut CallMap<T, E>, key: &str) -> (r: (Arc<Call<T, E>>, bool))`
//@ contract
        ensures
            /*@C20*/ r.1 <==> !old(m)@.contains_key(skey(key@)),
            /*@C20*/ r.1 ==> final(m)@ == old(m)@.insert(skey(key@), r.0),
            /*@C20*/ !r.1 ==> final(m)@ == old(m)@ && old(m)@[skey(key@)] == r.0,
            // calls with different keys do not affect each other
            /*@C20*/ forall|k: String| k != skey(key@) ==> (final(m)@.contains_key(k) <==> old(m)@.contains_key(k))
                && (old(m)@.contains_key(k) ==> final(m)@[k] == old(m)@[k]),
//@ body-start
        proof { broadcast use group_str_keys; }
//@ end

//@ extract utils/src/singleflight.rs in `impl<T, E: 'static> Group<T, E> where T: ResultType + 'static, E: ResultError,` region remove_call
//@ from-after `let mut m = self.call_map.lock().await;`
//@ to `Ok(())`
//@ sig `fn remove_call__cs(m: &mut CallMap<T, E>, key: &str) -> (r: SingleflightResult<(), E>)`
//@ contract
        ensures
            /*@C20*/ final(m)@ == old(m)@.remove(skey(key@)),
            /*@C20*/ r is Ok <==> old(m)@.contains_key(skey(key@)),
            r matches Err(e) ==> e is CallMissing,
//@ body-start
        proof { broadcast use group_str_keys; }
//@ end

// ---- the whole functions (the lock hands out an arbitrary map) ---------------------------------------------------------
//@ extract utils/src/singleflight.rs in `impl<T, E: 'static> Group<T, E> where T: ResultType + 'static, E: ResultError,` fn get_call_or_create
//@ ret r
//@ contract
        ensures
            /*@C20*/ r.1 ==> vx_flight_owner(key@, r.0),
            /*@C20*/ !r.1 ==> vx_flight_joined(key@, r.0),
//@ after `let mut m = self.call_map.lock();`
        let ghost m0 = m@;
        proof { broadcast use group_str_keys; }
//@ before `(c, false)`
            proof { /*@C20*/ vx_mark_joined(key, m0, m@, c); }
//@ before `(our_call, true)`
            proof { /*@C20*/ vx_mark_created(key, m0, m@, our_call); }
//@ end

//@ extract utils/src/singleflight.rs in `impl<T, E: 'static> Group<T, E> where T: ResultType + 'static, E: ResultError,` fn remove_call
//@ ret r
//@ rules Rq
//@ contract
        requires
            // called by the flight's owner only, after its task has been joined
            /*@C20*/ vx_may_remove(key@),
        ensures
            // a critical section of the call_map ended with `key` absent (whether or not it was found)
            /*@C20*/ vx_key_absent(key@),
//@ after `let mut m = self.call_map.lock();`
        proof { broadcast use group_str_keys; }
//@ before `vx_try1?;`
        proof { /*@C20*/ vx_mark_absent(key, m@); }
//@ end

// ---- (b) work ----------------------------------------------------------------------------------------------------------
//@ extract utils/src/singleflight.rs in `impl<T, E: 'static> Group<T, E> where T: ResultType + 'static, E: ResultError,` fn work
//@ ret r
//@ rules R3k Rh
//@ optsubst `tokio::join!(` => `vx_join2(` :: R11 stub for the join macro: both futures are awaited, the pair of their values is returned
//@ optsubst `(results_future,` => `(vx_await(results_future),` :: R1 erased the `.await` of a future VALUE (`results_future.await` as first tuple component); the stub takes the future's value
//@ contract
        ensures
            /*@C20*/ exists|c: Arc<Call<T, E>>, f: VxResultFuture<T, E>| #![trigger vx_result_future(*c, f)]
                // f is what `c.get_future()` returned
                vx_result_future(*c, f) && (if r.1 {
                    // the owner (bool == created): it created the flight's entry `key -> c`, spawned the supplied future wrapped
                    // in an OwnerTask for `c`, returns only after remove_call(key) ran, and returns Ok only with the value of f
                    vx_flight_owner(key@, c) && vx_spawned(fut, c) && vx_key_absent(key@) && (r.0 is Ok ==> r.0 == either_outcome(f))
                } else {
                    // a waiter: it found `key -> c`, left the map alone, spawned nothing (`spawn` demands the owner capability)
                    // and returns the value of f
                    vx_flight_joined(key@, c) && r.0 == either_outcome(f)
                }),
//@ after `let owner_handle = Handle::current().spawn(owner_task);`
            let ghost vx_h = owner_handle;
//@ before `if let Err(e) = self.remove_call(key)`
            proof { /*@C20*/ vx_allow_remove(key, call, vx_h); }
//@ end

}

} // verus!
fn main() {}
