//@ unit U-SHDIRSCAN
//@ props C11 C19 C18 C10
//@ verus-args --rlimit 100
//@ rules-from shdirscan cacheacct crashfs
//@ gsubst `impl AsRef<Path>` => `&Path` :: R11 narrowing: path arguments at the `&Path` instance (paths are opaque ids here)
//@ gsubst `std::fs::read_dir` => `vx_read_dir` :: R11 stub of the directory listing (ghost sequence of entries)
#![allow(non_snake_case, non_camel_case_types, unused)]
use vstd::prelude::*;
use vstd::std_specs::cmp::*;
use std::cmp::Ordering;
use std::sync::Arc;
verus! {
global size_of usize == 8;

//@ include prelude/setops_merklehash.rs
type HMACKey = MerkleHash;

// ================= paths, names, errors ================================================================================
// stands for std::path::{Path, PathBuf}: an opaque id
struct PathBuf { id: int }
type Path = PathBuf;
struct SystemTime { t: u64 }
// error.rs: only the variant this code constructs is kept apart
enum MDBShardError { BadFilename(String), Other(u8) }
type Result<T> = std::result::Result<T, MDBShardError>;
// MARKER: this error VALUE was handed out by a failing dependency (directory listing, reading one entry, loading a shard file, the
// callback).  `?` with the same error type hands the value on unchanged, so `r matches Err(e) ==> vx_genuine(e)` says: this
// function fails only because a dependency failed - it never makes up a failure of its own (C19/C11: a name that is not a shard
// name is no reason to fail).  Established only by the stubs below.
uninterp spec fn vx_genuine(e: MDBShardError) -> bool;

// std::path::absolute / Path::join / Path::to_str / Path::is_dir at specification level
uninterp spec fn abs(p: PathBuf) -> PathBuf;
uninterp spec fn spec_join(dir: PathBuf, name: Seq<char>) -> PathBuf;
uninterp spec fn spec_to_str(p: PathBuf) -> Option<Seq<char>>;
uninterp spec fn spec_is_dir(p: PathBuf) -> bool;
uninterp spec fn spec_is_file(p: PathBuf) -> bool;
uninterp spec fn spec_exists(p: PathBuf) -> bool;
uninterp spec fn spec_file_name(p: PathBuf) -> Option<&'static OsString>;
uninterp spec fn spec_extension(p: PathBuf) -> Option<&'static OsString>;
uninterp spec fn spec_parent(p: PathBuf) -> Option<&'static PathBuf>;
uninterp spec fn spec_os_str(p: PathBuf) -> OsString;
// utils::parse_shard_filename at specification level.  It is string / regex code (`^[0-9a-fA-F]{64}\.mdb$` on the last path
// component, then from_hex) that Verus cannot reason about: left UNINTERPRETED, assumed on the stub `parse_shard_filename`.
//   name_parses(s): the result for the string s;   path_hash(p): the result for the path p (the same function, U-SHWRITEOUT's name)
uninterp spec fn name_parses(name: Seq<char>) -> Option<MerkleHash>;
uninterp spec fn path_hash(p: PathBuf) -> Option<MerkleHash>;
// utils::shard_file_name (`<hex>.mdb`), utils::temp_shard_file_name / is_temp_shard_file (`.<uuid>.mdb_temp`, "ends with mdb_temp")
uninterp spec fn shard_name(h: MerkleHash) -> Seq<char>;
uninterp spec fn is_temp_name(n: Seq<char>) -> bool;
// ASSUMED (name scheme; each is a statement about parse_shard_filename's regex, see notes):
//  A1  a string whose last component spells h, joined onto any path and made absolute, is a path whose file name spells h
//  A2  a path and its string form have the same file name (absolute keeps the file name)
//  A3  `<hex(h)>.mdb` spells h          A4  a name ending in `mdb_temp` spells no hash
#[verifier::external_body]
proof fn axiom_join_name(d: PathBuf, n: Seq<char>) ensures name_parses(n) is Some ==> path_hash(abs(spec_join(d, n))) == name_parses(n) {}
#[verifier::external_body]
proof fn axiom_to_str_name(p: PathBuf) ensures spec_to_str(p) is Some ==> path_hash(abs(p)) == name_parses(spec_to_str(p)->Some_0) {}
#[verifier::external_body]
proof fn axiom_shard_name_parses(h: MerkleHash) ensures name_parses(shard_name(h)) == Some(h) {}
#[verifier::external_body]
proof fn axiom_temp_name_parses(n: Seq<char>) ensures is_temp_name(n) ==> name_parses(n) is None {}

impl PathBuf {
    #[verifier::external_body]
    fn as_ref(&self) -> (r: &PathBuf) ensures *r == *self { unimplemented!() }
    #[verifier::external_body]
    fn is_dir(&self) -> (r: bool) ensures r == spec_is_dir(*self), r ==> !spec_is_file(*self) && spec_exists(*self) { unimplemented!() }
    // the other std::path queries an edit may plausibly use (none is called on HEAD).  `is_file` / `exists` are tied to the directory
    // model (`listing_consistent`: entry n of d is a regular file iff `spec_is_file(abs(d/n))`; a path is never both file and directory);
    // the rest are uninterpreted functions of the path.
    #[verifier::external_body]
    fn is_file(&self) -> (r: bool) ensures r == spec_is_file(*self), r ==> !spec_is_dir(*self) && spec_exists(*self) { unimplemented!() }
    #[verifier::external_body]
    fn exists(&self) -> (r: bool) ensures r == spec_exists(*self), (spec_is_file(*self) || spec_is_dir(*self)) ==> r { unimplemented!() }
    #[verifier::external_body]
    fn file_name(&self) -> (r: Option<&OsString>) ensures r == spec_file_name(*self) { unimplemented!() }
    #[verifier::external_body]
    fn extension(&self) -> (r: Option<&OsString>) ensures r == spec_extension(*self) { unimplemented!() }
    #[verifier::external_body]
    fn parent(&self) -> (r: Option<&PathBuf>) ensures r == spec_parent(*self) { unimplemented!() }
    #[verifier::external_body]
    fn to_path_buf(&self) -> (r: PathBuf) ensures r == *self { unimplemented!() }
    #[verifier::external_body]
    fn as_os_str(&self) -> (r: &OsString) ensures *r == spec_os_str(*self) { unimplemented!() }
    #[verifier::external_body]
    fn to_str(&self) -> (r: Option<&str>)
        ensures match r { Some(s) => spec_to_str(*self) == Some(s@), None => spec_to_str(*self) is None }
    { unimplemented!() }
    #[verifier::external_body]
    fn join(&self, name: &str) -> (r: PathBuf)
        ensures r == spec_join(*self, name@),
            name_parses(name@) is Some ==> path_hash(abs(r)) == name_parses(name@),     // = axiom_join_name (A1), stated here so that no proof hint is needed at the call sites
    { unimplemented!() }
}
// R7f outline of `format!` (vxlib/rules_extra/crashfs.py): the message text is irrelevant here
#[verifier::external_body]
fn vx_format(lead: &str, trail: &str) -> String { unimplemented!() }
// stub of utils::parse_shard_filename (see name_parses)
#[verifier::external_body]
fn parse_shard_filename(name: &str) -> (r: Option<MerkleHash>) ensures r == name_parses(name@) { unimplemented!() }
// utils::is_temp_shard_file (not called by the code on HEAD; here so that an edit that starts to use it stays decidable)
uninterp spec fn path_is_temp(p: PathBuf) -> bool;
#[verifier::external_body]
fn is_temp_shard_file(p: &Path) -> (r: bool) ensures r == path_is_temp(*p) { unimplemented!() }
// shard_file::current_timestamp: the clock reading of this operation
uninterp spec fn spec_now() -> u64;
#[verifier::external_body]
fn current_timestamp() -> (r: u64) ensures r == spec_now() { unimplemented!() }

//@ extract mdb_shard/src/shard_format.rs struct MDBShardFileHeader
//@ end
//@ extract mdb_shard/src/shard_format.rs struct MDBShardFileFooter
//@ end
//@ extract mdb_shard/src/shard_format.rs struct MDBShardInfo
//@ end
//@ extract mdb_shard/src/shard_file_handle.rs struct MDBShardFile
//@ end

// `Default` of the handle / of the hash exist in the code; nothing is known about the values (an edit that fabricates a handle
// instead of loading one must not be able to pass it off as a loaded one)
impl Default for MerkleHash { #[verifier::external_body] fn default() -> Self { unimplemented!() } }
impl Default for MDBShardFile { #[verifier::external_body] fn default() -> Self { unimplemented!() } }
impl Default for MDBShardInfo { #[verifier::external_body] fn default() -> Self { unimplemented!() } }
// ================= the directory: a ghost sequence of entries ===========================================================
// one directory entry as `read_dir` lists it: its name (and whether the name is valid UTF-8: `OsStr::to_str`), whether it is a
// regular file, and the bytes stored under it
struct DirEnt { name: Seq<char>, utf8: bool, is_file: bool, content: Seq<u8> }
// the listing of directory p at the time of the call (every name once), the bytes under an absolute path, and the shard header /
// footer that `MDBShardInfo::load_from_reader` parses out of such bytes (U-SHSCAN / K-SHARDHDR cover that parser)
uninterp spec fn dir_entries(p: PathBuf) -> Seq<DirEnt>;
uninterp spec fn spec_content(p: PathBuf) -> Seq<u8>;
uninterp spec fn info_of(bytes: Seq<u8>) -> MDBShardInfo;
// the listing and the files agree: the entry called n in directory d is the file abs(d/n)
spec fn listing_consistent(d: PathBuf, ents: Seq<DirEnt>) -> bool {
    forall|i: int| 0 <= i < ents.len() ==> spec_content(abs(spec_join(d, (#[trigger] ents[i]).name))) == ents[i].content
        && spec_is_file(abs(spec_join(d, ents[i].name))) == ents[i].is_file
}
struct OsString { name: Ghost<Seq<char>>, utf8: Ghost<bool> }
impl OsString {
    #[verifier::external_body]
    fn to_str(&self) -> (r: Option<&str>)
        ensures r is Some <==> self.utf8@, r matches Some(s) ==> s@ == self.name@
    { unimplemented!() }
}
struct DirEntry { ent: Ghost<DirEnt> }
impl DirEntry {
    #[verifier::external_body]
    fn file_name(&self) -> (r: OsString) ensures r.name@ == self.ent@.name, r.utf8@ == self.ent@.utf8 { unimplemented!() }
}
// `std::fs::ReadDir`: an iterator without Verus specification (rule cacheacct.R4i desugars the `for` into `loop { match it.next() .. }`).
// It yields the entries of the listing in order, each once, and ends exactly when all were yielded; reading an entry may fail.
// The io::Error -> MDBShardError conversion of the `?` (thiserror `#[from]`) is absorbed in the stubs, as in the other units.
struct ReadDir { ents: Ghost<Seq<DirEnt>>, pos: Ghost<nat> }
impl ReadDir {
    #[verifier::external_body]
    fn into_iter(self) -> (r: ReadDir) ensures r == self { unimplemented!() }
    #[verifier::external_body]
    fn next(&mut self) -> (r: Option<Result<DirEntry>>)
        ensures
            final(self).ents@ == old(self).ents@,
            match r {
                None => old(self).pos@ >= old(self).ents@.len() && final(self).pos@ == old(self).pos@,
                Some(x) => old(self).pos@ < old(self).ents@.len() && final(self).pos@ == old(self).pos@ + 1 && match x {
                    Ok(e) => e.ent@ == old(self).ents@[old(self).pos@ as int],
                    Err(er) => vx_genuine(er),
                },
            },
    { unimplemented!() }
}
#[verifier::external_body]
fn vx_read_dir(path: &Path) -> (r: Result<ReadDir>)
    ensures
        r matches Ok(rd) ==> rd.ents@ == dir_entries(*path) && rd.pos@ == 0 && listing_consistent(*path, rd.ents@),
        r matches Err(e) ==> vx_genuine(e),
{ unimplemented!() }

// ================= what the scan is to do (from the property texts) ====================================================
// an entry the scan must load: its name is a shard file name.  Everything else - leftover `.<uuid>.mdb_temp` files, foreign files,
// names that are not UTF-8 - is skipped (C19: leftover temporary files are ignored; C11: ... and do not hide the shards listed after them)
spec fn shard_entry(e: DirEnt) -> bool { e.utf8 && name_parses(e.name) is Some }
// s is the handle of entry e of directory d: it names that file, carries the hash the NAME spells (C10: "names equal their content
// hash" - a handle's hash is the one its file name states; that the bytes hash to it is what write_out_from_reader establishes,
// U-SHWRITEOUT) and the header/footer parsed from that file (the footer holds the expiry C18 speaks about)
spec fn handle_for(s: MDBShardFile, d: PathBuf, e: DirEnt) -> bool {
    &&& s.path == abs(spec_join(d, e.name))
    &&& Some(s.shard_hash) == name_parses(e.name)
    &&& s.shard == info_of(e.content)
}
// `seen` = `seen0` followed by exactly one handle for every shard entry among the first n entries of the listing, in listing order.
spec fn scan_from(d: PathBuf, ents: Seq<DirEnt>, n: nat, seen0: Seq<Arc<MDBShardFile>>, seen: Seq<Arc<MDBShardFile>>) -> bool
    decreases n
{
    if n == 0 { seen == seen0 }
    else if shard_entry(ents[n - 1]) {
        seen.len() > 0 && handle_for(*seen.last(), d, ents[n - 1]) && scan_from(d, ents, (n - 1) as nat, seen0, seen.drop_last())
    } else {
        scan_from(d, ents, (n - 1) as nat, seen0, seen)
    }
}
// C18 (as in U-EXPIRY, from the property text): "past its expiry" = the clock reads later than the expiry second; "after the
// additional grace period" = the clock has reached expiry + buffer (saturating)
spec fn past_expiry(now: u64, expiry: u64) -> bool { now > expiry }
spec fn grace_end(expiry: u64, buffer: u64) -> int { if expiry + buffer > u64::MAX { u64::MAX as int } else { expiry + buffer } }
spec fn grace_over(now: u64, expiry: u64, buffer: u64) -> bool { now >= grace_end(expiry, buffer) }
spec fn keep(s: MDBShardFile, now: u64, load_expired: bool) -> bool { load_expired || !past_expiry(now, s.shard.metadata.shard_key_expiry) }
// the handles of hs that the load filter lets through, appended to base (order kept)
spec fn kept_onto(base: Seq<Arc<MDBShardFile>>, hs: Seq<Arc<MDBShardFile>>, now: u64, load_expired: bool) -> Seq<Arc<MDBShardFile>>
    decreases hs.len()
{
    if hs.len() == 0 { base } else {
        let p = kept_onto(base, hs.drop_last(), now, load_expired);
        if keep(*hs.last(), now, load_expired) { p.push(hs.last()) } else { p }
    }
}
// the paths of the handles of hs whose grace period is over, appended to base (order kept)
spec fn deleted_onto(base: Seq<PathBuf>, hs: Seq<Arc<MDBShardFile>>, now: u64, buffer: u64) -> Seq<PathBuf>
    decreases hs.len()
{
    if hs.len() == 0 { base } else {
        let p = deleted_onto(base, hs.drop_last(), now, buffer);
        if grace_over(now, hs.last().shard.metadata.shard_key_expiry, buffer) { p.push(hs.last().path) } else { p }
    }
}

// ---- consequences, in the words of the properties and in the form the consumers' stubs assume ---------------------------------
// every shard entry of the listing has its handle among `seen` (nothing is skipped, nothing after a non-shard name is lost) ...
proof fn lemma_scan_complete(d: PathBuf, ents: Seq<DirEnt>, n: nat, seen: Seq<Arc<MDBShardFile>>, i: int)
    requires scan_from(d, ents, n, Seq::empty(), seen), 0 <= i < n, shard_entry(ents[i]),
    ensures exists|k: int| 0 <= k < seen.len() && handle_for(*#[trigger] seen[k], d, ents[i]),
    decreases n
{
    if shard_entry(ents[n - 1]) {
        if i == n - 1 { assert(handle_for(*seen[seen.len() - 1], d, ents[i])); }
        else { lemma_scan_complete(d, ents, (n - 1) as nat, seen.drop_last(), i); let k = choose|k: int| 0 <= k < seen.drop_last().len() && handle_for(*#[trigger] seen.drop_last()[k], d, ents[i]); assert(seen[k] == seen.drop_last()[k]); }
    } else { lemma_scan_complete(d, ents, (n - 1) as nat, seen, i); }
}
// ... and every handle in `seen` is the handle of a shard entry of the listing (no temp file, no foreign file, no made-up handle)
proof fn lemma_scan_sound(d: PathBuf, ents: Seq<DirEnt>, n: nat, seen: Seq<Arc<MDBShardFile>>, k: int)
    requires scan_from(d, ents, n, Seq::empty(), seen), 0 <= k < seen.len(),
    ensures exists|i: int| 0 <= i < n && shard_entry(#[trigger] ents[i]) && handle_for(*seen[k], d, ents[i]),
    decreases n
{
    if n == 0 { }
    else if shard_entry(ents[n - 1]) {
        if k == seen.len() - 1 { assert(shard_entry(ents[n - 1]) && handle_for(*seen[k], d, ents[n - 1])); }
        else { lemma_scan_sound(d, ents, (n - 1) as nat, seen.drop_last(), k); assert(seen[k] == seen.drop_last()[k]); }
    } else { lemma_scan_sound(d, ents, (n - 1) as nat, seen, k); }
}
// a leftover temporary file is never a shard entry (C19), whatever else is in the directory
proof fn lemma_temp_ignored(e: DirEnt) requires is_temp_name(e.name) ensures !shard_entry(e) { axiom_temp_name_parses(e.name); }
// every handle the filter lets through is in hs and not past its expiry; every handle of hs not past its expiry is let through (C18)
proof fn lemma_kept(hs: Seq<Arc<MDBShardFile>>, now: u64, le: bool)
    ensures
        forall|j: int| 0 <= j < kept_onto(Seq::empty(), hs, now, le).len() ==> keep(*#[trigger] kept_onto(Seq::empty(), hs, now, le)[j], now, le) && hs.contains(kept_onto(Seq::empty(), hs, now, le)[j]),
        forall|k: int| 0 <= k < hs.len() && keep(*#[trigger] hs[k], now, le) ==> kept_onto(Seq::empty(), hs, now, le).contains(hs[k]),
    decreases hs.len()
{
    let out = kept_onto(Seq::<Arc<MDBShardFile>>::empty(), hs, now, le);
    if hs.len() > 0 {
        let h0 = hs.drop_last(); let p = kept_onto(Seq::<Arc<MDBShardFile>>::empty(), h0, now, le);
        lemma_kept(h0, now, le);
        assert forall|j: int| 0 <= j < out.len() implies keep(*#[trigger] out[j], now, le) && hs.contains(out[j]) by {
            if j < p.len() { assert(out[j] == p[j]); let k = choose|k: int| 0 <= k < h0.len() && h0[k] == p[j]; assert(hs[k] == out[j]); }
            else { assert(hs[hs.len() - 1] == out[j]); }
        }
        assert forall|k: int| 0 <= k < hs.len() && keep(*#[trigger] hs[k], now, le) implies out.contains(hs[k]) by {
            if k < h0.len() { assert(h0[k] == hs[k]); let j = choose|j: int| 0 <= j < p.len() && p[j] == h0[k]; assert(out[j] == hs[k]); }
            else { assert(out[out.len() - 1] == hs[k]); }
        }
    }
}
// the consumers' views.  U-SFMNEW assumes of load_all_valid: `Ok(v)` => every hash of `vx_dir_shards(d)` (the valid, unexpired shard
// files of d) occurs in v.  With vx_dir_shards read as "hash spelled by a shard entry whose footer is not past its expiry":
proof fn lemma_discharges_sfmnew(d: PathBuf, ents: Seq<DirEnt>, hs: Seq<Arc<MDBShardFile>>, now: u64, i: int)
    requires scan_from(d, ents, ents.len(), Seq::empty(), hs), 0 <= i < ents.len(), shard_entry(ents[i]),
        !past_expiry(now, info_of(ents[i].content).metadata.shard_key_expiry),
    ensures exists|j: int| 0 <= j < kept_onto(Seq::empty(), hs, now, false).len() && Some((#[trigger] kept_onto(Seq::empty(), hs, now, false)[j]).shard_hash) == name_parses(ents[i].name),
{
    lemma_scan_complete(d, ents, ents.len(), hs, i);
    let k = choose|k: int| 0 <= k < hs.len() && handle_for(*#[trigger] hs[k], d, ents[i]);
    lemma_kept(hs, now, false);
    let out = kept_onto(Seq::<Arc<MDBShardFile>>::empty(), hs, now, false);
    assert(keep(*hs[k], now, false));
    assert(out.contains(hs[k]));
    let j = choose|j: int| 0 <= j < out.len() && out[j] == hs[k];
    assert(Some(out[j].shard_hash) == name_parses(ents[i].name));
}
// U-CONSOLIDATE assumes (`loaded_wf`): every returned handle names an existing hash-named file of the directory.  Here: it is the
// handle of a listed entry, at abs(d/name), with the hash the name spells (see notes for `path == path_of(dir, hash)` and "pairwise different")
proof fn lemma_discharges_consolidate(d: PathBuf, ents: Seq<DirEnt>, hs: Seq<Arc<MDBShardFile>>, now: u64, j: int)
    requires scan_from(d, ents, ents.len(), Seq::empty(), hs), 0 <= j < kept_onto(Seq::empty(), hs, now, false).len(),
    ensures exists|i: int| 0 <= i < ents.len() && shard_entry(#[trigger] ents[i]) && handle_for(*kept_onto(Seq::empty(), hs, now, false)[j], d, ents[i]),
{
    lemma_kept(hs, now, false);
    let out = kept_onto(Seq::<Arc<MDBShardFile>>::empty(), hs, now, false);
    let k = choose|k: int| 0 <= k < hs.len() && hs[k] == out[j];
    lemma_scan_sound(d, ents, ents.len(), hs, k);
}
// C18: whatever `clean_expired_shards` deletes is the file of a handle whose grace period is over
proof fn lemma_deleted(base: Seq<PathBuf>, hs: Seq<Arc<MDBShardFile>>, now: u64, buffer: u64, j: int)
    requires base.len() <= j < deleted_onto(base, hs, now, buffer).len(),
    ensures exists|k: int| 0 <= k < hs.len() && (#[trigger] hs[k]).path == deleted_onto(base, hs, now, buffer)[j] && grace_over(now, hs[k].shard.metadata.shard_key_expiry, buffer),
        base.len() <= deleted_onto(base, hs, now, buffer).len(),
    decreases hs.len()
{
    if hs.len() > 0 {
        let h0 = hs.drop_last(); let p = deleted_onto(base, h0, now, buffer);
        lemma_deleted_len(base, h0, now, buffer);
        if j < p.len() { lemma_deleted(base, h0, now, buffer, j); let k = choose|k: int| 0 <= k < h0.len() && (#[trigger] h0[k]).path == p[j] && grace_over(now, h0[k].shard.metadata.shard_key_expiry, buffer); assert(hs[k] == h0[k]); }
        else { assert(hs[hs.len() - 1].path == deleted_onto(base, hs, now, buffer)[j]); }
    }
}
proof fn lemma_deleted_len(base: Seq<PathBuf>, hs: Seq<Arc<MDBShardFile>>, now: u64, buffer: u64)
    ensures base.len() <= deleted_onto(base, hs, now, buffer).len(), forall|j: int| 0 <= j < base.len() ==> deleted_onto(base, hs, now, buffer)[j] == base[j],
    decreases hs.len()
{
    if hs.len() > 0 { lemma_deleted_len(base, hs.drop_last(), now, buffer); }
}

// ================= the callback: closure conversion (rules shdirscan.R23 / R23c) =========================================
// What `scan_impl` may assume of its callback and must tell about its use of it.  `seen` = the handles it was applied to so far
// successfully so far (ghost; a failing call leaves it as it was); `wf` = the callback's own invariant; `env` = what a call never changes (captured read-only values, the identity of captured
// references).  A callback fails only with an error of its own making (`vx_genuine`).
trait VxCallback: Sized {
    spec fn seen(&self) -> Seq<Arc<MDBShardFile>>;
    spec fn wf(&self) -> bool;
    type Env;
    #[verifier::prophetic]
    spec fn env(&self) -> Self::Env;
    fn vx_call(&mut self, s: Arc<MDBShardFile>) -> (r: Result<()>)
        requires old(self).wf(),
        ensures
            final(self).wf(), final(self).env() == old(self).env(),
            r is Ok ==> final(self).seen() == old(self).seen().push(s) && final(self).seen().drop_last() == old(self).seen(),
            r matches Err(e) ==> vx_genuine(e) && final(self).seen() == old(self).seen();
}

// `std::fs::remove_file` with a ghost log of the paths handed to it (as U-EXPIRY's FsLog; rule crashfs.R20 passes `vx_fs`)
struct FsLog { removed: Ghost<Seq<PathBuf>> }
mod fs {
    use super::*;
    #[verifier::external_body]
    pub(super) fn remove_file(fs: &mut FsLog, p: &PathBuf) -> (r: std::result::Result<(), ()>)
        ensures final(fs).removed@ == old(fs).removed@.push(*p)
    { unimplemented!() }
}

// ---- the two closure bodies, lifted out of the source text (R8 `block`: the whole `{ .. }` of the closure literal) -----------------
//@ extract mdb_shard/src/shard_file_handle.rs in `impl MDBShardFile` region load_all
//@ block `Self::scan_impl(path, |s| {`
//@ sig `fn load_all_closure(load_expired: bool, current_time: u64, s: Arc<MDBShardFile>, ret: &mut Vec<Arc<MDBShardFile>>) -> (r: Result<()>)`
//@ contract
    ensures
        // a shard past its expiry is not loaded (unless expired shards were asked for) ...
        /*@C18*/ (!load_expired && past_expiry(current_time, s.shard.metadata.shard_key_expiry)) ==> final(ret)@ == old(ret)@,
        // ... and every other shard is: the list grows by exactly this handle
        /*@C18,C11*/ keep(*s, current_time, load_expired) ==> final(ret)@ == old(ret)@.push(s),
        // the filter is never a reason for the scan to fail
        /*@C11,C19*/ r is Ok,
//@ end

//@ extract mdb_shard/src/shard_file_handle.rs in `impl MDBShardFile` region clean_expired_shards
//@ block `Self::scan_impl(path, |s| {`
//@ sig `fn clean_closure(expiration_buffer_secs: u64, current_time: u64, s: Arc<MDBShardFile>, vx_fs: &mut FsLog) -> (r: Result<()>)`
//@ rules crashfs.R20
//@ contract
    ensures
        // deleted only after the grace period ...
        /*@C18*/ !grace_over(current_time, s.shard.metadata.shard_key_expiry, expiration_buffer_secs) ==> final(vx_fs).removed@ == old(vx_fs).removed@,
        // ... and then exactly this shard's file
        /*@C18*/ grace_over(current_time, s.shard.metadata.shard_key_expiry, expiration_buffer_secs) ==> final(vx_fs).removed@ == old(vx_fs).removed@.push(s.path),
        // a shard that load_all_valid would still load is not deleted when the buffer is non-zero
        /*@C18*/ (expiration_buffer_secs >= 1 && current_time < u64::MAX && !past_expiry(current_time, s.shard.metadata.shard_key_expiry)) ==> final(vx_fs).removed@ == old(vx_fs).removed@,
        /*@C19*/ r is Ok,
//@ end

// ---- HAND-WRITTEN GLUE of the closure conversion (not extracted; see notes): the environment structs, capture / release, and `vx_call`
// = hand the fields to the lifted closure body.  rustc checks them against what rule R23 generates at the call site.
struct Vx_load_all_closure1 { load_expired: bool, current_time: u64, ret: Vec<Arc<MDBShardFile>>, seen: Ghost<Seq<Arc<MDBShardFile>>>, ret0: Ghost<Seq<Arc<MDBShardFile>>> }
impl Vx_load_all_closure1 {
    fn vx_capture(current_time: u64, load_expired: bool, ret: Vec<Arc<MDBShardFile>>) -> (c: Self)
        ensures c.load_expired == load_expired, c.current_time == current_time, c.ret == ret, c.seen@ == Seq::<Arc<MDBShardFile>>::empty(), c.ret0@ == ret@, c.wf(),
    { let ghost r0 = ret@; Vx_load_all_closure1 { load_expired, current_time, ret, seen: Ghost(Seq::empty()), ret0: Ghost(r0) } }
    fn vx_release(self) -> (r: (u64, bool, Vec<Arc<MDBShardFile>>))
        ensures r.0 == self.current_time, r.1 == self.load_expired, r.2 == self.ret,
    { (self.current_time, self.load_expired, self.ret) }
}
impl VxCallback for Vx_load_all_closure1 {
    spec fn seen(&self) -> Seq<Arc<MDBShardFile>> { self.seen@ }
    spec fn wf(&self) -> bool {
        &&& self.ret@ == kept_onto(self.ret0@, self.seen@, self.current_time, self.load_expired)
        // everything the closure has added so far passed the expiry filter (C18, whatever `scan_impl` applied it to)
        &&& self.ret0@.len() <= self.ret@.len()
        &&& forall|j: int| self.ret0@.len() <= j < self.ret@.len() ==> keep(*#[trigger] self.ret@[j], self.current_time, self.load_expired)
    }
    type Env = (bool, u64, Seq<Arc<MDBShardFile>>);
    #[verifier::prophetic]
    spec fn env(&self) -> (bool, u64, Seq<Arc<MDBShardFile>>) { (self.load_expired, self.current_time, self.ret0@) }
    fn vx_call(&mut self, s: Arc<MDBShardFile>) -> (r: Result<()>) {
        proof { let ghost old_seen = self.seen@; self.seen@ = old_seen.push(s); assert(self.seen@.drop_last() =~= old_seen); }
        load_all_closure(self.load_expired, self.current_time, s, &mut self.ret)
    }
}
struct Vx_clean_expired_shards_closure1<'a> { expiration_buffer_secs: u64, current_time: u64, vx_fs: &'a mut FsLog, seen: Ghost<Seq<Arc<MDBShardFile>>>, removed0: Ghost<Seq<PathBuf>> }
impl<'a> Vx_clean_expired_shards_closure1<'a> {
    fn vx_capture(current_time: u64, expiration_buffer_secs: u64, vx_fs: &'a mut FsLog) -> (c: Self)
        ensures c.expiration_buffer_secs == expiration_buffer_secs, c.current_time == current_time, *c.vx_fs == *old(vx_fs), *final(c.vx_fs) == *final(vx_fs),
            c.seen@ == Seq::<Arc<MDBShardFile>>::empty(), c.removed0@ == old(vx_fs).removed@, c.wf(),
    { let ghost r0 = vx_fs.removed@; Vx_clean_expired_shards_closure1 { expiration_buffer_secs, current_time, vx_fs, seen: Ghost(Seq::empty()), removed0: Ghost(r0) } }
    fn vx_release(self) -> (r: (u64, u64, &'a mut FsLog))
        ensures r.0 == self.current_time, r.1 == self.expiration_buffer_secs, *r.2 == *old(self.vx_fs), *final(r.2) == *final(self.vx_fs),
    { (self.current_time, self.expiration_buffer_secs, self.vx_fs) }
}
impl<'a> VxCallback for Vx_clean_expired_shards_closure1<'a> {
    spec fn seen(&self) -> Seq<Arc<MDBShardFile>> { self.seen@ }
    spec fn wf(&self) -> bool { self.vx_fs.removed@ == deleted_onto(self.removed0@, self.seen@, self.current_time, self.expiration_buffer_secs) }
    type Env = (u64, u64, Seq<PathBuf>, FsLog);
    #[verifier::prophetic]
    spec fn env(&self) -> (u64, u64, Seq<PathBuf>, FsLog) { (self.expiration_buffer_secs, self.current_time, self.removed0@, *final(self.vx_fs)) }
    fn vx_call(&mut self, s: Arc<MDBShardFile>) -> (r: Result<()>) {
        proof { let ghost old_seen = self.seen@; self.seen@ = old_seen.push(s); assert(self.seen@.drop_last() =~= old_seen); }
        clean_closure(self.expiration_buffer_secs, self.current_time, s, self.vx_fs)
    }
}

// ================= the functions under contract ===========================================================================
impl MDBShardFile {
    // `verify_shard_integrity_debug_only`: empty in release builds (`#[cfg(debug_assertions)]`), a self-check that panics in debug builds
    #[verifier::external_body]
    fn verify_shard_integrity_debug_only(&self) { }
    // `load_from_hash_and_path`: the consequence used here of the contract PROVED for it in U-SHWRITEOUT (`load_post`: `Ok(sf)` => `sf.path ==
    // abs(path)`, `sf.shard_hash == shard_hash`; precondition: the hash handed in is the one the file name spells), plus ASSUMED: the
    // header/footer of the handle is what `load_from_reader` parses from the bytes under that path (also for a handle answered from the
    // process-wide cache: a hash-named file's bytes do not change), and a failure is a failure of a dependency.
    #[verifier::external_body]
    fn load_from_hash_and_path(shard_hash: MerkleHash, path: &Path) -> (r: Result<Arc<MDBShardFile>>)
        requires /*@C10*/ path_hash(abs(*path)) == Some(shard_hash),
        ensures
            r matches Ok(sf) ==> sf.path == abs(*path) && sf.shard_hash == shard_hash && sf.shard == info_of(spec_content(abs(*path))),
            r matches Err(e) ==> vx_genuine(e),
    { unimplemented!() }

//@ extract mdb_shard/src/shard_file_handle.rs in `impl MDBShardFile` fn scan_impl
//@ ret r
//@ rules shdirscan.R24 shdirscan.R23c cacheacct.R4i crashfs.R7f
//@ contract
        requires old(callback).wf(),
        ensures
            /*@AUX*/ final(callback).wf(),
            /*@AUX*/ final(callback).env() == old(callback).env(),
            // DIRECTORY, on Ok: the callback was applied to exactly one handle for every entry whose name is a shard file name - of the
            // WHOLE listing, whatever other entries (leftover temp files, foreign files, sub-directories) stand before, between or after
            // them - in listing order, and to nothing else
            /*@C11,C19,C10*/ (spec_is_dir(*path) && r is Ok) ==> scan_from(*path, dir_entries(*path), dir_entries(*path).len(), old(callback).seen(), final(callback).seen()),
            // DIRECTORY, on every exit: ... of a prefix of the listing (so a deletion callback only ever sees real shard handles)
            /*@C18,C10*/ spec_is_dir(*path) ==> exists|n: nat| n <= dir_entries(*path).len() && #[trigger] scan_from(*path, dir_entries(*path), n, old(callback).seen(), final(callback).seen()),
            // DIRECTORY: the scan fails only because listing, reading an entry, loading a shard file or the callback failed - an entry
            // that is not a shard file is never a reason to fail
            /*@C19,C11*/ spec_is_dir(*path) ==> (r matches Err(e) ==> vx_genuine(e)),
            // SINGLE FILE (the code's other branch): a path that has no string form is silently skipped; a shard file name is loaded
            // from `path.join(<the string>)` and handed to the callback; any other name is a BadFilename error
            !spec_is_dir(*path) && spec_to_str(*path) is None ==> r is Ok && final(callback).seen() == old(callback).seen(),
            (!spec_is_dir(*path) && spec_to_str(*path) is Some && name_parses(spec_to_str(*path)->Some_0) is Some) ==> {
                &&& r matches Err(e) ==> vx_genuine(e)
                &&& r is Ok ==> final(callback).seen().len() > 0 && final(callback).seen().drop_last() == old(callback).seen()
                    && final(callback).seen().last().path == abs(spec_join(*path, spec_to_str(*path)->Some_0))
                    && Some(final(callback).seen().last().shard_hash) == name_parses(spec_to_str(*path)->Some_0)
            },
            (!spec_is_dir(*path) && spec_to_str(*path) is Some && name_parses(spec_to_str(*path)->Some_0) is None) ==> r matches Err(MDBShardError::BadFilename(_)),
//@ body-start
        let ghost seen0 = callback.seen(); let ghost env0 = callback.env();
        proof { assert(scan_from(*path, dir_entries(*path), 0, seen0, seen0)); }   // trigger term for the `exists` clause at the exits before the first entry
//@ loop 1
                invariant
                    *vx_path == *path, seen0 == old(callback).seen(), env0 == old(callback).env(),
                    // what is iterated is the listing of the directory that was asked for
                    /*@C11,C19*/ vx_it1.ents@ == dir_entries(*path),
                    listing_consistent(*path, vx_it1.ents@), spec_is_dir(*path),
                    callback.wf(), callback.env() == env0,
                    /*@C11,C19*/ vx_it1.pos@ <= vx_it1.ents@.len(),
                    // the handles handed to the callback so far are those of the shard entries among the entries read so far
                    /*@C11,C19,C10,C18*/ scan_from(*path, vx_it1.ents@, vx_it1.pos@, seen0, callback.seen()),
                ensures
                    // the loop ends only when the listing is exhausted: no entry stops the scan early
                    /*@C11,C19*/ vx_it1.pos@ == vx_it1.ents@.len(),
                    /*@C11,C19,C10,C18*/ scan_from(*path, vx_it1.ents@, vx_it1.pos@, seen0, callback.seen()),
                    vx_it1.ents@ == dir_entries(*path), callback.wf(), callback.env() == env0,
                decreases vx_it1.ents@.len() - vx_it1.pos@,
//@ end

//@ extract mdb_shard/src/shard_file_handle.rs in `impl MDBShardFile` fn load_all
//@ ret r
//@ rules shdirscan.R23
//@ contract
        ensures
            // on Ok the returned list holds exactly one handle for every entry of the directory whose name is a shard file name (hs: the
            // handles of ALL of them, in listing order), minus those past their expiry (unless expired ones were asked for)
            /*@C11,C19,C18,C10*/ (spec_is_dir(*path) && r is Ok) ==> exists|hs: Seq<Arc<MDBShardFile>>|
                #[trigger] scan_from(*path, dir_entries(*path), dir_entries(*path).len(), Seq::empty(), hs) && r->Ok_0@ == kept_onto(Seq::empty(), hs, spec_now(), load_expired),
            // C18, for EVERY shape of `path` (directory, single file, anything else): no returned shard is past its expiry unless expired
            // shards were asked for
            /*@C18*/ r matches Ok(v) ==> forall|j: int| 0 <= j < v@.len() ==> keep(*#[trigger] v@[j], spec_now(), load_expired),
            // entries that are not shard files never make it fail
            /*@C19,C11*/ spec_is_dir(*path) ==> (r matches Err(e) ==> vx_genuine(e)),
//@ end

//@ extract mdb_shard/src/shard_file_handle.rs in `impl MDBShardFile` fn load_all_valid
//@ ret r
//@ contract
        ensures
            // = load_all without the expired ones: a shard past its expiry is not loaded (C18); every other shard file of the directory is (C11)
            /*@C11,C19,C18,C10*/ (spec_is_dir(*path) && r is Ok) ==> exists|hs: Seq<Arc<MDBShardFile>>|
                #[trigger] scan_from(*path, dir_entries(*path), dir_entries(*path).len(), Seq::empty(), hs) && r->Ok_0@ == kept_onto(Seq::empty(), hs, spec_now(), false),
            /*@C18*/ r matches Ok(v) ==> forall|j: int| 0 <= j < v@.len() ==> !past_expiry(spec_now(), (#[trigger] v@[j]).shard.metadata.shard_key_expiry),
            /*@C19,C11*/ spec_is_dir(*path) ==> (r matches Err(e) ==> vx_genuine(e)),
//@ end

//@ extract mdb_shard/src/shard_file_handle.rs in `impl MDBShardFile` fn clean_expired_shards
//@ ret r
//@ rules crashfs.R20 shdirscan.R23
//@ subst `expiration_buffer_secs: u64)` => `expiration_buffer_secs: u64, vx_fs: &mut FsLog)` :: explicit file-system log (Verus has no global ghost state); rule crashfs.R20 passes it to `remove_file`
//@ contract
        ensures
            // on EVERY exit: what was handed to remove_file is, in order, the files of those shard handles of (a prefix of) the listing
            // whose grace period is over - a shard is deleted only after expiry + buffer (lemma_deleted), never a temp or foreign file
            /*@C18*/ spec_is_dir(*path) ==> exists|n: nat, hs: Seq<Arc<MDBShardFile>>| n <= dir_entries(*path).len()
                && #[trigger] scan_from(*path, dir_entries(*path), n, Seq::empty(), hs)
                && final(vx_fs).removed@ == deleted_onto(old(vx_fs).removed@, hs, spec_now(), expiration_buffer_secs),
            /*@C19*/ spec_is_dir(*path) ==> (r matches Err(e) ==> vx_genuine(e)),
//@ end

//@ extract mdb_shard/src/shard_file_handle.rs in `impl MDBShardFile` fn load_from_file
//@ ret r
//@ rules crashfs.R7f
//@ contract
        requires /*@AUX*/ spec_to_str(*path) is Some,      // `path.to_str().unwrap()`: a path without string form is a panic (see notes)
        ensures
            // a handle only for a shard file name, with the hash the name spells; any other name is a BadFilename error
            /*@C10*/ r matches Ok(sf) ==> Some(sf.shard_hash) == name_parses(spec_to_str(*path)->Some_0) && sf.path == abs(*path) && sf.shard == info_of(spec_content(abs(*path))),
            /*@C10*/ name_parses(spec_to_str(*path)->Some_0) is None ==> r matches Err(MDBShardError::BadFilename(_)),
            name_parses(spec_to_str(*path)->Some_0) is Some ==> (r matches Err(e) ==> vx_genuine(e)),
//@ body-start
        proof { axiom_to_str_name(*path); }
//@ end
}

} // verus!
fn main() {}
