//@ unit U-SFMFILE
//@ props C09 C05 C18
//@ verus-args --rlimit 100
//@ rules-from isearch
//@ gsubst `Read + Seek` => `VxReadSeek` :: R11 reader stub trait with ghost byte view, position, read log and failure flag (prelude/isearch_specs.rs, as U-ISEARCH / U-SHLOOKUP)
//@ gsubst `SeekFrom::Start` => `isx::SeekFrom::Start` :: R11 type path: the SeekFrom of the reader stub trait (prelude/shq_io.rs brings a second stub of std::io::SeekFrom)
//@ gsubst `|reader| (Ok((read_u32(reader)?, read_u32(reader)?)))` => `VxReadU32Pair` :: R11 the closure passed as value reader of the chunk lookup table becomes a unit struct implementing the spec'd trait VxReadValueFn<R, (u32, u32)>: decodes two little-endian u32 at the position, consumes 8 bytes (contract assumed)
//@ gsubst `PathBuf` => `VxPathBuf` :: R11 stub type (std::path::PathBuf; never inspected by the functions under proof)
//@ gsubst `AtomicBool` => `VxAtomicBool` :: R11 stub type (std::sync::atomic::AtomicBool; never inspected)
//@ gsubst `SystemTime` => `VxSystemTime` :: R11 stub type (std::time::SystemTime; never inspected)
#![feature(allocator_api)]
#![allow(non_snake_case, unused)]
use vstd::prelude::*;
use std::collections::{BTreeMap, HashMap};
use std::mem::size_of;
use std::sync::Arc;
verus! {
global size_of usize == 8;
type VxU64x4 = [u64; 4];
global size_of VxU64x4 == 32;   // checked by rustc (static assertion emitted by Verus); for MDB_FILE_INFO_ENTRY_SIZE
type VxU32Pair = (u32, u32);
global size_of VxU32Pair == 8;  // checked by rustc; the value type of the chunk lookup table

//@ include prelude/ims_merklehash.rs
//@ include prelude/sess_btree.rs
//@ include prelude/shq_io.rs

// U-ISEARCH / U-SHLOOKUP vocabulary (reader model, table view, the predicates of the search contract), in its own module
// because prelude/shq_io.rs also defines a `SeekFrom` (same arrangement as U-SHWRITE)
pub mod isx {
use vstd::prelude::*;
use vstd::set_lib::set_int_range;
//@ include prelude/isearch_specs.rs
}
use isx::{VxReadSeek, VxReadValueFn, VxIoError, read_u64, spec_u64_at, tkey, tval, off, matches, min_int, stored_ok, written_ok,
          search_pre, search_reads_ok, search_count_ok, search_tail_ok};

// ---- dependencies ---------------------------------------------------------------------------------------------------
pub struct VxPathBuf { pub x: u8 }
pub struct VxAtomicBool { pub x: u8 }
pub struct VxSystemTime { pub x: u8 }
// tokio::sync::RwLock (same stub as U-SFMQ / U-SHREG): `read().await` (R1: `.await` erased) yields a guard that derefs to the
// protected value; the stub yields the shared reference itself. No statement about concurrency: the contracts speak about the
// values read under the two guards (the in-memory guard is dropped before the bookkeeper guard is taken, as in the code).
pub struct RwLock<T> { pub inner: T }
impl<T> RwLock<T> {
    #[verifier::external_body]
    pub fn read(&self) -> (r: &T) ensures *r == self.inner { unimplemented!() }
}

//@ extract mdb_shard/src/file_structs.rs struct FileDataSequenceHeader
//@ end
//@ extract mdb_shard/src/file_structs.rs struct FileDataSequenceEntry
//@ end
//@ extract mdb_shard/src/file_structs.rs struct FileVerificationEntry
//@ end
//@ extract mdb_shard/src/file_structs.rs struct FileMetadataExt
//@ end
//@ extract mdb_shard/src/file_structs.rs struct MDBFileInfo
//@ end
//@ extract mdb_shard/src/file_structs.rs const MDB_FILE_FLAG_VERIFICATION_MASK
//@ end
//@ extract mdb_shard/src/file_structs.rs const MDB_FILE_FLAG_METADATA_EXT_MASK
//@ end
//@ extract mdb_shard/src/cas_structs.rs struct CASChunkSequenceHeader
//@ end
//@ extract mdb_shard/src/cas_structs.rs struct CASChunkSequenceEntry
//@ end
//@ extract mdb_shard/src/cas_structs.rs struct MDBCASInfo
//@ end
//@ extract mdb_shard/src/shard_format.rs struct MDBShardFileHeader
//@ end
//@ extract mdb_shard/src/shard_format.rs struct MDBShardFileFooter
//@ end
//@ extract mdb_shard/src/shard_format.rs struct MDBShardInfo
//@ end
//@ extract mdb_shard/src/shard_in_memory.rs struct MDBInMemoryShard
//@ end
//@ extract mdb_shard/src/shard_file_handle.rs struct MDBShardFile
//@ end
//@ extract mdb_shard/src/shard_file_manager.rs struct ChunkCacheElement
//@ end
//@ extract mdb_shard/src/shard_file_manager.rs struct KeyedShardCollection
//@ end
//@ extract mdb_shard/src/shard_file_manager.rs struct ShardBookkeeper
//@ end
//@ extract mdb_shard/src/shard_file_manager.rs struct ShardFileManager
//@ end
// shard_format.rs: `size_of::<[u64; 4]>() + 4 * size_of::<u32>()` (`size_of` in a const initialiser is not accepted by Verus for a
// constant usable in specifications).  As in U-SHWRITE / U-SHSTREAM the code under proof sees the literal; HERE the source's
// defining expression is extracted as well and PROVED equal to it (an edit of the constant's definition is an obligation failure).
const MDB_FILE_INFO_ENTRY_SIZE: usize = 48;
//@ extract mdb_shard/src/shard_format.rs const MDB_FILE_INFO_ENTRY_SIZE
//@ subst `const MDB_FILE_INFO_ENTRY_SIZE: usize =` => `exec const VX_SRC_MDB_FILE_INFO_ENTRY_SIZE: usize ensures VX_SRC_MDB_FILE_INFO_ENTRY_SIZE == MDB_FILE_INFO_ENTRY_SIZE {` :: Verus syntax for a constant computed by exec calls (`size_of`); renamed: its equality with the literal the unit uses is a proof obligation
//@ subst `size_of::<u32>();` => `size_of::<u32>() }` :: closing brace of the exec-const block
//@ end

//@ include prelude/ims_sum.rs
//@ include prelude/shq_truthful.rs
//@ include prelude/shq_vocab.rs
//@ include prelude/sfmfile_fileblock.rs

// `?` on a reader error inside a function returning mdb_shard's Result: thiserror's `#[from] io::Error`
pub uninterp spec fn spec_io_err(e: VxIoError) -> MDBShardError;
impl vstd::std_specs::convert::FromSpecImpl<VxIoError> for MDBShardError {
    open spec fn obeys_from_spec() -> bool { true }
    open spec fn from_spec(e: VxIoError) -> MDBShardError { spec_io_err(e) }
}
impl From<VxIoError> for MDBShardError {
    #[verifier::external_body]
    fn from(e: VxIoError) -> (r: MDBShardError) ensures r == spec_io_err(e) { unimplemented!() }
}
// `MDBShardError::InternalError(anyhow!("invalid file entry index"))`: the error value (message only)
#[verifier::external_body]
fn vx_internal_error() -> (r: MDBShardError) { unimplemented!() }

// mdb_shard::utils::truncate_hash: `hash.deref()[0]` (as U-SHLOOKUP)
pub open spec fn spec_truncate(h: MerkleHash) -> u64 { h.0[0] }
#[verifier::external_body]
pub fn truncate_hash(hash: &MerkleHash) -> (r: u64) ensures r == spec_truncate(*hash) { unimplemented!() }

// utils::serialization_utils::read_u32 (as U-SHLOOKUP: `spec_u32_at` = little-endian u32 at a byte offset)
pub uninterp spec fn spec_u32_at(data: Seq<u8>, off: int) -> u32;
#[verifier::external_body]
pub fn read_u32<R: VxReadSeek>(reader: &mut R) -> (r: std::result::Result<u32, VxIoError>)
    ensures
        final(reader).data() == old(reader).data(),
        final(reader).log() == old(reader).log().push((old(reader).pos(), 4int)),
        old(reader).failed() ==> final(reader).failed(), r is Err ==> final(reader).failed(),
        r matches Ok(v) ==> v == spec_u32_at(old(reader).data(), old(reader).pos())
            && final(reader).pos() == old(reader).pos() + 4,
{ unimplemented!() }

// the value reader of the chunk lookup table: `|reader| Ok((read_u32(reader)?, read_u32(reader)?))`
pub struct VxReadU32Pair;
impl<R: VxReadSeek> VxReadValueFn<R, (u32, u32)> for VxReadU32Pair {
    open spec fn decode(&self, data: Seq<u8>, off: int) -> (u32, u32) { (spec_u32_at(data, off), spec_u32_at(data, off + 4)) }
    #[verifier::external_body]
    fn call(&self, reader: &mut R) -> (r: std::result::Result<(u32, u32), VxIoError>) { unimplemented!() }
}

// the callee: interpolation_search::search_on_sorted_u64s with the contract verified in U-ISEARCH (same predicates, same
// clause list as the stub of U-SHLOOKUP)
#[verifier::external_body]
pub fn search_on_sorted_u64s<Value: Copy, R: VxReadSeek, ReadValueFunction: VxReadValueFn<R, Value>, const N: usize>(
    reader: &mut R,
    read_start: u64,
    num_entries: u64,
    key: u64,
    read_value_function: ReadValueFunction,
    result: &mut [Value; N],
) -> (ret: std::result::Result<usize, VxIoError>)
    requires
        search_pre::<Value>(old(reader).data(), read_start, num_entries),
    ensures
        final(reader).data() == old(reader).data(),
        final(result)@.len() == old(result)@.len(),
        ret is Err ==> final(reader).failed(),
        old(reader).failed() ==> final(reader).failed(),
        search_reads_ok::<Value>(old(reader).log(), final(reader).log(), read_start, num_entries),
        ret matches Ok(cnt) ==> search_count_ok::<Value>(old(reader).data(), read_start, num_entries, key, old(result)@.len() as int, cnt as int),
        ret matches Ok(cnt) ==> stored_ok::<R, Value, ReadValueFunction>(read_value_function,
            old(reader).data(), read_start as int, size_of::<Value>() + 8, num_entries as int, key, cnt as int, final(result)@),
        ret matches Ok(cnt) ==> search_tail_ok::<Value>(old(result)@, final(result)@, cnt as int),
{ unimplemented!() }

// =====================================================================================================================
// 1. the serialized shard: file record by index, chunk lookup, cas lookup table dump
// =====================================================================================================================
// byte position of file-info entry `idx` (entries are 48-byte records counted from the start of the file-info section)
spec fn fi_pos(sh: MDBShardInfo, idx: u32) -> int { sh.metadata.file_info_offset as int + 48 * (idx as int) }
// layout bound the callers establish: the file-info section starts low enough that the position of ANY u32 entry index fits
// u64 (a shard written by `serialize_from` has file_info_offset == 48, U-SHWRITE; the footer parser does not check it)
spec fn fi_layout_ok(sh: MDBShardInfo) -> bool { sh.metadata.file_info_offset as int + 48 * (u32::MAX as int) <= u64::MAX as int }

// the chunk lookup table: rows of (u64 truncated keyed chunk hash, u32 block index, u32 chunk offset), 16 bytes each
spec fn ck_rs(sh: MDBShardInfo) -> int { sh.metadata.chunk_lookup_offset as int }
spec fn ck_n(sh: MDBShardInfo) -> int { sh.metadata.chunk_lookup_num_entry as int }
spec fn ck_psz() -> int { size_of::<(u32, u32)>() + 8 }
// the probe: the truncated hash KEYED with the shard's own key (`keyed` of prelude/shq_truthful.rs: hmac iff key != zero)
spec fn ck_probe(sh: MDBShardInfo, h: MerkleHash) -> u64 { spec_truncate(keyed(sh.metadata.chunk_hash_hmac_key, h)) }
// number of rows stored under the probe
spec fn ck_count(sh: MDBShardInfo, data: Seq<u8>, h: MerkleHash) -> nat {
    matches(data, ck_rs(sh), ck_psz(), ck_n(sh), ck_probe(sh, h)).len()
}
// row i of the cas (xorb) lookup table: (u64 truncated xorb hash, u32 entry index), 12 bytes each
spec fn cl_row(sh: MDBShardInfo, data: Seq<u8>, i: int) -> (u64, u32) {
    (spec_u64_at(data, sh.metadata.cas_lookup_offset as int + 12 * i), spec_u32_at(data, sh.metadata.cas_lookup_offset as int + 12 * i + 8))
}
spec fn clv(v: Vec<(u64, u32)>) -> Seq<(u64, u32)> { v@ }

// ---- bridge to U-SHQ: its stub of `get_cas_info_index_by_chunk` ASSUMES "Ok(k) ⇒ k <= 8 and the first k pairs are `lookup_pos_ok`"
// (prelude/shq_vocab.rs).  The contract proved below gives "the first k pairs are values of rows of the chunk lookup table"; together
// with the well-formedness of that table (every row names a position inside a block of the cas section: what `serialize_from`
// writes) this IS U-SHQ's assumption.  So U-SHQ's stub = this unit's postcondition + `ck_rows_ok`, nothing about the search itself.
spec fn ck_row_val<R: VxReadSeek>(sh: MDBShardInfo, data: Seq<u8>, i: int) -> (u32, u32) {
    tval::<R, (u32, u32), VxReadU32Pair>(VxReadU32Pair, data, ck_rs(sh), ck_psz(), i)
}
spec fn ck_rows_ok<R: VxReadSeek>(sh: MDBShardInfo, data: Seq<u8>) -> bool {
    forall|i: int| 0 <= i < ck_n(sh) ==> lookup_pos_ok(data, sh.metadata.cas_info_offset as int,
        (#[trigger] ck_row_val::<R>(sh, data, i)).0 as int, ck_row_val::<R>(sh, data, i).1 as int)
}
proof fn lemma_implies_shq_stub<R: VxReadSeek>(sh: MDBShardInfo, data: Seq<u8>, h: MerkleHash, cnt: int, dest: Seq<(u32, u32)>)
    requires
        stored_ok::<R, (u32, u32), VxReadU32Pair>(VxReadU32Pair, data, ck_rs(sh), ck_psz(), ck_n(sh), ck_probe(sh, h), cnt, dest),
        ck_rows_ok::<R>(sh, data),
    ensures
        forall|k: int| 0 <= k < cnt ==> lookup_pos_ok(data, sh.metadata.cas_info_offset as int, (#[trigger] dest[k]).0 as int, dest[k].1 as int),
{
    let wit = choose|wit: Seq<int>| #[trigger] written_ok::<R, (u32, u32), VxReadU32Pair>(VxReadU32Pair, data, ck_rs(sh), ck_psz(), ck_n(sh), ck_probe(sh, h), wit, cnt, dest);
    assert forall|k: int| 0 <= k < cnt implies lookup_pos_ok(data, sh.metadata.cas_info_offset as int, (#[trigger] dest[k]).0 as int, dest[k].1 as int) by {
        let i = wit[k];
        assert(dest[k] == ck_row_val::<R>(sh, data, i));
    }
}

impl MDBFileInfo {
    // dependency: `MDBFileInfo::deserialize`.  Its contract (Ok(Some(f)) ⇒ `file_block_ok` at the position and not a bookend;
    // Ok(None) ⇒ the header at the position is the bookend) is PROVED in U-SHSCAN over that unit's reader stub; here it is
    // transported to the reader trait of prelude/isearch_specs.rs, plus that model's convention `Err ⇒ the reader failed`.
    #[verifier::external_body]
    fn deserialize<R: VxReadSeek>(reader: &mut R) -> (r: std::result::Result<Option<MDBFileInfo>, VxIoError>)
        ensures
            final(reader).data() == old(reader).data(),
            old(reader).failed() ==> final(reader).failed(), r is Err ==> final(reader).failed(),
            r matches Ok(Some(f)) ==> file_block_ok(old(reader).data(), old(reader).pos(), f) && f.metadata.file_hash != bookend_hash(),
            r matches Ok(None) ==> file_hdr_at(old(reader).data(), old(reader).pos()).file_hash == bookend_hash(),
    { unimplemented!() }
}

impl MDBShardInfo {
    // dependency: `keyed_chunk_hash` — contract PROVED in U-SHQ (`r == keyed(self.metadata.chunk_hash_hmac_key, h)`, same `keyed`);
    // here at the `&MerkleHash` instance of `impl AsRef<MerkleHash>` (std: `AsRef for &T` delegates to `T`)
    #[verifier::external_body]
    fn keyed_chunk_hash(&self, chunk_hash: &MerkleHash) -> (r: MerkleHash)
        ensures r == keyed(self.metadata.chunk_hash_hmac_key, *chunk_hash),
    { unimplemented!() }

//@ extract mdb_shard/src/shard_format.rs in `impl MDBShardInfo` fn read_file_info
//@ ret r
//@ subst `MDBShardError::InternalError(anyhow!("invalid file entry index"))` => `vx_internal_error()` :: R7 outline of the error value (anyhow! message); which error comes back is not part of the contract
//@ contract
        requires
            // established by the callers through the layout (see fi_layout_ok): no u64 overflow for any u32 index
            fi_layout_ok(*self),
        ensures
            /*@AUX*/ final(reader).data() == old(reader).data(),
            /*@AUX*/ old(reader).failed() ==> final(reader).failed(),
            // Ok(info): info is the record parsed at file_info_offset + 48*idx — header, entries, verification entries and
            // metadata-ext exactly as the bytes there decode — and it is a record, not the section's bookend
            /*@C09,C01*/ r matches Ok(info) ==> file_block_ok(old(reader).data(), fi_pos(*self, file_entry_index), info)
                && info.metadata.file_hash != bookend_hash(),
            // an index pointing at the bookend (no record) yields Err, never a record
            /*@C09,C01*/ file_hdr_at(old(reader).data(), fi_pos(*self, file_entry_index)).file_hash == bookend_hash() ==> r is Err,
            // and an error only then or after a failed reader operation
            /*@C09,C01*/ r is Err ==> final(reader).failed()
                || file_hdr_at(old(reader).data(), fi_pos(*self, file_entry_index)).file_hash == bookend_hash(),
//@ end

//@ extract mdb_shard/src/shard_format.rs in `impl MDBShardInfo` fn get_cas_info_index_by_chunk
//@ ret ret
//@ contract
        requires
            search_pre::<(u32, u32)>(old(reader).data(), self.metadata.chunk_lookup_offset, self.metadata.chunk_lookup_num_entry),
        ensures
            /*@AUX*/ final(reader).data() == old(reader).data(),
            /*@AUX*/ old(reader).failed() ==> final(reader).failed(),
            // Ok(cnt): cnt = min(#rows of the CHUNK lookup table stored under the truncated KEYED hash, 8), and
            // dest_indices[..cnt] are the (block index, chunk offset) values of cnt distinct such rows — all of them when
            // fewer than 9 rows share the probe (stored_ok's last clause)
            /*@C05,C18*/ ret matches Ok(cnt) ==> cnt <= 8 && cnt as int == min_int(ck_count(*self, old(reader).data(), *unkeyed_chunk_hash) as int, 8)
                && stored_ok::<R, (u32, u32), VxReadU32Pair>(VxReadU32Pair, old(reader).data(), ck_rs(*self), ck_psz(), ck_n(*self),
                                                   ck_probe(*self, *unkeyed_chunk_hash), cnt as int, final(dest_indices)@),
            // an error only after a failed reader operation (collisions are not an error here)
            /*@C05,C18*/ ret is Err ==> final(reader).failed(),
//@ end

//@ extract mdb_shard/src/shard_format.rs in `impl MDBShardInfo` fn read_full_cas_lookup
//@ ret ret
//@ rules R4u
//@ contract
        requires
            self.metadata.cas_lookup_offset as int + 12 * (self.metadata.cas_lookup_num_entry as int) <= u64::MAX as int,
        ensures
            /*@AUX*/ final(reader).data() == old(reader).data(),
            // the whole table, row by row, in table order
            /*@C09,C01*/ ret matches Ok(v) ==> v@.len() == self.metadata.cas_lookup_num_entry
                && forall|i: int| 0 <= i < v@.len() ==> #[trigger] v@[i] == cl_row(*self, old(reader).data(), i),
            /*@C09,C01*/ ret is Err ==> final(reader).failed(),
//@ loop 1
            invariant
                reader.data() == old(reader).data(),
                /*@C09,C01*/ reader.pos() == self.metadata.cas_lookup_offset as int + 12 * vx_it1,
                /*@C09,C01*/ clv(cas_lookup).len() == vx_it1,
                /*@C09,C01*/ forall|i: int| 0 <= i < clv(cas_lookup).len() ==> #[trigger] clv(cas_lookup)[i] == cl_row(*self, old(reader).data(), i),
//@ end
}

// =====================================================================================================================
// 2. the in-memory shard
// =====================================================================================================================
impl Clone for MDBFileInfo {
    // derived Clone: field-wise copy
    #[verifier::external_body]
    fn clone(&self) -> (r: MDBFileInfo) ensures r == *self { unimplemented!() }
}

impl MDBInMemoryShard {
//@ extract mdb_shard/src/shard_in_memory.rs in `impl MDBInMemoryShard` fn get_file_reconstruction_info
//@ ret r
//@ contract
        ensures
            // exactly the record stored under the hash in the file map; None iff there is none
            /*@C09,C01*/ self.file_content@.contains_key(*file_hash) ==> r == Some(self.file_content@[*file_hash]),
            /*@C09,C01*/ !self.file_content@.contains_key(*file_hash) ==> r is None,
//@ body-start
        broadcast use {mh_cmp_axioms::axiom_merklehash_cmp_model, vstd::std_specs::btree::group_btree_axioms};
//@ end
}

// =====================================================================================================================
// 3. the shard manager
// =====================================================================================================================
// a *name* for what shard file `s` answers when asked for the record of `h` (files are immutable, content-addressed).
// U-SHHANDLE proves what it is: Ok(None) when the file has been deleted meanwhile, otherwise exactly the answer of
// `MDBShardInfo::get_file_reconstruction_info` on (s.shard, the file's bytes, h) (or the open failure); U-SHLOOKUP proves what
// THAT is: Ok(Some(rec)) ⇒ rec is the record of a lookup entry under the truncated hash and rec's full hash is h; Ok(None) ⇒
// no lookup entry under the truncated hash has a record with the full hash h.
uninterp spec fn shard_answer(s: MDBShardFile, h: MerkleHash) -> Result<Option<MDBFileInfo>>;
impl MDBShardFile {
    #[verifier::external_body]
    fn get_file_reconstruction_info(&self, file_hash: &MerkleHash) -> (r: Result<Option<MDBFileInfo>>)
        ensures r == shard_answer(*self, *file_hash),
    { unimplemented!() }
}
// "shard s contains rec under h" / "shard s does not contain h", as the shard itself answers
spec fn shard_has(s: MDBShardFile, h: MerkleHash, rec: MDBFileInfo) -> bool { shard_answer(s, h) == Ok::<Option<MDBFileInfo>, MDBShardError>(Some(rec)) }
spec fn shard_lacks(s: MDBShardFile, h: MerkleHash) -> bool { shard_answer(s, h) == Ok::<Option<MDBFileInfo>, MDBShardError>(None) }

// derived Default of MDBFileInfo / of its header: zero hash, no entries, no flags
spec fn is_default_file_info(f: MDBFileInfo) -> bool {
    f.metadata.file_hash == zero_hash() && f.metadata.file_flags == 0 && f.metadata.num_entries == 0
        && f.segments@.len() == 0 && f.verification@.len() == 0 && f.metadata_ext is None
}
impl MDBFileInfo {
    #[verifier::external_body]
    fn default() -> (r: MDBFileInfo) ensures is_default_file_info(r) { unimplemented!() }
}

// registered shard (ci, si): shard si of collection ci, in the order the manager keeps them
spec fn shard_at(cs: Seq<KeyedShardCollection>, ci: int, si: int) -> MDBShardFile { *cs[ci].shard_list@[si] }
spec fn is_loc(cs: Seq<KeyedShardCollection>, ci: int, si: int) -> bool { 0 <= ci < cs.len() && 0 <= si < cs[ci].shard_list@.len() }
// every registered shard in a collection before cj, or before position sj of collection cj, does not contain h
spec fn earlier_lack(cs: Seq<KeyedShardCollection>, h: MerkleHash, cj: int, sj: int) -> bool {
    forall|ci: int, si: int| is_loc(cs, ci, si) && (ci < cj || (ci == cj && si < sj)) ==> shard_lacks(#[trigger] shard_at(cs, ci, si), h)
}
// NO registered shard — all collections, all lists — contains h
spec fn all_lack(cs: Seq<KeyedShardCollection>, h: MerkleHash) -> bool {
    forall|ci: int, si: int| is_loc(cs, ci, si) ==> shard_lacks(#[trigger] shard_at(cs, ci, si), h)
}

// ---- byte totals over the manager: in-memory total + the footer total of every registered shard ---------------------------------
// the in-memory getters: contracts PROVED in U-IMSBYTES (`r == spec_materialized_bytes(self)` / `spec_stored_bytes(self)` under the
// domain "the total fits u64"; defined there as the sums over all file / xorb records).  Here, as in U-SHWRITE, only their names.
uninterp spec fn spec_materialized_bytes(m: MDBInMemoryShard) -> u64;
uninterp spec fn spec_stored_bytes(m: MDBInMemoryShard) -> u64;
impl MDBInMemoryShard {
    #[verifier::external_body]
    fn materialized_bytes(&self) -> (r: u64) ensures r == spec_materialized_bytes(*self) { unimplemented!() }
    #[verifier::external_body]
    fn stored_bytes(&self) -> (r: u64) ensures r == spec_stored_bytes(*self) { unimplemented!() }
}
impl MDBShardInfo {
    // footer getters (first clause of their contracts in U-IMSBYTES)
    #[verifier::external_body]
    fn materialized_bytes(&self) -> (r: u64) ensures r == self.metadata.materialized_bytes { unimplemented!() }
    #[verifier::external_body]
    fn stored_bytes(&self) -> (r: u64) ensures r == self.metadata.stored_bytes { unimplemented!() }
}
spec fn f_mat() -> spec_fn(MDBShardFile) -> int { |s: MDBShardFile| s.shard.metadata.materialized_bytes as int }
spec fn f_sto() -> spec_fn(MDBShardFile) -> int { |s: MDBShardFile| s.shard.metadata.stored_bytes as int }
spec fn f_nonneg(f: spec_fn(MDBShardFile) -> int) -> bool { forall|s: MDBShardFile| #[trigger] f(s) >= 0 }
// sum of f over the first k shards of a list / over all shards of the first k collections
spec fn list_sum(l: Seq<Arc<MDBShardFile>>, f: spec_fn(MDBShardFile) -> int, k: int) -> int decreases k {
    if k <= 0 { 0 } else { list_sum(l, f, k - 1) + f(*l[k - 1]) }
}
spec fn colls_sum(cs: Seq<KeyedShardCollection>, f: spec_fn(MDBShardFile) -> int, k: int) -> int decreases k {
    if k <= 0 { 0 } else { colls_sum(cs, f, k - 1) + list_sum(cs[k - 1].shard_list@, f, cs[k - 1].shard_list@.len() as int) }
}
spec fn total_bytes(mem: u64, cs: Seq<KeyedShardCollection>, f: spec_fn(MDBShardFile) -> int) -> int { mem as int + colls_sum(cs, f, cs.len() as int) }
proof fn lemma_list_sum_mono(l: Seq<Arc<MDBShardFile>>, f: spec_fn(MDBShardFile) -> int, a: int, b: int)
    requires f_nonneg(f), 0 <= a <= b,
    ensures 0 <= list_sum(l, f, a) <= list_sum(l, f, b),
    decreases b,
{
    if a < b { lemma_list_sum_mono(l, f, a, b - 1); assert(f(*l[b - 1]) >= 0); }
    else if a > 0 { lemma_list_sum_mono(l, f, a - 1, a - 1); assert(f(*l[a - 1]) >= 0); }
}
proof fn lemma_colls_sum_mono(cs: Seq<KeyedShardCollection>, f: spec_fn(MDBShardFile) -> int, a: int, b: int)
    requires f_nonneg(f), 0 <= a <= b,
    ensures 0 <= colls_sum(cs, f, a) <= colls_sum(cs, f, b),
    decreases b,
{
    if a < b { lemma_colls_sum_mono(cs, f, a, b - 1); lemma_list_sum_mono(cs[b - 1].shard_list@, f, 0, cs[b - 1].shard_list@.len() as int); }
    else if a > 0 { lemma_colls_sum_mono(cs, f, a - 1, a - 1); lemma_list_sum_mono(cs[a - 1].shard_list@, f, 0, cs[a - 1].shard_list@.len() as int); }
}

impl ShardFileManager {
    spec fn mem_files(&self) -> Map<MerkleHash, MDBFileInfo> { self.current_state.inner.file_content@ }
    spec fn colls(&self) -> Seq<KeyedShardCollection> { self.shard_bookkeeper.inner.shard_collections@ }
    spec fn by_hash(&self) -> Map<MerkleHash, (usize, usize)> { self.shard_bookkeeper.inner.shard_lookup_by_shard_hash@ }

//@ extract mdb_shard/src/shard_file_manager.rs in `impl FileReconstructor<MDBShardError> for ShardFileManager` fn get_file_reconstruction_info
//@ ret r
//@ rules consolidate.R4i
//@ contract
        ensures
            // HEAD's special case: the zero hash is answered with the default (empty) record and no shard, whatever is stored
            /*@C09,C01*/ *file_hash == zero_hash() ==> (r matches Ok(Some((rec, None))) && is_default_file_info(rec)),
            // (rec, None): only if the in-memory state holds rec under h
            /*@C09,C01*/ *file_hash != zero_hash() ==> (r matches Ok(Some((rec, None))) ==>
                self.mem_files().contains_key(*file_hash) && rec == self.mem_files()[*file_hash]),
            // and a record the in-memory state holds is returned (in-memory first)
            /*@C09,C01*/ *file_hash != zero_hash() && self.mem_files().contains_key(*file_hash) ==>
                r == Ok::<Option<(MDBFileInfo, Option<MerkleHash>)>, MDBShardError>(Some((self.mem_files()[*file_hash], None))),
            // (rec, Some(sh)): only if a registered shard whose hash is sh contains rec under h — the first one in manager order
            /*@C09,C01*/ *file_hash != zero_hash() ==> (r matches Ok(Some((rec, Some(sh)))) ==>
                !self.mem_files().contains_key(*file_hash)
                && exists|cj: int, sj: int| is_loc(self.colls(), cj, sj)
                    && shard_has(#[trigger] shard_at(self.colls(), cj, sj), *file_hash, rec)
                    && shard_at(self.colls(), cj, sj).shard_hash == sh
                    && earlier_lack(self.colls(), *file_hash, cj, sj)),
            // not found: only if neither the in-memory state nor ANY registered shard (all collections, all lists) contains h
            /*@C09,C01*/ *file_hash != zero_hash() ==> (r matches Ok(None) ==>
                !self.mem_files().contains_key(*file_hash) && all_lack(self.colls(), *file_hash)),
            // errors propagate: the error of the first shard that does not answer Ok(None)
            /*@C09,C01*/ *file_hash != zero_hash() ==> (r matches Err(e) ==>
                !self.mem_files().contains_key(*file_hash)
                && exists|cj: int, sj: int| is_loc(self.colls(), cj, sj)
                    && shard_answer(#[trigger] shard_at(self.colls(), cj, sj), *file_hash) == Err::<Option<MDBFileInfo>, MDBShardError>(e)
                    && earlier_lack(self.colls(), *file_hash, cj, sj)),
//@ loop 1
            invariant
                *current_shards == self.shard_bookkeeper.inner,
                *file_hash != zero_hash(),
                /*@C09,C01*/ !self.mem_files().contains_key(*file_hash),
                // the list walked IS the bookkeeper's whole collection list
                /*@C09,C01*/ vx_s1@ == self.colls(),
                vx_n1 <= self.colls().len(),
                // every shard of every collection visited so far lacks h
                /*@C09,C01*/ earlier_lack(self.colls(), *file_hash, vx_n1 as int, 0),
            decreases self.colls().len() - vx_n1,
//@ loop 2
                invariant
                    *current_shards == self.shard_bookkeeper.inner,
                    *file_hash != zero_hash(),
                    /*@C09,C01*/ !self.mem_files().contains_key(*file_hash),
                    1 <= vx_n1 <= self.colls().len(),
                    *sc == self.colls()[vx_n1 - 1],
                    // the list walked IS this collection's whole shard list
                    /*@C09,C01*/ vx_s2@ == sc.shard_list@,
                    vx_n2 <= sc.shard_list@.len(),
                    /*@C09,C01*/ earlier_lack(self.colls(), *file_hash, vx_n1 - 1, vx_n2 as int),
                decreases sc.shard_list@.len() - vx_n2,
//@ before `if let Some(fi) = si.get_file_reconstruction_info`
                // the shard asked in this iteration IS registered shard (vx_n1 - 1, vx_n2 - 1)
                proof { assert(**si == shard_at(self.colls(), vx_n1 - 1, vx_n2 - 1)); }
//@ end

//@ extract mdb_shard/src/shard_file_manager.rs in `impl ShardFileManager` fn calculate_total_materialized_bytes
//@ ret r
//@ rules consolidate.R4i
//@ contract
        requires
            // domain: the grand total fits u64 (the code adds with `+=`)
            total_bytes(spec_materialized_bytes(self.current_state.inner), self.colls(), f_mat()) <= u64::MAX,
        ensures
            // the in-memory total plus the footer total of EVERY registered shard (all collections, all lists), each exactly once
            /*@C09,C01*/ r matches Ok(v) && v == total_bytes(spec_materialized_bytes(self.current_state.inner), self.colls(), f_mat()),
//@ body-start
        let ghost m0 = spec_materialized_bytes(self.current_state.inner) as int; let ghost cs = self.colls(); let ghost f = f_mat();
        proof { lemma_colls_sum_mono(cs, f, 0, cs.len() as int); }
//@ loop 1
            invariant
                m0 == spec_materialized_bytes(self.current_state.inner), cs == self.colls(), f == f_mat(), f_nonneg(f),
                m0 + colls_sum(cs, f, cs.len() as int) <= u64::MAX,
                /*@C09,C01*/ vx_s1@ == cs,
                vx_n1 <= cs.len(),
                /*@C09,C01*/ bytes == m0 + colls_sum(cs, f, vx_n1 as int),
            decreases cs.len() - vx_n1,
//@ loop 2
                invariant
                    m0 == spec_materialized_bytes(self.current_state.inner), cs == self.colls(), f == f_mat(), f_nonneg(f),
                    m0 + colls_sum(cs, f, cs.len() as int) <= u64::MAX,
                    1 <= vx_n1 <= cs.len(), *ksc == cs[vx_n1 - 1],
                    /*@C09,C01*/ vx_s2@ == ksc.shard_list@,
                    vx_n2 <= vx_s2@.len(),
                    /*@C09,C01*/ bytes == m0 + colls_sum(cs, f, vx_n1 - 1) + list_sum(ksc.shard_list@, f, vx_n2 as int),
                decreases vx_s2@.len() - vx_n2,
//@ before `bytes += si.shard.materialized_bytes();`
                proof {
                    lemma_list_sum_mono(ksc.shard_list@, f, vx_n2 as int, ksc.shard_list@.len() as int);
                    lemma_colls_sum_mono(cs, f, vx_n1 as int, cs.len() as int);
                }
//@ end

//@ extract mdb_shard/src/shard_file_manager.rs in `impl ShardFileManager` fn calculate_total_stored_bytes
//@ ret r
//@ rules consolidate.R4i
//@ contract
        requires
            total_bytes(spec_stored_bytes(self.current_state.inner), self.colls(), f_sto()) <= u64::MAX,
        ensures
            /*@C09,C01*/ r matches Ok(v) && v == total_bytes(spec_stored_bytes(self.current_state.inner), self.colls(), f_sto()),
//@ body-start
        let ghost m0 = spec_stored_bytes(self.current_state.inner) as int; let ghost cs = self.colls(); let ghost f = f_sto();
        proof { lemma_colls_sum_mono(cs, f, 0, cs.len() as int); }
//@ loop 1
            invariant
                m0 == spec_stored_bytes(self.current_state.inner), cs == self.colls(), f == f_sto(), f_nonneg(f),
                m0 + colls_sum(cs, f, cs.len() as int) <= u64::MAX,
                /*@C09,C01*/ vx_s1@ == cs,
                vx_n1 <= cs.len(),
                /*@C09,C01*/ bytes == m0 + colls_sum(cs, f, vx_n1 as int),
            decreases cs.len() - vx_n1,
//@ loop 2
                invariant
                    m0 == spec_stored_bytes(self.current_state.inner), cs == self.colls(), f == f_sto(), f_nonneg(f),
                    m0 + colls_sum(cs, f, cs.len() as int) <= u64::MAX,
                    1 <= vx_n1 <= cs.len(), *ksc == cs[vx_n1 - 1],
                    /*@C09,C01*/ vx_s2@ == ksc.shard_list@,
                    vx_n2 <= vx_s2@.len(),
                    /*@C09,C01*/ bytes == m0 + colls_sum(cs, f, vx_n1 - 1) + list_sum(ksc.shard_list@, f, vx_n2 as int),
                decreases vx_s2@.len() - vx_n2,
//@ before `bytes += si.shard.stored_bytes();`
                proof {
                    lemma_list_sum_mono(ksc.shard_list@, f, vx_n2 as int, ksc.shard_list@.len() as int);
                    lemma_colls_sum_mono(cs, f, vx_n1 as int, cs.len() as int);
                }
//@ end

//@ extract mdb_shard/src/shard_file_manager.rs in `impl ShardFileManager` fn shard_is_registered
//@ ret r
//@ contract
        ensures /*@C09,C01*/ r == self.by_hash().contains_key(*shard_hash),
//@ end
}

} // verus!
fn main() {}
