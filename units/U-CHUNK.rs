//@ unit U-CHUNK
//@ props C04 C03 C15
//@ verus-args --rlimit 100
//@ config TARGET_CHUNK_SIZE MINIMUM_CHUNK_DIVISOR MAXIMUM_CHUNK_MULTIPLIER
#![feature(allocator_api)]
use vstd::prelude::*;
use std::sync::Arc;
verus! {
global size_of usize == 8;

pub uninterp spec fn gear_table(b: u8) -> u64;
pub open spec fn gear_step(h: u64, b: u8) -> u64 { ((h << 1) as u64).wrapping_add(gear_table(b)) }
pub open spec fn gear_fold(h: u64, s: Seq<u8>) -> u64 decreases s.len() {
    if s.len() == 0 { h } else { gear_step(gear_fold(h, s.drop_last()), s.last()) }
}
pub proof fn lemma_fold_append(h: u64, a: Seq<u8>, b: Seq<u8>)
    ensures gear_fold(h, a + b) == gear_fold(gear_fold(h, a), b)
    decreases b.len()
{
    if b.len() == 0 {
        assert(a + b =~= a);
    } else {
        lemma_fold_append(h, a, b.drop_last());
        assert((a + b).drop_last() =~= a + b.drop_last());
        assert((a + b).last() == b.last());
    }
}

pub open spec fn skip_of(minimum: int) -> int { if minimum >= 65 { minimum - 65 } else { 0 } }

pub closed spec fn is_cut(c: Seq<u8>, mn: int, mx: int, mk: u64) -> bool {
    c.len() == mx || (c.len() > skip_of(mn) && gear_fold(0, c.subrange(skip_of(mn), c.len() as int)) & mk == 0)
}
pub open spec fn no_cut(p: Seq<u8>, mn: int, mx: int, mk: u64) -> bool {
    forall|k: int| 0 < k <= p.len() ==> !is_cut(#[trigger] p.subrange(0, k), mn, mx, mk)
}
pub open spec fn hash_of(p: Seq<u8>, mn: int) -> u64 {
    if p.len() <= skip_of(mn) { 0 } else { gear_fold(0, p.subrange(skip_of(mn), p.len() as int)) }
}

// relation between the rolling hash over the scanned slice and the hash of the candidate chunk
pub proof fn lemma_hash_rel(b0: Seq<u8>, d: Seq<u8>, mn: int, c1: int, k: int)
    requires
        0 <= c1, 0 <= k, c1 + k <= d.len(),
        b0.len() + c1 >= skip_of(mn),
        c1 > 0 ==> b0.len() + c1 == skip_of(mn),
    ensures
        gear_fold(hash_of(b0, mn), d.subrange(c1, c1 + k)) == hash_of_or_zero(b0 + d.subrange(0, c1 + k), mn),
{
    let sk = skip_of(mn);
    let cur1 = b0.len() + c1;
    let ck = b0 + d.subrange(0, c1 + k);
    let s1 = (b0 + d.subrange(0, c1)).subrange(sk, cur1);
    assert(ck.subrange(sk, cur1 + k) =~= s1 + d.subrange(c1, c1 + k));
    lemma_fold_append(0, s1, d.subrange(c1, c1 + k));
    if cur1 == sk {
        assert(s1.len() == 0);
        assert(gear_fold(0, s1) == 0);
        // hash_of(b0) == 0 since b0.len() <= sk
    } else {
        assert(c1 == 0);
        assert(d.subrange(0, 0).len() == 0);
        assert(b0 + d.subrange(0, 0) =~= b0);
        assert(s1 =~= b0.subrange(sk, b0.len() as int));
    }
}
pub open spec fn hash_of_or_zero(p: Seq<u8>, mn: int) -> u64 {
    gear_fold(0, p.subrange(skip_of(mn), p.len() as int))
}

pub proof fn lemma_is_cut_unfold(c: Seq<u8>, mn: int, mx: int, mk: u64)
    ensures is_cut(c, mn, mx, mk) == (c.len() == mx || (c.len() > skip_of(mn) && hash_of_or_zero(c, mn) & mk == 0))
{}


pub open spec fn min_int(a: int, b: int) -> int { if a <= b { a } else { b } }

pub open spec fn scan_pre(b0: Seq<u8>, d: Seq<u8>, mn: int, mx: int, mk: u64, c1: int, re: int, r: Option<int>, hf: u64) -> bool {
    &&& 0 <= mn < mx
    &&& b0.len() < mx
    &&& no_cut(b0, mn, mx, mk)
    &&& d.len() > 0
    &&& c1 == (if b0.len() + 64 < mn { min_int(mn - b0.len() - 65, d.len() as int) } else { 0 })
    &&& re == min_int(d.len() as int, c1 + mx - (b0.len() + c1))
    &&& match r {
        Some(n) => 0 < n <= re - c1
            && hf == gear_fold(hash_of(b0, mn), d.subrange(c1, re).subrange(0, n))
            && hf & mk == 0
            && forall|k: int| 0 < k < n ==> gear_fold(hash_of(b0, mn), #[trigger] d.subrange(c1, re).subrange(0, k)) & mk != 0,
        None => hf == gear_fold(hash_of(b0, mn), d.subrange(c1, re))
            && forall|k: int| 0 < k <= re - c1 ==> gear_fold(hash_of(b0, mn), #[trigger] d.subrange(c1, re).subrange(0, k)) & mk != 0,
    }
}

pub open spec fn scan_consumed(b0: Seq<u8>, mx: int, c1: int, re: int, r: Option<int>) -> int {
    let cur1 = b0.len() + c1;
    let btnb0 = match r { Some(n) => n, None => re - c1 };
    if btnb0 + cur1 >= mx { c1 + (mx - cur1) } else { c1 + btnb0 }
}
pub open spec fn scan_create(b0: Seq<u8>, mx: int, c1: int, re: int, r: Option<int>) -> bool {
    let cur1 = b0.len() + c1;
    let btnb0 = match r { Some(n) => n, None => re - c1 };
    r.is_some() || btnb0 + cur1 >= mx
}

pub proof fn lemma_prefix_not_cut(b0: Seq<u8>, d: Seq<u8>, mn: int, mx: int, mk: u64, c1: int, re: int, r: Option<int>, hf: u64, j: int)
    requires
        scan_pre(b0, d, mn, mx, mk, c1, re, r, hf),
        0 < j < b0.len() + scan_consumed(b0, mx, c1, re, r)
          || (j == b0.len() + scan_consumed(b0, mx, c1, re, r) && !scan_create(b0, mx, c1, re, r)),
    ensures
        !is_cut((b0 + d.subrange(0, scan_consumed(b0, mx, c1, re, r))).subrange(0, j), mn, mx, mk),
{
    let sk = skip_of(mn);
    let cur1 = b0.len() + c1;
    let consumed = scan_consumed(b0, mx, c1, re, r);
    let c = b0 + d.subrange(0, consumed);
    let p = c.subrange(0, j);
    lemma_is_cut_unfold(p, mn, mx, mk);
    if j <= b0.len() {
        assert(p =~= b0.subrange(0, j));
    } else if j <= cur1 {
        // skipped region: c1 > 0 hence cur1 <= sk
        assert(j <= sk);
    } else {
        let kk = j - cur1;
        assert(p =~= b0 + d.subrange(0, c1 + kk));
        lemma_hash_rel(b0, d, mn, c1, kk);
        assert(d.subrange(c1, re).subrange(0, kk) =~= d.subrange(c1, c1 + kk));
    }
}


pub proof fn lemma_cut_point(b0: Seq<u8>, d: Seq<u8>, mn: int, mx: int, mk: u64, c1: int, re: int, r: Option<int>, hf: u64)
    requires scan_pre(b0, d, mn, mx, mk, c1, re, r, hf),
    ensures ({
        let consumed = scan_consumed(b0, mx, c1, re, r);
        let c = b0 + d.subrange(0, consumed);
        &&& 0 < consumed <= d.len()
        &&& c.len() <= mx
        &&& scan_create(b0, mx, c1, re, r) ==> is_cut(c, mn, mx, mk)
        &&& !scan_create(b0, mx, c1, re, r) ==> consumed == d.len() && c.len() < mx && hf == hash_of(c, mn)
    }),
{
    let sk = skip_of(mn);
    let cur1 = b0.len() + c1;
    let consumed = scan_consumed(b0, mx, c1, re, r);
    let c = b0 + d.subrange(0, consumed);
    lemma_is_cut_unfold(c, mn, mx, mk);
    let kk = consumed - c1;
    if c1 < d.len() {
        lemma_hash_rel(b0, d, mn, c1, kk);
        assert(d.subrange(c1, re).subrange(0, kk) =~= d.subrange(c1, c1 + kk));
        if r.is_none() { assert(d.subrange(c1, re).subrange(0, re - c1) =~= d.subrange(c1, re)); }
    } else {
        assert(d.subrange(c1, re).len() == 0);
    }
}


pub struct MerkleHash(pub [u64;4]);
pub uninterp spec fn spec_data_hash(s: Seq<u8>) -> MerkleHash;
#[verifier::external_body]
pub fn compute_data_hash(slice: &[u8]) -> (r: MerkleHash) ensures r == spec_data_hash(slice@) { unimplemented!() }
pub fn min(a: usize, b: usize) -> (r: usize) ensures r == if a <= b { a } else { b } { if a <= b { a } else { b } }
pub assume_specification<T: std::default::Default> [std::mem::take] (x: &mut T) -> (r: T)
    ensures r == *old(x), call_ensures(T::default, (), *final(x));
pub assume_specification<T, A: std::alloc::Allocator + Clone> [<Arc<[T], A> as From<Vec<T, A>>>::from] (v: Vec<T, A>) -> (r: Arc<[T], A>)
    ensures r@ == v@;

pub struct GearHasher { pub hash: u64 }
impl GearHasher {
    #[verifier::external_body]
    pub fn next_match(&mut self, buf: &[u8], mask: u64) -> (r: Option<usize>)
        ensures
            match r {
                Some(n) => 0 < n <= buf@.len()
                    && final(self).hash == gear_fold(old(self).hash, buf@.subrange(0, n as int))
                    && final(self).hash & mask == 0
                    && forall|k: int| 0 < k < n ==> gear_fold(old(self).hash, #[trigger] buf@.subrange(0, k)) & mask != 0,
                None => final(self).hash == gear_fold(old(self).hash, buf@)
                    && forall|k: int| 0 < k <= buf@.len() ==> gear_fold(old(self).hash, #[trigger] buf@.subrange(0, k)) & mask != 0,
            }
    { unimplemented!() }
    #[verifier::external_body]
    pub fn set_hash(&mut self, h: u64) ensures final(self).hash == h { unimplemented!() }
}

//@ extract deduplication/src/chunking.rs struct Chunk
//@ end
//@ extract deduplication/src/chunking.rs struct Chunker
//@ subst `gearhash::Hasher<'static>` => `GearHasher` :: R11 stub type for the gearhash dependency
//@ end
pub open spec fn first_cut(c: Seq<u8>, mn: int, mx: int, mk: u64) -> bool {
    is_cut(c, mn, mx, mk) && no_cut(c.drop_last(), mn, mx, mk)
}
impl Chunker {
    spec fn wf(&self) -> bool {
        &&& self.cur_chunk_len == self.chunkbuf@.len()
        &&& self.cur_chunk_len < self.maximum_chunk
        &&& self.minimum_chunk < self.maximum_chunk
        &&& self.maximum_chunk <= 0x2_0000_0000
        &&& no_cut(self.chunkbuf@, self.minimum_chunk as int, self.maximum_chunk as int, self.mask)
        &&& self.hash.hash == hash_of(self.chunkbuf@, self.minimum_chunk as int)
    }

//@ extract deduplication/src/chunking.rs in `impl Chunker` fn next
//@ ret ret
//@ contract
        requires old(self).wf(), data@.len() <= isize::MAX,
        ensures
            ret.1 <= data@.len(),
            final(self).wf(),
            final(self).minimum_chunk == old(self).minimum_chunk, final(self).maximum_chunk == old(self).maximum_chunk, final(self).mask == old(self).mask,
            match ret.0 {
                Some(c) => c.data@ == old(self).chunkbuf@ + data@.subrange(0, ret.1 as int)
                    && c.hash == spec_data_hash(c.data@)
                    && final(self).chunkbuf@.len() == 0
                    && c.data@.len() > 0
                    && c.data@.len() <= old(self).maximum_chunk
                    && (first_cut(c.data@, old(self).minimum_chunk as int, old(self).maximum_chunk as int, old(self).mask)
                        || (is_final && ret.1 == data@.len() && no_cut(c.data@, old(self).minimum_chunk as int, old(self).maximum_chunk as int, old(self).mask))),
                None => ret.1 == data@.len() && final(self).chunkbuf@ == old(self).chunkbuf@ + data@
                    && (is_final ==> final(self).chunkbuf@.len() == 0),
            },
//@ after `let mut consume_len = 0;`
        let ghost mn = self.minimum_chunk as int; let ghost mx = self.maximum_chunk as int; let ghost mk = self.mask;
        let ghost b0 = self.chunkbuf@;
        let ghost mut c1: int = 0; let ghost mut r: Option<int> = None; let ghost mut re: int = 0;
//@ before `let read_end`
        proof { c1 = consume_len as int; }
//@ after `create_chunk = true;` #1
        proof { r = Some(boundary as int); }
//@ before `if bytes_to_next_boundary + self.cur_chunk_len >= self.maximum_chunk`
            proof {
                re = read_end as int;
                assert(scan_pre(b0, data@, mn, mx, mk, c1, read_end as int, r, self.hash.hash));
                lemma_cut_point(b0, data@, mn, mx, mk, c1, read_end as int, r, self.hash.hash);
            }
//@ after `self.chunkbuf.extend_from_slice(&data[0..consume_len]);`
            proof {
                let consumed = scan_consumed(b0, mx, c1, read_end as int, r);
                assert(consumed == consume_len);
                assert(create_chunk == scan_create(b0, mx, c1, read_end as int, r));
                let c = b0 + data@.subrange(0, consumed);
                assert(self.chunkbuf@ =~= c);
                assert forall|j: int| 0 < j <= c.drop_last().len() implies !is_cut(#[trigger] c.drop_last().subrange(0, j), mn, mx, mk) by {
                    lemma_prefix_not_cut(b0, data@, mn, mx, mk, c1, read_end as int, r, self.hash.hash, j);
                    assert(c.drop_last().subrange(0, j) =~= c.subrange(0, j));
                }
                if !create_chunk {
                    assert forall|j: int| 0 < j <= c.len() implies !is_cut(#[trigger] c.subrange(0, j), mn, mx, mk) by {
                        lemma_prefix_not_cut(b0, data@, mn, mx, mk, c1, read_end as int, r, self.hash.hash, j);
                    }
                }
            }
//@ before `let ret = {`
        proof { if n_bytes == 0 { assert(b0 + data@.subrange(0, 0) =~= b0); assert(b0 + data@ =~= b0); } }
//@ before `let chunk = Chunk {`
                proof { assert(self.chunkbuf@.subrange(0, self.chunkbuf@.len() as int) =~= self.chunkbuf@); }
//@ after `self.hash.set_hash(0);`
                proof { assert(self.chunkbuf@.subrange(0, 0) =~= self.chunkbuf@); }
//@ before `(None, consume_len)`
                proof { assert(data@.subrange(0, data@.len() as int) =~= data@); }
//@ end
}

} // verus!
fn main() {}
