//@ unit U-CHUNK
//@ props C04 C03 C15
//@ verus-args --rlimit 100
//@ config TARGET_CHUNK_SIZE MINIMUM_CHUNK_DIVISOR MAXIMUM_CHUNK_MULTIPLIER
#![feature(allocator_api)]
#![allow(non_snake_case, unused)]
use vstd::prelude::*;
use vstd::std_specs::bits::*;
use std::sync::Arc;
verus! {
global size_of usize == 8;

pub uninterp spec fn gear_table(b: u8) -> u64;
pub open spec fn gear_step(h: u64, b: u8) -> u64 { ((h << 1) as u64).wrapping_add(gear_table(b)) }
pub open spec fn gear_fold(h: u64, s: Seq<u8>) -> u64 decreases s.len() {
    if s.len() == 0 { h } else { gear_step(gear_fold(h, s.drop_last()), s.last()) }
}
pub proof fn lemma_fold_append(h: u64, a: Seq<u8>, b: Seq<u8>)
    ensures gear_fold(h, a + b) == gear_fold(gear_fold(h, a), b)
    decreases b.len()
{
    if b.len() == 0 {
        assert(a + b =~= a);
    } else {
        lemma_fold_append(h, a, b.drop_last());
        assert((a + b).drop_last() =~= a + b.drop_last());
        assert((a + b).last() == b.last());
    }
}

pub open spec fn skip_of(minimum: int) -> int { if minimum >= 65 { minimum - 65 } else { 0 } }

pub closed spec fn is_cut(c: Seq<u8>, mn: int, mx: int, mk: u64) -> bool {
    c.len() == mx || (c.len() > skip_of(mn) && gear_fold(0, c.subrange(skip_of(mn), c.len() as int)) & mk == 0)
}
pub open spec fn no_cut(p: Seq<u8>, mn: int, mx: int, mk: u64) -> bool {
    forall|k: int| 0 < k <= p.len() ==> !is_cut(#[trigger] p.subrange(0, k), mn, mx, mk)
}
pub open spec fn hash_of(p: Seq<u8>, mn: int) -> u64 {
    if p.len() <= skip_of(mn) { 0 } else { gear_fold(0, p.subrange(skip_of(mn), p.len() as int)) }
}

// relation between the rolling hash over the scanned slice and the hash of the candidate chunk
pub proof fn lemma_hash_rel(b0: Seq<u8>, d: Seq<u8>, mn: int, c1: int, k: int)
    requires
        0 <= c1, 0 <= k, c1 + k <= d.len(),
        b0.len() + c1 >= skip_of(mn),
        c1 > 0 ==> b0.len() + c1 == skip_of(mn),
    ensures
        gear_fold(hash_of(b0, mn), d.subrange(c1, c1 + k)) == hash_of_or_zero(b0 + d.subrange(0, c1 + k), mn),
{
    let sk = skip_of(mn);
    let cur1 = b0.len() + c1;
    let ck = b0 + d.subrange(0, c1 + k);
    let s1 = (b0 + d.subrange(0, c1)).subrange(sk, cur1);
    assert(ck.subrange(sk, cur1 + k) =~= s1 + d.subrange(c1, c1 + k));
    lemma_fold_append(0, s1, d.subrange(c1, c1 + k));
    if cur1 == sk {
        assert(s1.len() == 0);
        assert(gear_fold(0, s1) == 0);
        // hash_of(b0) == 0 since b0.len() <= sk
    } else {
        assert(c1 == 0);
        assert(d.subrange(0, 0).len() == 0);
        assert(b0 + d.subrange(0, 0) =~= b0);
        assert(s1 =~= b0.subrange(sk, b0.len() as int));
    }
}
pub open spec fn hash_of_or_zero(p: Seq<u8>, mn: int) -> u64 {
    gear_fold(0, p.subrange(skip_of(mn), p.len() as int))
}

pub proof fn lemma_is_cut_unfold(c: Seq<u8>, mn: int, mx: int, mk: u64)
    ensures is_cut(c, mn, mx, mk) == (c.len() == mx || (c.len() > skip_of(mn) && hash_of_or_zero(c, mn) & mk == 0))
{}


pub open spec fn min_int(a: int, b: int) -> int { if a <= b { a } else { b } }

pub open spec fn scan_pre(b0: Seq<u8>, d: Seq<u8>, mn: int, mx: int, mk: u64, c1: int, re: int, r: Option<int>, hf: u64) -> bool {
    &&& 0 <= mn < mx
    &&& b0.len() < mx
    &&& no_cut(b0, mn, mx, mk)
    &&& d.len() > 0
    &&& c1 == (if b0.len() + 64 < mn { min_int(mn - b0.len() - 65, d.len() as int) } else { 0 })
    &&& re == min_int(d.len() as int, c1 + mx - (b0.len() + c1))
    &&& match r {
        Some(n) => 0 < n <= re - c1
            && hf == gear_fold(hash_of(b0, mn), d.subrange(c1, re).subrange(0, n))
            && hf & mk == 0
            && forall|k: int| 0 < k < n ==> gear_fold(hash_of(b0, mn), #[trigger] d.subrange(c1, re).subrange(0, k)) & mk != 0,
        None => hf == gear_fold(hash_of(b0, mn), d.subrange(c1, re))
            && forall|k: int| 0 < k <= re - c1 ==> gear_fold(hash_of(b0, mn), #[trigger] d.subrange(c1, re).subrange(0, k)) & mk != 0,
    }
}

pub open spec fn scan_consumed(b0: Seq<u8>, mx: int, c1: int, re: int, r: Option<int>) -> int {
    let cur1 = b0.len() + c1;
    let btnb0 = match r { Some(n) => n, None => re - c1 };
    if btnb0 + cur1 >= mx { c1 + (mx - cur1) } else { c1 + btnb0 }
}
pub open spec fn scan_create(b0: Seq<u8>, mx: int, c1: int, re: int, r: Option<int>) -> bool {
    let cur1 = b0.len() + c1;
    let btnb0 = match r { Some(n) => n, None => re - c1 };
    r.is_some() || btnb0 + cur1 >= mx
}

pub proof fn lemma_prefix_not_cut(b0: Seq<u8>, d: Seq<u8>, mn: int, mx: int, mk: u64, c1: int, re: int, r: Option<int>, hf: u64, j: int)
    requires
        scan_pre(b0, d, mn, mx, mk, c1, re, r, hf),
        0 < j < b0.len() + scan_consumed(b0, mx, c1, re, r)
          || (j == b0.len() + scan_consumed(b0, mx, c1, re, r) && !scan_create(b0, mx, c1, re, r)),
    ensures
        !is_cut((b0 + d.subrange(0, scan_consumed(b0, mx, c1, re, r))).subrange(0, j), mn, mx, mk),
{
    let sk = skip_of(mn);
    let cur1 = b0.len() + c1;
    let consumed = scan_consumed(b0, mx, c1, re, r);
    let c = b0 + d.subrange(0, consumed);
    let p = c.subrange(0, j);
    lemma_is_cut_unfold(p, mn, mx, mk);
    if j <= b0.len() {
        assert(p =~= b0.subrange(0, j));
    } else if j <= cur1 {
        // skipped region: c1 > 0 hence cur1 <= sk
        assert(j <= sk);
    } else {
        let kk = j - cur1;
        assert(p =~= b0 + d.subrange(0, c1 + kk));
        lemma_hash_rel(b0, d, mn, c1, kk);
        assert(d.subrange(c1, re).subrange(0, kk) =~= d.subrange(c1, c1 + kk));
    }
}


pub proof fn lemma_cut_point(b0: Seq<u8>, d: Seq<u8>, mn: int, mx: int, mk: u64, c1: int, re: int, r: Option<int>, hf: u64)
    requires scan_pre(b0, d, mn, mx, mk, c1, re, r, hf),
    ensures ({
        let consumed = scan_consumed(b0, mx, c1, re, r);
        let c = b0 + d.subrange(0, consumed);
        &&& 0 < consumed <= d.len()
        &&& c.len() <= mx
        &&& scan_create(b0, mx, c1, re, r) ==> is_cut(c, mn, mx, mk)
        &&& !scan_create(b0, mx, c1, re, r) ==> consumed == d.len() && c.len() < mx && hf == hash_of(c, mn)
    }),
{
    let sk = skip_of(mn);
    let cur1 = b0.len() + c1;
    let consumed = scan_consumed(b0, mx, c1, re, r);
    let c = b0 + d.subrange(0, consumed);
    lemma_is_cut_unfold(c, mn, mx, mk);
    let kk = consumed - c1;
    if c1 < d.len() {
        lemma_hash_rel(b0, d, mn, c1, kk);
        assert(d.subrange(c1, re).subrange(0, kk) =~= d.subrange(c1, c1 + kk));
        if r.is_none() { assert(d.subrange(c1, re).subrange(0, re - c1) =~= d.subrange(c1, re)); }
    } else {
        assert(d.subrange(c1, re).len() == 0);
    }
}



// ---- configuration: every value the start-up assertions of `Chunker::new` admit (R6) -------------------------------
pub uninterp spec fn spec_TARGET_CHUNK_SIZE() -> usize;
pub uninterp spec fn spec_MINIMUM_CHUNK_DIVISOR() -> usize;
pub uninterp spec fn spec_MAXIMUM_CHUNK_MULTIPLIER() -> usize;
#[verifier::external_body] pub fn TARGET_CHUNK_SIZE() -> (r: usize) ensures r == spec_TARGET_CHUNK_SIZE() { unimplemented!() }
#[verifier::external_body] pub fn MINIMUM_CHUNK_DIVISOR() -> (r: usize) ensures r == spec_MINIMUM_CHUNK_DIVISOR() { unimplemented!() }
#[verifier::external_body] pub fn MAXIMUM_CHUNK_MULTIPLIER() -> (r: usize) ensures r == spec_MAXIMUM_CHUNK_MULTIPLIER() { unimplemented!() }
// configuration predicate: a zero divisor panics in `new`; the multiplier bound keeps `target * multiplier` inside usize
pub open spec fn chunk_config_ok() -> bool {
    1 <= spec_MINIMUM_CHUNK_DIVISOR() && 1 <= spec_MAXIMUM_CHUNK_MULTIPLIER() <= 0x4000_0000
}
pub uninterp spec fn spec_count_ones(x: usize) -> u32;
pub assume_specification [usize::count_ones] (x: usize) -> (r: u32) ensures r == spec_count_ones(x);
#[verifier::external_body] pub fn vx_abort() ensures false { panic!() }

pub struct MerkleHash(pub [u64;4]);
pub uninterp spec fn spec_data_hash(s: Seq<u8>) -> MerkleHash;
#[verifier::external_body]
pub fn compute_data_hash(slice: &[u8]) -> (r: MerkleHash) ensures r == spec_data_hash(slice@) { unimplemented!() }
pub fn min(a: usize, b: usize) -> (r: usize) ensures r == if a <= b { a } else { b } { if a <= b { a } else { b } }
pub assume_specification<T: std::default::Default> [std::mem::take] (x: &mut T) -> (r: T)
    ensures r == *old(x), call_ensures(T::default, (), *final(x));
pub assume_specification<T, A: std::alloc::Allocator + Clone> [<Arc<[T], A> as From<Vec<T, A>>>::from] (v: Vec<T, A>) -> (r: Arc<[T], A>)
    ensures r@ == v@;

pub struct GearHasher { pub hash: u64 }
impl GearHasher {
    #[verifier::external_body]
    pub fn default() -> (r: GearHasher) ensures r.hash == 0 { unimplemented!() }
    #[verifier::external_body]
    pub fn next_match(&mut self, buf: &[u8], mask: u64) -> (r: Option<usize>)
        ensures
            match r {
                Some(n) => 0 < n <= buf@.len()
                    && final(self).hash == gear_fold(old(self).hash, buf@.subrange(0, n as int))
                    && final(self).hash & mask == 0
                    && forall|k: int| 0 < k < n ==> gear_fold(old(self).hash, #[trigger] buf@.subrange(0, k)) & mask != 0,
                None => final(self).hash == gear_fold(old(self).hash, buf@)
                    && forall|k: int| 0 < k <= buf@.len() ==> gear_fold(old(self).hash, #[trigger] buf@.subrange(0, k)) & mask != 0,
            }
    { unimplemented!() }
    #[verifier::external_body]
    pub fn set_hash(&mut self, h: u64) ensures final(self).hash == h { unimplemented!() }
}

//@ extract deduplication/src/chunking.rs struct Chunk
//@ end
//@ extract deduplication/src/chunking.rs struct Chunker
//@ subst `gearhash::Hasher<'static>` => `GearHasher` :: R11 stub type for the gearhash dependency
//@ end
pub open spec fn first_cut(c: Seq<u8>, mn: int, mx: int, mk: u64) -> bool {
    is_cut(c, mn, mx, mk) && no_cut(c.drop_last(), mn, mx, mk)
}

spec fn concat_chunks(s: Seq<Chunk>) -> Seq<u8> decreases s.len() {
    if s.len() == 0 { Seq::<u8>::empty() } else { concat_chunks(s.drop_last()) + s.last().data@ }
}
// every chunk is a first_cut of the rule; if `last_is_remainder` the last one may instead be a cut-free final remainder
spec fn chunks_ok(s: Seq<Chunk>, mn: int, mx: int, mk: u64, last_may_be_remainder: bool) -> bool {
    forall|i: int| 0 <= i < s.len() ==> (first_cut(#[trigger] s[i].data@, mn, mx, mk)
        || (last_may_be_remainder && i == s.len() - 1 && no_cut(s[i].data@, mn, mx, mk)))
}

spec fn datas(s: Seq<Chunk>) -> Seq<Seq<u8>> { Seq::new(s.len(), |i: int| s[i].data@) }
proof fn lemma_concat_bridge(s: Seq<Chunk>)
    ensures concat_chunks(s) == concat_front(datas(s))
    decreases s.len()
{
    if s.len() == 0 {
        assert(datas(s) =~= Seq::<Seq<u8>>::empty());
    } else {
        lemma_concat_bridge(s.drop_last());
        assert(datas(s) =~= datas(s.drop_last()).push(s.last().data@));
        lemma_concat_front_push(datas(s.drop_last()), s.last().data@);
    }
}
// The statement of C04/C03 over the contracts: whatever the call partition, two runs over the same stream from an empty
// buffer that each satisfy next_block's postcondition chain produce the same chunk data list and the same remainder.
proof fn lemma_partition_independent(stream: Seq<u8>, l1: Seq<Chunk>, r1: Seq<u8>, l2: Seq<Chunk>, r2: Seq<u8>, mn: int, mx: int, mk: u64)
    requires 0 <= mn < mx,
        stream == concat_chunks(l1) + r1, chunks_ok(l1, mn, mx, mk, false), no_cut(r1, mn, mx, mk),
        stream == concat_chunks(l2) + r2, chunks_ok(l2, mn, mx, mk, false), no_cut(r2, mn, mx, mk),
    ensures datas(l1) == datas(l2), r1 == r2,
{
    lemma_concat_bridge(l1); lemma_concat_bridge(l2);
    lemma_decomp_unique(stream, datas(l1), r1, datas(l2), r2, mn, mx, mk);
}
proof fn lemma_next_block_step(b0: Seq<u8>, pre: Seq<u8>, used: Seq<u8>, old_ret: Seq<Chunk>, old_buf: Seq<u8>, new_ret: Seq<Chunk>, new_buf: Seq<u8>, mn: int, mx: int, mk: u64)
    requires
        b0 + pre == concat_chunks(old_ret) + old_buf,
        (new_ret == old_ret && new_buf == old_buf + used)
          || (new_ret.len() == old_ret.len() + 1 && new_ret.drop_last() == old_ret && new_ret.last().data@ == old_buf + used && new_buf.len() == 0),
    ensures
        b0 + (pre + used) == concat_chunks(new_ret) + new_buf,
{
    assert(b0 + (pre + used) =~= (b0 + pre) + used);
    if new_ret == old_ret {
        assert((concat_chunks(old_ret) + old_buf) + used =~= concat_chunks(old_ret) + (old_buf + used));
    } else {
        assert((concat_chunks(old_ret) + old_buf) + used =~= concat_chunks(old_ret) + (old_buf + used));
        assert(concat_chunks(new_ret) + new_buf =~= concat_chunks(new_ret));
    }
}

// ---- partition independence (C04/C03): a stream has exactly one decomposition into first_cut chunks + cut-free remainder -----
pub open spec fn concat_front(s: Seq<Seq<u8>>) -> Seq<u8> decreases s.len() {
    if s.len() == 0 { Seq::<u8>::empty() } else { s[0] + concat_front(s.drop_first()) }
}
pub open spec fn decomp(stream: Seq<u8>, l: Seq<Seq<u8>>, r: Seq<u8>, mn: int, mx: int, mk: u64) -> bool {
    &&& stream == concat_front(l) + r
    &&& forall|i: int| 0 <= i < l.len() ==> first_cut(#[trigger] l[i], mn, mx, mk)
    &&& no_cut(r, mn, mx, mk)
}
pub proof fn lemma_cut_nonempty(c: Seq<u8>, mn: int, mx: int, mk: u64)
    requires is_cut(c, mn, mx, mk), 0 <= mn < mx,
    ensures c.len() > 0,
{ lemma_is_cut_unfold(c, mn, mx, mk); }

// two first_cut chunks that are both prefixes of one stream are equal
pub proof fn lemma_first_cut_unique(stream: Seq<u8>, a: Seq<u8>, b: Seq<u8>, mn: int, mx: int, mk: u64)
    requires 0 <= mn < mx, first_cut(a, mn, mx, mk), first_cut(b, mn, mx, mk),
        a.len() <= stream.len(), b.len() <= stream.len(),
        a == stream.subrange(0, a.len() as int), b == stream.subrange(0, b.len() as int),
    ensures a == b,
{
    lemma_cut_nonempty(a, mn, mx, mk); lemma_cut_nonempty(b, mn, mx, mk);
    if a.len() < b.len() {
        assert(b.drop_last().subrange(0, a.len() as int) =~= a);
    } else if b.len() < a.len() {
        assert(a.drop_last().subrange(0, b.len() as int) =~= b);
    }
}
pub proof fn lemma_decomp_unique(stream: Seq<u8>, l1: Seq<Seq<u8>>, r1: Seq<u8>, l2: Seq<Seq<u8>>, r2: Seq<u8>, mn: int, mx: int, mk: u64)
    requires 0 <= mn < mx, decomp(stream, l1, r1, mn, mx, mk), decomp(stream, l2, r2, mn, mx, mk),
    ensures l1 == l2, r1 == r2,
    decreases l1.len(),
{
    if l1.len() == 0 {
        assert(concat_front(l1) + r1 =~= r1);
        if l2.len() > 0 {
            let c = l2[0];
            lemma_cut_nonempty(c, mn, mx, mk);
            assert(r1.subrange(0, c.len() as int) =~= c);
            assert(false);
        }
        assert(concat_front(l2) + r2 =~= r2);
        assert(l1 =~= l2);
    } else if l2.len() == 0 {
        assert(concat_front(l2) + r2 =~= r2);
        let c = l1[0];
        lemma_cut_nonempty(c, mn, mx, mk);
        assert(r2.subrange(0, c.len() as int) =~= c);
        assert(false);
    } else {
        let a = l1[0]; let b = l2[0];
        assert(stream.subrange(0, a.len() as int) =~= a);
        assert(stream.subrange(0, b.len() as int) =~= b);
        lemma_first_cut_unique(stream, a, b, mn, mx, mk);
        let rest = stream.subrange(a.len() as int, stream.len() as int);
        assert(rest =~= concat_front(l1.drop_first()) + r1);
        assert(rest =~= concat_front(l2.drop_first()) + r2);
        assert forall|i: int| 0 <= i < l1.drop_first().len() implies first_cut(#[trigger] l1.drop_first()[i], mn, mx, mk) by { assert(l1.drop_first()[i] == l1[i + 1]); }
        assert forall|i: int| 0 <= i < l2.drop_first().len() implies first_cut(#[trigger] l2.drop_first()[i], mn, mx, mk) by { assert(l2.drop_first()[i] == l2[i + 1]); }
        lemma_decomp_unique(rest, l1.drop_first(), r1, l2.drop_first(), r2, mn, mx, mk);
        assert(l1 =~= seq![a] + l1.drop_first());
        assert(l2 =~= seq![b] + l2.drop_first());
    }
}
// every non-final chunk is at least minimum - 64 bytes long and at most maximum
pub proof fn lemma_first_cut_bounds(c: Seq<u8>, mn: int, mx: int, mk: u64)
    requires 0 <= mn < mx, first_cut(c, mn, mx, mk),
    ensures c.len() <= mx ==> true, c.len() >= mn - 64 || c.len() == mx, c.len() > 0,
{ lemma_is_cut_unfold(c, mn, mx, mk); }
pub proof fn lemma_concat_front_push(l: Seq<Seq<u8>>, x: Seq<u8>)
    ensures concat_front(l.push(x)) == concat_front(l) + x
    decreases l.len()
{
    if l.len() == 0 {
        assert(l.push(x).drop_first() =~= l);
        assert(l.push(x)[0] == x);
        assert(concat_front(l) =~= Seq::<u8>::empty());
        assert(concat_front(l.push(x)) == l.push(x)[0] + concat_front(l.push(x).drop_first()));
        assert(concat_front(l.push(x)) =~= x + Seq::<u8>::empty());
        assert(concat_front(l) + x =~= x);
        assert(x + Seq::<u8>::empty() =~= x);
    } else {
        assert(l.push(x).drop_first() =~= l.drop_first().push(x));
        lemma_concat_front_push(l.drop_first(), x);
        assert(l[0] + (concat_front(l.drop_first()) + x) =~= (l[0] + concat_front(l.drop_first())) + x);
    }
}
impl Chunker {
    spec fn wf(&self) -> bool {
        &&& self.cur_chunk_len == self.chunkbuf@.len()
        &&& self.cur_chunk_len < self.maximum_chunk
        &&& self.minimum_chunk < self.maximum_chunk
        &&& self.maximum_chunk <= 0x4000_0000_0000_0000
        &&& no_cut(self.chunkbuf@, self.minimum_chunk as int, self.maximum_chunk as int, self.mask)
        &&& self.hash.hash == hash_of(self.chunkbuf@, self.minimum_chunk as int)
    }

//@ extract deduplication/src/chunking.rs in `impl Chunker` fn new
//@ ret ret
//@ subst `gearhash::Hasher::default()` => `GearHasher::default()` :: R11 stub type for the gearhash dependency
//@ contract
        requires chunk_config_ok(),
        ensures
            // (the three start-up `assert!`s abort otherwise)
            /*@C04*/ spec_count_ones(target_chunk_size) == 1 && 64 < target_chunk_size < u32::MAX,
            /*@C04,C15*/ ret.wf(),
            /*@C04*/ ret.chunkbuf@.len() == 0,
            /*@C04,C15*/ ret.minimum_chunk == target_chunk_size / spec_MINIMUM_CHUNK_DIVISOR(),
            /*@C04,C15*/ ret.maximum_chunk == target_chunk_size * spec_MAXIMUM_CHUNK_MULTIPLIER(),
            /*@C04*/ ret.mask == ((target_chunk_size - 1) as u64) << (u64_leading_zeros((target_chunk_size - 1) as u64) as u64),
//@ before `let mask = mask <<`
        proof { axiom_u64_leading_zeros(mask); }
//@ before `let maximum_chunk =`
        proof {
            assert(target_chunk_size * spec_MAXIMUM_CHUNK_MULTIPLIER() <= 0x4000_0000_0000_0000) by (nonlinear_arith)
                requires target_chunk_size < 0x1_0000_0000, spec_MAXIMUM_CHUNK_MULTIPLIER() <= 0x4000_0000;
        }
//@ end

//@ extract deduplication/src/chunking.rs in `impl Chunker` fn next
//@ ret ret
//@ contract
        requires old(self).wf(), data@.len() <= isize::MAX,
        ensures
            ret.1 <= data@.len(),
            data@.len() > 0 ==> ret.1 > 0,
            final(self).wf(),
            final(self).minimum_chunk == old(self).minimum_chunk, final(self).maximum_chunk == old(self).maximum_chunk, final(self).mask == old(self).mask,
            match ret.0 {
                Some(c) => c.data@ == old(self).chunkbuf@ + data@.subrange(0, ret.1 as int)
                    && c.hash == spec_data_hash(c.data@)
                    && final(self).chunkbuf@.len() == 0
                    && c.data@.len() > 0
                    && c.data@.len() <= old(self).maximum_chunk
                    && (first_cut(c.data@, old(self).minimum_chunk as int, old(self).maximum_chunk as int, old(self).mask)
                        || (is_final && ret.1 == data@.len() && no_cut(c.data@, old(self).minimum_chunk as int, old(self).maximum_chunk as int, old(self).mask))),
                None => ret.1 == data@.len() && final(self).chunkbuf@ == old(self).chunkbuf@ + data@
                    && (is_final ==> final(self).chunkbuf@.len() == 0),
            },
//@ after `let mut consume_len = 0;`
        let ghost mn = self.minimum_chunk as int; let ghost mx = self.maximum_chunk as int; let ghost mk = self.mask;
        let ghost b0 = self.chunkbuf@;
        let ghost mut c1: int = 0; let ghost mut r: Option<int> = None; let ghost mut re: int = 0;
//@ before `let read_end`
        proof { c1 = consume_len as int; }
//@ after `create_chunk = true;` #1
        proof { r = Some(boundary as int); }
//@ before `if bytes_to_next_boundary + self.cur_chunk_len >= self.maximum_chunk`
            proof {
                re = read_end as int;
                assert(scan_pre(b0, data@, mn, mx, mk, c1, read_end as int, r, self.hash.hash));
                lemma_cut_point(b0, data@, mn, mx, mk, c1, read_end as int, r, self.hash.hash);
            }
//@ after `self.chunkbuf.extend_from_slice(&data[0..consume_len]);`
            proof {
                let consumed = scan_consumed(b0, mx, c1, read_end as int, r);
                assert(consumed == consume_len);
                assert(create_chunk == scan_create(b0, mx, c1, read_end as int, r));
                let c = b0 + data@.subrange(0, consumed);
                assert(self.chunkbuf@ =~= c);
                assert forall|j: int| 0 < j <= c.drop_last().len() implies !is_cut(#[trigger] c.drop_last().subrange(0, j), mn, mx, mk) by {
                    lemma_prefix_not_cut(b0, data@, mn, mx, mk, c1, read_end as int, r, self.hash.hash, j);
                    assert(c.drop_last().subrange(0, j) =~= c.subrange(0, j));
                }
                if !create_chunk {
                    assert forall|j: int| 0 < j <= c.len() implies !is_cut(#[trigger] c.subrange(0, j), mn, mx, mk) by {
                        lemma_prefix_not_cut(b0, data@, mn, mx, mk, c1, read_end as int, r, self.hash.hash, j);
                    }
                }
            }
//@ before `let ret = {`
        proof { if n_bytes == 0 { assert(b0 + data@.subrange(0, 0) =~= b0); assert(b0 + data@ =~= b0); } }
//@ before `let chunk = Chunk {`
                proof { assert(self.chunkbuf@.subrange(0, self.chunkbuf@.len() as int) =~= self.chunkbuf@); }
//@ after `self.hash.set_hash(0);`
                proof { assert(self.chunkbuf@.subrange(0, 0) =~= self.chunkbuf@); }
//@ before `(None, consume_len)`
                proof { assert(data@.subrange(0, data@.len() as int) =~= data@); }
//@ end

//@ extract deduplication/src/chunking.rs in `impl Chunker` fn next_block
//@ ret ret
//@ contract
        requires old(self).wf(), data@.len() <= isize::MAX,
        ensures
            final(self).wf(),
            final(self).minimum_chunk == old(self).minimum_chunk, final(self).maximum_chunk == old(self).maximum_chunk, final(self).mask == old(self).mask,
            /*@C04,C03*/ old(self).chunkbuf@ + data@ == concat_chunks(ret@) + final(self).chunkbuf@,
            /*@C04,C03*/ chunks_ok(ret@, old(self).minimum_chunk as int, old(self).maximum_chunk as int, old(self).mask, is_final && final(self).chunkbuf@.len() == 0),
            /*@C04,C15*/ forall|i: int| 0 <= i < ret@.len() ==> 0 < (#[trigger] ret@[i]).data@.len() <= old(self).maximum_chunk,
            /*@C04*/ (is_final && data@.len() > 0) ==> final(self).chunkbuf@.len() == 0,
            /*@C04,C03*/ forall|i: int| 0 <= i < ret@.len() ==> (#[trigger] ret@[i]).hash == spec_data_hash(ret@[i].data@),
//@ after `let mut pos = 0;`
        let ghost mn = self.minimum_chunk as int; let ghost mx = self.maximum_chunk as int; let ghost mk = self.mask;
        let ghost b0 = self.chunkbuf@;
        proof { assert(data@.subrange(0, 0) =~= Seq::<u8>::empty()); assert(b0 + Seq::<u8>::empty() =~= b0); assert(concat_chunks(ret@) =~= Seq::<u8>::empty());
                assert(Seq::<u8>::empty() + b0 =~= b0); }
//@ loop 1
            invariant
                self.wf(), self.minimum_chunk == mn, self.maximum_chunk == mx, self.mask == mk,
                mn == old(self).minimum_chunk, mx == old(self).maximum_chunk, mk == old(self).mask, b0 == old(self).chunkbuf@,
                data@.len() <= isize::MAX,
                pos <= data@.len(),
                b0 + data@.subrange(0, pos as int) == concat_chunks(ret@) + self.chunkbuf@,
                chunks_ok(ret@, mn, mx, mk, is_final && pos == data@.len() && self.chunkbuf@.len() == 0 && pos > 0),
                forall|i: int| 0 <= i < ret@.len() ==> 0 < (#[trigger] ret@[i]).data@.len() <= mx,
                forall|i: int| 0 <= i < ret@.len() ==> (#[trigger] ret@[i]).hash == spec_data_hash(ret@[i].data@),
                (is_final && pos == data@.len() && pos > 0) ==> self.chunkbuf@.len() == 0,
                // every emitted chunk but a final remainder is a first_cut; a final remainder can only be the very last action
                pos < data@.len() ==> chunks_ok(ret@, mn, mx, mk, false),
            decreases data@.len() - pos,
//@ before `return ret;`
                proof { assert(data@.subrange(0, pos as int) =~= data@); }
//@ before `let (maybe_chunk, bytes_consumed)`
            let ghost old_buf = self.chunkbuf@; let ghost old_ret = ret@; let ghost pos0 = pos as int;
//@ after `self.next(&data[pos..], is_final);`
            let ghost mc = maybe_chunk;
//@ before `pos += bytes_consumed;`
            proof {
                if mc.is_some() { assert(ret@.drop_last() =~= old_ret); }
                let d = data@.subrange(pos0, data@.len() as int);
                if mc.is_none() { assert(d.subrange(0, bytes_consumed as int) =~= d); }
                assert(data@.subrange(0, pos0 + bytes_consumed) =~= data@.subrange(0, pos0) + d.subrange(0, bytes_consumed as int));
                lemma_next_block_step(b0, data@.subrange(0, pos0), d.subrange(0, bytes_consumed as int), old_ret, old_buf, ret@, self.chunkbuf@, mn, mx, mk);
                if pos0 + bytes_consumed == data@.len() { assert(d.subrange(0, bytes_consumed as int) =~= d); }
            }
//@ end

//@ extract deduplication/src/chunking.rs in `impl Chunker` fn finish
//@ ret ret
//@ rules R14
//@ contract
        requires self.wf(),
        ensures
            match ret {
                Some(c) => c.data@ == self.chunkbuf@ && c.data@.len() > 0 && c.hash == spec_data_hash(c.data@)
                           && no_cut(c.data@, self.minimum_chunk as int, self.maximum_chunk as int, self.mask),
                None => self.chunkbuf@.len() == 0,
            },
//@ body-start
        let ghost b0 = self.chunkbuf@;
        proof { assert(b0 + Seq::<u8>::empty() =~= b0); }
//@ end
}

} // verus!
fn main() {}
