//@ unit U-CHUNKDEC
//@ props C07
//@ verus-args --rlimit 100
//@ rules-from xorbidx
//@ gsubst `anyhow::Error` => `AnyhowError` :: R11 stub type for the anyhow dependency (opaque error value)
//@ gsubst `std::io::Error` => `IoError` :: R11 stub type (opaque error value)
//@ gsubst `lz4_flex::frame::Error` => `Lz4Error` :: R11 stub type (opaque error value)
//@ gsubst `Infallible` => `VxInfallible` :: R11 stub type (opaque error value)
//@ gsubst `std::io::ErrorKind` => `IoErrorKind` :: R11 stub enum for std::io::ErrorKind
#![allow(non_snake_case, unused)]
use vstd::prelude::*;
use std::mem::size_of;
verus! {
global size_of usize == 8;

//@ include prelude/xorbidx_types.rs
//@ include prelude/xorbidx_codec.rs

//@ extract cas_object/src/error.rs enum CasObjectError
//@ end
//@ extract merkledb/src/constants.rs const TARGET_CDC_CHUNK_SIZE
//@ end
//@ extract merkledb/src/constants.rs const MAXIMUM_CHUNK_MULTIPLIER
//@ end
//@ extract merkledb/src/constants.rs const MAXIMUM_CHUNK_SIZE
//@ end
//@ extract cas_object/src/cas_chunk_format.rs struct CASChunkHeader
//@ end
global layout CASChunkHeader is size == 8, align == 1;
// `pub const CAS_CHUNK_HEADER_LENGTH: usize = size_of::<CASChunkHeader>();` (cas_chunk_format.rs:12) -- Verus does not evaluate an exec call in a
// const; the value is written out and re-checked by rustc (const assertion after the verus! block)
pub const CAS_CHUNK_HEADER_LENGTH: usize = 8;

// ---- reader / writer stubs (R11) ---------------------------------------------------------------------------------------------------
#[derive(PartialEq, Eq)]
pub enum IoErrorKind { UnexpectedEof, Other }
impl IoError {
    #[verifier::external_body]
    pub fn kind(&self) -> (r: IoErrorKind) { unimplemented!() }
}
// std::io::Read and (after R1) tokio::io::AsyncReadExt: ghost bytes + position; `read_exact` fills the buffer or fails
pub trait Read {
    spec fn bytes(&self) -> Seq<u8>;
    spec fn pos(&self) -> nat;
    fn read_exact(&mut self, buf: &mut [u8]) -> (r: Result<(), IoError>)
        ensures
            final(self).bytes() == old(self).bytes(),
            final(buf)@.len() == old(buf)@.len(),
            r is Ok ==> old(self).pos() + old(buf)@.len() <= old(self).bytes().len()
                && final(buf)@ == old(self).bytes().subrange(old(self).pos() as int, (old(self).pos() + old(buf)@.len()) as int)
                && final(self).pos() == old(self).pos() + old(buf)@.len();
}
pub trait AsyncRead: Read {}
pub trait Unpin {}
pub trait Write {
    spec fn written(&self) -> Seq<u8>;
    // on Err a part of buf may have been written
    fn write_all(&mut self, buf: &[u8]) -> (r: Result<(), IoError>)
        ensures
            old(self).written().is_prefix_of(final(self).written()),
            r is Ok ==> final(self).written() == old(self).written() + buf@;
}
impl Write for Vec<u8> {
    open spec fn written(&self) -> Seq<u8> { self@ }
    #[verifier::external_body]
    fn write_all(&mut self, buf: &[u8]) -> (r: Result<(), IoError>) { unimplemented!() }
}

//@ include prelude/xorbidx_chunkspec.rs

// what every multi-chunk decoder must deliver on Ok: indices [0, |d_0|, |d_0|+|d_1|, ...], data = d_0 ++ d_1 ++ ... (followed only by
// whatever the final, failing single-chunk call wrote before it hit the end of input), total of the claimed sizes
pub open spec fn multi_data_ok(bytes: Seq<u8>, p0: nat, w0: Seq<u8>, w1: Seq<u8>, idx: Seq<u32>) -> bool {
    &&& idx.len() >= 1
    &&& forall|i: int| 0 <= i < idx.len() ==> idx[i] == total_len(bytes, p0, i as nat)
    &&& (w0 + concat_data(bytes, p0, (idx.len() - 1) as nat)).is_prefix_of(w1)
}
pub open spec fn multi_ok(bytes: Seq<u8>, p0: nat, w0: Seq<u8>, w1: Seq<u8>, n: usize, idx: Seq<u32>) -> bool {
    multi_data_ok(bytes, p0, w0, w1, idx) && n == claimed_len(bytes, p0, (idx.len() - 1) as nat)
}
// domain of the multi-chunk decoders: (a) the decoded total of every chunk prefix lying inside the input fits u32 (the indices are u32 and are
// accumulated with a plain `+=` -- see notes: NOT guaranteed for format-valid input); (b) input below 1 TiB (usize accumulation of claimed sizes)
pub open spec fn multi_domain(bytes: Seq<u8>, p0: nat) -> bool {
    &&& bytes.len() <= 0x100_0000_0000
    &&& forall|k: nat| walk_pos(bytes, p0, k) <= bytes.len() ==> #[trigger] total_len(bytes, p0, k) <= u32::MAX
}
proof fn lemma_claimed_bound(bytes: Seq<u8>, p0: nat, k: nat)
    ensures claimed_len(bytes, p0, k) <= k * 0x100_0007, p0 + 8 * k <= walk_pos(bytes, p0, k),
    decreases k,
{
    if k > 0 {
        lemma_claimed_bound(bytes, p0, (k - 1) as nat);
        let q = walk_pos(bytes, p0, (k - 1) as nat);
        assert(chunk_clen(bytes, q) <= 0xFF_FFFF);
        assert(k * 0x100_0007 == (k - 1) * 0x100_0007 + 0x100_0007) by (nonlinear_arith) requires k > 0;
    }
}
// "identical results": every decoder is proved against the same spec functions, so two decoders that accept the same input agree.
// (a) two decoders that both stand behind the declared payload afterwards (async, stream; sync on a frame-exact chunk)
proof fn lemma_single_decoders_agree(bytes: Seq<u8>, pos: nat, w0: Seq<u8>, wa: Seq<u8>, pa: nat, ra: (usize, u32), wb: Seq<u8>, pb: nat, rb: (usize, u32))
    requires single_ok(bytes, pos, w0, wa, pa, ra), single_ok(bytes, pos, w0, wb, pb, rb),
    ensures /*@C07*/ ra == rb, /*@C07*/ wa == wb, /*@C07*/ pa == pb,
{}
// (b) the SYNC decoder (a) against the async one (b), for arbitrary stored bytes: same pair, same data ALWAYS; same reader position exactly when the
// chunk is frame-exact -- the hypothesis "identical results" really needs (it holds for every chunk serialize_chunk writes: lemma_serialized_frame_exact)
proof fn lemma_sync_async_agree(bytes: Seq<u8>, pos: nat, w0: Seq<u8>, wa: Seq<u8>, pa: nat, ra: (usize, u32), wb: Seq<u8>, pb: nat, rb: (usize, u32))
    requires single_ok_sync(bytes, pos, w0, wa, pa, ra), single_ok(bytes, pos, w0, wb, pb, rb),
    ensures /*@C07*/ ra == rb, /*@C07*/ wa == wb, /*@C07*/ pa <= pb, /*@C07*/ frame_exact_at(bytes, pos) <==> pa == pb,
{}
// on a frame-exact chunk the sync decoder delivers exactly `single_ok`
proof fn lemma_sync_exact(bytes: Seq<u8>, pos: nat, w0: Seq<u8>, w1: Seq<u8>, pos1: nat, ret: (usize, u32))
    requires single_ok_sync(bytes, pos, w0, w1, pos1, ret), frame_exact_at(bytes, pos),
    ensures /*@C07*/ single_ok(bytes, pos, w0, w1, pos1, ret),
{}
proof fn lemma_multi_decoders_agree(bytes: Seq<u8>, p0: nat, w0: Seq<u8>, wa: Seq<u8>, na: usize, ia: Seq<u32>, wb: Seq<u8>, nb: usize, ib: Seq<u32>)
    requires multi_ok(bytes, p0, w0, wa, na, ia), multi_ok(bytes, p0, w0, wb, nb, ib), ia.len() == ib.len(),
    ensures /*@C07*/ ia == ib, /*@C07*/ na == nb,
        // the decoded data agree (both writers start with w0 ++ d_0 ++ ... ++ d_{k-1})
        /*@C07*/ wa.subrange(0, (w0 + concat_data(bytes, p0, (ia.len() - 1) as nat)).len() as int) == wb.subrange(0, (w0 + concat_data(bytes, p0, (ia.len() - 1) as nat)).len() as int),
{
    assert(ia =~= ib);
    let c = w0 + concat_data(bytes, p0, (ia.len() - 1) as nat);
    assert(wa.subrange(0, c.len() as int) =~= c);
    assert(wb.subrange(0, c.len() as int) =~= c);
}

// composition with U-CHUNKSER (same codec spec functions, prelude/xorbidx_codec.rs): what serialize_chunk is proved to append for `chunk`
// (8-byte header with |payload| and |chunk| in the length fields, a valid scheme byte hs, decode_spec(hs, payload) == chunk), placed at `pos`
// (... and, last conjunct, the payload is frame-exact: U-CHUNKSER proves it for serialize_chunk from U-CODEC's `consumed_spec(s, compress(s,x)) == |compress(s,x)|`)
spec fn serialized_at(bytes: Seq<u8>, pos: nat, chunk: Seq<u8>) -> bool {
    &&& well_formed_at(bytes, pos)
    &&& chunk_ulen(bytes, pos) == chunk.len()
    &&& chunk_scheme(bytes, pos) matches Some(hs) && decode_spec(hs, bytes.subrange(pos as int + 8, pos as int + 8 + chunk_clen(bytes, pos))) == chunk
        && frame_exact(hs, bytes.subrange(pos as int + 8, pos as int + 8 + chunk_clen(bytes, pos)))
}
// every chunk serialize_chunk wrote is frame-exact in the sense of the decoders' shared specification
proof fn lemma_serialized_frame_exact(bytes: Seq<u8>, pos: nat, chunk: Seq<u8>)
    requires serialized_at(bytes, pos, chunk),
    ensures /*@C07*/ frame_exact_at(bytes, pos),
{}
// decode(serialize(c)) == c: any decoder satisfying single_ok returns exactly the chunk, its length, and skips exactly the serialized form
proof fn lemma_roundtrip(bytes: Seq<u8>, pos: nat, chunk: Seq<u8>, w0: Seq<u8>, w1: Seq<u8>, pos1: nat, ret: (usize, u32))
    requires serialized_at(bytes, pos, chunk), single_ok(bytes, pos, w0, w1, pos1, ret),
    ensures /*@C07*/ w1 == w0 + chunk, /*@C07*/ ret.1 == chunk.len(), /*@C07*/ pos1 == pos + ret.0,
{}
// ... and so does the SYNC decoder (single_ok_sync is all it guarantees on arbitrary bytes; on serializer output that is enough)
proof fn lemma_roundtrip_sync(bytes: Seq<u8>, pos: nat, chunk: Seq<u8>, w0: Seq<u8>, w1: Seq<u8>, pos1: nat, ret: (usize, u32))
    requires serialized_at(bytes, pos, chunk), single_ok_sync(bytes, pos, w0, w1, pos1, ret),
    ensures /*@C07*/ w1 == w0 + chunk, /*@C07*/ ret.1 == chunk.len(), /*@C07*/ pos1 == pos + ret.0,
{}

// ---- header ----------------------------------------------------------------------------------------------------------------------------
impl CASChunkHeader {
    spec fn clen(&self) -> nat { le3(self.compressed_length@, 0) }
    spec fn ulen(&self) -> nat { le3(self.uncompressed_length@, 0) }
    #[verifier::external_body]
    fn get_compressed_length(&self) -> (r: u32) ensures r == self.clen() { unimplemented!() }
    #[verifier::external_body]
    fn get_uncompressed_length(&self) -> (r: u32) ensures r == self.ulen() { unimplemented!() }
    #[verifier::external_body]
    fn get_compression_scheme(&self) -> (r: Result<CompressionScheme, CasObjectError>)
        ensures match r { Ok(s) => scheme_of_byte(self.compression_scheme) == Some(s), Err(e) => e is FormatError }
    { unimplemented!() }
}
// a validated header that is the transmute of the 8 bytes at `pos`
spec fn header_at(h: CASChunkHeader, bytes: Seq<u8>, pos: nat) -> bool {
    &&& pos + 8 <= bytes.len()
    &&& h.clen() == chunk_clen(bytes, pos) && h.ulen() == chunk_ulen(bytes, pos) && h.compression_scheme == bytes[pos as int + 4]
    &&& h.clen() <= 2 * MAXIMUM_CHUNK_SIZE && h.ulen() <= MAXIMUM_CHUNK_SIZE && scheme_of_byte(h.compression_scheme) is Some
}
// parse_chunk_header (transmute + validate): the facts K-HDR establishes for every 8-byte input
#[verifier::external_body]
fn parse_chunk_header(chunk_header_bytes: [u8; 8]) -> (r: Result<CASChunkHeader, CasObjectError>)
    ensures match r {
        Ok(h) => h.clen() == le3(chunk_header_bytes@, 1) && h.ulen() == le3(chunk_header_bytes@, 5) && h.compression_scheme == chunk_header_bytes@[4]
            && h.clen() <= 2 * MAXIMUM_CHUNK_SIZE && h.ulen() <= MAXIMUM_CHUNK_SIZE && scheme_of_byte(h.compression_scheme) is Some,
        Err(e) => e is FormatError,
    }
{ unimplemented!() }

// ---- decompression stubs: ONE spec function `decode_spec` for the slice decoder and the reader decoder (ASSUMED: the two lz4/bg4 entry points agree) ----
// std::io::Take<&mut R>: in the model the adapter only carries its limit; the reader it wraps is passed to the consuming call
pub struct TakeStub { pub limit: u64 }
#[verifier::external_body]
fn vx_take(limit: u64) -> (r: TakeStub) ensures r.limit == limit { unimplemented!() }
impl CompressionScheme {
    // (real return type Cow<[u8]>; only `.len()` and `&x` are used)
    #[verifier::external_body]
    fn decompress_from_slice(&self, data: &[u8]) -> (r: Result<Vec<u8>, CasObjectError>)
        ensures r matches Ok(d) ==> d@ == decode_spec(*self, data@)
    { unimplemented!() }
    // decompress_from_reader over `reader.take(limit)`: the Take yields `avail` = min(limit, rest of input) bytes; the codec consumes
    // consumed_spec(scheme, those bytes) of them (U-CODEC: all for None, the lz4 frame up to its end mark for LZ4 / BG4 -- NOT necessarily all),
    // writes the decoded data to the writer, returns its length.  Clause by clause what U-CODEC proves for decompress_from_reader.
    #[verifier::external_body]
    fn vx_decompress_from_take<R: Read, W: Write>(&self, reader: &mut R, take: &mut TakeStub, writer: &mut W) -> (r: Result<u64, CasObjectError>)
        ensures
            /*@AUX*/ final(reader).bytes() == old(reader).bytes(),   // frame: reading never changes the input
            /*@AUX*/ old(writer).written().is_prefix_of(final(writer).written()),
            r matches Ok(n) ==> ({
                let b = old(reader).bytes(); let p = old(reader).pos();
                let avail = if p + old(take).limit <= b.len() { old(take).limit as nat } else { (b.len() - p) as nat };
                let d = decode_spec(*self, b.subrange(p as int, (p + avail) as int));
                &&& p <= b.len()
                &&& final(reader).pos() == p + consumed_spec(*self, b.subrange(p as int, (p + avail) as int))
                &&& consumed_spec(*self, b.subrange(p as int, (p + avail) as int)) <= avail
                &&& final(writer).written() == old(writer).written() + d
                &&& n == d.len()
            }),
    { unimplemented!() }
}

// ==== synchronous decoder (cas_chunk_format.rs) ===========================================================================================
//@ extract cas_object/src/cas_chunk_format.rs fn deserialize_chunk_header
//@ ret r
//@ contract
    ensures
        /*@AUX*/ final(reader).bytes() == old(reader).bytes(),   // frame: reading never changes the input
        r matches Ok(h) ==> header_at(h, old(reader).bytes(), old(reader).pos()) && final(reader).pos() == old(reader).pos() + 8,
//@ end

//@ extract cas_object/src/cas_chunk_format.rs fn deserialize_chunk_to_writer
//@ ret r
//@ rules R15
//@ subst `reader.take(` => `vx_take(` :: R11 stub for std::io::Take: the adapter carries only its limit ...
//@ subst `.decompress_from_reader(&mut compressed_data_reader, writer)` => `.vx_decompress_from_take(reader, &mut compressed_data_reader, writer)` :: ... and the reader it wraps is passed to the call that consumes it (Take<&mut R> holds a `&mut`, which the stub cannot)
//@ contract
    ensures
        /*@AUX*/ final(reader).bytes() == old(reader).bytes(),   // frame: reading never changes the input
        /*@AUX*/ old(writer).written().is_prefix_of(final(writer).written()),
        // for arbitrary stored bytes: pair, data, and the reader behind what the codec consumed ...
        /*@C07*/ r matches Ok(ret) ==> single_ok_sync(old(reader).bytes(), old(reader).pos(), old(writer).written(), final(writer).written(), final(reader).pos(), ret),
        // ... which is behind the declared payload (= what the async decoder does) when the chunk is frame-exact
        /*@C07*/ r matches Ok(ret) ==> (frame_exact_at(old(reader).bytes(), old(reader).pos())
            ==> single_ok(old(reader).bytes(), old(reader).pos(), old(writer).written(), final(writer).written(), final(reader).pos(), ret)),
//@ end

//@ extract cas_object/src/cas_chunk_format.rs fn deserialize_chunk
//@ ret r
//@ contract
    ensures
        /*@AUX*/ final(reader).bytes() == old(reader).bytes(),   // frame: reading never changes the input
        /*@C07*/ r matches Ok((buf, c, u)) ==> single_ok_sync(old(reader).bytes(), old(reader).pos(), Seq::empty(), buf@, final(reader).pos(), (c, u)),
        /*@C07*/ r matches Ok((buf, c, u)) ==> (frame_exact_at(old(reader).bytes(), old(reader).pos())
            ==> single_ok(old(reader).bytes(), old(reader).pos(), Seq::empty(), buf@, final(reader).pos(), (c, u))),
//@ end

//@ extract cas_object/src/cas_chunk_format.rs fn deserialize_chunks_to_writer
//@ ret r
//@ contract
    requires multi_domain(old(reader).bytes(), old(reader).pos()), old(reader).pos() <= old(reader).bytes().len(),
        // domain of the SYNC multi-chunk decoders: every chunk is frame-exact (serializer output).  Outside it the loop continues INSIDE the declared
        // payload of a chunk with slack after its lz4 frame, i.e. walks other positions than walk_pos (see notes: sync/async differential)
        frames_exact(old(reader).bytes(), old(reader).pos()),
    ensures
        /*@AUX*/ final(reader).bytes() == old(reader).bytes(),   // frame: reading never changes the input
        /*@C07*/ r matches Ok((n, idx)) ==> multi_ok(old(reader).bytes(), old(reader).pos(), old(writer).written(), final(writer).written(), n, idx@),
//@ before `loop`
    let ghost b = reader.bytes(); let ghost p0 = reader.pos(); let ghost w0 = writer.written(); let ghost mut k: nat = 0;
    proof { assert(w0 + Seq::<u8>::empty() =~= w0); assert(reader.pos() <= b.len()) by { assert(walk_pos(b, p0, 0) == p0); } }
//@ loop 1
        invariant_except_break
            /*@C07*/ reader.pos() == walk_pos(b, p0, k),
            /*@AUX*/ reader.pos() <= b.len(),
            /*@C07*/ writer.written() == w0 + concat_data(b, p0, k),
        invariant
            /*@AUX*/ reader.bytes() == b, b == old(reader).bytes(), p0 == old(reader).pos(), w0 == old(writer).written(), multi_domain(b, p0), p0 <= b.len(),
            /*@AUX*/ frames_exact(b, p0),
            /*@C07*/ chunk_byte_indices@.len() == k + 1,
            /*@C07*/ forall|i: int| 0 <= i <= k ==> chunk_byte_indices@[i] == total_len(b, p0, i as nat),
            /*@C07*/ num_uncompressed_written == total_len(b, p0, k),
            /*@C07*/ num_compressed_written == claimed_len(b, p0, k),
            /*@AUX*/ walk_pos(b, p0, k) <= b.len(),
            /*@C07*/ (w0 + concat_data(b, p0, k)).is_prefix_of(writer.written()),
        ensures
            /*@C07*/ (w0 + concat_data(b, p0, k)).is_prefix_of(writer.written()),
        decreases b.len() - walk_pos(b, p0, k),
//@ before `num_compressed_written += delta_written;`
                proof {
                    let q = walk_pos(b, p0, k);
                    assert(walk_pos(b, p0, k + 1) == chunk_next(b, q));
                    assert(total_len(b, p0, k + 1) == total_len(b, p0, k) + chunk_data(b, q).len());
                    assert(concat_data(b, p0, k + 1) == concat_data(b, p0, k) + chunk_data(b, q));
                    assert(claimed_len(b, p0, k + 1) == claimed_len(b, p0, k) + 8 + chunk_clen(b, q));
                    assert(w0 + concat_data(b, p0, k + 1) =~= (w0 + concat_data(b, p0, k)) + chunk_data(b, q));
                    lemma_claimed_bound(b, p0, k + 1);
                    assert((k + 1) * 0x100_0007 <= 0x2000_0000_0000 * 0x100_0007) by (nonlinear_arith) requires k + 1 <= 0x2000_0000_0000;
                    assert(total_len(b, p0, k + 1) <= u32::MAX);
                }
//@ after `chunk_byte_indices.push(num_uncompressed_written);`
                proof { k = k + 1; }
//@ end

//@ extract cas_object/src/cas_chunk_format.rs fn deserialize_chunks
//@ ret r
//@ contract
    requires multi_domain(old(reader).bytes(), old(reader).pos()), old(reader).pos() <= old(reader).bytes().len(),
        frames_exact(old(reader).bytes(), old(reader).pos()),   // (see deserialize_chunks_to_writer)
    ensures
        /*@AUX*/ final(reader).bytes() == old(reader).bytes(),   // frame: reading never changes the input
        /*@C07*/ r matches Ok((buf, idx)) ==> multi_data_ok(old(reader).bytes(), old(reader).pos(), Seq::empty(), buf@, idx@),
//@ end

// ==== asynchronous decoder (cas_chunk_format/deserialize_async.rs; R1 erases async/await) ==================================================
// the functions have the same names as the synchronous ones; in the single generated file they are renamed with the prefix `async_`
// (substitution of the item's own name and of its callees, listed in evidence)
// async deserialize_chunk_header: `slice::from_raw_parts_mut` over the header struct + read_exact + validate() -- unsafe pointer code, not
// verifiable; stub with the same contract that the synchronous deserialize_chunk_header is PROVED to have above
#[verifier::external_body]
fn async_deserialize_chunk_header<R: AsyncRead + Unpin>(reader: &mut R) -> (r: Result<CASChunkHeader, CasObjectError>)
    ensures
        /*@AUX*/ final(reader).bytes() == old(reader).bytes(),   // frame: reading never changes the input
        r matches Ok(h) ==> header_at(h, old(reader).bytes(), old(reader).pos()) && final(reader).pos() == old(reader).pos() + 8,
{ unimplemented!() }

//@ extract cas_object/src/cas_chunk_format/deserialize_async.rs fn deserialize_chunk_to_writer
//@ ret r
//@ rules R15
//@ subst `deserialize_chunk_to_writer` => `async_deserialize_chunk_to_writer` :: renaming (name clash with the synchronous function in the single generated file)
//@ subst `deserialize_chunk_header` => `async_deserialize_chunk_header` :: renaming (name clash); callee is a stub, see above
//@ contract
    ensures
        /*@AUX*/ final(reader).bytes() == old(reader).bytes(),   // frame: reading never changes the input
        /*@AUX*/ old(writer).written().is_prefix_of(final(writer).written()),
        /*@C07*/ r matches Ok(ret) ==> single_ok(old(reader).bytes(), old(reader).pos(), old(writer).written(), final(writer).written(), final(reader).pos(), ret)
            && well_formed_at(old(reader).bytes(), old(reader).pos()),
//@ end

//@ extract cas_object/src/cas_chunk_format/deserialize_async.rs fn deserialize_chunk
//@ ret r
//@ subst `deserialize_chunk_to_writer` => `async_deserialize_chunk_to_writer` :: renaming (name clash)
//@ subst `fn deserialize_chunk` => `fn async_deserialize_chunk` :: renaming (name clash)
//@ contract
    ensures
        /*@AUX*/ final(reader).bytes() == old(reader).bytes(),   // frame: reading never changes the input
        /*@C07*/ r matches Ok((buf, c, u)) ==> single_ok(old(reader).bytes(), old(reader).pos(), Seq::empty(), buf@, final(reader).pos(), (c, u)),
//@ end

//@ extract cas_object/src/cas_chunk_format/deserialize_async.rs fn deserialize_chunks_to_writer_from_async_read
//@ ret r
//@ subst `deserialize_chunk_to_writer` => `async_deserialize_chunk_to_writer` :: renaming (name clash)
//@ contract
    requires multi_domain(old(reader).bytes(), old(reader).pos()), old(reader).pos() <= old(reader).bytes().len(),
    ensures
        /*@AUX*/ final(reader).bytes() == old(reader).bytes(),   // frame: reading never changes the input
        /*@C07*/ r matches Ok((n, idx)) ==> multi_ok(old(reader).bytes(), old(reader).pos(), old(writer).written(), final(writer).written(), n, idx@),
//@ before `loop`
    let ghost b = reader.bytes(); let ghost p0 = reader.pos(); let ghost w0 = writer.written(); let ghost mut k: nat = 0;
    proof { assert(w0 + Seq::<u8>::empty() =~= w0); assert(reader.pos() <= b.len()) by { assert(walk_pos(b, p0, 0) == p0); } }
//@ loop 1
        invariant_except_break
            /*@C07*/ reader.pos() == walk_pos(b, p0, k),
            /*@AUX*/ reader.pos() <= b.len(),
            /*@C07*/ writer.written() == w0 + concat_data(b, p0, k),
        invariant
            /*@AUX*/ reader.bytes() == b, b == old(reader).bytes(), p0 == old(reader).pos(), w0 == old(writer).written(), multi_domain(b, p0), p0 <= b.len(),
            /*@C07*/ chunk_byte_indices@.len() == k + 1,
            /*@C07*/ forall|i: int| 0 <= i <= k ==> chunk_byte_indices@[i] == total_len(b, p0, i as nat),
            /*@C07*/ num_uncompressed_written == total_len(b, p0, k),
            /*@C07*/ num_compressed_written == claimed_len(b, p0, k),
            /*@AUX*/ walk_pos(b, p0, k) <= b.len(),
            /*@C07*/ (w0 + concat_data(b, p0, k)).is_prefix_of(writer.written()),
        ensures
            /*@C07*/ (w0 + concat_data(b, p0, k)).is_prefix_of(writer.written()),
        decreases b.len() - walk_pos(b, p0, k),
//@ before `num_compressed_written += delta_written;`
                proof {
                    let q = walk_pos(b, p0, k);
                    assert(walk_pos(b, p0, k + 1) == chunk_next(b, q));
                    assert(total_len(b, p0, k + 1) == total_len(b, p0, k) + chunk_data(b, q).len());
                    assert(concat_data(b, p0, k + 1) == concat_data(b, p0, k) + chunk_data(b, q));
                    assert(claimed_len(b, p0, k + 1) == claimed_len(b, p0, k) + 8 + chunk_clen(b, q));
                    assert(w0 + concat_data(b, p0, k + 1) =~= (w0 + concat_data(b, p0, k)) + chunk_data(b, q));
                    lemma_claimed_bound(b, p0, k + 1);
                    assert((k + 1) * 0x100_0007 <= 0x2000_0000_0000 * 0x100_0007) by (nonlinear_arith) requires k + 1 <= 0x2000_0000_0000;
                    assert(total_len(b, p0, k + 1) <= u32::MAX);
                }
//@ after `chunk_byte_indices.push(num_uncompressed_written);`
                proof { k = k + 1; }
//@ end

//@ extract cas_object/src/cas_chunk_format/deserialize_async.rs fn deserialize_chunks_from_async_read
//@ ret r
//@ contract
    requires multi_domain(old(reader).bytes(), old(reader).pos()), old(reader).pos() <= old(reader).bytes().len(),
    ensures
        /*@AUX*/ final(reader).bytes() == old(reader).bytes(),   // frame: reading never changes the input
        /*@C07*/ r matches Ok((buf, idx)) ==> multi_data_ok(old(reader).bytes(), old(reader).pos(), Seq::empty(), buf@, idx@),
//@ end

// ==== stream adapters (deserialize_async.rs): a byte stream is wrapped in tokio_util's StreamReader and handed to the async multi-chunk decoder ====
pub trait Buf {}
// futures::Stream of byte buffers: in the model, the concatenation of everything it will yield
pub trait Stream { type Item; spec fn content(&self) -> Seq<u8>; }
// tokio_util::io::StreamReader: an AsyncRead over the concatenated buffers of the stream
pub struct StreamReader<S> { pub s: S, pub ghost p: nat, pub ghost data: Seq<u8> }
impl<S: Stream> StreamReader<S> {
    #[verifier::external_body]
    fn new(stream: S) -> (r: StreamReader<S>) ensures r.data == stream.content(), r.p == 0 { unimplemented!() }
}
impl<S> Read for StreamReader<S> {
    open spec fn bytes(&self) -> Seq<u8> { self.data }
    open spec fn pos(&self) -> nat { self.p }
    #[verifier::external_body]
    fn read_exact(&mut self, buf: &mut [u8]) -> (r: Result<(), IoError>) { unimplemented!() }
}
impl<S> AsyncRead for StreamReader<S> {}
impl<S> Unpin for StreamReader<S> {}

//@ extract cas_object/src/cas_chunk_format/deserialize_async.rs fn deserialize_chunks_to_writer_from_stream
//@ ret r
//@ contract
    requires multi_domain(stream.content(), 0),
    ensures
        /*@C07*/ r matches Ok((n, idx)) ==> multi_ok(stream.content(), 0, old(writer).written(), final(writer).written(), n, idx@),
//@ end

//@ extract cas_object/src/cas_chunk_format/deserialize_async.rs fn deserialize_chunks_from_stream
//@ ret r
//@ contract
    requires multi_domain(stream.content(), 0),
    ensures
        /*@C07*/ r matches Ok((buf, idx)) ==> multi_data_ok(stream.content(), 0, Seq::empty(), buf@, idx@),
//@ end

} // verus!
const _: () = assert!(CAS_CHUNK_HEADER_LENGTH == std::mem::size_of::<CASChunkHeader>());
fn main() {}
