//@ unit U-EXPIRY
//@ props C18
//@ verus-args --rlimit 100
#![allow(non_snake_case, unused)]
#![verifier::allow(undeclared_external_trait)]
use vstd::prelude::*;
use vstd::std_specs::cmp::*;
use std::cmp::Ordering;
use std::sync::Arc;
use std::path::{Path, PathBuf};
use std::time::SystemTime;
verus! {
global size_of usize == 8;

//@ include prelude/setops_merklehash.rs
type HMACKey = MerkleHash;

// opaque std types carried by MDBShardFile (never inspected by the regions under proof)
#[verifier::external_type_specification]
#[verifier::external_body]
pub struct ExPathBuf(PathBuf);
#[verifier::external_type_specification]
#[verifier::external_body]
pub struct ExSystemTime(SystemTime);

//@ extract mdb_shard/src/shard_format.rs struct MDBShardFileHeader
//@ end
//@ extract mdb_shard/src/shard_format.rs struct MDBShardFileFooter
//@ end
//@ extract mdb_shard/src/shard_format.rs struct MDBShardInfo
//@ end
//@ extract mdb_shard/src/shard_file_handle.rs struct MDBShardFile
//@ end

// ---- file-system stub with a ghost view: the sequence of paths handed to `std::fs::remove_file` ---------------------
pub struct FsLog { pub removed: Ghost<Seq<PathBuf>> }
impl FsLog {
    #[verifier::external_body]
    pub fn remove_file(&mut self, p: &PathBuf) -> (r: std::result::Result<(), ()>)
        ensures final(self).removed@ == old(self).removed@.push(*p)
    { unimplemented!() }
}

// ================= C18, expiry half, stated from the property text =================================================
// "past its expiry": the clock reads later than the expiry second
pub open spec fn past_expiry(now: u64, expiry: u64) -> bool { now > expiry }
// "after the additional grace period": the clock has reached expiry + buffer; the sum saturates at u64::MAX
pub open spec fn grace_end(expiry: u64, buffer: u64) -> int { if expiry + buffer > u64::MAX { u64::MAX as int } else { expiry + buffer } }
pub open spec fn grace_over(now: u64, expiry: u64, buffer: u64) -> bool { now >= grace_end(expiry, buffer) }

// consequences used by the property: for every ordering of (expiry, now) and every buffer
pub proof fn lemma_expiry_orderings(now: u64, expiry: u64, buffer: u64)
    ensures
        // a deletable shard has reached its expiry second ...
        grace_over(now, expiry, buffer) ==> now >= expiry,
        // ... and, with a non-zero buffer, is past its expiry: what load_all_valid would load is never deleted
        // (the clock value u64::MAX is excluded: there the saturated sum is reached by a shard with expiry = u64::MAX)
        (grace_over(now, expiry, buffer) && buffer >= 1 && now < u64::MAX) ==> past_expiry(now, expiry),
        // no saturation: the literal sum
        (grace_over(now, expiry, buffer) && now < u64::MAX) ==> now >= expiry + buffer,
        // a never-expiring shard (expiry = u64::MAX, the footer default) is loadable at every time
        expiry == u64::MAX ==> !past_expiry(now, expiry),
        // a longer buffer never deletes earlier
        forall|b2: u64| b2 >= buffer && grace_over(now, expiry, b2) ==> grace_over(now, expiry, buffer),
{}

// ---- load_all_valid is load_all with load_expired = false --------------------------------------------------------
pub struct MDBShardError;
type Result<T> = std::result::Result<T, MDBShardError>;
// what `load_all` returns for a directory and a flag: scan + the filter region below (the scan itself is file-system code)
uninterp spec fn spec_load_all<P>(path: P, load_expired: bool) -> Result<Vec<Arc<MDBShardFile>>>;
impl MDBShardFile {
    #[verifier::external_body]
    fn load_all(path: impl AsRef<Path>, load_expired: bool) -> (r: Result<Vec<Arc<Self>>>)
        ensures r == spec_load_all(path, load_expired)
    { unimplemented!() }
//@ extract mdb_shard/src/shard_file_handle.rs in `impl MDBShardFile` fn load_all_valid
//@ ret r
//@ contract
        ensures /*@C18*/ r == spec_load_all(path, false),
//@ end
}

//@ extract mdb_shard/src/shard_file_handle.rs in `impl MDBShardFile` region load_all
//@ from `if load_expired`
//@ to-before `Ok(())`
//@ sig `fn load_all_filter(load_expired: bool, current_time: u64, s: Arc<MDBShardFile>, ret: &mut Vec<Arc<MDBShardFile>>)`
//@ contract
    ensures
        // a shard past its expiry is not loaded (unless expired shards were asked for)
        /*@C18*/ (!load_expired && past_expiry(current_time, s.shard.metadata.shard_key_expiry)) ==> final(ret)@ == old(ret)@,
        // and every other shard is: the list grows by exactly this shard
        /*@C18*/ (load_expired || !past_expiry(current_time, s.shard.metadata.shard_key_expiry)) ==> final(ret)@ == old(ret)@.push(s),
//@ end

//@ extract mdb_shard/src/shard_file_handle.rs in `impl MDBShardFile` region clean_expired_shards
//@ from `if s.shard.metadata.shard_key_expiry`
//@ to-before `Ok(())` #1
//@ sig `fn clean_expired_filter(expiration_buffer_secs: u64, current_time: u64, s: Arc<MDBShardFile>, fs: &mut FsLog)`
//@ optsubst `std::fs::remove_file` => `fs.remove_file` :: R11 file-system stub with ghost view (the call and its argument are kept)
//@ contract
    ensures
        // deleted only after the grace period ...
        /*@C18*/ !grace_over(current_time, s.shard.metadata.shard_key_expiry, expiration_buffer_secs) ==> final(fs).removed@ == old(fs).removed@,
        // ... and then exactly this shard's file
        /*@C18*/ grace_over(current_time, s.shard.metadata.shard_key_expiry, expiration_buffer_secs) ==> final(fs).removed@ == old(fs).removed@.push(s.path),
        // a shard load_all_valid would still load is not deleted when the buffer is non-zero
        /*@C18*/ (expiration_buffer_secs >= 1 && current_time < u64::MAX && !past_expiry(current_time, s.shard.metadata.shard_key_expiry)) ==> final(fs).removed@ == old(fs).removed@,
//@ end

} // verus!
fn main() {}
