//@ unit U-CACHEGET
//@ props C12 C13
//@ verus-args --rlimit 100
//@ gsubst `VerificationCell<CacheItem>` => `VCell` :: R11 stub type: the cell as its users see it through `Deref` (the item's fields) plus the shared verification flag
#![feature(allocator_api)]
#![allow(non_snake_case, unused)]
use vstd::prelude::*;
use std::sync::Arc;
verus! {
global size_of usize == 8;

// ---- stub types of dependencies (R11) ------------------------------------------------------------------------------
struct Key { pub prefix: String, pub hash: [u64; 4] }
struct StateHandle { pub id: u64 }
struct PathBuf { pub id: u64 }
enum ChunkCacheError { General, IO, Parse, BadRange, CacheEmpty, Infallible, LockPoison, InvalidArguments }
enum ErrorKind { NotFound, PermissionDenied, Other }
struct IoError { pub k: ErrorKind }
impl IoError {
    #[verifier::external_body]
    fn kind(&self) -> (r: ErrorKind) ensures r == self.k { unimplemented!() }
}
impl From<IoError> for ChunkCacheError {
    #[verifier::external_body]
    fn from(e: IoError) -> (r: ChunkCacheError) ensures r is IO { ChunkCacheError::IO }
}
type OptionResult<T, E> = Result<Option<T>, E>;

//@ extract cas_types/src/lib.rs struct Range
//@ end
impl<Idx: Copy> Copy for Range<Idx> {}
impl<Idx: Copy> Clone for Range<Idx> {
    #[verifier::external_body]
    fn clone(&self) -> (r: Self) ensures r == *self { unimplemented!() }
}
//@ extract cas_types/src/lib.rs type ChunkRange
//@ end
//@ extract chunk_cache/src/lib.rs struct CacheRange
//@ end
//@ extract chunk_cache/src/disk/cache_file_header.rs struct CacheFileHeader
//@ end
//@ extract chunk_cache/src/disk.rs struct DiskCache
//@ subst `Arc<Mutex<CacheState>>` => `StateHandle` :: R11 stub: the state is reached only through find_match / remove_item here
//@ end

// ---- the files of tracked items ---------------------------------------------------------------------------------------
// Content of the file under a path, as it is while the cache is open.  C12's faults (bit flips, truncation, renames,
// planted files) happen while the cache is CLOSED; while it is open an item file is written once by `put` (rename of a
// complete temp file, U-CACHEPUT / U-CRASHFS) and afterwards only deleted, so its content is a function of its path.
uninterp spec fn disk(p: PathBuf) -> Seq<u8>;
uninterp spec fn crc32(b: Seq<u8>) -> u32;

// `VerificationCell<CacheItem>`: the item's fields as seen through Deref + the flag.  `flag` identifies the shared
// `Arc<AtomicBool>`: every clone of a state entry shares it, so its VALUE is not a field of this (thread-local) view.
struct VCell { range: ChunkRange, len: u64, checksum: u32, flag: Ghost<int> }
// the file that backs a cell (item_path of the key it is stored under)
uninterp spec fn cell_path(c: VCell) -> PathBuf;

// THE FLAG INVARIANT (C12): whenever the shared flag is set, the item's file has the checksum recorded in its name.
// The flag is shared mutable state: a read may return anything, constrained only by this invariant; every writer must
// establish it.
spec fn flag_inv(c: VCell) -> bool { crc32(disk(cell_path(c))) == c.checksum }
impl VCell {
    // read of the shared flag: arbitrary, except that `true` carries the invariant
    #[verifier::external_body]
    fn is_verified(&self) -> (r: bool)
        ensures r ==> flag_inv(*self)
    { unimplemented!() }
    // write of the shared flag (sets it for every thread at once): the caller must have established the invariant
    #[verifier::external_body]
    fn verify(&self)
        requires /*@C12*/ flag_inv(*self)
    { unimplemented!() }
}

// an open file: ghost byte view + cursor.  Errors arrive already converted to ChunkCacheError where the code applies `?`.
struct File { pub bytes: Ghost<Seq<u8>>, pub pos: Ghost<nat> }
impl File {
    #[verifier::external_body]
    fn open(path: &PathBuf) -> (r: Result<File, IoError>)
        ensures r matches Ok(f) ==> f.bytes@ == disk(*path) && f.pos@ == 0
    { unimplemented!() }
    #[verifier::external_body]
    fn rewind(&mut self) -> (r: Result<(), ChunkCacheError>)
        ensures final(self).bytes@ == old(self).bytes@, r is Ok ==> final(self).pos@ == 0
    { unimplemented!() }
    // std::io::Read::read: some non-empty prefix of what is left, or 0 at end of file
    #[verifier::external_body]
    fn read(&mut self, buf: &mut [u8; 4096]) -> (r: Result<usize, ChunkCacheError>)
        requires old(self).pos@ <= old(self).bytes@.len()
        ensures
            final(self).bytes@ == old(self).bytes@,
            match r {
                Ok(n) => n <= 4096 && old(self).pos@ + n <= old(self).bytes@.len() && final(self).pos@ == old(self).pos@ + n
                    && final(buf)@.subrange(0, n as int) == old(self).bytes@.subrange(old(self).pos@ as int, old(self).pos@ + n)
                    && (n == 0 ==> old(self).pos@ == old(self).bytes@.len()),
                Err(_) => true,
            },
    { unimplemented!() }
}
// C13 read-back trace (ghost): see `get_impl_readback`
struct GetTrace { pub pending: Ghost<Option<PathBuf>> }
// `File::open` as above, recording a NotFound answer for the path asked
#[verifier::external_body]
fn vx_open_tr(path: &PathBuf, vx_tr: &mut GetTrace) -> (r: Result<File, IoError>)
    ensures
        r matches Ok(f) ==> f.bytes@ == disk(*path) && f.pos@ == 0 && final(vx_tr).pending@ == old(vx_tr).pending@,
        r matches Err(e) ==> final(vx_tr).pending@ == (if e.k == ErrorKind::NotFound { Some(*path) } else { old(vx_tr).pending@ }),
{ unimplemented!() }
struct Crc32Hasher { pub fed: Ghost<Seq<u8>> }
impl Crc32Hasher {
    #[verifier::external_body]
    fn new() -> (r: Crc32Hasher) ensures r.fed@ == Seq::<u8>::empty() { unimplemented!() }
    #[verifier::external_body]
    fn update(&mut self, buf: &[u8]) ensures final(self).fed@ == old(self).fed@ + buf@ { unimplemented!() }
    #[verifier::external_body]
    fn finalize(self) -> (r: u32) ensures r == crc32(self.fed@) { unimplemented!() }
}

//@ extract chunk_cache/src/disk.rs fn crc32_from_reader
//@ ret r
//@ subst `reader: &mut impl Read` => `reader: &mut File` :: R12 narrowing to the instantiation used in get_impl
//@ subst `crc32fast::Hasher::new()` => `Crc32Hasher::new()` :: R11 stub type path for the crc32fast dependency
//@ contract
    requires old(reader).pos@ <= old(reader).bytes@.len(),
    ensures
        final(reader).bytes@ == old(reader).bytes@,
        /*@C12*/ r matches Ok(c) ==> c == crc32(old(reader).bytes@.subrange(old(reader).pos@ as int, old(reader).bytes@.len() as int)),
//@ after `let mut hasher = Crc32Hasher::new();`
    let ghost b = reader.bytes@; let ghost p0 = reader.pos@ as int;
    proof { assert(b.subrange(p0, p0) =~= Seq::<u8>::empty()); }
//@ loop 1
        invariant
            reader.bytes@ == b, p0 <= reader.pos@ <= b.len(), b == old(reader).bytes@, p0 == old(reader).pos@,
            hasher.fed@ == b.subrange(p0, reader.pos@ as int),
        ensures reader.pos@ == b.len(),
        decreases b.len() - reader.pos@,
//@ before `let num_read = reader.read(&mut buf)?;`
        let ghost p1 = reader.pos@ as int;
//@ after `hasher.update(&buf[..num_read])`
        ; proof { assert(b.subrange(p0, p1) + b.subrange(p1, p1 + num_read) =~= b.subrange(p0, p1 + num_read)); }
//@ end


// ---- callee contracts (proved in U-CACHESLICE for the extracted bodies; restated here over this unit's reader stub) -------
struct FileReader { pub bytes: Ghost<Seq<u8>>, pub pos: Ghost<nat> }
struct BufReader { pub x: u8 }
impl BufReader {
    #[verifier::external_body]
    fn new(file: File) -> (r: FileReader) ensures r.bytes@ == file.bytes@ { unimplemented!() }
}
spec fn strictly_inc(s: Seq<u32>) -> bool { forall|i: int| 1 <= i < s.len() ==> s[i - 1] < #[trigger] s[i] }
spec fn hdr_ok(s: Seq<u32>) -> bool { strictly_inc(s) && (s.len() > 0 ==> s[0] == 0) }
spec fn hdr_len(n: int) -> int { (n + 1) * 4 }
uninterp spec fn le32(b: Seq<u8>) -> u32;
// the header a file starts with (U-CACHESLICE `deserialize` postcondition)
spec fn parses_to(b: Seq<u8>, idx: Seq<u32>) -> bool {
    let n = idx.len() as int;
    &&& hdr_ok(idx) && n <= u32::MAX
    &&& hdr_len(n) <= b.len()
    &&& n == le32(b.subrange(0, 4))
    &&& forall|i: int| 0 <= i < n ==> idx[i] == le32(#[trigger] b.subrange(4 + 4 * i, 8 + 4 * i))
}
// the slice a hit returns (U-CACHESLICE `get_range_from_cache_file` postcondition)
spec fn slice_of(b: Seq<u8>, idx: Seq<u32>, start: u32, range: ChunkRange, cr: CacheRange) -> bool {
    let s = (range.start - start) as int; let e = (range.end - start) as int; let hl = hdr_len(idx.len() as int);
    &&& e < idx.len()
    &&& hl + idx[e] <= b.len()
    &&& cr.data@ == b.subrange(hl + idx[s], hl + idx[e])
    &&& cr.offsets@.len() == range.end - range.start + 1
    &&& forall|k: int| 0 <= k <= e - s ==> #[trigger] cr.offsets@[k] == idx[s + k] - idx[s]
    &&& cr.range == range
}
impl CacheFileHeader {
    #[verifier::external_body]
    fn deserialize(reader: &mut FileReader) -> (r: Result<CacheFileHeader, ChunkCacheError>)
        ensures final(reader).bytes@ == old(reader).bytes@,
            r matches Ok(h) ==> parses_to(old(reader).bytes@, h.chunk_byte_indices@),
    { unimplemented!() }
}
#[verifier::external_body]
fn get_range_from_cache_file(header: &CacheFileHeader, file_contents: &mut FileReader, range: &ChunkRange, start: u32) -> (r: Result<CacheRange, ChunkCacheError>)
    requires hdr_ok(header.chunk_byte_indices@), header.chunk_byte_indices@.len() <= u32::MAX, start <= range.start < range.end,
    ensures final(file_contents).bytes@ == old(file_contents).bytes@,
        r matches Ok(cr) ==> slice_of(old(file_contents).bytes@, header.chunk_byte_indices@, start, *range, cr),
{ unimplemented!() }

spec fn covers(c: VCell, range: ChunkRange) -> bool { c.range.start <= range.start && range.end <= c.range.end }
// C12, read side: a hit is the requested slice of a file (a) that backs a tracked item covering the range, (b) whose content
// has the checksum recorded in the item's name — because the shared flag was read set (invariant) or the checksum was
// computed and compared by this very call — and (c) whose header parses to strictly increasing indices from 0.
spec fn hit_from(c: VCell, idx: Seq<u32>, range: ChunkRange, cr: CacheRange) -> bool {
    &&& covers(c, range)
    &&& flag_inv(c)
    &&& parses_to(disk(cell_path(c)), idx)
    &&& slice_of(disk(cell_path(c)), idx, c.range.start, range, cr)
}
spec fn is_hit(range: ChunkRange, cr: CacheRange) -> bool { exists|c: VCell, idx: Seq<u32>| #[trigger] hit_from(c, idx, range, cr) }

impl DiskCache {
    // stubs of the other methods, with the parts of their contracts that get_impl relies on
    #[verifier::external_body]
    fn find_match(&self, key: &Key, range: &ChunkRange) -> (r: OptionResult<VCell, ChunkCacheError>)
        ensures r matches Ok(Some(c)) ==> covers(c, *range)        // U-CACHESLICE find_match_scan
    { unimplemented!() }
    // called with the key the cell is stored under: the path of the file that backs the cell
    #[verifier::external_body]
    fn item_path(&self, key: &Key, cache_item: &VCell) -> (r: Result<PathBuf, ChunkCacheError>)
        ensures r matches Ok(p) ==> p == cell_path(*cache_item)
    { unimplemented!() }
    #[verifier::external_body]
    fn remove_item(&self, key: &Key, cache_item: &VCell) -> (r: Result<(), ChunkCacheError>) { unimplemented!() }
    // the same three operations with the ghost trace (C13 read-back protocol, see `get_impl_readback` below)
    #[verifier::external_body]
    fn find_match_tr(&self, key: &Key, range: &ChunkRange, vx_tr: &mut GetTrace) -> (r: OptionResult<VCell, ChunkCacheError>)
        requires /*@C13*/ old(vx_tr).pending@ is None       // no new look-up while an entry seen without its file is still tracked
        ensures final(vx_tr).pending@ == old(vx_tr).pending@, r matches Ok(Some(c)) ==> covers(c, *range)
    { unimplemented!() }
    // `remove_item` (U-CACHEACCT remove_item_cs: entry out of the list, counters reduced; then the file part).  The state part comes
    // first and fails only on a poisoned lock, so `Ok` means the entry is gone from the state.
    #[verifier::external_body]
    fn remove_item_tr(&self, key: &Key, cache_item: &VCell, vx_tr: &mut GetTrace) -> (r: Result<(), ChunkCacheError>)
        ensures
            r is Ok ==> final(vx_tr).pending@ == (if old(vx_tr).pending@ == Some(cell_path(*cache_item)) { None::<PathBuf> } else { old(vx_tr).pending@ }),
            r is Err ==> final(vx_tr).pending@ == old(vx_tr).pending@,
    { unimplemented!() }

//@ extract chunk_cache/src/disk.rs in `impl DiskCache` fn get_impl
//@ ret r
//@ subst `std::io::BufReader::new(file)` => `BufReader::new(file)` :: R11 stub type path
//@ prefix
    #[verifier::exec_allows_no_decreases_clause]
//@ contract
        ensures
            /*@C12*/ r matches Ok(Some(cr)) ==> is_hit(*range, cr),
//@ loop 1
            invariant range.start < range.end,
//@ after `let checksum = crc32_from_reader(&mut file)?;`
                proof { assert(file.bytes@.subrange(0, file.bytes@.len() as int) =~= file.bytes@); }
//@ before `return Ok(Some(result_buf));`
            proof { /*@C12*/ assert(hit_from(cache_item, header.chunk_byte_indices@, *range, result_buf)); assert(is_hit(*range, result_buf)); }
//@ end

// ---- C13, read-back: "once each entry has been read back (which drops entries whose file a racing deletion removed) the totals
// equal what is on disk".  A second extraction of the SAME body (R8 region = the whole block of `get_impl`) against an explicit ghost
// trace object (R20-style elaboration: the calls that observe / repair the state get the trace as an extra argument; no executable
// text changes).  `pending` = the path of a tracked item whose file this call has just SEEN to be missing (`File::open` -> NotFound)
// and has not yet taken out of the state.  Protocol: the observation sets it, `remove_item` of that very item clears it (U-CACHEACCT
// `remove_item_cs`: the entry leaves the list and num_items / total_bytes are reduced by one / its length), and neither the next
// look-up nor an `Ok` return may happen while it is set.
//@ extract chunk_cache/src/disk.rs in `impl DiskCache` region get_impl
//@ block `fn get_impl(&self, key: &Key, range: &ChunkRange) -> OptionResult<CacheRange, ChunkCacheError> {`
//@ sig `fn get_impl_readback(&self, key: &Key, range: &ChunkRange, vx_tr: &mut GetTrace) -> (r: OptionResult<CacheRange, ChunkCacheError>)`
//@ optsubst `self.find_match(key, range)` => `self.find_match_tr(key, range, vx_tr)` :: explicit ghost trace (R20-style): same call, the trace is passed along
//@ optsubst `File::open(&path)` => `vx_open_tr(&path, vx_tr)` :: explicit ghost trace: same call (File::open's contract), a NotFound result is recorded
//@ optsubst `self.remove_item(key, &cache_item)` => `self.remove_item_tr(key, &cache_item, vx_tr)` :: explicit ghost trace: same call, the removal is recorded
//@ subst `std::io::BufReader::new(file)` => `BufReader::new(file)` :: R11 stub type path
//@ prefix
    #[verifier::exec_allows_no_decreases_clause]
//@ contract
        requires old(vx_tr).pending@ is None,
        ensures
            // every way of answering the caller (hit, miss) leaves no entry behind that was seen without its file
            /*@C13*/ r is Ok ==> final(vx_tr).pending@ is None,
//@ loop 1
            invariant
                range.start < range.end,
                /*@C13*/ vx_tr.pending@ is None,     // every retry starts with no entry left behind that was seen without its file
//@ after `let checksum = crc32_from_reader(&mut file)?;`
                proof { assert(file.bytes@.subrange(0, file.bytes@.len() as int) =~= file.bytes@); }
//@ end

// the public entry point (`impl ChunkCache for DiskCache`): a plain forward, so it carries get_impl's contract
//@ extract chunk_cache/src/disk.rs in `impl ChunkCache for DiskCache` fn get
//@ ret r
//@ contract
        ensures /*@C12*/ r matches Ok(Some(cr)) ==> is_hit(*range, cr),
//@ end
}

// =====================================================================================================================
// The real `VerificationCell<T>` (chunk_cache/src/disk/cache_item.rs), checked against the flag discipline used above.
// `AtomicBool` stub: every flag is created with a proposition attached (ghost `prop` = its truth; files of tracked items do not
// change while the cache is open, so it is a constant).  A load may return anything but `true` only if the proposition holds;
// a store of `true` requires it.  That is the whole interface contracts can give for an atomic shared between threads.
// =====================================================================================================================
struct AtomicBool { prop: Ghost<bool> }
enum Ordering { Relaxed, Release, Acquire, AcqRel, SeqCst }
impl AtomicBool {
    #[verifier::external_body]
    fn new(v: bool, Ghost(p): Ghost<bool>) -> (r: AtomicBool) requires v ==> p ensures r.prop@ == p { unimplemented!() }
    #[verifier::external_body]
    fn load(&self, order: Ordering) -> (r: bool) ensures r ==> self.prop@ { unimplemented!() }
    #[verifier::external_body]
    fn store(&self, v: bool, order: Ordering) requires v ==> self.prop@ { unimplemented!() }
}
// the proposition a cell's flag stands for; for `T = CacheItem` it is `flag_inv` (file crc == checksum in the name)
uninterp spec fn cell_inv<T>(inner: T) -> bool;

//@ extract chunk_cache/src/disk/cache_item.rs struct VerificationCell
//@ end
impl<T> VerificationCell<T> {
    spec fn wf(&self) -> bool { self.verification.prop@ == cell_inv(self.inner) }
}
impl<T: std::fmt::Debug + Clone> VerificationCell<T> {
//@ extract chunk_cache/src/disk/cache_item.rs in `impl<T: Debug + Clone> VerificationCell<T>` fn new
//@ ret r
//@ optsubst `AtomicBool::new(verified)` => `AtomicBool::new(verified, Ghost(cell_inv(inner)))` :: ghost instrumentation only: names the proposition attached to the new flag (erased at run time)
//@ contract
        requires /*@C12*/ verified ==> cell_inv(inner),
        ensures r.wf(), r.inner == inner,
//@ end
//@ extract chunk_cache/src/disk/cache_item.rs in `impl<T: Debug + Clone> VerificationCell<T>` fn new_unverified
//@ ret r
//@ contract
        ensures r.wf(), r.inner == inner,
//@ end
//@ extract chunk_cache/src/disk/cache_item.rs in `impl<T: Debug + Clone> VerificationCell<T>` fn new_verified
//@ ret r
//@ contract
        requires /*@C12*/ cell_inv(inner),      // put_impl: U-CACHEPUT proves it for the item it just wrote
        ensures r.wf(), r.inner == inner,
//@ end
//@ extract chunk_cache/src/disk/cache_item.rs in `impl<T: Debug + Clone> VerificationCell<T>` fn verify
//@ optsubst `std::sync::atomic::Ordering::Release` => `Ordering::Release` :: R11 stub path
//@ contract
        requires self.wf(), /*@C12*/ cell_inv(self.inner),
//@ end
//@ extract chunk_cache/src/disk/cache_item.rs in `impl<T: Debug + Clone> VerificationCell<T>` fn is_verified
//@ ret r
//@ optsubst `std::sync::atomic::Ordering::Relaxed` => `Ordering::Relaxed` :: R11 stub path
//@ contract
        requires self.wf(),
        ensures /*@C12*/ r ==> cell_inv(self.inner),
//@ end
}
} // verus!
fn main() {}
