//@ unit U-MERKLE
//@ props C06 C02 C03
//@ verus-args --rlimit 100
#![feature(allocator_api)]
#![allow(non_snake_case, unused, non_camel_case_types)]
use vstd::prelude::*;
use std::ops::Deref;
use std::collections::{HashSet, HashMap};
verus! {
global size_of usize == 8;

// ---- the hash type: the real struct, its Deref (indexing `h[3]`) and Default (all-zero) are extracted ---------------------------
//@ extract merklehash/src/data_hash.rs struct DataHash
//@ subst `struct DataHash` => `pub struct DataHash` :: visibility as in the source (R10 drops `pub`); `Deref::deref` is a public trait method and its contract must name the type
//@ end
impl DataHash { pub closed spec fn w(self) -> [u64; 4] { self.0 } }
//@ extract merklehash/src/lib.rs type MerkleHash
//@ end
impl Deref for DataHash {
    type Target = [u64; 4];
//@ extract merklehash/src/data_hash.rs in `impl Deref for DataHash` fn deref
//@ ret r
//@ contract
        ensures *r == self.w(),
//@ end
}
spec fn zero_hash() -> MerkleHash { DataHash([0u64, 0u64, 0u64, 0u64]) }
spec fn is_zero(h: MerkleHash) -> bool { h.0[0] == 0 && h.0[1] == 0 && h.0[2] == 0 && h.0[3] == 0 }
proof fn lemma_zero_unique(h: MerkleHash) requires is_zero(h) ensures h == zero_hash() { assert(h.0 =~= zero_hash().0); }
impl DataHash {
//@ extract merklehash/src/data_hash.rs in `impl Default for DataHash` fn default
//@ ret r
//@ contract
        ensures is_zero(r),
//@ before `DataHash([0; 4])`
        // (tool artefact: when this query is scheduled before the `u64: Copy` trait axiom, the broadcast form of this vstd axiom is inert)
        proof { vstd::array::axiom_spec_array_fill_for_copy_type::<u64, 4>(0u64); }
//@ end
}
impl Clone for DataHash { #[verifier::external_body] fn clone(&self) -> (r: Self) ensures r == *self { unimplemented!() } }
impl Copy for DataHash {}

// ---- the published construction, as a recursive specification -------------------------------------------------------------------
// one entry of a level: (hash, length)
struct HL { h: MerkleHash, n: int }
// ASSUMED BOUNDARY: `hash_node_sequence` = blake3-keyed hash of the text "{hash:x} : {len}\n" per child; uninterpreted here
uninterp spec fn H_int(g: Seq<HL>) -> MerkleHash;
// content addressing: one length per hash (domain restriction of C06, see notes)
uninterp spec fn len_of(h: MerkleHash) -> usize;

spec fn sum_n(g: Seq<HL>) -> int decreases g.len() {
    if g.len() == 0 { 0 } else { sum_n(g.drop_last()) + g.last().n }
}
spec fn parent(g: Seq<HL>) -> HL { HL { h: H_int(g), n: sum_n(g) } }
// the group that started at `start` is closed at index i
spec fn cut_at(s: Seq<HL>, start: int, i: int) -> bool {
    let k = i - start;
    (k >= 2 && s[i].h.0[3] % 4 == 0) || k >= 8 || i + 1 == s.len()
}
// parents of s[start..], when the open group starts at `start` and s[start..i] has been scanned without a cut
spec fn level_acc(s: Seq<HL>, start: int, i: int) -> Seq<HL> decreases s.len() - i {
    if i >= s.len() { Seq::<HL>::empty() }
    else if cut_at(s, start, i) { seq![parent(s.subrange(start, i + 1))] + level_acc(s, i + 1, i + 1) }
    else { level_acc(s, start, i + 1) }
}
spec fn level(s: Seq<HL>) -> Seq<HL> { level_acc(s, 0, 0) }

proof fn lemma_level_acc_len(s: Seq<HL>, start: int, i: int)
    requires 0 <= start <= i < s.len(),
    ensures level_acc(s, start, i).len() >= 1, 3 * level_acc(s, start, i).len() <= s.len() - start + 2,
    decreases s.len() - i,
{
    if cut_at(s, start, i) {
        if i + 1 < s.len() { lemma_level_acc_len(s, i + 1, i + 1); }
        else { assert(level_acc(s, i + 1, i + 1).len() == 0); }
    } else {
        lemma_level_acc_len(s, start, i + 1);
    }
}
// termination of the tree construction (and of `merge`): a level of >= 2 entries has strictly fewer parents, at least one
proof fn lemma_level_len(s: Seq<HL>)
    requires s.len() >= 1,
    ensures 1 <= level(s).len(), s.len() >= 2 ==> level(s).len() < s.len(),
{
    lemma_level_acc_len(s, 0, 0);
}
spec fn root(s: Seq<HL>) -> HL
    decreases s.len() via root_decreases
{
    if s.len() <= 1 { s[0] } else { root(level(s)) }
}
#[via_fn]
proof fn root_decreases(s: Seq<HL>) { if s.len() >= 2 { lemma_level_len(s); } }

// every entry carries the length that belongs to its hash
spec fn len_ok(q: Seq<HL>) -> bool { forall|j: int| 0 <= j < q.len() ==> (#[trigger] q[j]).n == len_of(q[j].h) as int }
// ... on every level of the tree over s
spec fn consistent(s: Seq<HL>) -> bool
    decreases s.len() via consistent_decreases
{
    len_ok(s) && (s.len() >= 2 ==> consistent(level(s)))
}
#[via_fn]
proof fn consistent_decreases(s: Seq<HL>) { if s.len() >= 2 { lemma_level_len(s); } }

proof fn lemma_sum_push(s: Seq<HL>, a: int, i: int)
    requires 0 <= a <= i < s.len(),
    ensures sum_n(s.subrange(a, i + 1)) == sum_n(s.subrange(a, i)) + s[i].n,
{
    assert(s.subrange(a, i + 1).drop_last() =~= s.subrange(a, i));
}
proof fn lemma_sum_nonneg(g: Seq<HL>)
    requires forall|j: int| 0 <= j < g.len() ==> (#[trigger] g[j]).n >= 0,
    ensures sum_n(g) >= 0,
    decreases g.len(),
{
    if g.len() > 0 { lemma_sum_nonneg(g.drop_last()); }
}
// the running length of an open group never exceeds the length of the group once closed, which is a `len_of` value
proof fn lemma_group_fits(s: Seq<HL>, start: int, i: int)
    requires 0 <= start <= i < s.len(), len_ok(s), len_ok(level_acc(s, start, i)),
    ensures 0 <= sum_n(s.subrange(start, i + 1)) <= usize::MAX,
    decreases s.len() - i,
{
    lemma_sum_nonneg(s.subrange(start, i + 1));
    if cut_at(s, start, i) {
        let p = parent(s.subrange(start, i + 1));
        assert(level_acc(s, start, i)[0] == p);
    } else {
        lemma_group_fits(s, start, i + 1);
        lemma_sum_push(s, start, i + 1);
    }
}
// one step of the scan
proof fn lemma_level_step(s: Seq<HL>, start: int, i: int)
    requires 0 <= start <= i < s.len(), len_ok(level_acc(s, start, i)),
    ensures
        cut_at(s, start, i) ==> level_acc(s, start, i) == seq![parent(s.subrange(start, i + 1))] + level_acc(s, i + 1, i + 1)
            && parent(s.subrange(start, i + 1)).n == len_of(parent(s.subrange(start, i + 1)).h)
            && len_ok(level_acc(s, i + 1, i + 1)),
        !cut_at(s, start, i) ==> level_acc(s, start, i) == level_acc(s, start, i + 1) && i + 1 < s.len(),
{
    if cut_at(s, start, i) {
        let p = parent(s.subrange(start, i + 1));
        let rest = level_acc(s, i + 1, i + 1);
        let l = level_acc(s, start, i);
        assert(l[0] == p);
        assert forall|j: int| 0 <= j < rest.len() implies (#[trigger] rest[j]).n == len_of(rest[j].h) as int by {
            assert(l[j + 1] == rest[j]);
        }
    }
}

// ---- optional lemma of C06: under injectivity of the interior hash and separation of leaf from interior hashes (both are
// collision-resistance HYPOTHESES of the lemma, not facts about blake3), the aggregate hash determines the chunk list ------------
uninterp spec fn is_leaf(h: MerkleHash) -> bool;
spec fn H_injective() -> bool { forall|g1: Seq<HL>, g2: Seq<HL>| #[trigger] H_int(g1) == #[trigger] H_int(g2) ==> g1 == g2 }
spec fn leaf_sep() -> bool { forall|g: Seq<HL>| !is_leaf(#[trigger] H_int(g)) }
spec fn leafy(s: Seq<HL>) -> bool { forall|j: int| 0 <= j < s.len() ==> is_leaf((#[trigger] s[j]).h) }
spec fn no_leaf(s: Seq<HL>) -> bool { forall|j: int| 0 <= j < s.len() ==> !is_leaf((#[trigger] s[j]).h) }
spec fn gend(s: Seq<HL>, start: int, i: int) -> int decreases s.len() - i {
    if i + 1 >= s.len() || cut_at(s, start, i) { i } else { gend(s, start, i + 1) }
}
proof fn lemma_unfold(s: Seq<HL>, start: int, i: int)
    requires 0 <= start <= i < s.len(),
    ensures i <= gend(s, start, i) < s.len(),
        level_acc(s, start, i) == seq![parent(s.subrange(start, gend(s, start, i) + 1))] + level_acc(s, gend(s, start, i) + 1, gend(s, start, i) + 1),
    decreases s.len() - i,
{
    if !cut_at(s, start, i) { lemma_unfold(s, start, i + 1); }
}
proof fn lemma_level_no_leaf(s: Seq<HL>, start: int, i: int)
    requires leaf_sep(), 0 <= start <= i,
    ensures no_leaf(level_acc(s, start, i)),
    decreases s.len() - i,
{
    if i < s.len() {
        if cut_at(s, start, i) {
            lemma_level_no_leaf(s, i + 1, i + 1);
            let p = parent(s.subrange(start, i + 1)); let rest = level_acc(s, i + 1, i + 1); let l = level_acc(s, start, i);
            assert forall|j: int| 0 <= j < l.len() implies !is_leaf((#[trigger] l[j]).h) by {
                if j == 0 { assert(l[0] == p); } else { assert(l[j] == rest[j - 1]); }
            }
        } else { lemma_level_no_leaf(s, start, i + 1); }
    }
}
// one level is injective: equal parent lists come from equal child lists
proof fn lemma_level_inj_from(s: Seq<HL>, t: Seq<HL>, a: int)
    requires H_injective(), 0 <= a <= s.len(), a <= t.len(), s.subrange(0, a) == t.subrange(0, a), level_acc(s, a, a) == level_acc(t, a, a),
    ensures s == t,
    decreases s.len() - a,
{
    if a == s.len() {
        if a < t.len() { lemma_level_acc_len(t, a, a); assert(false); }
        assert(s =~= s.subrange(0, a)); assert(t =~= t.subrange(0, a));
    } else {
        lemma_level_acc_len(s, a, a);
        if a == t.len() { assert(level_acc(t, a, a).len() == 0); assert(false); }
        lemma_unfold(s, a, a); lemma_unfold(t, a, a);
        let es = gend(s, a, a); let et = gend(t, a, a);
        let gs = s.subrange(a, es + 1); let gt = t.subrange(a, et + 1);
        let ls = level_acc(s, a, a); let lt = level_acc(t, a, a);
        let rs = level_acc(s, es + 1, es + 1); let rt = level_acc(t, et + 1, et + 1);
        assert(ls[0] == parent(gs)); assert(lt[0] == parent(gt));
        assert(H_int(gs) == H_int(gt));
        assert(gs == gt);
        assert(gs.len() == gt.len());
        assert(es == et);
        assert(s.subrange(0, es + 1) =~= s.subrange(0, a) + gs);
        assert(t.subrange(0, et + 1) =~= t.subrange(0, a) + gt);
        assert(rs =~= ls.subrange(1, ls.len() as int));
        assert(rt =~= lt.subrange(1, lt.len() as int));
        lemma_level_inj_from(s, t, es + 1);
    }
}
proof fn lemma_level_inj(s: Seq<HL>, t: Seq<HL>)
    requires H_injective(), level(s) == level(t),
    ensures s == t,
{
    assert(s.subrange(0, 0) =~= t.subrange(0, 0));
    lemma_level_inj_from(s, t, 0);
}
spec fn tower(s: Seq<HL>, k: nat) -> Seq<HL> decreases k { if k == 0 { s } else { level(tower(s, (k - 1) as nat)) } }
proof fn lemma_tower_comm(s: Seq<HL>, k: nat)
    ensures tower(level(s), k) == level(tower(s, k)),
    decreases k,
{
    if k > 0 { lemma_tower_comm(s, (k - 1) as nat); }
}
// equal roots: one list is some level of the tree over the other
proof fn lemma_root_eq_tower(s: Seq<HL>, t: Seq<HL>) -> (r: (nat, bool))
    requires H_injective(), s.len() >= 1, t.len() >= 1, consistent(s), consistent(t), root(s).h == root(t).h,
    ensures r.1 ==> s == tower(t, r.0), !r.1 ==> t == tower(s, r.0),
    decreases s.len() + t.len(),
{
    if s.len() == 1 && t.len() == 1 {
        assert(s[0].n == len_of(s[0].h)); assert(t[0].n == len_of(t[0].h));
        assert(s =~= t); assert(tower(t, 0) == t);
        (0, true)
    } else if s.len() >= 2 && t.len() >= 2 {
        lemma_level_len(s); lemma_level_len(t);
        let (k, b) = lemma_root_eq_tower(level(s), level(t));
        if b {
            lemma_tower_comm(t, k);
            lemma_level_inj(s, tower(t, k));
        } else {
            lemma_tower_comm(s, k);
            lemma_level_inj(t, tower(s, k));
        }
        (k, b)
    } else if s.len() == 1 {
        lemma_level_len(t);
        let (k, b) = lemma_root_eq_tower(s, level(t));
        if b {
            lemma_tower_comm(t, k);
            assert(tower(t, (k + 1) as nat) == level(tower(t, k)));
            ((k + 1) as nat, true)
        } else if k == 0 {
            assert(tower(s, 0) == s); assert(tower(t, 0) == t); assert(tower(t, 1) == level(tower(t, 0)));
            (1, true)
        } else {
            assert(tower(s, k) == level(tower(s, (k - 1) as nat)));
            lemma_level_inj(t, tower(s, (k - 1) as nat));
            ((k - 1) as nat, false)
        }
    } else {
        lemma_level_len(s);
        let (k, b) = lemma_root_eq_tower(level(s), t);
        if !b {
            lemma_tower_comm(s, k);
            assert(tower(s, (k + 1) as nat) == level(tower(s, k)));
            ((k + 1) as nat, false)
        } else if k == 0 {
            assert(tower(s, 0) == s); assert(tower(t, 0) == t); assert(tower(s, 1) == level(tower(s, 0)));
            (1, false)
        } else {
            assert(tower(t, k) == level(tower(t, (k - 1) as nat)));
            lemma_level_inj(s, tower(t, (k - 1) as nat));
            ((k - 1) as nat, true)
        }
    }
}
// C06 "changing, reordering, inserting or dropping any chunk changes the aggregate hash", relative to the two hypotheses
proof fn lemma_root_injective(s: Seq<HL>, t: Seq<HL>)
    requires H_injective(), leaf_sep(), s.len() >= 1, t.len() >= 1, consistent(s), consistent(t), leafy(s), leafy(t),
        root(s).h == root(t).h,
    ensures /*@C06*/ s == t,
{
    let (k, b) = lemma_root_eq_tower(s, t);
    if k > 0 {
        if b {
            lemma_level_no_leaf(tower(t, (k - 1) as nat), 0, 0);
            assert(is_leaf(s[0].h)); assert(!is_leaf(tower(t, k)[0].h));
        } else {
            lemma_level_no_leaf(tower(s, (k - 1) as nat), 0, 0);
            assert(is_leaf(t[0].h)); assert(!is_leaf(tower(s, k)[0].h));
        }
    }
}

// ---- nodes ----------------------------------------------------------------------------------------------------------------------
//@ extract merkledb/src/merklenode.rs type MerkleNodeId
//@ end
//@ extract merkledb/src/constants.rs const MEAN_TREE_BRANCHING_FACTOR
//@ end
//@ extract merkledb/src/merklenode.rs enum NodeDataType
//@ end
//@ extract merkledb/src/merklenode.rs struct MerkleNode
//@ end
impl Clone for MerkleNode {
    // `#[derive(Clone)]` on MerkleNode (dropped by R10): field-wise clone
    #[verifier::external_body] fn clone(&self) -> (r: Self) ensures r == *self { unimplemented!() }
}
impl MerkleNode {
    spec fn hl(&self) -> HL { HL { h: self.hash, n: self.len as int } }
//@ extract merkledb/src/merklenode.rs in `impl MerkleNode` fn id
//@ ret r
//@ contract
        ensures r == self.id,
//@ end
//@ extract merkledb/src/merklenode.rs in `impl MerkleNode` fn hash
//@ ret r
//@ contract
        ensures *r == self.hash,
//@ end
//@ extract merkledb/src/merklenode.rs in `impl MerkleNode` fn len
//@ ret r
//@ contract
        ensures r == self.len,
//@ end
//@ extract merkledb/src/merklenode.rs in `impl MerkleNode` fn new
//@ ret r
//@ contract
        ensures r.id == id, r.hash == hash, r.len == len, r.children == children,
//@ end
}
spec fn nview(s: Seq<MerkleNode>) -> Seq<HL> { Seq::new(s.len(), |i: int| s[i].hl()) }

// ASSUMED BOUNDARY (merkledb/src/merklenode.rs:132-141): string formatting + blake3 over the (hash, len) lines of the children
#[verifier::external_body]
fn hash_node_sequence(hash: &[MerkleNode]) -> (r: MerkleHash) ensures r == H_int(nview(hash@)) { unimplemented!() }

// attributes are opaque here: nothing in the aggregate hashes depends on them
#[verifier::external_body]
struct MerkleNodeAttributes { _p: u8 }
impl Default for MerkleNodeAttributes { #[verifier::external_body] fn default() -> Self { unimplemented!() } }
impl Clone for MerkleNodeAttributes { #[verifier::external_body] fn clone(&self) -> Self { unimplemented!() } }
impl Copy for MerkleNodeAttributes {}
impl MerkleNodeAttributes {
    #[verifier::external_body] fn set_file(&mut self) { unimplemented!() }
    #[verifier::external_body] fn set_cas(&mut self) { unimplemented!() }
    #[verifier::external_body] fn has_cas_data(&self) -> bool { unimplemented!() }
}

// ---- the node store: stub trait, ASSUMED contracts ---------------------------------------------------------------------------
// inv(): every stored node n has n.len == len_of(n.hash).  `maybe_add_node` returns the stored node when the hash is known
// (merklememdb.rs:319-336), so it returns the requested length only if requested and stored lengths agree: that is the
// precondition `len == len_of(hash)` (the real restriction: a list repeating one hash with two lengths is hashed with the first).
trait MerkleDBBase {
    spec fn inv(&self) -> bool;
    fn maybe_add_node(&mut self, hash: &MerkleHash, len: usize, children: Vec<(MerkleNodeId, usize)>) -> (r: (MerkleNode, bool))
        requires old(self).inv(), len == len_of(*hash),
        ensures final(self).inv(), r.0.hash == *hash, r.0.len == len;
    fn find_node_by_id(&self, h: MerkleNodeId) -> (r: Option<MerkleNode>);
    fn hash_to_id(&self, h: &MerkleHash) -> (r: Option<MerkleNodeId>);
    fn find_node(&self, h: &MerkleHash) -> (r: Option<MerkleNode>)
        requires self.inv(),
        ensures match r { Some(n) => n.hash == *h && n.len == len_of(n.hash), None => true };
    fn node_attributes(&self, h: MerkleNodeId) -> (r: Option<MerkleNodeAttributes>);
    fn set_node_attributes(&mut self, h: MerkleNodeId, attr: &MerkleNodeAttributes) -> (r: Option<()>)
        ensures old(self).inv() ==> final(self).inv();
//@ extract merkledb/src/merkledbbase.rs in `MerkleDBBase` fn add_node
//@ ret r
//@ contract
        requires old(self).inv(), len == len_of(*hash),
        ensures final(self).inv(), r.hash == *hash, r.len == len,
//@ end
}

#[verifier::external_body] fn vx_abort() ensures false { panic!() }
pub assume_specification<T: std::default::Default> [std::mem::take] (x: &mut T) -> (r: T)
    ensures r == *old(x), call_ensures(T::default, (), *final(x));

// whole-function outline (R7): a `zip` loop that only reads node ids and writes *attributes* (parent links)
#[verifier::external_body]
fn assign_node_parents(db: &mut (impl MerkleDBBase + ?Sized), nodes: &mut [MerkleNode], parent_of_node: &[u64], parent_type: NodeDataType)
    ensures old(db).inv() ==> final(db).inv(), final(nodes)@ == old(nodes)@,
{ unimplemented!() }

//@ extract merkledb/src/internal_methods.rs fn node_from_children
//@ ret r
//@ rules R4d
//@ contract
    requires old(db).inv(), len == len_of(H_int(nview(children@))),
    ensures final(db).inv(), /*@C06,C02*/ r.hash == H_int(nview(children@)), /*@C06,C02*/ r.len == len,
//@ loop 1
        invariant /*@AUX*/ db.inv(),
//@ end

//@ extract merkledb/src/internal_methods.rs fn merge_one_level
//@ ret r
//@ rules R4a R4f
//@ contract
    requires old(db).inv(), len_ok(nview(nodes@)), len_ok(level(nview(nodes@))),
    ensures final(db).inv(), /*@AUX*/ r.0@.len() == nodes@.len(),
        /*@C06,C02*/ nview(r.1@) == level(nview(nodes@)),
//@ after `let mut cur_children_total_len: usize = 0;`
    let ghost s = nview(nodes@);
    proof { assert(nview(parents@) =~= Seq::<HL>::empty()); assert(nview(parents@) + level_acc(s, 0, 0) =~= level(s)); }
//@ loop 1
        invariant
            s == nview(nodes@), /*@AUX*/ total_children == nodes@.len(), /*@AUX*/ db.inv(),
            /*@AUX*/ cur_children_start_idx <= idx,
            // cut positions == spec cuts: no group is left open when the list ends
            /*@C06,C02*/ idx == nodes@.len() ==> cur_children_start_idx == idx,
            /*@AUX*/ parent_of_node@.len() == nodes@.len(),
            // the length handed to the next parent is the sum over the open group so far
            /*@C06,C02*/ cur_children_total_len == sum_n(s.subrange(cur_children_start_idx as int, idx as int)),
            // parents built so far ++ spec parents of the rest (open group from start, scanned to idx) == spec level
            /*@C06,C02*/ nview(parents@) + level_acc(s, cur_children_start_idx as int, idx as int) == level(s),
            len_ok(s), len_ok(level_acc(s, cur_children_start_idx as int, idx as int)),
//@ before `cur_children_total_len += node.len();`
        proof {
            lemma_group_fits(s, cur_children_start_idx as int, idx as int);
            lemma_sum_push(s, cur_children_start_idx as int, idx as int);
            lemma_level_step(s, cur_children_start_idx as int, idx as int);
        }
//@ before `let parent_node =`
            let ghost g = s.subrange(cur_children_start_idx as int, idx + 1);
            let ghost old_parents = nview(parents@);
            // carries the property (not a convenience): the slice handed to node_from_children is exactly the spec group g
            proof { /*@C06,C02*/ assert(nview(nodes@.subrange(cur_children_start_idx as int, idx + 1)) =~= g); }
//@ after `parents.push(parent_node);`
            proof {
                // carries the property: the node just pushed is the spec parent (H_int(g), sum len) of the closed group
                /*@C06,C02*/ assert(nview(parents@) =~= old_parents + seq![parent(g)]);
                assert((old_parents + seq![parent(g)]) + level_acc(s, idx + 1, idx + 1) =~= old_parents + (seq![parent(g)] + level_acc(s, idx + 1, idx + 1)));
            }
//@ loop 2
                invariant
                    /*@AUX*/ parent_of_node@.len() == nodes@.len(), /*@AUX*/ vx_last == idx, /*@AUX*/ idx < nodes@.len(),
                    /*@AUX*/ cur_children_start_idx <= ch_index <= vx_last,
                decreases (vx_last - ch_index) + (if vx_more { 1int } else { 0int }),
//@ after `cur_children_start_idx = idx + 1;`
            proof { assert(s.subrange(idx + 1, idx + 1) =~= Seq::<HL>::empty()); }
//@ before `(parent_of_node, parents)`
    proof { assert(nview(parents@) + Seq::<HL>::empty() =~= nview(parents@)); }
//@ end

//@ extract merkledb/src/internal_methods.rs fn merge
//@ ret ret
//@ contract
    // a one-element list is returned as is: the node store is not consulted (only attributes are written)
    requires nodes@.len() != 1 ==> old(db).inv() && consistent(nview(nodes@)),
    ensures old(db).inv() ==> final(db).inv(),
        /*@AUX*/ nodes@.len() >= 1,
        /*@C06,C02*/ ret.hl() == root(nview(nodes@)),
        nodes@.len() == 1 ==> ret == nodes@[0],
//@ body-start
    let ghost s0 = nview(nodes@); let ghost nodes0 = nodes@;
//@ loop 1
        invariant /*@AUX*/ nodes@.len() >= 1, nodes@.len() != 1 ==> db.inv() && consistent(nview(nodes@)),
            // the current level has the same root as the input list
            /*@C06,C02*/ root(nview(nodes@)) == root(s0),
            /*@AUX*/ nodes0.len() >= 1, /*@AUX*/ old(db).inv() ==> db.inv(), /*@AUX*/ nodes0.len() != 1 ==> old(db).inv(),
            s0 == nview(nodes0), s0.len() == 1 ==> nodes@ == nodes0,
        decreases nodes@.len(),
//@ before `let (parent_of_node, mut parents)`
        let ghost s = nview(nodes@);
        proof {
            assert(consistent(level(s)));
            assert(len_ok(level(s)));
            lemma_level_len(s);
            assert(root(s) == root(level(s)));
        }
//@ end

// ---- the uploader's aggregate hashes (producer side of C06; xorb name / file hash of C02, C03) --------------------------------
// `[T]::to_owned` clones element-wise; the last clause is extensionality, stated to spare a hint inside an argument expression
pub assume_specification<T: Clone> [<[T] as std::borrow::ToOwned>::to_owned] (s: &[T]) -> (r: Vec<T>)
    ensures r@.len() == s@.len(), forall|i: int| 0 <= i < s@.len() ==> cloned::<T>(#[trigger] s@[i], r@[i]),
        (forall|i: int| 0 <= i < s@.len() ==> s@[i] == r@[i]) ==> r@ == s@;

trait MerkleDBHighLevelMethodsV2: MerkleDBBase {
//@ extract merkledb/src/merkledb_highlevel_v2.rs in `MerkleDBHighLevelMethodsV2` fn merge_to_file
//@ ret r
//@ contract
        requires old(self).inv(), consistent(nview(nodes@)),
        ensures final(self).inv(), /*@C06,C02*/ r.hl() == root(nview(nodes@)),
//@ end
//@ extract merkledb/src/merkledb_highlevel_v2.rs in `MerkleDBHighLevelMethodsV2` fn merge_to_cas
//@ ret r
//@ contract
        requires old(self).inv(), consistent(nview(nodes@)),
        ensures final(self).inv(), /*@C06,C02*/ r.hl() == root(nview(nodes@)),
//@ end
}

// ---- the in-memory store used by all three paths: the REAL struct and the real `maybe_add_node`/`find_node` are under proof,
// so the assumed trait contract above is discharged for this store (given the HashMap key model of DataHash)
// R11 stub for std::path::PathBuf (only stored; never read on these paths)
#[verifier::external_body]
struct VxPathBuf { _p: u8 }
impl VxPathBuf { #[verifier::external_body] fn default() -> VxPathBuf { unimplemented!() } }
pub assume_specification<'a, T: Copy> [std::option::Option::<&T>::copied] (o: Option<&'a T>) -> (r: Option<T>)
    ensures r == match o { Some(x) => Some(*x), None => None };
// ASSUMED (data_hash.rs:96-102, 254-...): Eq compares the four words, Hash is a function of them => std HashMap key model
impl PartialEq for DataHash { #[verifier::external_body] fn eq(&self, o: &Self) -> bool { unimplemented!() } }
impl Eq for DataHash {}
impl std::hash::Hash for DataHash { #[verifier::external_body] fn hash<H: std::hash::Hasher>(&self, state: &mut H) { unimplemented!() } }
#[verifier::external_body]
pub broadcast proof fn axiom_datahash_key_model()
    ensures #[trigger] vstd::std_specs::hash::obeys_key_model::<DataHash>()
{}

//@ extract merkledb/src/merklememdb.rs struct MerkleMemDB
//@ subst `path: PathBuf` => `path: VxPathBuf` :: R11 stub type for std::path::PathBuf (exposing the std type drags in its Deref impl, which Verus' trait checker rejects)
//@ subst `FxHashMap<MerkleHash, MerkleNodeId>` => `HashMap<MerkleHash, MerkleNodeId>` :: R11 stub type: rustc_hash::FxHashMap is std HashMap with another hasher; std's HashMap (with vstd's specification) stands in for it
//@ end
impl MerkleDBBase for MerkleMemDB {
    // every hash in the index points at a stored node with that hash; every stored node carries the length of its hash
    spec fn inv(&self) -> bool {
        &&& forall|h: MerkleHash| #[trigger] self.hashdb@.contains_key(h) ==> self.hashdb@[h] < self.nodedb@.len() && self.nodedb@[self.hashdb@[h] as int].hash == h
        &&& forall|i: int| 0 <= i < self.nodedb@.len() ==> len_of((#[trigger] self.nodedb@[i]).hash) == self.nodedb@[i].len
    }
//@ extract merkledb/src/merklememdb.rs in `impl MerkleDBBase for MerkleMemDB` fn maybe_add_node
//@ ret r
//@ contract
        ensures r.1 == !old(self).hashdb@.contains_key(*hash),
//@ body-start
        broadcast use axiom_datahash_key_model;
//@ end
//@ extract merkledb/src/merklememdb.rs in `impl MerkleDBBase for MerkleMemDB` fn find_node_by_id
//@ ret r
//@ contract
        ensures match r { Some(n) => h < self.nodedb@.len() && n == self.nodedb@[h as int], None => h >= self.nodedb@.len() },
//@ end
//@ extract merkledb/src/merklememdb.rs in `impl MerkleDBBase for MerkleMemDB` fn hash_to_id
//@ ret r
//@ contract
        ensures match r { Some(i) => self.hashdb@.contains_key(*h) && self.hashdb@[*h] == i, None => !self.hashdb@.contains_key(*h) },
//@ body-start
        broadcast use axiom_datahash_key_model;
//@ end
//@ extract merkledb/src/merklememdb.rs in `impl MerkleDBBase for MerkleMemDB` fn find_node
//@ ret r
//@ rules R9o
//@ contract
        ensures r.is_some() == self.hashdb@.contains_key(*h),
//@ end
    #[verifier::external_body]
    fn node_attributes(&self, h: MerkleNodeId) -> (r: Option<MerkleNodeAttributes>) { unimplemented!() }
//@ extract merkledb/src/merklememdb.rs in `impl MerkleDBBase for MerkleMemDB` fn set_node_attributes
//@ ret r
//@ end
}
impl MerkleDBHighLevelMethodsV2 for MerkleMemDB {}
impl MerkleMemDB {
//@ extract merkledb/src/merklememdb.rs in `impl Default for MerkleMemDB` fn default
//@ ret r
//@ subst `PathBuf::default()` => `VxPathBuf::default()` :: R11 stub type for std::path::PathBuf
//@ subst `FxHashMap::default()` => `HashMap::new()` :: R11 stub type (see struct MerkleMemDB): the empty map
//@ contract
        ensures len_of(zero_hash()) == 0 ==> r.inv(),
//@ before `ret.hashdb.insert(`
        broadcast use axiom_datahash_key_model;
//@ after `ret.hashdb.insert(MerkleHash::default(), 0);`
        proof {
            if len_of(zero_hash()) == 0 {
                lemma_zero_unique(ret.nodedb@[0].hash);
                assert forall|h: MerkleHash| #[trigger] ret.hashdb@.contains_key(h) implies h == zero_hash() by { lemma_zero_unique(h); }
            }
        }
//@ end
}

enum MerkleDBError { Other(String) }
type Result<T> = std::result::Result<T, MerkleDBError>;

// ---- keyed hashes over the 32-byte form: `with_salt` (file hash, C03/C02) and `range_hash_from_chunks` (per-segment verification
// hash, C02).  TRUSTED: blake3 itself (`blake3_keyed`, uninterpreted) and the byte form of DataHash (K-HASHBYTES) ------------------
pub uninterp spec fn blake3_keyed(key: Seq<u8>, data: Seq<u8>) -> Seq<u8>;
// the 32-byte form of a hash: the four words in order, each little-endian (`transmute` on a little-endian target; K-HASHBYTES)
spec fn hash_bytes(h: MerkleHash) -> Seq<u8> {
    vstd::bytes::spec_u64_to_le_bytes(h.0[0]) + vstd::bytes::spec_u64_to_le_bytes(h.0[1])
        + vstd::bytes::spec_u64_to_le_bytes(h.0[2]) + vstd::bytes::spec_u64_to_le_bytes(h.0[3])
}
pub closed spec fn hash_from_bytes(b: Seq<u8>) -> MerkleHash {
    DataHash([vstd::bytes::spec_u64_from_le_bytes(b.subrange(0, 8)), vstd::bytes::spec_u64_from_le_bytes(b.subrange(8, 16)),
              vstd::bytes::spec_u64_from_le_bytes(b.subrange(16, 24)), vstd::bytes::spec_u64_from_le_bytes(b.subrange(24, 32))])
}
spec fn concat_hash_bytes(hs: Seq<MerkleHash>) -> Seq<u8> decreases hs.len() {
    if hs.len() == 0 { Seq::<u8>::empty() } else { concat_hash_bytes(hs.drop_last()) + hash_bytes(hs.last()) }
}
// the fixed verification key, written out independently of the extracted constant
spec fn verification_key() -> Seq<u8> {
    seq![127u8, 24u8, 87u8, 214u8, 206u8, 86u8, 237u8, 102u8, 18u8, 127u8, 249u8, 19u8, 231u8, 165u8, 195u8, 243u8, 164u8, 205u8, 38u8, 213u8,
         181u8, 219u8, 73u8, 230u8, 65u8, 36u8, 152u8, 127u8, 40u8, 251u8, 148u8, 195u8]
}
// DEFINITIONS shared with an independent (server-side) validator:
//   salted file hash        = from_bytes(blake3_keyed(salt, bytes(hash)))
//   segment verification    = from_bytes(blake3_keyed(VERIFICATION_KEY, bytes(h_0) ++ bytes(h_1) ++ ...))
spec fn salted(h: MerkleHash, salt: [u8; 32]) -> MerkleHash { hash_from_bytes(blake3_keyed(salt@, hash_bytes(h))) }
spec fn range_hash_def(hs: Seq<MerkleHash>) -> MerkleHash { hash_from_bytes(blake3_keyed(verification_key(), concat_hash_bytes(hs))) }

pub assume_specification<T: Clone> [<[T]>::to_vec] (s: &[T]) -> (r: Vec<T>)
    ensures r@.len() == s@.len(), forall|i: int| 0 <= i < s@.len() ==> cloned::<T>(#[trigger] s@[i], r@[i]);
// R11 stub of the blake3 crate under the same path
mod blake3 {
    use super::*;
    #[verifier::external_body]
    pub struct Hash { _p: u8 }
    impl Hash {
        pub uninterp spec fn bytes(&self) -> Seq<u8>;
        #[verifier::external_body]
        pub fn as_bytes(&self) -> (r: &[u8; 32]) ensures r@ == self.bytes() { unimplemented!() }
    }
    #[verifier::external_body]
    pub fn keyed_hash(key: &[u8; 32], input: &[u8]) -> (r: Hash) ensures r.bytes() == blake3_keyed(key@, input@) { unimplemented!() }
}
pub struct DataHashBytesParseError { _p: u8 }
impl DataHash {
    // ASSUMED (data_hash.rs:190-192, transmute of the words; K-HASHBYTES)
    #[verifier::external_body]
    fn as_bytes(&self) -> (r: &[u8]) ensures r@ == hash_bytes(*self) { unimplemented!() }
}
// ASSUMED (data_hash.rs:65-69 transmute_copy; 194-206 copy_nonoverlapping after a length check; K-HASHBYTES)
impl From<&[u8; 32]> for DataHash {
    #[verifier::external_body]
    fn from(value: &[u8; 32]) -> (r: Self) ensures r == hash_from_bytes(value@) { unimplemented!() }
}
impl TryFrom<&[u8]> for DataHash {
    type Error = DataHashBytesParseError;
    #[verifier::external_body]
    fn try_from(value: &[u8]) -> (r: std::result::Result<Self, DataHashBytesParseError>)
        ensures value@.len() == 32 ==> r == std::result::Result::<DataHash, DataHashBytesParseError>::Ok(hash_from_bytes(value@)),
            value@.len() != 32 ==> r is Err,
    { unimplemented!() }
}
// R7 outline of `.map_err(|_| MerkleDBError::Other("fail to salt a MerkleHash".to_owned()))` (`_` closure parameter, String)
#[verifier::external_body]
fn vx_map_err_salt(res: std::result::Result<MerkleHash, DataHashBytesParseError>) -> (o: Result<MerkleHash>)
    ensures res is Ok ==> o == Result::<MerkleHash>::Ok(res->Ok_0), res is Err ==> o is Err,
{ res.map_err(|_| MerkleDBError::Other("fail to salt a MerkleHash".to_owned())) }

//@ extract merkledb/src/aggregate_hashes.rs fn with_salt
//@ ret r
//@ subst `MerkleHash::try_from(salted_hash.as_bytes().as_slice()) .map_err(|_| MerkleDBError::Other("fail to salt a MerkleHash".to_owned()))` => `vx_map_err_salt(MerkleHash::try_from(salted_hash.as_bytes().as_slice()))` :: R7 outline of the error-mapping closure only (`_` parameter and String construction are outside Verus); the conversion call stays
//@ contract
    ensures /*@C03,C02,C06*/ r == Result::<MerkleHash>::Ok(salted(*hash, *salt)),
//@ end

//@ extract mdb_shard/src/chunk_verification.rs const VERIFICATION_KEY
//@ end
//@ extract mdb_shard/src/chunk_verification.rs fn range_hash_from_chunks
//@ ret r
//@ rules R4g
//@ contract
    ensures /*@C02,C06*/ r == range_hash_def(chunks@),
//@ loop 1
        invariant /*@AUX*/ vx_i <= chunks@.len(),
            // bytes gathered so far == the 32-byte forms of the chunk hashes so far, in order
            /*@C02,C06*/ vx_v@ == concat_hash_bytes(chunks@.subrange(0, vx_i as int)),
//@ after `let mut vx_f = hash.as_bytes().to_vec();`
            proof {
                assert(chunks@.subrange(0, vx_i + 1).drop_last() =~= chunks@.subrange(0, vx_i as int));
                /*@C02,C06*/ assert(vx_f@ == hash_bytes(chunks@[vx_i as int]));
            }
//@ before `let range_hash =`
    proof {
        assert(chunks@.subrange(0, chunks@.len() as int) =~= chunks@);
        /*@C02,C06*/ assert(VERIFICATION_KEY@ =~= verification_key());
    }
//@ end

spec fn cview(c: Seq<(MerkleHash, usize)>) -> Seq<HL> { Seq::new(c.len(), |i: int| HL { h: c[i].0, n: c[i].1 as int }) }
// the aggregate hash of a chunk list per the published construction: the all-zero hash for the empty list, else the tree root
spec fn agg_is(s: Seq<HL>, r: MerkleHash) -> bool { if s.len() == 0 { is_zero(r) } else { r == root(s).h } }

//@ extract merkledb/src/aggregate_hashes.rs fn cas_node_hash
//@ ret r
//@ rules R4d
//@ contract
    requires len_of(zero_hash()) == 0, chunks@.len() > 0 ==> consistent(cview(chunks@)),
    ensures /*@C06,C02*/ agg_is(cview(chunks@), r),
//@ loop 1
        invariant /*@AUX*/ mdb.inv(), len_ok(cview(chunks@)), /*@AUX*/ vx_v@.len() == vx_i,
            // leaves built so far == the chunk list prefix, in order
            /*@C06,C02*/ forall|j: int| 0 <= j < vx_i ==> (#[trigger] vx_v@[j]).hl() == cview(chunks@)[j],
//@ before `vx_v.push(`
            proof { assert(cview(chunks@)[vx_i as int].n == len_of(cview(chunks@)[vx_i as int].h)); }
//@ before `let m =`
    proof {
        // carries the property: the node list merged is exactly the chunk list
        /*@C06,C02*/ assert(nview(nodes@) =~= cview(chunks@));
        assert(nodes@.subrange(0, nodes@.len() as int) =~= nodes@);
    }
//@ end

//@ extract merkledb/src/aggregate_hashes.rs fn file_node_hash
//@ ret r
//@ rules R4d
//@ contract
    requires len_of(zero_hash()) == 0, chunks@.len() > 0 ==> consistent(cview(chunks@)),
    ensures
        /*@C06,C02,C03*/ match r {
            Ok(h) => if chunks@.len() == 0 { is_zero(h) } else { h == salted(root(cview(chunks@)).h, *salt) },
            Err(_) => true,
        },
        r is Ok,
        // taken from the property, not from the code: "different salts give different hashes for the same bytes" needs the
        // hash of EVERY chunk list to be a salted value; the non-empty case is the clause above, this is the empty file
        /*@C03*/ (chunks@.len() == 0 && r is Ok) ==> exists|base: MerkleHash| r->Ok_0 == #[trigger] salted(base, *salt),
//@ loop 1
        invariant /*@AUX*/ mdb.inv(), len_ok(cview(chunks@)), /*@AUX*/ vx_v@.len() == vx_i,
            // leaves built so far == the chunk list prefix, in order
            /*@C06,C02,C03*/ forall|j: int| 0 <= j < vx_i ==> (#[trigger] vx_v@[j]).hl() == cview(chunks@)[j],
//@ before `vx_v.push(`
            proof { assert(cview(chunks@)[vx_i as int].n == len_of(cview(chunks@)[vx_i as int].h)); }
//@ before `let m =`
    proof {
        // carries the property: the node list merged is exactly the chunk list
        /*@C06,C02,C03*/ assert(nview(nodes@) =~= cview(chunks@));
        assert(nodes@.subrange(0, nodes@.len() as int) =~= nodes@);
    }
//@ end

// ---- the validators' path: add_file + finalize on a fresh store (C06: producer = both validators) -----------------------------
//@ extract merkledb/src/chunk_iterator.rs struct Chunk
//@ end
//@ extract merkledb/src/constants.rs const IDEAL_CAS_BLOCK_SIZE
//@ end
//@ extract merkledb/src/constants.rs const TARGET_CDC_CHUNK_SIZE
//@ end
//@ extract merkledb/src/constants.rs const MAXIMUM_CHUNK_MULTIPLIER
//@ end
//@ extract merkledb/src/constants.rs const TARGET_CAS_BLOCK_SIZE
//@ end
//@ extract merkledb/src/merklenode.rs const ID_UNASSIGNED
//@ end
//@ extract merkledb/src/merkledb_highlevel_v1.rs struct InsertionStaging
//@ end
spec fn chview(c: Seq<Chunk>) -> Seq<HL> { Seq::new(c.len(), |i: int| HL { h: c[i].hash, n: c[i].length as int }) }
impl MerkleNode {
//@ extract merkledb/src/merklenode.rs in `impl Default for MerkleNode` fn default
//@ ret r
//@ contract
        ensures is_zero(r.hash), r.len == 0,
//@ end
}
// ASSUMED (data_hash.rs:110-114): `partial_cmp` is `Some(self.cmp(other))`
impl PartialOrd for DataHash {
    #[verifier::external_body]
    fn partial_cmp(&self, other: &Self) -> (r: Option<std::cmp::Ordering>) ensures r.is_some() { unimplemented!() }
}
pub assume_specification<T, F: FnMut(&T, &T) -> std::cmp::Ordering> [<[T]>::sort_unstable_by] (s: &mut [T], f: F)
    ensures final(s)@.to_multiset() == old(s)@.to_multiset();
proof fn lemma_perm_of_one<T>(a: Seq<T>, b: Seq<T>)
    requires a.len() == 1, a.to_multiset() == b.to_multiset(),
    ensures a == b,
{
    a.to_multiset_ensures(); b.to_multiset_ensures();
    assert(b.len() == 1);
    assert(a.contains(a[0]));
    assert(b.to_multiset().count(a[0]) > 0);
    assert(b.contains(a[0]));
    assert(a =~= b);
}

impl InsertionStaging {
    // NOT under proof, frame ASSUMED: groups the not-yet-stored leaves into CAS blocks by calling `merge` on sublists; writes
    // cas_roots / nodes_without_cas_entry* / ids_in_nodes_without_cas_entry only (merkledb_highlevel_v1.rs:42-68)
    #[verifier::external_body]
    fn build_cas_nodes(&mut self, db: &mut (impl MerkleDBBase + ?Sized), flush: bool)
        ensures final(self).file_roots == old(self).file_roots,
    { unimplemented!() }
}
// R7 outlines of add_file's bookkeeping chains (contracts ASSUMED: they do not touch `file_roots`)
#[verifier::external_body]
fn vx_unique_nodes_without_cas<D: MerkleDBBase + ?Sized>(db: &D, staging: &mut InsertionStaging, ch: &Vec<MerkleNode>) -> (r: Vec<MerkleNode>)
    ensures final(staging).file_roots == old(staging).file_roots,
{
    ch.iter()
        .filter(|x| !db.node_attributes(x.id()).unwrap_or_default().has_cas_data())
        .filter(|x| staging.ids_in_nodes_without_cas_entry.insert(x.id()))
        .cloned()
        .collect()
}
#[verifier::external_body]
fn vx_account_len(staging: &mut InsertionStaging, nodes_without_cas_entry: &Vec<MerkleNode>)
    ensures final(staging).file_roots == old(staging).file_roots,
{
    staging.nodes_without_cas_entry_length += nodes_without_cas_entry.iter().map(|x| x.len()).sum::<usize>();
}

//@ extract merkledb/src/internal_methods.rs fn node_from_hash
//@ ret r
//@ contract
    requires old(db).inv(), len == len_of(*hash),
    ensures final(db).inv(), r.hash == *hash, r.len == len,
//@ end

trait MerkleDBHighLevelMethodsV1: MerkleDBBase {
//@ extract merkledb/src/merkledb_highlevel_v1.rs in `MerkleDBHighLevelMethodsV1` fn start_insertion_staging
//@ ret r
//@ contract
        ensures r.file_roots@.len() == 0,
//@ end
//@ extract merkledb/src/merkledb_highlevel_v1.rs in `MerkleDBHighLevelMethodsV1` fn add_file
//@ ret r
//@ rules R4d
//@ subst `ch .iter() .filter(|x| !self.node_attributes(x.id()).unwrap_or_default().has_cas_data()) .filter(|x| staging.ids_in_nodes_without_cas_entry.insert(x.id())) .cloned() .collect()` => `vx_unique_nodes_without_cas(self, staging, &ch)` :: R7 outline (filter/filter/cloned chain; `self` is named `db` in the outlined copy); selects the leaves for CAS staging, contract assumed
//@ subst `staging.nodes_without_cas_entry_length += nodes_without_cas_entry.iter().map(|x| x.len()).sum::<usize>();` => `vx_account_len(staging, &nodes_without_cas_entry);` :: R7 outline (map/sum chain and its `+=`); CAS staging byte accounting, contract assumed
//@ contract
        requires old(self).inv(), chunk@.len() > 0 ==> consistent(chview(chunk@)),
        ensures
            /*@C06*/ agg_is(chview(chunk@), r),
            /*@AUX*/ chunk@.len() == 0 ==> final(staging).file_roots@ == old(staging).file_roots@,
            chunk@.len() > 0 ==> final(staging).file_roots@.len() == old(staging).file_roots@.len() + 1
                && final(staging).file_roots@.drop_last() == old(staging).file_roots@
                && /*@C06*/ final(staging).file_roots@.last().hash == r,
//@ loop 1
            invariant /*@AUX*/ self.inv(), len_ok(chview(chunk@)), /*@AUX*/ vx_v@.len() == vx_i,
                /*@C06*/ forall|j: int| 0 <= j < vx_i ==> (#[trigger] vx_v@[j]).hl() == chview(chunk@)[j],
//@ before `vx_v.push(`
                proof { assert(chview(chunk@)[vx_i as int].n == len_of(chview(chunk@)[vx_i as int].h)); }
//@ before `let mut nodes_without_cas_entry`
        // carries the property: the node list merged is exactly the validator's chunk list
        proof { /*@C06*/ assert(nview(ch@) =~= chview(chunk@)); }
//@ after `staging.file_roots.push(file_root);`
        proof { assert(staging.file_roots@.drop_last() =~= old(staging).file_roots@); }
//@ end
//@ extract merkledb/src/merkledb_highlevel_v1.rs in `MerkleDBHighLevelMethodsV1` fn finalize
//@ ret r
//@ contract
        // the validators stage exactly one file; with several roots the result is `merge` over the sorted roots (not covered)
        requires staging.file_roots@.len() <= 1,
        ensures
            staging.file_roots@.len() == 0 ==> is_zero(r.hash),
            /*@C06*/ staging.file_roots@.len() == 1 ==> r == staging.file_roots@[0],
//@ body-start
        let ghost roots0 = staging.file_roots@;
//@ after `staging.file_roots.sort_unstable_by(comparator);`
        proof { lemma_perm_of_one(roots0, staging.file_roots@); }
//@ end
}
impl MerkleDBHighLevelMethodsV1 for MerkleMemDB {}

// two values that are both "the aggregate hash of s" are equal: uploader and validators agree
proof fn lemma_agg_unique(s: Seq<HL>, a: MerkleHash, b: MerkleHash)
    requires agg_is(s, a), agg_is(s, b),
    ensures /*@C06*/ a == b,
{
    if s.len() == 0 { lemma_zero_unique(a); lemma_zero_unique(b); }
}

//@ extract cas_object/src/cas_object_format.rs in `impl CasObject` region validate_cas_object
//@ from `let mut db = MerkleMemDB::default();`
//@ to `let ret = db.finalize(staging);`
//@ sig `fn vx_validate_cas_object_root(hash_chunks: Vec<Chunk>) -> (ret: MerkleNode)`
//@ epilogue `ret`
//@ contract
    requires len_of(zero_hash()) == 0, hash_chunks@.len() > 0 ==> consistent(chview(hash_chunks@)),
    ensures /*@C06*/ agg_is(chview(hash_chunks@), ret.hash),
//@ end

//@ extract cas_object/src/validate_xorb_stream.rs region _validate_cas_object_from_async_read
//@ from `let mut db = MerkleMemDB::default();`
//@ to `let ret = db.finalize(staging);`
//@ sig `fn vx_validate_xorb_stream_root(chunk_hash_and_size: Vec<Chunk>) -> (ret: MerkleNode)`
//@ epilogue `ret`
//@ contract
    requires len_of(zero_hash()) == 0, chunk_hash_and_size@.len() > 0 ==> consistent(chview(chunk_hash_and_size@)),
    ensures /*@C06*/ agg_is(chview(chunk_hash_and_size@), ret.hash),
//@ end

} // verus!
fn main() {}
