//@ unit U-SHSTREAM
//@ props C09
//@ verus-args --rlimit 100
//@ rules-from isearch
#![feature(allocator_api)]
#![allow(non_snake_case, unused)]
use vstd::prelude::*;
use vstd::std_specs::cmp::*;
use std::cmp::Ordering;
use std::mem::size_of;
use std::sync::Arc;
verus! {
global size_of usize == 8;

//@ include prelude/setops_merklehash.rs
type HMACKey = MerkleHash;

//@ extract mdb_shard/src/file_structs.rs struct FileDataSequenceHeader
//@ end
//@ extract mdb_shard/src/file_structs.rs struct FileDataSequenceEntry
//@ end
//@ extract mdb_shard/src/file_structs.rs struct FileVerificationEntry
//@ end
//@ extract mdb_shard/src/file_structs.rs struct FileMetadataExt
//@ end
//@ extract mdb_shard/src/file_structs.rs struct MDBFileInfoView
//@ end
//@ extract mdb_shard/src/cas_structs.rs struct CASChunkSequenceHeader
//@ end
//@ extract mdb_shard/src/cas_structs.rs struct CASChunkSequenceEntry
//@ end
//@ extract mdb_shard/src/cas_structs.rs struct MDBCASInfoView
//@ end
//@ extract mdb_shard/src/streaming_shard.rs struct MDBMinimalShard
//@ end
//@ extract mdb_shard/src/shard_format.rs struct MDBShardFileHeader
//@ end
//@ extract mdb_shard/src/shard_format.rs struct MDBShardFileFooter
//@ end
//@ extract mdb_shard/src/file_structs.rs const MDB_FILE_FLAG_VERIFICATION_MASK
//@ end
//@ extract mdb_shard/src/file_structs.rs const MDB_FILE_FLAG_METADATA_EXT_MASK
//@ end
// shard_format.rs:23 (= 48, const_assert!ed there); Verus consts cannot call size_of
const MDB_FILE_INFO_ENTRY_SIZE: usize = 48;
global size_of FileDataSequenceHeader == 48;
global size_of MDBShardFileHeader == 48;
global size_of CASChunkSequenceHeader == 48;
global size_of CASChunkSequenceEntry == 48;
pub assume_specification<T, A: std::alloc::Allocator + Clone> [<Arc<[T], A> as From<Vec<T, A>>>::from] (v: Vec<T, A>) -> (r: Arc<[T], A>)
    ensures r@ == v@;

//@ include prelude/shscan_io.rs
//@ include prelude/shstream_io.rs

// ---- section model: identical to U-SHSCAN (from the bytes only) -------------------------------------------------------
spec fn has_verif(h: FileDataSequenceHeader) -> bool { h.file_flags & MDB_FILE_FLAG_VERIFICATION_MASK != 0 }
spec fn has_ext(h: FileDataSequenceHeader) -> bool { h.file_flags & MDB_FILE_FLAG_METADATA_EXT_MASK != 0 }
spec fn following(h: FileDataSequenceHeader) -> int {
    (if has_verif(h) { 2 * h.num_entries } else { h.num_entries as int }) + (if has_ext(h) { 1int } else { 0 })
}
spec fn file_pos(off: int, sec: Seq<FileDataSequenceHeader>, k: int) -> int decreases k {
    if k <= 0 { off } else { file_pos(off, sec, k - 1) + 48 + 48 * following(sec[k - 1]) }
}
spec fn file_section(data: Seq<u8>, off: int, sec: Seq<FileDataSequenceHeader>) -> bool {
    &&& forall|k: int| 0 <= k < sec.len() ==> file_hdr_at(data, #[trigger] file_pos(off, sec, k)) == sec[k] && sec[k].file_hash != bookend_hash()
    &&& file_hdr_at(data, file_pos(off, sec, sec.len() as int)).file_hash == bookend_hash()
}
spec fn has_file_section(data: Seq<u8>, off: int) -> bool { exists|sec: Seq<FileDataSequenceHeader>| file_section(data, off, sec) }
spec fn the_file_section(data: Seq<u8>, off: int) -> Seq<FileDataSequenceHeader> { choose|sec: Seq<FileDataSequenceHeader>| file_section(data, off, sec) }
proof fn lemma_file_pos_step(off: int, sec: Seq<FileDataSequenceHeader>, k: int)
    requires 0 <= k < sec.len(),
    ensures file_pos(off, sec, k + 1) == file_pos(off, sec, k) + 48 + 48 * following(sec[k]),
{}
proof fn lemma_file_pos_ge(off: int, sec: Seq<FileDataSequenceHeader>, k: int)
    ensures file_pos(off, sec, k) >= off
    decreases k
{ if k > 0 { lemma_file_pos_ge(off, sec, k - 1); } }
spec fn cas_pos(off: int, sec: Seq<CASChunkSequenceHeader>, k: int) -> int decreases k {
    if k <= 0 { off } else { cas_pos(off, sec, k - 1) + 48 + 48 * sec[k - 1].num_entries }
}
spec fn cas_section(data: Seq<u8>, off: int, sec: Seq<CASChunkSequenceHeader>) -> bool {
    &&& forall|k: int| 0 <= k < sec.len() ==> cas_hdr_at(data, #[trigger] cas_pos(off, sec, k)) == sec[k] && sec[k].cas_hash != bookend_hash()
    &&& cas_hdr_at(data, cas_pos(off, sec, sec.len() as int)).cas_hash == bookend_hash()
}
spec fn has_cas_section(data: Seq<u8>, off: int) -> bool { exists|sec: Seq<CASChunkSequenceHeader>| cas_section(data, off, sec) }
spec fn the_cas_section(data: Seq<u8>, off: int) -> Seq<CASChunkSequenceHeader> { choose|sec: Seq<CASChunkSequenceHeader>| cas_section(data, off, sec) }
proof fn lemma_cas_pos_step(off: int, sec: Seq<CASChunkSequenceHeader>, k: int)
    requires 0 <= k < sec.len(),
    ensures cas_pos(off, sec, k + 1) == cas_pos(off, sec, k) + 48 + 48 * sec[k].num_entries,
{}

proof fn lemma_cas_pos_ge(off: int, sec: Seq<CASChunkSequenceHeader>, k: int)
    ensures cas_pos(off, sec, k) >= off
    decreases k
{ if k > 0 { lemma_cas_pos_ge(off, sec, k - 1); } }

impl FileDataSequenceHeader {
//@ extract mdb_shard/src/file_structs.rs in `impl FileDataSequenceHeader` fn contains_metadata_ext
//@ ret r
//@ contract
    ensures r == has_ext(*self),
//@ end
//@ extract mdb_shard/src/file_structs.rs in `impl FileDataSequenceHeader` fn contains_verification
//@ ret r
//@ contract
    ensures r == has_verif(*self),
//@ end
}

// a file record handed to a callback: the header, and a private buffer holding the re-encoded header followed by the record's
// `following` 48-byte entries exactly as they stand in the stream at p+48
spec fn file_view_ok(v: MDBFileInfoView, data: Seq<u8>, p: int, h: FileDataSequenceHeader) -> bool {
    v.header == h && v.offset == 0 && v.data@ == enc_file_hdr(h) + data.subrange(p + 48, p + 48 + 48 * following(h)) && v.data@.len() == 48 * (1 + following(h))
}
spec fn cas_view_ok(v: MDBCASInfoView, data: Seq<u8>, p: int, h: CASChunkSequenceHeader) -> bool {
    v.header == h && v.offset == 0 && v.data@ == enc_cas_hdr(h) + data.subrange(p + 48, p + 48 + 48 * h.num_entries) && v.data@.len() == 48 * (1 + h.num_entries)
}

impl MDBFileInfoView {
//@ extract mdb_shard/src/file_structs.rs in `impl MDBFileInfoView` fn from_data_and_header
//@ ret r
//@ subst `std::io::Result<Self>` => `Result<Self>` :: R11 one error type for all stubs
//@ subst `return Err(io::Error::new( io::ErrorKind::UnexpectedEof, "Provided slice too small to read MDBFileInfoView", ));` => `return Err(MDBShardError);` :: R11 error value of the stub error type
//@ contract
        requires offset + 48 * (1 + following(header)) <= usize::MAX,
        ensures
            r is Ok <==> data@.len() >= offset + 48 * (1 + following(header)),
            r matches Ok(v) ==> v.header == header && v.data == data && v.offset == offset,
//@ end
}
impl MDBCASInfoView {
//@ extract mdb_shard/src/cas_structs.rs in `impl MDBCASInfoView` fn from_data_and_header
//@ ret r
//@ subst `io::Result<Self>` => `Result<Self>` :: R11 one error type for all stubs
//@ subst `return Err(io::Error::new(io::ErrorKind::UnexpectedEof, "Provided slice too small to read Cas Info"));` => `return Err(MDBShardError);` :: R11 error value of the stub error type
//@ contract
        requires offset + 48 * (1 + header.num_entries) <= usize::MAX,
        ensures
            r is Ok <==> data@.len() >= offset + 48 * (1 + header.num_entries),
            r matches Ok(v) ==> v.header == header && v.data == data && v.offset == offset,
//@ end
}


// `Write::write_all` on a Vec<u8>: appends the slice
#[verifier::external_body]
fn vx_write_all(w: &mut Vec<u8>, b: &[u8]) -> (r: Result<()>) ensures r is Ok ==> final(w)@ == old(w)@ + b@ { unimplemented!() }
// a view is well-formed when its record lies inside its buffer (what from_data_and_header checks)
spec fn fview_wf(v: MDBFileInfoView) -> bool { v.offset + 48 * (1 + following(v.header)) <= v.data@.len() <= usize::MAX }
spec fn cview_wf(v: MDBCASInfoView) -> bool { v.offset + 48 * (1 + v.header.num_entries) <= v.data@.len() <= usize::MAX }
impl MDBFileInfoView {
//@ extract mdb_shard/src/file_structs.rs in `impl MDBFileInfoView` fn num_entries
//@ ret r
//@ contract
        ensures r == self.header.num_entries,
//@ end
//@ extract mdb_shard/src/file_structs.rs in `impl MDBFileInfoView` fn contains_metadata_ext
//@ ret r
//@ contract
        ensures r == has_ext(self.header),
//@ end
//@ extract mdb_shard/src/file_structs.rs in `impl MDBFileInfoView` fn contains_verification
//@ ret r
//@ contract
        ensures r == has_verif(self.header),
//@ end
//@ extract mdb_shard/src/file_structs.rs in `impl MDBFileInfoView` fn byte_size
//@ ret r
//@ contract
        ensures r == 48 * (1 + following(self.header)),
//@ end
//@ extract mdb_shard/src/file_structs.rs in `impl MDBFileInfoView` fn serialize
//@ ret r
//@ subst `<W: Write>` => `` :: R11 the instance W = Vec<u8>
//@ subst `writer: &mut W` => `writer: &mut Vec<u8>` :: R11 the instance W = Vec<u8>
//@ subst `io::Result<usize>` => `Result<usize>` :: R11 one error type for all stubs
//@ subst `writer.write_all(` => `vx_write_all(writer, ` :: R11 Write::write_all on Vec<u8>
//@ contract
        requires fview_wf(*self),
        ensures r matches Ok(n) ==> n == 48 * (1 + following(self.header)) && final(writer)@ == old(writer)@ + self.data@.subrange(self.offset as int, self.offset + n),
//@ end
}
impl MDBCASInfoView {
//@ extract mdb_shard/src/cas_structs.rs in `impl MDBCASInfoView` fn num_entries
//@ ret r
//@ contract
        ensures r == self.header.num_entries,
//@ end
//@ extract mdb_shard/src/cas_structs.rs in `impl MDBCASInfoView` fn byte_size
//@ ret r
//@ contract
        ensures r == 48 * (1 + self.header.num_entries),
//@ end
//@ extract mdb_shard/src/cas_structs.rs in `impl MDBCASInfoView` fn serialize
//@ ret r
//@ subst `<W: Write>` => `` :: R11 the instance W = Vec<u8>
//@ subst `writer: &mut W` => `writer: &mut Vec<u8>` :: R11 the instance W = Vec<u8>
//@ subst `io::Result<usize>` => `Result<usize>` :: R11 one error type for all stubs
//@ subst `writer.write_all(` => `vx_write_all(writer, ` :: R11 Write::write_all on Vec<u8>
//@ contract
        requires cview_wf(*self),
        ensures r matches Ok(n) ==> n == 48 * (1 + self.header.num_entries) && final(writer)@ == old(writer)@ + self.data@.subrange(self.offset as int, self.offset + n),
//@ end
}

// ---- MDBMinimalShard::from_reader: the two callback closures, lifted (R8) with their captured variables as parameters ----
//@ extract mdb_shard/src/streaming_shard.rs in `impl MDBMinimalShard` region from_reader
//@ block `|fiv: MDBFileInfoView| {`
//@ sig `fn from_reader_file_cb(include_files: bool, file_offsets: &mut Vec<u32>, mut data_vec: &mut Vec<u8>, fiv: &MDBFileInfoView) -> (res: Result<()>)`
//@ contract
    requires fview_wf(*fiv),
    ensures
        res is Ok && include_files ==> final(file_offsets)@ == old(file_offsets)@.push(old(data_vec)@.len() as u32)
            && final(data_vec)@ == old(data_vec)@ + fiv.data@.subrange(fiv.offset as int, fiv.offset + 48 * (1 + following(fiv.header))),
        res is Ok && !include_files ==> final(file_offsets)@ == old(file_offsets)@ && final(data_vec)@ == old(data_vec)@,
//@ end
//@ extract mdb_shard/src/streaming_shard.rs in `impl MDBMinimalShard` region from_reader
//@ block `|civ: MDBCASInfoView| {`
//@ sig `fn from_reader_cas_cb(cas_offsets: &mut Vec<u32>, mut data_vec: &mut Vec<u8>, civ: &MDBCASInfoView) -> (res: Result<()>)`
//@ contract
    requires cview_wf(*civ),
    ensures
        res is Ok ==> final(cas_offsets)@ == old(cas_offsets)@.push(old(data_vec)@.len() as u32)
            && final(data_vec)@ == old(data_vec)@ + civ.data@.subrange(civ.offset as int, civ.offset + 48 * (1 + civ.header.num_entries)),
//@ end


// Vec::shrink_to_fit only releases capacity
pub assume_specification<T, A: std::alloc::Allocator> [Vec::<T, A>::shrink_to_fit] (v: &mut Vec<T, A>)
    ensures final(v)@ == old(v)@;

//@ extract mdb_shard/src/streaming_shard.rs in `impl MDBMinimalShard` region from_reader
//@ from-after `Ok(()) })?;` #1
//@ to `let mut cas_offsets = Vec::<u32>::new();`
//@ sig `fn from_reader_mid(mut data_vec: &mut Vec<u8>) -> (res: Result<(u32, Vec<u32>)>)`
//@ epilogue `Ok((cas_info_start, cas_offsets))`
//@ contract
    ensures
        // the file bookend always goes in; the CAS part starts right after it
        res matches Ok((start, offs)) ==> final(data_vec)@ == old(data_vec)@ + enc_file_hdr(file_bookend_hdr()) && start == final(data_vec)@.len() as u32 && offs@.len() == 0,
//@ end
impl MDBMinimalShard {
//@ extract mdb_shard/src/streaming_shard.rs in `impl MDBMinimalShard` region from_reader
//@ from `CASChunkSequenceHeader::bookend().serialize(&mut data_vec)?;`
//@ to `cas_info_start, })`
//@ sig `fn from_reader_tail(mut data_vec: Vec<u8>, mut file_offsets: Vec<u32>, mut cas_offsets: Vec<u32>, cas_info_start: u32) -> (res: Result<Self>)`
//@ contract
        ensures
            res matches Ok(m) ==> m.data@ == data_vec@ + enc_cas_hdr(cas_bookend_hdr()) && m.file_offsets@ == file_offsets@ && m.cas_offsets@ == cas_offsets@ && m.cas_info_start == cas_info_start,
//@ end
//@ extract mdb_shard/src/streaming_shard.rs in `impl MDBMinimalShard` fn num_files
//@ ret r
//@ contract
        ensures r == self.file_offsets@.len(),
//@ end
//@ extract mdb_shard/src/streaming_shard.rs in `impl MDBMinimalShard` fn num_cas
//@ ret r
//@ contract
        ensures r == self.cas_offsets@.len(),
//@ end
}

//@ extract mdb_shard/src/streaming_shard.rs fn process_shard_file_info_section
//@ ret res
//@ subst `<R: Read, FileFunc>` => `` :: R11 stubs instead of the generic parameters
//@ subst `reader: &mut R` => `reader: &mut VxSR` :: R11 reader stub with ghost bytes and position
//@ subst `mut file_callback: FileFunc` => `file_callback: &mut VxFileCb` :: the instance FileFunc = &mut VxFileCb (a `&mut F` is itself an FnMut), so the calls can be observed
//@ subst `where FileFunc: FnMut(MDBFileInfoView) -> Result<()>,` => `` :: instance, see above
//@ optsubst `file_callback(` => `file_callback.call(` :: call of the callback stub
//@ subst `copy(&mut reader.take(n_bytes as u64), &mut file_data)?` => `vx_copy_take(reader, n_bytes as u64, &mut file_data)?` :: R7 outline of io::copy from Take (contract assumed from std)
//@ contract
    requires has_file_section(old(reader).data@, old(reader).pos@), old(reader).pos@ >= 0,
    ensures
        final(reader).data@ == old(reader).data@,
        // the callback is invoked exactly once per file record of the section, in order, each time with that record; the reader ends
        // right after the bookend
        res is Ok ==> /*@C09*/ ({
            let data = old(reader).data@; let off = old(reader).pos@; let sec = the_file_section(data, off); let l0 = old(file_callback).log@; let l1 = final(file_callback).log@;
            &&& l1.len() == l0.len() + sec.len() && l1.subrange(0, l0.len() as int) == l0
            &&& forall|k: int| 0 <= k < sec.len() ==> file_view_ok(#[trigger] l1[l0.len() + k], data, file_pos(off, sec, k), sec[k])
            &&& final(reader).pos@ == file_pos(off, sec, sec.len() as int) + 48
        }),
//@ body-start
    let ghost data0 = reader.data@; let ghost off = reader.pos@; let ghost sec = the_file_section(data0, off); let ghost l0 = file_callback.log@;
    proof { assert(file_section(data0, off, sec)); assert(l0.subrange(0, l0.len() as int) =~= l0); }
//@ after `loop`
        invariant_except_break
            /*@C09*/ reader.pos@ == file_pos(off, sec, file_callback.log@.len() - l0.len()),
        invariant
            reader.data@ == data0, data0 == old(reader).data@, file_section(data0, off, sec), off >= 0,
            l0.len() <= file_callback.log@.len() <= l0.len() + sec.len(), file_callback.log@.subrange(0, l0.len() as int) == l0,
            /*@C09*/ forall|k: int| 0 <= k < file_callback.log@.len() - l0.len() ==> file_view_ok(#[trigger] file_callback.log@[l0.len() + k], data0, file_pos(off, sec, k), sec[k]),
        ensures
            /*@C09*/ file_callback.log@.len() == l0.len() + sec.len(), reader.pos@ == file_pos(off, sec, sec.len() as int) + 48,
        decreases l0.len() + sec.len() - file_callback.log@.len(),
//@ before `break;`
            proof { let k = file_callback.log@.len() - l0.len(); if k < sec.len() { assert(file_hdr_at(data0, file_pos(off, sec, k)) == sec[k]); } }
//@ before `let n = header.num_entries as usize;`
        let ghost k = file_callback.log@.len() - l0.len(); let ghost lg = file_callback.log@;
        // (tagged: a header that is not the bookend is a record of the section — the loop cannot run past the bookend)
        proof { if k >= sec.len() { /*@C09*/ assert(false); } lemma_file_pos_step(off, sec, k); axiom_codec_file_hdr(header); }
//@ before `file_callback.call(MDBFileInfoView::from_data_and_header(header, Arc::from(file_data), 0)?)?;`
        let ghost fd = file_data@; let ghost pc = reader.pos@;
        proof {
            // (tagged: ties a value computed by the code to the value the contract speaks about — not a proof convenience)
            /*@C09*/ assert(n_bytes == 48 * following(header));
            lemma_file_pos_ge(off, sec, k);
            assert(fd.len() == 48 + (pc - (file_pos(off, sec, k) + 48)));
        }
//@ after `file_callback.call(MDBFileInfoView::from_data_and_header(header, Arc::from(file_data), 0)?)?;`
        proof {
            /*@C09*/ assert(pc == file_pos(off, sec, k) + 48 + 48 * following(header));   // tagged: the reader consumed exactly the record
            /*@C09*/ assert(file_view_ok(file_callback.log@[l0.len() + k], data0, file_pos(off, sec, k), sec[k]));   // tagged: the view handed to the callback is the record
            assert(file_callback.log@.subrange(0, l0.len() as int) =~= lg.subrange(0, l0.len() as int));
            assert forall|j: int| 0 <= j < file_callback.log@.len() - l0.len() implies file_view_ok(#[trigger] file_callback.log@[l0.len() + j], data0, file_pos(off, sec, j), sec[j]) by {
                if j < k { assert(file_callback.log@[l0.len() + j] == lg[l0.len() + j]); }
            }
        }
//@ end

//@ extract mdb_shard/src/streaming_shard.rs fn process_shard_cas_info_section
//@ ret res
//@ subst `<R: Read, CasFunc>` => `` :: R11 stubs instead of the generic parameters
//@ subst `reader: &mut R` => `reader: &mut VxSR` :: R11 reader stub with ghost bytes and position
//@ subst `mut cas_callback: CasFunc` => `cas_callback: &mut VxCasCb` :: the instance CasFunc = &mut VxCasCb
//@ subst `where CasFunc: FnMut(MDBCASInfoView) -> Result<()>,` => `` :: instance, see above
//@ optsubst `cas_callback(` => `cas_callback.call(` :: call of the callback stub
//@ subst `copy(&mut reader.take(n_bytes as u64), &mut cas_data)?` => `vx_copy_take(reader, n_bytes as u64, &mut cas_data)?` :: R7 outline of io::copy from Take (contract assumed from std)
//@ contract
    requires has_cas_section(old(reader).data@, old(reader).pos@), old(reader).pos@ >= 0,
    ensures
        final(reader).data@ == old(reader).data@,
        // once per xorb record of the section, in order; the reader ends right after the bookend
        res is Ok ==> /*@C09*/ ({
            let data = old(reader).data@; let off = old(reader).pos@; let sec = the_cas_section(data, off); let l0 = old(cas_callback).log@; let l1 = final(cas_callback).log@;
            &&& l1.len() == l0.len() + sec.len() && l1.subrange(0, l0.len() as int) == l0
            &&& forall|k: int| 0 <= k < sec.len() ==> cas_view_ok(#[trigger] l1[l0.len() + k], data, cas_pos(off, sec, k), sec[k])
            &&& final(reader).pos@ == cas_pos(off, sec, sec.len() as int) + 48
        }),
//@ body-start
    let ghost data0 = reader.data@; let ghost off = reader.pos@; let ghost sec = the_cas_section(data0, off); let ghost l0 = cas_callback.log@;
    proof { assert(cas_section(data0, off, sec)); assert(l0.subrange(0, l0.len() as int) =~= l0); }
//@ after `loop`
        invariant_except_break
            /*@C09*/ reader.pos@ == cas_pos(off, sec, cas_callback.log@.len() - l0.len()),
        invariant
            reader.data@ == data0, data0 == old(reader).data@, cas_section(data0, off, sec), off >= 0,
            l0.len() <= cas_callback.log@.len() <= l0.len() + sec.len(), cas_callback.log@.subrange(0, l0.len() as int) == l0,
            /*@C09*/ forall|k: int| 0 <= k < cas_callback.log@.len() - l0.len() ==> cas_view_ok(#[trigger] cas_callback.log@[l0.len() + k], data0, cas_pos(off, sec, k), sec[k]),
        ensures
            /*@C09*/ cas_callback.log@.len() == l0.len() + sec.len(), reader.pos@ == cas_pos(off, sec, sec.len() as int) + 48,
        decreases l0.len() + sec.len() - cas_callback.log@.len(),
//@ before `break;`
            proof { let k = cas_callback.log@.len() - l0.len(); if k < sec.len() { assert(cas_hdr_at(data0, cas_pos(off, sec, k)) == sec[k]); } }
//@ before `let n_bytes = (header.num_entries as usize)`
        let ghost k = cas_callback.log@.len() - l0.len(); let ghost lg = cas_callback.log@;
        proof { if k >= sec.len() { /*@C09*/ assert(false); } lemma_cas_pos_step(off, sec, k); axiom_codec_cas_hdr(header); }
//@ before `cas_callback.call(MDBCASInfoView::from_data_and_header(header, Arc::from(cas_data), 0)?)?;`
        let ghost fd = cas_data@; let ghost pc = reader.pos@;
        proof {
            // (tagged: ties a value computed by the code to the value the contract speaks about — not a proof convenience)
            /*@C09*/ assert(n_bytes == 48 * header.num_entries);
            lemma_cas_pos_ge(off, sec, k);
            assert(fd.len() == 48 + (pc - (cas_pos(off, sec, k) + 48)));
        }
//@ after `cas_callback.call(MDBCASInfoView::from_data_and_header(header, Arc::from(cas_data), 0)?)?;`
        proof {
            /*@C09*/ assert(pc == cas_pos(off, sec, k) + 48 + 48 * header.num_entries);   // tagged: the reader consumed exactly the record
            /*@C09*/ assert(cas_view_ok(cas_callback.log@[l0.len() + k], data0, cas_pos(off, sec, k), sec[k]));   // tagged: the view handed to the callback is the record
            assert(cas_callback.log@.subrange(0, l0.len() as int) =~= lg.subrange(0, l0.len() as int));
            assert forall|j: int| 0 <= j < cas_callback.log@.len() - l0.len() implies cas_view_ok(#[trigger] cas_callback.log@[l0.len() + j], data0, cas_pos(off, sec, j), sec[j]) by {
                if j < k { assert(cas_callback.log@[l0.len() + j] == lg[l0.len() + j]); }
            }
        }
//@ end

// what a callback has seen after a section was streamed to it (the two postconditions above, as predicates)
spec fn file_cb_got(l0: Seq<MDBFileInfoView>, l1: Seq<MDBFileInfoView>, data: Seq<u8>, off: int) -> bool {
    let sec = the_file_section(data, off);
    &&& l1.len() == l0.len() + sec.len() && l1.subrange(0, l0.len() as int) == l0
    &&& forall|k: int| 0 <= k < sec.len() ==> file_view_ok(#[trigger] l1[l0.len() + k], data, file_pos(off, sec, k), sec[k])
}
spec fn cas_cb_got(l0: Seq<MDBCASInfoView>, l1: Seq<MDBCASInfoView>, data: Seq<u8>, off: int) -> bool {
    let sec = the_cas_section(data, off);
    &&& l1.len() == l0.len() + sec.len() && l1.subrange(0, l0.len() as int) == l0
    &&& forall|k: int| 0 <= k < sec.len() ==> cas_view_ok(#[trigger] l1[l0.len() + k], data, cas_pos(off, sec, k), sec[k])
}
// start of the CAS section of a shard whose file section starts at `foff`: right after the file bookend
spec fn cas_start(data: Seq<u8>, foff: int) -> int { let sec = the_file_section(data, foff); file_pos(foff, sec, sec.len() as int) + 48 }
impl VxFileCb {
    // R7 outline of the closure literal `|_| Ok(())` passed when no file callback is given: a callback that does nothing
    #[verifier::external_body]
    fn noop() -> (r: VxFileCb) { unimplemented!() }
}

//@ extract mdb_shard/src/streaming_shard.rs fn process_shard_stream
//@ ret res
//@ subst `<R: Read, FileFunc, CasFunc>` => `` :: R11 stubs instead of the generic parameters
//@ subst `reader: &mut R` => `reader: &mut VxSR` :: R11 reader stub with ghost bytes and position
//@ subst `file_callback: Option<FileFunc>` => `file_callback: Option<&mut VxFileCb>` :: the instance FileFunc = &mut VxFileCb
//@ subst `cas_callback: Option<CasFunc>` => `cas_callback: Option<&mut VxCasCb>` :: the instance CasFunc = &mut VxCasCb
//@ subst `where FileFunc: FnMut(MDBFileInfoView) -> Result<()>, CasFunc: FnMut(MDBCASInfoView) -> Result<()>,` => `` :: instances, see above
//@ optsubst `|_| Ok(())` => `&mut VxFileCb::noop()` :: R7 outline of the no-op closure literal
//@ body-start
    proof { let d = reader.data@; let fo = reader.pos@ + 48; lemma_file_pos_ge(fo, the_file_section(d, fo), the_file_section(d, fo).len() as int); }
//@ contract
    requires
        old(reader).pos@ >= 0, has_file_section(old(reader).data@, old(reader).pos@ + 48),
        cas_callback is Some ==> has_cas_section(old(reader).data@, cas_start(old(reader).data@, old(reader).pos@ + 48)),
    ensures
        // shard header, then the file section (streamed to the file callback if there is one, skipped record by record otherwise),
        // then the CAS section (streamed only if a CAS callback is given) — each callback sees every record of its section once, in order
        res is Ok ==> /*@C09*/ (file_callback matches Some(fcb) ==> file_cb_got(fcb.log@, final(fcb).log@, old(reader).data@, old(reader).pos@ + 48)),
        res is Ok ==> /*@C09*/ (cas_callback matches Some(ccb) ==> cas_cb_got(ccb.log@, final(ccb).log@, old(reader).data@, cas_start(old(reader).data@, old(reader).pos@ + 48))),
//@ end

// ================= MDBMinimalShard as a pair of sections (same model) ==================================================
proof fn lemma_file_pos_mono(off: int, sec: Seq<FileDataSequenceHeader>, i: int, j: int)
    requires 0 <= i <= j,
    ensures file_pos(off, sec, i) <= file_pos(off, sec, j)
    decreases j - i
{ if i < j { lemma_file_pos_mono(off, sec, i, j - 1); } }
proof fn lemma_cas_pos_mono(off: int, sec: Seq<CASChunkSequenceHeader>, i: int, j: int)
    requires 0 <= i <= j,
    ensures cas_pos(off, sec, i) <= cas_pos(off, sec, j)
    decreases j - i
{ if i < j { lemma_cas_pos_mono(off, sec, i, j - 1); } }
// positions are translation invariant
proof fn lemma_file_pos_shift(a: int, b: int, sec: Seq<FileDataSequenceHeader>, k: int)
    ensures file_pos(a, sec, k) - a == file_pos(b, sec, k) - b
    decreases k
{ if k > 0 { lemma_file_pos_shift(a, b, sec, k - 1); } }
proof fn lemma_cas_pos_shift(a: int, b: int, sec: Seq<CASChunkSequenceHeader>, k: int)
    ensures cas_pos(a, sec, k) - a == cas_pos(b, sec, k) - b
    decreases k
{ if k > 0 { lemma_cas_pos_shift(a, b, sec, k - 1); } }
// a section is determined by the bytes: two header lists that both describe the bytes at `off` are equal
proof fn lemma_file_prefix_eq(data: Seq<u8>, off: int, a: Seq<FileDataSequenceHeader>, b: Seq<FileDataSequenceHeader>, k: int)
    requires file_section(data, off, a), file_section(data, off, b), 0 <= k <= a.len(), k <= b.len(),
    ensures file_pos(off, a, k) == file_pos(off, b, k), forall|i: int| 0 <= i < k ==> a[i] == b[i],
    decreases k
{
    if k > 0 {
        lemma_file_prefix_eq(data, off, a, b, k - 1);
        assert(file_hdr_at(data, file_pos(off, a, k - 1)) == a[k - 1]);
        assert(file_hdr_at(data, file_pos(off, b, k - 1)) == b[k - 1]);
    }
}
proof fn lemma_file_section_unique(data: Seq<u8>, off: int, a: Seq<FileDataSequenceHeader>, b: Seq<FileDataSequenceHeader>)
    requires file_section(data, off, a), file_section(data, off, b),
    ensures a == b,
{
    let m = if a.len() <= b.len() { a.len() as int } else { b.len() as int };
    lemma_file_prefix_eq(data, off, a, b, m);
    if a.len() < b.len() { assert(file_hdr_at(data, file_pos(off, b, m)) == b[m]); assert(false); }
    if b.len() < a.len() { assert(file_hdr_at(data, file_pos(off, a, m)) == a[m]); assert(false); }
    assert(a =~= b);
}
proof fn lemma_cas_prefix_eq(data: Seq<u8>, off: int, a: Seq<CASChunkSequenceHeader>, b: Seq<CASChunkSequenceHeader>, k: int)
    requires cas_section(data, off, a), cas_section(data, off, b), 0 <= k <= a.len(), k <= b.len(),
    ensures cas_pos(off, a, k) == cas_pos(off, b, k), forall|i: int| 0 <= i < k ==> a[i] == b[i],
    decreases k
{
    if k > 0 {
        lemma_cas_prefix_eq(data, off, a, b, k - 1);
        assert(cas_hdr_at(data, cas_pos(off, a, k - 1)) == a[k - 1]);
        assert(cas_hdr_at(data, cas_pos(off, b, k - 1)) == b[k - 1]);
    }
}
proof fn lemma_cas_section_unique(data: Seq<u8>, off: int, a: Seq<CASChunkSequenceHeader>, b: Seq<CASChunkSequenceHeader>)
    requires cas_section(data, off, a), cas_section(data, off, b),
    ensures a == b,
{
    let m = if a.len() <= b.len() { a.len() as int } else { b.len() as int };
    lemma_cas_prefix_eq(data, off, a, b, m);
    if a.len() < b.len() { assert(cas_hdr_at(data, cas_pos(off, b, m)) == b[m]); assert(false); }
    if b.len() < a.len() { assert(cas_hdr_at(data, cas_pos(off, a, m)) == a[m]); assert(false); }
    assert(a =~= b);
}
proof fn lemma_the_file_section(data: Seq<u8>, off: int, sec: Seq<FileDataSequenceHeader>)
    requires file_section(data, off, sec),
    ensures has_file_section(data, off), the_file_section(data, off) == sec,
{ lemma_file_section_unique(data, off, the_file_section(data, off), sec); }
proof fn lemma_the_cas_section(data: Seq<u8>, off: int, sec: Seq<CASChunkSequenceHeader>)
    requires cas_section(data, off, sec),
    ensures has_cas_section(data, off), the_cas_section(data, off) == sec,
{ lemma_cas_section_unique(data, off, the_cas_section(data, off), sec); }

// the buffer after the first j file records of `sec` (taken from `input` at `ioff`) were appended to an empty buffer
spec fn built_files(d: Seq<u8>, input: Seq<u8>, ioff: int, sec: Seq<FileDataSequenceHeader>, j: int) -> bool {
    &&& d.len() == file_pos(0, sec, j)
    &&& forall|i: int| 0 <= i < j ==> file_hdr_at(d, #[trigger] file_pos(0, sec, i)) == sec[i]
    &&& forall|i: int| 0 <= i < j ==> d.subrange(#[trigger] file_pos(0, sec, i) + 48, file_pos(0, sec, i + 1)) == input.subrange(file_pos(ioff, sec, i) + 48, file_pos(ioff, sec, i + 1))
}
proof fn lemma_built_files_step(d: Seq<u8>, input: Seq<u8>, ioff: int, sec: Seq<FileDataSequenceHeader>, j: int, rec: Seq<u8>)
    requires built_files(d, input, ioff, sec, j), 0 <= j < sec.len(),
        rec == enc_file_hdr(sec[j]) + input.subrange(file_pos(ioff, sec, j) + 48, file_pos(ioff, sec, j) + 48 + 48 * following(sec[j])),
        rec.len() == 48 * (1 + following(sec[j])),
    ensures built_files(d + rec, input, ioff, sec, j + 1),
{
    let d2 = d + rec;
    axiom_codec_file_hdr(sec[j]);
    lemma_file_pos_step(0, sec, j); lemma_file_pos_step(ioff, sec, j); lemma_file_pos_ge(0, sec, j);
    let ent = input.subrange(file_pos(ioff, sec, j) + 48, file_pos(ioff, sec, j) + 48 + 48 * following(sec[j]));
    assert(d2.subrange(file_pos(0, sec, j), file_pos(0, sec, j) + 48) =~= enc_file_hdr(sec[j]));
    assert(d2.subrange(file_pos(0, sec, j) + 48, file_pos(0, sec, j + 1)) =~= ent);
    assert forall|i: int| 0 <= i < j + 1 implies file_hdr_at(d2, #[trigger] file_pos(0, sec, i)) == sec[i] by {
        if i < j {
            lemma_file_pos_mono(0, sec, i + 1, j); lemma_file_pos_step(0, sec, i); lemma_file_pos_ge(0, sec, i);
            assert(d2.subrange(file_pos(0, sec, i), file_pos(0, sec, i) + 48) =~= d.subrange(file_pos(0, sec, i), file_pos(0, sec, i) + 48));
        }
    }
    assert forall|i: int| 0 <= i < j + 1 implies d2.subrange(#[trigger] file_pos(0, sec, i) + 48, file_pos(0, sec, i + 1)) == input.subrange(file_pos(ioff, sec, i) + 48, file_pos(ioff, sec, i + 1)) by {
        if i < j {
            lemma_file_pos_mono(0, sec, i + 1, j); lemma_file_pos_step(0, sec, i); lemma_file_pos_ge(0, sec, i);
            assert(d2.subrange(file_pos(0, sec, i) + 48, file_pos(0, sec, i + 1)) =~= d.subrange(file_pos(0, sec, i) + 48, file_pos(0, sec, i + 1)));
        }
    }
}
// closing the file part with the bookend gives a file section of exactly `sec` at offset 0; appending more bytes keeps it
proof fn lemma_built_files_close(d: Seq<u8>, input: Seq<u8>, ioff: int, sec: Seq<FileDataSequenceHeader>, rest: Seq<u8>)
    requires built_files(d, input, ioff, sec, sec.len() as int), forall|i: int| 0 <= i < sec.len() ==> (#[trigger] sec[i]).file_hash != bookend_hash(),
    ensures file_section(d + enc_file_hdr(file_bookend_hdr()) + rest, 0, sec),
{
    let n = sec.len() as int; let b = enc_file_hdr(file_bookend_hdr()); let d2 = d + b + rest;
    axiom_codec_file_hdr(file_bookend_hdr()); axiom_bookends(); lemma_file_pos_ge(0, sec, n);
    assert(d2.subrange(file_pos(0, sec, n), file_pos(0, sec, n) + 48) =~= b);
    assert forall|k: int| 0 <= k < n implies file_hdr_at(d2, #[trigger] file_pos(0, sec, k)) == sec[k] && sec[k].file_hash != bookend_hash() by {
        lemma_file_pos_mono(0, sec, k + 1, n); lemma_file_pos_step(0, sec, k); lemma_file_pos_ge(0, sec, k);
        assert(d2.subrange(file_pos(0, sec, k), file_pos(0, sec, k) + 48) =~= d.subrange(file_pos(0, sec, k), file_pos(0, sec, k) + 48));
    }
}
spec fn built_cas(d: Seq<u8>, base: int, input: Seq<u8>, ioff: int, sec: Seq<CASChunkSequenceHeader>, j: int) -> bool {
    &&& d.len() == cas_pos(base, sec, j) && base >= 0
    &&& forall|i: int| 0 <= i < j ==> cas_hdr_at(d, #[trigger] cas_pos(base, sec, i)) == sec[i]
    &&& forall|i: int| 0 <= i < j ==> d.subrange(#[trigger] cas_pos(base, sec, i) + 48, cas_pos(base, sec, i + 1)) == input.subrange(cas_pos(ioff, sec, i) + 48, cas_pos(ioff, sec, i + 1))
}
proof fn lemma_built_cas_step(d: Seq<u8>, base: int, input: Seq<u8>, ioff: int, sec: Seq<CASChunkSequenceHeader>, j: int, rec: Seq<u8>)
    requires built_cas(d, base, input, ioff, sec, j), 0 <= j < sec.len(),
        rec == enc_cas_hdr(sec[j]) + input.subrange(cas_pos(ioff, sec, j) + 48, cas_pos(ioff, sec, j) + 48 + 48 * sec[j].num_entries),
        rec.len() == 48 * (1 + sec[j].num_entries),
    ensures built_cas(d + rec, base, input, ioff, sec, j + 1),
{
    let d2 = d + rec;
    axiom_codec_cas_hdr(sec[j]);
    lemma_cas_pos_step(base, sec, j); lemma_cas_pos_step(ioff, sec, j); lemma_cas_pos_ge(base, sec, j);
    let ent = input.subrange(cas_pos(ioff, sec, j) + 48, cas_pos(ioff, sec, j) + 48 + 48 * sec[j].num_entries);
    assert(d2.subrange(cas_pos(base, sec, j), cas_pos(base, sec, j) + 48) =~= enc_cas_hdr(sec[j]));
    assert(d2.subrange(cas_pos(base, sec, j) + 48, cas_pos(base, sec, j + 1)) =~= ent);
    assert forall|i: int| 0 <= i < j + 1 implies cas_hdr_at(d2, #[trigger] cas_pos(base, sec, i)) == sec[i] by {
        if i < j {
            lemma_cas_pos_mono(base, sec, i + 1, j); lemma_cas_pos_step(base, sec, i); lemma_cas_pos_ge(base, sec, i);
            assert(d2.subrange(cas_pos(base, sec, i), cas_pos(base, sec, i) + 48) =~= d.subrange(cas_pos(base, sec, i), cas_pos(base, sec, i) + 48));
        }
    }
    assert forall|i: int| 0 <= i < j + 1 implies d2.subrange(#[trigger] cas_pos(base, sec, i) + 48, cas_pos(base, sec, i + 1)) == input.subrange(cas_pos(ioff, sec, i) + 48, cas_pos(ioff, sec, i + 1)) by {
        if i < j {
            lemma_cas_pos_mono(base, sec, i + 1, j); lemma_cas_pos_step(base, sec, i); lemma_cas_pos_ge(base, sec, i);
            assert(d2.subrange(cas_pos(base, sec, i) + 48, cas_pos(base, sec, i + 1)) =~= d.subrange(cas_pos(base, sec, i) + 48, cas_pos(base, sec, i + 1)));
        }
    }
}
proof fn lemma_built_cas_close(d: Seq<u8>, base: int, input: Seq<u8>, ioff: int, sec: Seq<CASChunkSequenceHeader>)
    requires built_cas(d, base, input, ioff, sec, sec.len() as int), forall|i: int| 0 <= i < sec.len() ==> (#[trigger] sec[i]).cas_hash != bookend_hash(),
    ensures cas_section(d + enc_cas_hdr(cas_bookend_hdr()), base, sec),
{
    let n = sec.len() as int; let b = enc_cas_hdr(cas_bookend_hdr()); let d2 = d + b;
    axiom_codec_cas_hdr(cas_bookend_hdr()); axiom_bookends(); lemma_cas_pos_ge(base, sec, n);
    assert(d2.subrange(cas_pos(base, sec, n), cas_pos(base, sec, n) + 48) =~= b);
    assert forall|k: int| 0 <= k < n implies cas_hdr_at(d2, #[trigger] cas_pos(base, sec, k)) == sec[k] && sec[k].cas_hash != bookend_hash() by {
        lemma_cas_pos_mono(base, sec, k + 1, n); lemma_cas_pos_step(base, sec, k); lemma_cas_pos_ge(base, sec, k);
        assert(d2.subrange(cas_pos(base, sec, k), cas_pos(base, sec, k) + 48) =~= d.subrange(cas_pos(base, sec, k), cas_pos(base, sec, k) + 48));
    }
}

// well-formed minimal shard: `data` is a file section at 0 followed by a CAS section at cas_info_start, the offset vectors are
// the record positions, everything fits the u32 offsets
spec fn min_wf(m: MDBMinimalShard) -> bool {
    let d = m.data@; let fs = the_file_section(d, 0); let cis = m.cas_info_start as int; let cs = the_cas_section(d, cis);
    &&& file_section(d, 0, fs) && cis == file_pos(0, fs, fs.len() as int) + 48
    &&& cas_section(d, cis, cs) && d.len() == cas_pos(cis, cs, cs.len() as int) + 48 && d.len() <= u32::MAX
    &&& m.file_offsets@.len() == fs.len() && forall|k: int| 0 <= k < fs.len() ==> #[trigger] m.file_offsets@[k] == file_pos(0, fs, k)
    &&& m.cas_offsets@.len() == cs.len() && forall|k: int| 0 <= k < cs.len() ==> #[trigger] m.cas_offsets@[k] == cas_pos(cis, cs, k)
}
// what `m` holds: the two header lists (C09's "file and xorb records" of the minimal reader)
spec fn min_files(m: MDBMinimalShard) -> Seq<FileDataSequenceHeader> { the_file_section(m.data@, 0) }
spec fn min_cas(m: MDBMinimalShard) -> Seq<CASChunkSequenceHeader> { the_cas_section(m.data@, m.cas_info_start as int) }

// ---- composition check for `MDBMinimalShard::from_reader` (HAND-WRITTEN skeleton, not extracted) --------------------------
// The real function passes two closures that capture `file_offsets` / `data_vec` mutably to the streaming functions; Verus does
// not accept closures capturing `&mut`.  The skeleton runs the verified streaming function with a recording callback and then
// applies the LIFTED closure body (from_reader_file_cb / from_reader_cas_cb, extracted text) to each recorded view in order —
// the same calls in the same order, since the closures do not touch the reader.  Everything between the calls is extracted
// (from_reader_mid, from_reader_tail).  It shows that the region contracts chain to the statement below.
spec fn sections_fit(data: Seq<u8>, foff: int, include_files: bool, include_cas: bool) -> bool {
    let fs = the_file_section(data, foff); let coff = cas_start(data, foff); let cs = the_cas_section(data, coff);
    (if include_files { file_pos(foff, fs, fs.len() as int) - foff } else { 0 }) + 48 + (if include_cas { cas_pos(coff, cs, cs.len() as int) - coff } else { 0 }) + 48 <= u32::MAX
}

spec fn from_reader_pre(data: Seq<u8>, pos: int, include_files: bool, include_cas: bool) -> bool {
    &&& pos >= 0 && has_file_section(data, pos + 48)
    &&& include_cas ==> has_cas_section(data, cas_start(data, pos + 48))
    // the selected info sections fit the u32 offsets a minimal shard stores (< 4 GiB)
    &&& sections_fit(data, pos + 48, include_files, include_cas)
}
// the minimal shard lists exactly the file records / xorb records of the stream's sections (all of them, up to the bookends,
// whatever the footer says — the footer is never read), or none of a section that was not asked for; every record's entries are
// the stream's bytes
spec fn from_reader_post(data: Seq<u8>, pos: int, include_files: bool, include_cas: bool, m: MDBMinimalShard) -> bool {
    let foff = pos + 48; let coff = cas_start(data, foff);
    &&& min_wf(m)
    &&& min_files(m) == (if include_files { the_file_section(data, foff) } else { Seq::empty() })
    &&& min_cas(m) == (if include_cas { the_cas_section(data, coff) } else { Seq::empty() })
    &&& include_files ==> forall|i: int| 0 <= i < min_files(m).len() ==>
            m.data@.subrange(#[trigger] file_pos(0, min_files(m), i) + 48, file_pos(0, min_files(m), i + 1)) == data.subrange(file_pos(foff, min_files(m), i) + 48, file_pos(foff, min_files(m), i + 1))
    &&& include_cas ==> forall|i: int| 0 <= i < min_cas(m).len() ==>
            m.data@.subrange(#[trigger] cas_pos(m.cas_info_start as int, min_cas(m), i) + 48, cas_pos(m.cas_info_start as int, min_cas(m), i + 1)) == data.subrange(cas_pos(coff, min_cas(m), i) + 48, cas_pos(coff, min_cas(m), i + 1))
}
fn vx_glue_from_reader(reader: &mut VxSR, include_files: bool, include_cas: bool) -> (res: Result<MDBMinimalShard>)
    requires from_reader_pre(old(reader).data@, old(reader).pos@, include_files, include_cas),
    ensures res matches Ok(m) ==> /*@C09*/ from_reader_post(old(reader).data@, old(reader).pos@, include_files, include_cas, m),
{
    let ghost data = reader.data@; let ghost foff = reader.pos@ + 48; let ghost fsec = the_file_section(data, foff);
    let ghost coff = cas_start(data, foff); let ghost csec = the_cas_section(data, coff);
    let ghost fe: Seq<FileDataSequenceHeader> = if include_files { fsec } else { Seq::empty() };
    let ghost ce: Seq<CASChunkSequenceHeader> = if include_cas { csec } else { Seq::empty() };
    proof { assert(file_section(data, foff, fsec)); lemma_file_pos_ge(foff, fsec, fsec.len() as int); lemma_file_pos_shift(0, foff, fsec, fsec.len() as int); }
    let mut data_vec = Vec::<u8>::new();
    let _ = MDBShardFileHeader::deserialize(reader)?;
    let mut file_offsets = Vec::<u32>::new();
    let mut fcb = VxFileCb { log: Vec::new() };
    process_shard_file_info_section(reader, &mut fcb)?;
    proof {
        assert forall|i: int| 0 <= i < fsec.len() implies file_view_ok(#[trigger] fcb.log@[i], data, file_pos(foff, fsec, i), fsec[i]) by { assert(fcb.log@[0 + i] == fcb.log@[i]); }
        if include_cas { lemma_cas_pos_ge(coff, csec, csec.len() as int); }
    }
    let mut k: usize = 0;
    while k < fcb.log.len()
        invariant
            k <= fcb.log@.len(), fcb.log@.len() == fsec.len(), file_section(data, foff, fsec), foff >= 48,
            forall|i: int| 0 <= i < fsec.len() ==> file_view_ok(#[trigger] fcb.log@[i], data, file_pos(foff, fsec, i), fsec[i]),
            /*@C09*/ include_files ==> built_files(data_vec@, data, foff, fsec, k as int) && file_offsets@.len() == k
                && forall|i: int| 0 <= i < k ==> #[trigger] file_offsets@[i] == file_pos(0, fsec, i),
            !include_files ==> data_vec@.len() == 0 && file_offsets@.len() == 0,
            include_files ==> file_pos(0, fsec, fsec.len() as int) <= u32::MAX,
        decreases fcb.log@.len() - k,
    {
        let ghost d0 = data_vec@;
        let v = &fcb.log[k];
        proof {
            assert(file_view_ok(fcb.log@[k as int], data, file_pos(foff, fsec, k as int), fsec[k as int]));
            lemma_file_pos_mono(0, fsec, k as int, fsec.len() as int);
        }
        from_reader_file_cb(include_files, &mut file_offsets, &mut data_vec, v)?;
        proof {
            if include_files {
                let rec = v.data@.subrange(0, 48 * (1 + following(v.header)));
                assert(rec =~= v.data@);
                lemma_built_files_step(d0, data, foff, fsec, k as int, rec);
            }
        }
        k += 1;
    }
    proof {
        if !include_files { assert(built_files(data_vec@, data, foff, fe, 0)); }
        assert(built_files(data_vec@, data, foff, fe, fe.len() as int));
    }
    let ghost dv_files = data_vec@;
    let (cas_info_start, mut cas_offsets) = from_reader_mid(&mut data_vec)?;
    let ghost dv_mid = data_vec@; let ghost cis = dv_mid.len() as int;
    let ghost mut rest: Seq<u8> = Seq::empty();
    proof { assert(dv_mid + rest =~= dv_mid); axiom_codec_file_hdr(file_bookend_hdr()); lemma_file_pos_ge(0, fe, fe.len() as int); }
    if include_cas {
        proof { assert(cas_section(data, coff, csec)); lemma_cas_pos_ge(coff, csec, csec.len() as int); lemma_cas_pos_shift(cis, coff, csec, csec.len() as int); }
        let mut ccb = VxCasCb { log: Vec::new() };
        process_shard_cas_info_section(reader, &mut ccb)?;
        proof { assert forall|i: int| 0 <= i < csec.len() implies cas_view_ok(#[trigger] ccb.log@[i], data, cas_pos(coff, csec, i), csec[i]) by { assert(ccb.log@[0 + i] == ccb.log@[i]); } }
        let mut j: usize = 0;
        while j < ccb.log.len()
            invariant
                j <= ccb.log@.len(), ccb.log@.len() == csec.len(), cas_section(data, coff, csec), coff >= 0, cis == dv_mid.len(), cis >= 0,
                forall|i: int| 0 <= i < csec.len() ==> cas_view_ok(#[trigger] ccb.log@[i], data, cas_pos(coff, csec, i), csec[i]),
                /*@C09*/ built_cas(data_vec@, cis, data, coff, csec, j as int), cas_offsets@.len() == j, data_vec@ == dv_mid + rest,
                /*@C09*/ forall|i: int| 0 <= i < j ==> #[trigger] cas_offsets@[i] == cas_pos(cis, csec, i),
                cas_pos(cis, csec, csec.len() as int) + 48 <= u32::MAX,
            decreases ccb.log@.len() - j,
        {
            let ghost d0 = data_vec@;
            let v = &ccb.log[j];
            proof {
                assert(cas_view_ok(ccb.log@[j as int], data, cas_pos(coff, csec, j as int), csec[j as int]));
                lemma_cas_pos_mono(cis, csec, j as int, csec.len() as int);
            }
            from_reader_cas_cb(&mut cas_offsets, &mut data_vec, v)?;
            proof {
                let rec = v.data@.subrange(0, 48 * (1 + v.header.num_entries));
                assert(rec =~= v.data@);
                lemma_built_cas_step(d0, cis, data, coff, csec, j as int, rec);
                assert(dv_mid + (rest + rec) =~= (dv_mid + rest) + rec);
                rest = rest + rec;
            }
            j += 1;
        }
    }
    proof { if !include_cas { assert(built_cas(data_vec@, cis, data, coff, ce, 0)); } }
    let ghost dv_cas = data_vec@;
    let res = MDBMinimalShard::from_reader_tail(data_vec, file_offsets, cas_offsets, cas_info_start)?;
    proof {
        let cb = enc_cas_hdr(cas_bookend_hdr());
        assert(forall|i: int| 0 <= i < ce.len() ==> (#[trigger] ce[i]).cas_hash != bookend_hash()) by {
            if include_cas { assert forall|i: int| 0 <= i < csec.len() implies (#[trigger] csec[i]).cas_hash != bookend_hash() by { assert(cas_hdr_at(data, cas_pos(coff, csec, i)) == csec[i]); } }
        }
        assert(forall|i: int| 0 <= i < fe.len() ==> (#[trigger] fe[i]).file_hash != bookend_hash()) by {
            if include_files { assert forall|i: int| 0 <= i < fsec.len() implies (#[trigger] fsec[i]).file_hash != bookend_hash() by { assert(file_hdr_at(data, file_pos(foff, fsec, i)) == fsec[i]); } }
        }
        lemma_built_cas_close(dv_cas, cis, data, coff, ce);
        lemma_built_files_close(dv_files, data, foff, fe, rest + cb);
        assert(res.data@ =~= dv_files + enc_file_hdr(file_bookend_hdr()) + (rest + cb));
        lemma_the_file_section(res.data@, 0, fe);
        lemma_the_cas_section(res.data@, cis, ce);
        axiom_codec_cas_hdr(cas_bookend_hdr());
        // entries: the file part of the buffer is a prefix of the final buffer
        assert forall|i: int| 0 <= i < fe.len() implies res.data@.subrange(#[trigger] file_pos(0, fe, i) + 48, file_pos(0, fe, i + 1)) == data.subrange(file_pos(foff, fe, i) + 48, file_pos(foff, fe, i + 1)) by {
            lemma_file_pos_mono(0, fe, i + 1, fe.len() as int); lemma_file_pos_step(0, fe, i); lemma_file_pos_ge(0, fe, i);
            assert(res.data@.subrange(file_pos(0, fe, i) + 48, file_pos(0, fe, i + 1)) =~= dv_files.subrange(file_pos(0, fe, i) + 48, file_pos(0, fe, i + 1)));
        }
        assert forall|i: int| 0 <= i < ce.len() implies res.data@.subrange(#[trigger] cas_pos(cis, ce, i) + 48, cas_pos(cis, ce, i + 1)) == data.subrange(cas_pos(coff, ce, i) + 48, cas_pos(coff, ce, i + 1)) by {
            lemma_cas_pos_mono(cis, ce, i + 1, ce.len() as int); lemma_cas_pos_step(cis, ce, i); lemma_cas_pos_ge(cis, ce, i);
            assert(res.data@.subrange(cas_pos(cis, ce, i) + 48, cas_pos(cis, ce, i + 1)) =~= dv_cas.subrange(cas_pos(cis, ce, i) + 48, cas_pos(cis, ce, i + 1)));
        }
    }
    Ok(res)
}

impl MDBFileInfoView {
//@ extract mdb_shard/src/file_structs.rs in `impl MDBFileInfoView` fn new
//@ ret r
//@ subst `std::io::Result<Self>` => `Result<Self>` :: R11 one error type for all stubs
//@ subst `FileDataSequenceHeader::deserialize(&mut Cursor::new(&data[offset..]))` => `vx_file_hdr_from_slice(&data[offset..])` :: R11 decode from an in-memory slice (Cursor)
//@ contract
        requires offset + 48 <= data@.len() <= isize::MAX,  // (a Rust allocation never exceeds isize::MAX bytes)
        ensures
            r is Ok <==> data@.len() >= offset + 48 * (1 + following(file_hdr_at(data@, offset as int))),
            r matches Ok(v) ==> v.header == file_hdr_at(data@, offset as int) && v.data == data && v.offset == offset,
//@ body-start
        proof { assert(data@.subrange(offset as int, data@.len() as int).subrange(0, 48) =~= data@.subrange(offset as int, offset + 48)); }
//@ end
//@ extract mdb_shard/src/file_structs.rs in `impl MDBFileInfoView` fn entry
//@ ret r
//@ subst `assert(idx < self.num_entries());` => `assert(idx < self.header.num_entries);` :: the debug assertion calls the exec accessor num_entries(); restated on the field it returns (obligation kept)
//@ subst `FileDataSequenceEntry::deserialize(&mut Cursor::new( &self.data[(self.offset + (1 + idx) * MDB_FILE_INFO_ENTRY_SIZE)..], ))` => `vx_file_entry_from_slice(&self.data[(self.offset + (1 + idx) * MDB_FILE_INFO_ENTRY_SIZE)..])` :: R11 decode from an in-memory slice (Cursor)
//@ contract
        requires fview_wf(*self), idx < self.header.num_entries,
        ensures r == file_entry_at(self.data@, self.offset + 48 * (1 + idx)),
//@ body-start
        proof { let o = self.offset + 48 * (1 + idx); assert(self.data@.subrange(o, self.data@.len() as int).subrange(0, 48) =~= self.data@.subrange(o, o + 48)); }
//@ end
}
impl MDBCASInfoView {
//@ extract mdb_shard/src/cas_structs.rs in `impl MDBCASInfoView` fn new
//@ ret r
//@ subst `io::Result<Self>` => `Result<Self>` :: R11 one error type for all stubs
//@ subst `let mut reader = std::io::Cursor::new(&data[offset..]); let header = CASChunkSequenceHeader::deserialize(&mut reader)?;` => `let header = vx_cas_hdr_from_slice(&data[offset..])?;` :: R11 decode from an in-memory slice (Cursor)
//@ contract
        requires offset + 48 <= data@.len() <= isize::MAX,  // (a Rust allocation never exceeds isize::MAX bytes)
        ensures
            r is Ok <==> data@.len() >= offset + 48 * (1 + cas_hdr_at(data@, offset as int).num_entries),
            r matches Ok(v) ==> v.header == cas_hdr_at(data@, offset as int) && v.data == data && v.offset == offset,
//@ body-start
        proof { assert(data@.subrange(offset as int, data@.len() as int).subrange(0, 48) =~= data@.subrange(offset as int, offset + 48)); }
//@ end
//@ extract mdb_shard/src/cas_structs.rs in `impl MDBCASInfoView` fn header
//@ ret r
//@ contract
        ensures *r == self.header,
//@ end
}
impl MDBMinimalShard {
//@ extract mdb_shard/src/streaming_shard.rs in `impl MDBMinimalShard` fn file
//@ ret r
//@ contract
        requires min_wf(*self), index < self.file_offsets@.len(),
        ensures
            // the index-th file record of the shard, viewed in place
            /*@C09*/ r.header == min_files(*self)[index as int] && r.data == self.data && r.offset == file_pos(0, min_files(*self), index as int) && fview_wf(r),
//@ body-start
        proof {
            let fs = min_files(*self); let k = index as int;
            lemma_file_pos_ge(0, fs, k); lemma_file_pos_step(0, fs, k); lemma_file_pos_mono(0, fs, k + 1, fs.len() as int);
            lemma_cas_pos_ge(self.cas_info_start as int, min_cas(*self), min_cas(*self).len() as int);
            assert(file_hdr_at(self.data@, file_pos(0, fs, k)) == fs[k]);
        }
//@ end
//@ extract mdb_shard/src/streaming_shard.rs in `impl MDBMinimalShard` fn cas
//@ ret r
//@ contract
        requires min_wf(*self), index < self.cas_offsets@.len(),
        ensures
            /*@C09*/ r.header == min_cas(*self)[index as int] && r.data == self.data && r.offset == cas_pos(self.cas_info_start as int, min_cas(*self), index as int) && cview_wf(r),
//@ body-start
        proof {
            let cs = min_cas(*self); let k = index as int; let cis = self.cas_info_start as int;
            lemma_cas_pos_ge(cis, cs, k); lemma_cas_pos_step(cis, cs, k); lemma_cas_pos_mono(cis, cs, k + 1, cs.len() as int);
            lemma_file_pos_ge(0, min_files(*self), min_files(*self).len() as int);
            assert(cas_hdr_at(self.data@, cas_pos(cis, cs, k)) == cs[k]);
        }
//@ end
}

// ---- MDBMinimalShard::serialize -----------------------------------------------------------------------------------------
// the footer written for `m`: offsets point at the two sections as they lie in the output (48-byte shard header first), there are
// no lookup tables (all three counts 0, all three table offsets = end of the CAS section = footer offset)
spec fn min_footer_ok(m: MDBMinimalShard, f: MDBShardFileFooter) -> bool {
    let end = 48 + m.data@.len();
    &&& f.file_info_offset == 48 && f.cas_info_offset == m.cas_info_start + 48
    &&& f.file_lookup_offset == end && f.cas_lookup_offset == end && f.chunk_lookup_offset == end && f.footer_offset == end
    &&& f.file_lookup_num_entry == 0 && f.cas_lookup_num_entry == 0 && f.chunk_lookup_num_entry == 0
}
spec fn serialize_post(m: MDBMinimalShard, w0: Seq<u8>, w1: Seq<u8>, n: int) -> bool {
    n == 48 + m.data@.len() && exists|f: MDBShardFileFooter| min_footer_ok(m, f) && w1 == w0 + enc_shard_hdr() + m.data@ + #[trigger] enc_footer(f)
}
spec fn u64v(x: u64) -> int { x as int }
impl MDBMinimalShard {
//@ extract mdb_shard/src/streaming_shard.rs in `impl MDBMinimalShard` fn serialize
//@ ret res
//@ subst `<W: Write>` => `` :: R11 the instance W = Vec<u8>
//@ subst `writer: &mut W` => `writer: &mut Vec<u8>` :: R11 the instance W = Vec<u8>
//@ subst `copy(&mut Cursor::new(&self.data), writer)?` => `vx_copy_all(&self.data, writer)?` :: R7 outline of io::copy from a Cursor over the buffer
//@ contract
        requires min_wf(*self),
        ensures
            // shard header, the buffer (= file section, CAS section) verbatim, footer whose offsets point at those sections
            res matches Ok(n) ==> /*@C09*/ serialize_post(*self, old(writer)@, final(writer)@, n as int),
//@ body-start
        let ghost w0 = writer@; let ghost fs = min_files(*self); let ghost cs = min_cas(*self); let ghost cis = self.cas_info_start as int;
        proof { lemma_file_pos_ge(0, fs, fs.len() as int); lemma_cas_pos_ge(cis, cs, cs.len() as int); }
//@ loop 1
            invariant
                min_wf(*self), fs == min_files(*self), i <= fs.len(), fs.len() == self.file_offsets@.len(),
                u64v(materialized_bytes) <= 0xFFFF_FFFF * file_pos(0, fs, i as int), file_pos(0, fs, fs.len() as int) <= u32::MAX,
//@ loop 2
                invariant
                    min_wf(*self), fs == min_files(*self), i < fs.len(), fview_wf(file_info), file_info.header == fs[i as int],
                    j <= file_info.header.num_entries, file_pos(0, fs, i as int) >= 0, file_pos(0, fs, i as int) + file_info.header.num_entries <= u32::MAX,
                    u64v(materialized_bytes) <= 0xFFFF_FFFF * (file_pos(0, fs, i as int) + j), file_pos(0, fs, fs.len() as int) <= u32::MAX,
//@ before `let file_info = self.file(i);`
            proof { lemma_file_pos_step(0, fs, i as int); lemma_file_pos_mono(0, fs, i as int + 1, fs.len() as int); lemma_file_pos_ge(0, fs, i as int); }
//@ loop 3
            invariant
                min_wf(*self), cs == min_cas(*self), cis == self.cas_info_start, i <= cs.len(), cs.len() == self.cas_offsets@.len(),
                u64v(stored_bytes_on_disk) <= 0xFFFF_FFFF * (cas_pos(cis, cs, i as int) - cis), u64v(stored_bytes) <= 0xFFFF_FFFF * (cas_pos(cis, cs, i as int) - cis),
                cas_pos(cis, cs, cs.len() as int) <= u32::MAX, cis >= 0,
//@ before `let cas_info = self.cas(i);`
            proof { lemma_cas_pos_step(cis, cs, i as int); lemma_cas_pos_mono(cis, cs, i as int + 1, cs.len() as int); lemma_cas_pos_ge(cis, cs, i as int); }
//@ end
}

// ---- round trip: minimal(serialize(minimal(b))) == minimal(b) -----------------------------------------------------------
// a section keeps its record list when the bytes are embedded at another offset
proof fn lemma_file_section_embed(d: Seq<u8>, sec: Seq<FileDataSequenceHeader>, pre: Seq<u8>, post: Seq<u8>)
    requires file_section(d, 0, sec), file_pos(0, sec, sec.len() as int) + 48 <= d.len(),
    ensures file_section(pre + d + post, pre.len() as int, sec),
{
    let w = pre + d + post; let b = pre.len() as int; let n = sec.len() as int;
    assert forall|k: int| 0 <= k <= n implies file_hdr_at(w, #[trigger] file_pos(b, sec, k)) == file_hdr_at(d, file_pos(0, sec, k)) by {
        lemma_file_pos_shift(b, 0, sec, k); lemma_file_pos_ge(0, sec, k); lemma_file_pos_mono(0, sec, k, n);
        assert(w.subrange(file_pos(b, sec, k), file_pos(b, sec, k) + 48) =~= d.subrange(file_pos(0, sec, k), file_pos(0, sec, k) + 48));
    }
    assert forall|k: int| 0 <= k < n implies file_hdr_at(w, #[trigger] file_pos(b, sec, k)) == sec[k] && sec[k].file_hash != bookend_hash() by {
        assert(file_hdr_at(d, file_pos(0, sec, k)) == sec[k]);
    }
}
proof fn lemma_cas_section_embed(d: Seq<u8>, base: int, sec: Seq<CASChunkSequenceHeader>, pre: Seq<u8>, post: Seq<u8>)
    requires cas_section(d, base, sec), base >= 0, cas_pos(base, sec, sec.len() as int) + 48 <= d.len(),
    ensures cas_section(pre + d + post, pre.len() + base, sec),
{
    let w = pre + d + post; let b = pre.len() + base; let n = sec.len() as int;
    assert forall|k: int| 0 <= k <= n implies cas_hdr_at(w, #[trigger] cas_pos(b, sec, k)) == cas_hdr_at(d, cas_pos(base, sec, k)) by {
        lemma_cas_pos_shift(b, base, sec, k); lemma_cas_pos_ge(base, sec, k); lemma_cas_pos_mono(base, sec, k, n);
        assert(w.subrange(cas_pos(b, sec, k), cas_pos(b, sec, k) + 48) =~= d.subrange(cas_pos(base, sec, k), cas_pos(base, sec, k) + 48));
    }
    assert forall|k: int| 0 <= k < n implies cas_hdr_at(w, #[trigger] cas_pos(b, sec, k)) == sec[k] && sec[k].cas_hash != bookend_hash() by {
        assert(cas_hdr_at(d, cas_pos(base, sec, k)) == sec[k]);
    }
}
// what `serialize` writes can be read back by `from_reader` (both sections), and reading it back gives the same record lists:
// the two contracts compose — serialize_post puts m's buffer at offset 48, from_reader_post lists the sections found there
proof fn lemma_minimal_roundtrip(m: MDBMinimalShard, w: Seq<u8>, n: int, m2: MDBMinimalShard)
    requires min_wf(m), serialize_post(m, Seq::empty(), w, n),
    ensures
        /*@C09*/ from_reader_pre(w, 0, true, true),
        /*@C09*/ from_reader_post(w, 0, true, true, m2) ==> min_files(m2) == min_files(m) && min_cas(m2) == min_cas(m),
{
    let f = choose|f: MDBShardFileFooter| min_footer_ok(m, f) && w == Seq::<u8>::empty() + enc_shard_hdr() + m.data@ + #[trigger] enc_footer(f);
    let d = m.data@; let fs = min_files(m); let cis = m.cas_info_start as int; let cs = min_cas(m);
    axiom_shard_hdr_len();
    assert(w =~= enc_shard_hdr() + d + enc_footer(f));
    lemma_file_pos_ge(0, fs, fs.len() as int); lemma_cas_pos_ge(cis, cs, cs.len() as int);
    lemma_file_section_embed(d, fs, enc_shard_hdr(), enc_footer(f));
    lemma_cas_section_embed(d, cis, cs, enc_shard_hdr(), enc_footer(f));
    lemma_the_file_section(w, 48, fs);
    lemma_file_pos_shift(48, 0, fs, fs.len() as int);
    assert(cas_start(w, 48) == 48 + cis);
    lemma_the_cas_section(w, 48 + cis, cs);
    lemma_cas_pos_shift(48 + cis, cis, cs, cs.len() as int);
}

} // verus!
fn main() {}
