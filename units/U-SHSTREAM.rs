//@ unit U-SHSTREAM
//@ props C09
//@ verus-args --rlimit 100
//@ rules-from isearch
#![feature(allocator_api)]
#![allow(non_snake_case, unused)]
use vstd::prelude::*;
use vstd::std_specs::cmp::*;
use std::cmp::Ordering;
use std::mem::size_of;
use std::sync::Arc;
verus! {
global size_of usize == 8;

//@ include prelude/setops_merklehash.rs
type HMACKey = MerkleHash;

//@ extract mdb_shard/src/file_structs.rs struct FileDataSequenceHeader
//@ end
//@ extract mdb_shard/src/file_structs.rs struct FileDataSequenceEntry
//@ end
//@ extract mdb_shard/src/file_structs.rs struct FileVerificationEntry
//@ end
//@ extract mdb_shard/src/file_structs.rs struct FileMetadataExt
//@ end
//@ extract mdb_shard/src/file_structs.rs struct MDBFileInfoView
//@ end
//@ extract mdb_shard/src/cas_structs.rs struct CASChunkSequenceHeader
//@ end
//@ extract mdb_shard/src/cas_structs.rs struct CASChunkSequenceEntry
//@ end
//@ extract mdb_shard/src/cas_structs.rs struct MDBCASInfoView
//@ end
//@ extract mdb_shard/src/shard_format.rs struct MDBShardFileHeader
//@ end
//@ extract mdb_shard/src/shard_format.rs struct MDBShardFileFooter
//@ end
//@ extract mdb_shard/src/file_structs.rs const MDB_FILE_FLAG_VERIFICATION_MASK
//@ end
//@ extract mdb_shard/src/file_structs.rs const MDB_FILE_FLAG_METADATA_EXT_MASK
//@ end
// shard_format.rs:23 (= 48, const_assert!ed there); Verus consts cannot call size_of
const MDB_FILE_INFO_ENTRY_SIZE: usize = 48;
global size_of FileDataSequenceHeader == 48;
global size_of CASChunkSequenceHeader == 48;
global size_of CASChunkSequenceEntry == 48;
pub assume_specification<T, A: std::alloc::Allocator + Clone> [<Arc<[T], A> as From<Vec<T, A>>>::from] (v: Vec<T, A>) -> (r: Arc<[T], A>)
    ensures r@ == v@;

//@ include prelude/shscan_io.rs
//@ include prelude/shstream_io.rs

// ---- section model: identical to U-SHSCAN (from the bytes only) -------------------------------------------------------
spec fn has_verif(h: FileDataSequenceHeader) -> bool { h.file_flags & MDB_FILE_FLAG_VERIFICATION_MASK != 0 }
spec fn has_ext(h: FileDataSequenceHeader) -> bool { h.file_flags & MDB_FILE_FLAG_METADATA_EXT_MASK != 0 }
spec fn following(h: FileDataSequenceHeader) -> int {
    (if has_verif(h) { 2 * h.num_entries } else { h.num_entries as int }) + (if has_ext(h) { 1int } else { 0 })
}
spec fn file_pos(off: int, sec: Seq<FileDataSequenceHeader>, k: int) -> int decreases k {
    if k <= 0 { off } else { file_pos(off, sec, k - 1) + 48 + 48 * following(sec[k - 1]) }
}
spec fn file_section(data: Seq<u8>, off: int, sec: Seq<FileDataSequenceHeader>) -> bool {
    &&& forall|k: int| 0 <= k < sec.len() ==> file_hdr_at(data, #[trigger] file_pos(off, sec, k)) == sec[k] && sec[k].file_hash != bookend_hash()
    &&& file_hdr_at(data, file_pos(off, sec, sec.len() as int)).file_hash == bookend_hash()
}
spec fn has_file_section(data: Seq<u8>, off: int) -> bool { exists|sec: Seq<FileDataSequenceHeader>| file_section(data, off, sec) }
spec fn the_file_section(data: Seq<u8>, off: int) -> Seq<FileDataSequenceHeader> { choose|sec: Seq<FileDataSequenceHeader>| file_section(data, off, sec) }
proof fn lemma_file_pos_step(off: int, sec: Seq<FileDataSequenceHeader>, k: int)
    requires 0 <= k < sec.len(),
    ensures file_pos(off, sec, k + 1) == file_pos(off, sec, k) + 48 + 48 * following(sec[k]),
{}
proof fn lemma_file_pos_ge(off: int, sec: Seq<FileDataSequenceHeader>, k: int)
    ensures file_pos(off, sec, k) >= off
    decreases k
{ if k > 0 { lemma_file_pos_ge(off, sec, k - 1); } }
spec fn cas_pos(off: int, sec: Seq<CASChunkSequenceHeader>, k: int) -> int decreases k {
    if k <= 0 { off } else { cas_pos(off, sec, k - 1) + 48 + 48 * sec[k - 1].num_entries }
}
spec fn cas_section(data: Seq<u8>, off: int, sec: Seq<CASChunkSequenceHeader>) -> bool {
    &&& forall|k: int| 0 <= k < sec.len() ==> cas_hdr_at(data, #[trigger] cas_pos(off, sec, k)) == sec[k] && sec[k].cas_hash != bookend_hash()
    &&& cas_hdr_at(data, cas_pos(off, sec, sec.len() as int)).cas_hash == bookend_hash()
}
spec fn has_cas_section(data: Seq<u8>, off: int) -> bool { exists|sec: Seq<CASChunkSequenceHeader>| cas_section(data, off, sec) }
spec fn the_cas_section(data: Seq<u8>, off: int) -> Seq<CASChunkSequenceHeader> { choose|sec: Seq<CASChunkSequenceHeader>| cas_section(data, off, sec) }
proof fn lemma_cas_pos_step(off: int, sec: Seq<CASChunkSequenceHeader>, k: int)
    requires 0 <= k < sec.len(),
    ensures cas_pos(off, sec, k + 1) == cas_pos(off, sec, k) + 48 + 48 * sec[k].num_entries,
{}

proof fn lemma_cas_pos_ge(off: int, sec: Seq<CASChunkSequenceHeader>, k: int)
    ensures cas_pos(off, sec, k) >= off
    decreases k
{ if k > 0 { lemma_cas_pos_ge(off, sec, k - 1); } }

impl FileDataSequenceHeader {
//@ extract mdb_shard/src/file_structs.rs in `impl FileDataSequenceHeader` fn contains_metadata_ext
//@ ret r
//@ contract
    ensures r == has_ext(*self),
//@ end
//@ extract mdb_shard/src/file_structs.rs in `impl FileDataSequenceHeader` fn contains_verification
//@ ret r
//@ contract
    ensures r == has_verif(*self),
//@ end
}

// a file record handed to a callback: the header, and a private buffer holding the re-encoded header followed by the record's
// `following` 48-byte entries exactly as they stand in the stream at p+48
spec fn file_view_ok(v: MDBFileInfoView, data: Seq<u8>, p: int, h: FileDataSequenceHeader) -> bool {
    v.header == h && v.offset == 0 && v.data@ == enc_file_hdr(h) + data.subrange(p + 48, p + 48 + 48 * following(h))
}
spec fn cas_view_ok(v: MDBCASInfoView, data: Seq<u8>, p: int, h: CASChunkSequenceHeader) -> bool {
    v.header == h && v.offset == 0 && v.data@ == enc_cas_hdr(h) + data.subrange(p + 48, p + 48 + 48 * h.num_entries)
}

impl MDBFileInfoView {
//@ extract mdb_shard/src/file_structs.rs in `impl MDBFileInfoView` fn from_data_and_header
//@ ret r
//@ subst `std::io::Result<Self>` => `Result<Self>` :: R11 one error type for all stubs
//@ subst `return Err(io::Error::new( io::ErrorKind::UnexpectedEof, "Provided slice too small to read MDBFileInfoView", ));` => `return Err(MDBShardError);` :: R11 error value of the stub error type
//@ contract
        requires offset + 48 * (1 + following(header)) <= usize::MAX,
        ensures
            r matches Ok(v) ==> v.header == header && v.data == data && v.offset == offset && data@.len() >= offset + 48 * (1 + following(header)),
//@ end
}
impl MDBCASInfoView {
//@ extract mdb_shard/src/cas_structs.rs in `impl MDBCASInfoView` fn from_data_and_header
//@ ret r
//@ subst `io::Result<Self>` => `Result<Self>` :: R11 one error type for all stubs
//@ subst `return Err(io::Error::new(io::ErrorKind::UnexpectedEof, "Provided slice too small to read Cas Info"));` => `return Err(MDBShardError);` :: R11 error value of the stub error type
//@ contract
        requires offset + 48 * (1 + header.num_entries) <= usize::MAX,
        ensures
            r matches Ok(v) ==> v.header == header && v.data == data && v.offset == offset && data@.len() >= offset + 48 * (1 + header.num_entries),
//@ end
}

//@ extract mdb_shard/src/streaming_shard.rs fn process_shard_file_info_section
//@ ret res
//@ subst `<R: Read, FileFunc>` => `` :: R11 stubs instead of the generic parameters
//@ subst `reader: &mut R` => `reader: &mut VxSR` :: R11 reader stub with ghost bytes and position
//@ subst `mut file_callback: FileFunc` => `file_callback: &mut VxFileCb` :: the instance FileFunc = &mut VxFileCb (a `&mut F` is itself an FnMut), so the calls can be observed
//@ subst `where FileFunc: FnMut(MDBFileInfoView) -> Result<()>,` => `` :: instance, see above
//@ subst `file_callback(` => `file_callback.call(` :: call of the callback stub
//@ subst `copy(&mut reader.take(n_bytes as u64), &mut file_data)?` => `vx_copy_take(reader, n_bytes as u64, &mut file_data)?` :: R7 outline of io::copy from Take (contract assumed from std)
//@ contract
    requires has_file_section(old(reader).data@, old(reader).pos@), old(reader).pos@ >= 0,
    ensures
        final(reader).data@ == old(reader).data@,
        // the callback is invoked exactly once per file record of the section, in order, each time with that record; the reader ends
        // right after the bookend
        res is Ok ==> /*@C09*/ ({
            let data = old(reader).data@; let off = old(reader).pos@; let sec = the_file_section(data, off); let l0 = old(file_callback).log@; let l1 = final(file_callback).log@;
            &&& l1.len() == l0.len() + sec.len() && l1.subrange(0, l0.len() as int) == l0
            &&& forall|k: int| 0 <= k < sec.len() ==> file_view_ok(#[trigger] l1[l0.len() + k], data, file_pos(off, sec, k), sec[k])
            &&& final(reader).pos@ == file_pos(off, sec, sec.len() as int) + 48
        }),
//@ body-start
    let ghost data0 = reader.data@; let ghost off = reader.pos@; let ghost sec = the_file_section(data0, off); let ghost l0 = file_callback.log@;
    proof { assert(file_section(data0, off, sec)); assert(l0.subrange(0, l0.len() as int) =~= l0); }
//@ after `loop`
        invariant_except_break
            reader.pos@ == file_pos(off, sec, file_callback.log@.len() - l0.len()),
        invariant
            reader.data@ == data0, data0 == old(reader).data@, file_section(data0, off, sec), off >= 0,
            l0.len() <= file_callback.log@.len() <= l0.len() + sec.len(), file_callback.log@.subrange(0, l0.len() as int) == l0,
            forall|k: int| 0 <= k < file_callback.log@.len() - l0.len() ==> file_view_ok(#[trigger] file_callback.log@[l0.len() + k], data0, file_pos(off, sec, k), sec[k]),
        ensures
            file_callback.log@.len() == l0.len() + sec.len(), reader.pos@ == file_pos(off, sec, sec.len() as int) + 48,
        decreases l0.len() + sec.len() - file_callback.log@.len(),
//@ before `break;`
            proof { let k = file_callback.log@.len() - l0.len(); if k < sec.len() { assert(file_hdr_at(data0, file_pos(off, sec, k)) == sec[k]); } }
//@ before `let n = header.num_entries as usize;`
        let ghost k = file_callback.log@.len() - l0.len(); let ghost lg = file_callback.log@;
        proof { if k >= sec.len() { assert(false); } lemma_file_pos_step(off, sec, k); axiom_codec_file_hdr(header); }
//@ before `file_callback.call(MDBFileInfoView::from_data_and_header(header, Arc::from(file_data), 0)?)?;`
        let ghost fd = file_data@; let ghost pc = reader.pos@;
        proof {
            assert(n_bytes == 48 * following(header));
            lemma_file_pos_ge(off, sec, k);
            assert(fd.len() == 48 + (pc - (file_pos(off, sec, k) + 48)));
        }
//@ after `file_callback.call(MDBFileInfoView::from_data_and_header(header, Arc::from(file_data), 0)?)?;`
        proof {
            assert(pc == file_pos(off, sec, k) + 48 + 48 * following(header));
            assert(file_view_ok(file_callback.log@[l0.len() + k], data0, file_pos(off, sec, k), sec[k]));
            assert(file_callback.log@.subrange(0, l0.len() as int) =~= lg.subrange(0, l0.len() as int));
            assert forall|j: int| 0 <= j < file_callback.log@.len() - l0.len() implies file_view_ok(#[trigger] file_callback.log@[l0.len() + j], data0, file_pos(off, sec, j), sec[j]) by {
                if j < k { assert(file_callback.log@[l0.len() + j] == lg[l0.len() + j]); }
            }
        }
//@ end

//@ extract mdb_shard/src/streaming_shard.rs fn process_shard_cas_info_section
//@ ret res
//@ subst `<R: Read, CasFunc>` => `` :: R11 stubs instead of the generic parameters
//@ subst `reader: &mut R` => `reader: &mut VxSR` :: R11 reader stub with ghost bytes and position
//@ subst `mut cas_callback: CasFunc` => `cas_callback: &mut VxCasCb` :: the instance CasFunc = &mut VxCasCb
//@ subst `where CasFunc: FnMut(MDBCASInfoView) -> Result<()>,` => `` :: instance, see above
//@ subst `cas_callback(` => `cas_callback.call(` :: call of the callback stub
//@ subst `copy(&mut reader.take(n_bytes as u64), &mut cas_data)?` => `vx_copy_take(reader, n_bytes as u64, &mut cas_data)?` :: R7 outline of io::copy from Take (contract assumed from std)
//@ contract
    requires has_cas_section(old(reader).data@, old(reader).pos@), old(reader).pos@ >= 0,
    ensures
        final(reader).data@ == old(reader).data@,
        // once per xorb record of the section, in order; the reader ends right after the bookend
        res is Ok ==> /*@C09*/ ({
            let data = old(reader).data@; let off = old(reader).pos@; let sec = the_cas_section(data, off); let l0 = old(cas_callback).log@; let l1 = final(cas_callback).log@;
            &&& l1.len() == l0.len() + sec.len() && l1.subrange(0, l0.len() as int) == l0
            &&& forall|k: int| 0 <= k < sec.len() ==> cas_view_ok(#[trigger] l1[l0.len() + k], data, cas_pos(off, sec, k), sec[k])
            &&& final(reader).pos@ == cas_pos(off, sec, sec.len() as int) + 48
        }),
//@ body-start
    let ghost data0 = reader.data@; let ghost off = reader.pos@; let ghost sec = the_cas_section(data0, off); let ghost l0 = cas_callback.log@;
    proof { assert(cas_section(data0, off, sec)); assert(l0.subrange(0, l0.len() as int) =~= l0); }
//@ after `loop`
        invariant_except_break
            reader.pos@ == cas_pos(off, sec, cas_callback.log@.len() - l0.len()),
        invariant
            reader.data@ == data0, data0 == old(reader).data@, cas_section(data0, off, sec), off >= 0,
            l0.len() <= cas_callback.log@.len() <= l0.len() + sec.len(), cas_callback.log@.subrange(0, l0.len() as int) == l0,
            forall|k: int| 0 <= k < cas_callback.log@.len() - l0.len() ==> cas_view_ok(#[trigger] cas_callback.log@[l0.len() + k], data0, cas_pos(off, sec, k), sec[k]),
        ensures
            cas_callback.log@.len() == l0.len() + sec.len(), reader.pos@ == cas_pos(off, sec, sec.len() as int) + 48,
        decreases l0.len() + sec.len() - cas_callback.log@.len(),
//@ before `break;`
            proof { let k = cas_callback.log@.len() - l0.len(); if k < sec.len() { assert(cas_hdr_at(data0, cas_pos(off, sec, k)) == sec[k]); } }
//@ before `let n_bytes = (header.num_entries as usize)`
        let ghost k = cas_callback.log@.len() - l0.len(); let ghost lg = cas_callback.log@;
        proof { if k >= sec.len() { assert(false); } lemma_cas_pos_step(off, sec, k); axiom_codec_cas_hdr(header); }
//@ before `cas_callback.call(MDBCASInfoView::from_data_and_header(header, Arc::from(cas_data), 0)?)?;`
        let ghost fd = cas_data@; let ghost pc = reader.pos@;
        proof {
            assert(n_bytes == 48 * header.num_entries);
            lemma_cas_pos_ge(off, sec, k);
            assert(fd.len() == 48 + (pc - (cas_pos(off, sec, k) + 48)));
        }
//@ after `cas_callback.call(MDBCASInfoView::from_data_and_header(header, Arc::from(cas_data), 0)?)?;`
        proof {
            assert(pc == cas_pos(off, sec, k) + 48 + 48 * header.num_entries);
            assert(cas_view_ok(cas_callback.log@[l0.len() + k], data0, cas_pos(off, sec, k), sec[k]));
            assert(cas_callback.log@.subrange(0, l0.len() as int) =~= lg.subrange(0, l0.len() as int));
            assert forall|j: int| 0 <= j < cas_callback.log@.len() - l0.len() implies cas_view_ok(#[trigger] cas_callback.log@[l0.len() + j], data0, cas_pos(off, sec, j), sec[j]) by {
                if j < k { assert(cas_callback.log@[l0.len() + j] == lg[l0.len() + j]); }
            }
        }
//@ end

// what a callback has seen after a section was streamed to it (the two postconditions above, as predicates)
spec fn file_cb_got(l0: Seq<MDBFileInfoView>, l1: Seq<MDBFileInfoView>, data: Seq<u8>, off: int) -> bool {
    let sec = the_file_section(data, off);
    &&& l1.len() == l0.len() + sec.len() && l1.subrange(0, l0.len() as int) == l0
    &&& forall|k: int| 0 <= k < sec.len() ==> file_view_ok(#[trigger] l1[l0.len() + k], data, file_pos(off, sec, k), sec[k])
}
spec fn cas_cb_got(l0: Seq<MDBCASInfoView>, l1: Seq<MDBCASInfoView>, data: Seq<u8>, off: int) -> bool {
    let sec = the_cas_section(data, off);
    &&& l1.len() == l0.len() + sec.len() && l1.subrange(0, l0.len() as int) == l0
    &&& forall|k: int| 0 <= k < sec.len() ==> cas_view_ok(#[trigger] l1[l0.len() + k], data, cas_pos(off, sec, k), sec[k])
}
// start of the CAS section of a shard whose file section starts at `foff`: right after the file bookend
spec fn cas_start(data: Seq<u8>, foff: int) -> int { let sec = the_file_section(data, foff); file_pos(foff, sec, sec.len() as int) + 48 }
impl VxFileCb {
    // R7 outline of the closure literal `|_| Ok(())` passed when no file callback is given: a callback that does nothing
    #[verifier::external_body]
    fn noop() -> (r: VxFileCb) { unimplemented!() }
}

//@ extract mdb_shard/src/streaming_shard.rs fn process_shard_stream
//@ ret res
//@ subst `<R: Read, FileFunc, CasFunc>` => `` :: R11 stubs instead of the generic parameters
//@ subst `reader: &mut R` => `reader: &mut VxSR` :: R11 reader stub with ghost bytes and position
//@ subst `file_callback: Option<FileFunc>` => `file_callback: Option<&mut VxFileCb>` :: the instance FileFunc = &mut VxFileCb
//@ subst `cas_callback: Option<CasFunc>` => `cas_callback: Option<&mut VxCasCb>` :: the instance CasFunc = &mut VxCasCb
//@ subst `where FileFunc: FnMut(MDBFileInfoView) -> Result<()>, CasFunc: FnMut(MDBCASInfoView) -> Result<()>,` => `` :: instances, see above
//@ subst `|_| Ok(())` => `&mut VxFileCb::noop()` :: R7 outline of the no-op closure literal
//@ body-start
    proof { let d = reader.data@; let fo = reader.pos@ + 48; lemma_file_pos_ge(fo, the_file_section(d, fo), the_file_section(d, fo).len() as int); }
//@ contract
    requires
        old(reader).pos@ >= 0, has_file_section(old(reader).data@, old(reader).pos@ + 48),
        cas_callback is Some ==> has_cas_section(old(reader).data@, cas_start(old(reader).data@, old(reader).pos@ + 48)),
    ensures
        // shard header, then the file section (streamed to the file callback if there is one, skipped record by record otherwise),
        // then the CAS section (streamed only if a CAS callback is given) — each callback sees every record of its section once, in order
        res is Ok ==> /*@C09*/ (file_callback matches Some(fcb) ==> file_cb_got(fcb.log@, final(fcb).log@, old(reader).data@, old(reader).pos@ + 48)),
        res is Ok ==> /*@C09*/ (cas_callback matches Some(ccb) ==> cas_cb_got(ccb.log@, final(ccb).log@, old(reader).data@, cas_start(old(reader).data@, old(reader).pos@ + 48))),
//@ end

} // verus!
fn main() {}
