//@ unit U-SETOPSTREAM
//@ props C10
//@ verus-args --rlimit 200
//@ rules-from setops isearch
#![allow(non_snake_case, unused)]
use vstd::prelude::*;
use vstd::std_specs::cmp::*;
use std::cmp::Ordering;
use std::mem::size_of;
verus! {
global size_of usize == 8;

//@ include prelude/setops_merklehash.rs

//@ extract mdb_shard/src/set_operations.rs enum MDBSetOperation
//@ end
//@ extract mdb_shard/src/set_operations.rs enum NextAction
//@ end
//@ extract mdb_shard/src/file_structs.rs struct FileDataSequenceHeader
//@ end
//@ extract mdb_shard/src/file_structs.rs struct FileDataSequenceEntry
//@ end
//@ extract mdb_shard/src/file_structs.rs struct FileVerificationEntry
//@ end
//@ extract mdb_shard/src/file_structs.rs struct FileMetadataExt
//@ end
//@ extract mdb_shard/src/cas_structs.rs struct CASChunkSequenceHeader
//@ end
//@ extract mdb_shard/src/cas_structs.rs struct CASChunkSequenceEntry
//@ end
//@ extract mdb_shard/src/shard_format.rs struct MDBShardFileFooter
//@ end
//@ extract mdb_shard/src/shard_format.rs struct MDBShardInfo
//@ end
// shard_format.rs:23 `size_of::<[u64; 4]>() + 4 * size_of::<u32>()` (= 48, const_assert!ed there); Verus consts cannot call
// size_of.  Only used as a seek distance on the INPUT readers, irrelevant to the output accounting.
const MDB_FILE_INFO_ENTRY_SIZE: usize = 48;
//@ extract mdb_shard/src/file_structs.rs const MDB_DEFAULT_FILE_FLAG
//@ end
//@ extract mdb_shard/src/file_structs.rs const MDB_FILE_FLAG_WITH_VERIFICATION
//@ end
//@ extract mdb_shard/src/file_structs.rs const MDB_FILE_FLAG_VERIFICATION_MASK
//@ end
//@ extract mdb_shard/src/file_structs.rs const MDB_FILE_FLAG_WITH_METADATA_EXT
//@ end
//@ extract mdb_shard/src/file_structs.rs const MDB_FILE_FLAG_METADATA_EXT_MASK
//@ end
type HMACKey = MerkleHash;
// record sizes: checked by the compiler against the real layouts of the extracted structs (the repository `const_assert!`s the same)
global size_of FileDataSequenceHeader == 48;
global size_of FileDataSequenceEntry == 48;
global size_of FileVerificationEntry == 48;
global size_of FileMetadataExt == 48;
global size_of CASChunkSequenceEntry == 48;

//@ include prelude/setops_actions.rs
//@ include prelude/setopstream_io.rs

// the two decision functions, with the contracts U-SETOPS proves for the real code
#[verifier::external_body]
fn get_next_actions(h1: Option<&MerkleHash>, h2: Option<&MerkleHash>, op: MDBSetOperation) -> (r: Option<[NextAction; 2]>)
    ensures gna_post(h1, h2, op, r)
{ unimplemented!() }
#[verifier::external_body]
fn get_next_actions_for_file_info(h1: Option<&FileDataSequenceHeader>, h2: Option<&FileDataSequenceHeader>, op: MDBSetOperation) -> (r: Option<[NextAction; 2]>)
    ensures gnaf_post(h1, h2, op, r)
{ unimplemented!() }
impl Clone for MDBSetOperation { fn clone(&self) -> (r: Self) ensures r == *self { match self { MDBSetOperation::Union => MDBSetOperation::Union, MDBSetOperation::Difference => MDBSetOperation::Difference } } }
impl Copy for MDBSetOperation {}

impl FileDataSequenceHeader {
//@ extract mdb_shard/src/file_structs.rs in `impl FileDataSequenceHeader` fn contains_metadata_ext
//@ ret r
//@ contract
    ensures r == (self.file_flags & MDB_FILE_FLAG_METADATA_EXT_MASK != 0),
//@ end
//@ extract mdb_shard/src/file_structs.rs in `impl FileDataSequenceHeader` fn contains_verification
//@ ret r
//@ contract
    ensures r == (self.file_flags & MDB_FILE_FLAG_VERIFICATION_MASK != 0),
//@ end
//@ extract mdb_shard/src/file_structs.rs in `impl FileDataSequenceHeader` fn num_info_entry_following
//@ ret r
//@ contract
    requires following(*self) <= u32::MAX,
    ensures r == following(*self),
//@ end
}
spec fn has_verif(h: FileDataSequenceHeader) -> bool { h.file_flags & MDB_FILE_FLAG_VERIFICATION_MASK != 0 }
spec fn has_ext(h: FileDataSequenceHeader) -> bool { h.file_flags & MDB_FILE_FLAG_METADATA_EXT_MASK != 0 }
// number of 48-byte records that follow the header of a file block
spec fn following(h: FileDataSequenceHeader) -> int {
    (if has_verif(h) { 2 * h.num_entries } else { h.num_entries as int }) + (if has_ext(h) { 1int } else { 0 })
}


// ================= the output as a sequence of records; C10's "correct lookup tables and totals", offsets half ========
// [0,b0) untouched, the shard header at b0, then n records of the file-info section and nothing else in between
spec fn file_part(l: Seq<Kind>, log0: Seq<Kind>, b0: int, n: int) -> bool {
    &&& b0 == log0.len() && n >= 0 && l.len() >= b0 + 1 + n
    &&& forall|j: int| 0 <= j < b0 ==> l[j] == log0[j]
    &&& l[b0] == Kind::Hdr
    &&& forall|j: int| b0 + 1 <= j < b0 + 1 + n ==> l[j] == Kind::File
}
spec fn cas_part(l: Seq<Kind>, a: int, n: int) -> bool {
    &&& n >= 0 && l.len() >= a + n
    &&& forall|j: int| a <= j < a + n ==> l[j] == Kind::Cas
}
// n lookup entries (u64 key, u32 index) starting at a
spec fn pairs_part(l: Seq<Kind>, a: int, n: int) -> bool {
    &&& n >= 0 && l.len() >= a + 2 * n
    &&& forall|j: int| a <= j < a + 2 * n ==> l[j] == (if (j - a) % 2 == 0 { Kind::U64 } else { Kind::U32 })
}
// n chunk lookup entries (u64 key, u32 block index, u32 chunk index) starting at a
spec fn triples_part(l: Seq<Kind>, a: int, n: int) -> bool {
    &&& n >= 0 && l.len() >= a + 3 * n
    &&& forall|j: int| a <= j < a + 3 * n ==> l[j] == (if (j - a) % 3 == 0 { Kind::U64 } else { Kind::U32 })
}
// The whole output of one call, read off the FOOTER VALUE THAT WAS WRITTEN: every offset field is the byte position at which
// its section starts (all records before it are accounted with their sizes 48 / 8 / 4), the num_entry fields are the numbers
// of entries actually written, and the footer is the last record.
spec fn output_ok(l: Seq<Kind>, log0: Seq<Kind>, f: MDBShardFileFooter) -> bool {
    let b0 = log0.len() as int;
    let nf = (f.cas_info_offset as int - 48) / 48;
    let nc = (f.file_lookup_offset as int - f.cas_info_offset as int) / 48;
    let n1 = f.file_lookup_num_entry as int; let n2 = f.cas_lookup_num_entry as int; let n3 = f.chunk_lookup_num_entry as int;
    let t1 = b0 + 1 + nf + nc; let t2 = t1 + 2 * n1; let t3 = t2 + 2 * n2;
    &&& f.file_info_offset == 48                                       // right after the 48-byte shard header
    &&& nf >= 1 && f.cas_info_offset == 48 + 48 * nf                   // after nf file-section records (the last one the bookend)
    &&& nc >= 1 && f.file_lookup_offset == f.cas_info_offset + 48 * nc // after nc CAS-section records (incl. bookend)
    &&& f.cas_lookup_offset == f.file_lookup_offset + 12 * n1
    &&& f.chunk_lookup_offset == f.cas_lookup_offset + 12 * n2
    &&& f.footer_offset == f.chunk_lookup_offset + 16 * n3
    &&& file_part(l, log0, b0, nf) && cas_part(l, b0 + 1 + nf, nc)
    &&& pairs_part(l, t1, n1) && pairs_part(l, t2, n2) && triples_part(l, t3, n3)
    &&& l.len() == t3 + 3 * n3 + 1 && l[t3 + 3 * n3] == Kind::Footer(f)
}
// what the action pair guarantees about the two current headers (from gna_post / gnaf_post)
spec fn slot_ok<T>(a: NextAction, h: Option<T>) -> bool { (a is CopyToOut || a is SkipOver) ==> h is Some }
spec fn acts_ok<T>(acts: [NextAction; 2], h0: Option<T>, h1: Option<T>) -> bool {
    &&& slot_ok(acts[0], h0) && slot_ok(acts[1], h1) && !(acts[1] is Merge)
    &&& acts[0] is Merge ==> h0 is Some && h1 is Some && acts[1] is Nothing
}
spec fn u(x: u32) -> int { x as int }
spec fn opt_small(h: Option<FileDataSequenceHeader>) -> bool { h is Some ==> hdr_small(h->0) }
proof fn lemma_flag_bits(cv: bool, cm: bool, flags: u32)
    requires flags == (0u32 | (if cv { 0x8000_0000u32 } else { 0u32 })) | (if cm { 0x4000_0000u32 } else { 0u32 }),
    ensures (flags & 0x8000_0000u32 != 0) == cv, (flags & 0x4000_0000u32 != 0) == cm,
{
    let a = if cv { 0x8000_0000u32 } else { 0u32 }; let b = if cm { 0x4000_0000u32 } else { 0u32 };
    assert(((0u32 | a) | b) & 0x8000_0000u32 == a & 0x8000_0000u32) by (bit_vector) requires b == 0x4000_0000u32 || b == 0u32;
    assert(((0u32 | a) | b) & 0x4000_0000u32 == b & 0x4000_0000u32) by (bit_vector) requires a == 0x8000_0000u32 || a == 0u32;
    assert(0x8000_0000u32 & 0x8000_0000u32 != 0 && 0u32 & 0x8000_0000u32 == 0 && 0x4000_0000u32 & 0x4000_0000u32 != 0 && 0u32 & 0x4000_0000u32 == 0) by (bit_vector);
}
proof fn lemma_consts()
    ensures MDB_FILE_FLAG_WITH_VERIFICATION == 0x8000_0000u32, MDB_FILE_FLAG_VERIFICATION_MASK == 0x8000_0000u32,
        MDB_FILE_FLAG_WITH_METADATA_EXT == 0x4000_0000u32, MDB_FILE_FLAG_METADATA_EXT_MASK == 0x4000_0000u32, MDB_DEFAULT_FILE_FLAG == 0u32,
{
    assert(1u32 << 31 == 0x8000_0000u32) by (bit_vector);
    assert(1u32 << 30 == 0x4000_0000u32) by (bit_vector);
}

//@ extract mdb_shard/src/set_operations.rs fn set_operation
//@ ret res
//@ rules R9q R4k R4b R4u
//@ prefix
#[verifier::exec_allows_no_decreases_clause]
//@ subst `fn set_operation<R: Read + Seek, W: Write>(` => `fn set_operation(` :: R11 reader/writer stubs instead of the generic parameters
//@ subst `r: [&mut R; 2]` => `r: [&VxReader; 2]` :: R11 stateless reader stub (reads return arbitrary values)
//@ subst `out: &mut W` => `out: &mut VxWriter` :: R11 writer stub with ghost record log
//@ subst `chunk_lookup_data.sort_unstable_by_key(|t| t.0)` => `vx_sort_chunk_lookup(&mut chunk_lookup_data)` :: R7 outline of the closure-keyed sort (length preserved)
//@ contract
    requires
        // environment: the writer accepts fewer than 2^32 records for this call (output < 200 GB); keeps the u32 record
        // indices of the lookup tables and the u64 offsets exact
        old(out).limit@ <= old(out).log@.len() + 0xFFFF_FFFF,
    ensures
        res matches Ok(info) ==> /*@C10*/ output_ok(final(out).log@, old(out).log@, info.metadata),
//@ body-start
    let ghost b0 = out.log@.len() as int; let ghost log0 = out.log@; let ghost lim = out.limit@ as int;
    let ghost mut nf: int = 0; let ghost mut nc: int = 0; let ghost mut t1: int = 0;
    broadcast use vstd::layout::layout_of_primitives;
    proof { lemma_consts(); }
//@ loop 1
            invariant
                b0 == log0.len(), out.limit@ == lim, lim <= b0 + 0xFFFF_FFFF, out.log@.len() <= lim,
                file_part(out.log@, log0, b0, u(current_index)), out.log@.len() == b0 + 1 + u(current_index),
                /*@C10*/ out_offset == 48 * (1 + u(current_index)),
                footer.file_info_offset == 48, file_lookup_data@.len() <= u(current_index),
                footer.materialized_bytes <= 0xFFFF_FFFF * u(current_index), footer.stored_bytes == 0, footer.stored_bytes_on_disk == 0,
                opt_small(file_data_header[0]), opt_small(file_data_header[1]),
//@ loop 2
                invariant
                    b0 == log0.len(), out.limit@ == lim, lim <= b0 + 0xFFFF_FFFF, out.log@.len() <= lim,
                    file_part(out.log@, log0, b0, u(current_index)), out.log@.len() == b0 + 1 + u(current_index),
                    /*@C10*/ out_offset == 48 * (1 + u(current_index)),
                    footer.file_info_offset == 48, file_lookup_data@.len() <= u(current_index),
                    footer.materialized_bytes <= 0xFFFF_FFFF * u(current_index), footer.stored_bytes == 0, footer.stored_bytes_on_disk == 0,
                    opt_small(file_data_header[0]), opt_small(file_data_header[1]),
                    vx_arr1[0] == 0 && vx_arr1[1] == 1, vx_n4 <= 2,
                    vx_n4 == 0 ==> acts_ok(action, file_data_header[0], file_data_header[1]),
                    vx_n4 <= 1 ==> slot_ok(action[1], file_data_header[1]) && !(action[1] is Merge),
                decreases 2 - vx_n4,
//@ loop 3
                            invariant
                                b0 == log0.len(), out.limit@ == lim, lim <= b0 + 0xFFFF_FFFF, out.log@.len() <= lim,
                                file_part(out.log@, log0, b0, u(current_index) + 1 + vx_it1), out.log@.len() == b0 + 1 + u(current_index) + 1 + vx_it1,
                                footer.materialized_bytes <= 0xFFFF_FFFF * (u(current_index) + vx_it1), i < 2,
                                footer.file_info_offset == 48, footer.stored_bytes == 0, footer.stored_bytes_on_disk == 0,
//@ loop 4
                                invariant
                                    b0 == log0.len(), out.limit@ == lim, lim <= b0 + 0xFFFF_FFFF, out.log@.len() <= lim,
                                    file_part(out.log@, log0, b0, u(current_index) + 1 + fh.num_entries + vx_it2), out.log@.len() == b0 + 1 + u(current_index) + 1 + fh.num_entries + vx_it2, i < 2,
//@ loop 5
                            invariant
                                b0 == log0.len(), out.limit@ == lim, lim <= b0 + 0xFFFF_FFFF, out.log@.len() <= lim,
                                file_part(out.log@, log0, b0, u(current_index) + 1 + vx_it3), out.log@.len() == b0 + 1 + u(current_index) + 1 + vx_it3,
                                footer.materialized_bytes <= 0xFFFF_FFFF * (u(current_index) + vx_it3),
                                footer.file_info_offset == 48, footer.stored_bytes == 0, footer.stored_bytes_on_disk == 0,
//@ loop 6
                                invariant
                                    b0 == log0.len(), out.limit@ == lim, lim <= b0 + 0xFFFF_FFFF, out.log@.len() <= lim,
                                    file_part(out.log@, log0, b0, u(current_index) + 1 + fh0.num_entries + vx_it4), out.log@.len() == b0 + 1 + u(current_index) + 1 + fh0.num_entries + vx_it4,
                                    /*@C10*/ out_offset == 48 * (out.log@.len() - b0), read_idx < 2,
//@ before `out_offset += header.serialize(out)? as u64;` #2
                        proof { lemma_consts(); lemma_flag_bits(has_verification, has_metadata_ext, header.file_flags); }
//@ after `footer.cas_info_offset = out_offset;`
        proof { nf = out.log@.len() - b0 - 1; }
//@ loop 7
            invariant
                b0 == log0.len(), out.limit@ == lim, lim <= b0 + 0xFFFF_FFFF, out.log@.len() <= lim,
                nf >= 1, file_part(out.log@, log0, b0, nf), cas_part(out.log@, b0 + 1 + nf, u(current_index)), out.log@.len() == b0 + 1 + nf + u(current_index),
                /*@C10*/ out_offset == 48 * (1 + nf + u(current_index)),
                footer.file_info_offset == 48, footer.cas_info_offset == 48 * (1 + nf), file_lookup_data@.len() <= nf,
                cas_lookup_data@.len() <= u(current_index), chunk_lookup_data@.len() <= u(current_index),
                footer.stored_bytes <= 0xFFFF_FFFF * u(current_index), footer.stored_bytes_on_disk <= 0xFFFF_FFFF * u(current_index),
//@ loop 8
                invariant
                    b0 == log0.len(), out.limit@ == lim, lim <= b0 + 0xFFFF_FFFF, out.log@.len() <= lim,
                    nf >= 1, file_part(out.log@, log0, b0, nf), cas_part(out.log@, b0 + 1 + nf, u(current_index)), out.log@.len() == b0 + 1 + nf + u(current_index),
                    /*@C10*/ out_offset == 48 * (1 + nf + u(current_index)),
                    footer.file_info_offset == 48, footer.cas_info_offset == 48 * (1 + nf), file_lookup_data@.len() <= nf,
                    cas_lookup_data@.len() <= u(current_index), chunk_lookup_data@.len() <= u(current_index),
                    footer.stored_bytes <= 0xFFFF_FFFF * u(current_index), footer.stored_bytes_on_disk <= 0xFFFF_FFFF * u(current_index),
                    vx_arr2[0] == 0 && vx_arr2[1] == 1, vx_n5 <= 2,
                    vx_n5 == 0 ==> slot_ok(action[0], cas_data_header[0]),
                    vx_n5 <= 1 ==> slot_ok(action[1], cas_data_header[1]),
                decreases 2 - vx_n5,
//@ loop 9
                            invariant
                                b0 == log0.len(), out.limit@ == lim, lim <= b0 + 0xFFFF_FFFF, out.log@.len() <= lim,
                                nf >= 1, file_part(out.log@, log0, b0, nf), cas_part(out.log@, b0 + 1 + nf, u(current_index) + 1 + j), out.log@.len() == b0 + 1 + nf + u(current_index) + 1 + j,
                                /*@C10*/ out_offset == 48 * (out.log@.len() - b0),
                                chunk_lookup_data@.len() <= u(current_index) + j, i < 2,
//@ after `footer.file_lookup_offset = out_offset;`
        proof { nc = out.log@.len() - b0 - 1 - nf; t1 = b0 + 1 + nf + nc; }
//@ before `out_offset += (file_lookup_data.len()`
        proof {
            let n = file_lookup_data@.len() as int; let a = size_of::<u64>() as int; let b = size_of::<u32>() as int;
            assert(n * (a + b) == 12 * n) by (nonlinear_arith) requires a == 8, b == 4;
        }
//@ before `out_offset += (cas_lookup_data.len()`
        proof {
            let n = cas_lookup_data@.len() as int; let a = size_of::<u64>() as int; let b = size_of::<u32>() as int;
            assert(n * (a + b) == 12 * n) by (nonlinear_arith) requires a == 8, b == 4;
        }
//@ before `out_offset += (chunk_lookup_data.len()`
        proof {
            let n = chunk_lookup_data@.len() as int; let a = size_of::<u64>() as int; let b = size_of::<u32>() as int;
            assert(n * (a + 2 * b) == 16 * n) by (nonlinear_arith) requires a == 8, b == 4;
        }
//@ loop 10
            invariant
                b0 == log0.len(), out.limit@ == lim, lim <= b0 + 0xFFFF_FFFF, out.log@.len() <= lim || vx_n1 == 0,
                nf >= 1, nc >= 1, file_part(out.log@, log0, b0, nf), cas_part(out.log@, b0 + 1 + nf, nc), t1 == b0 + 1 + nf + nc,
                vx_n1 <= vx_v1@.len() <= nf, pairs_part(out.log@, t1, vx_n1 as int), out.log@.len() == t1 + 2 * vx_n1,
                /*@C10*/ out_offset == 48 * (1 + nf + nc) + 12 * vx_v1@.len(),
            decreases vx_v1@.len() - vx_n1,
//@ loop 11
            invariant
                b0 == log0.len(), out.limit@ == lim, lim <= b0 + 0xFFFF_FFFF, out.log@.len() <= lim || vx_n2 == 0,
                nf >= 1, nc >= 1, file_part(out.log@, log0, b0, nf), cas_part(out.log@, b0 + 1 + nf, nc), t1 == b0 + 1 + nf + nc,
                pairs_part(out.log@, t1, footer.file_lookup_num_entry as int), footer.file_lookup_num_entry <= nf,
                vx_n2 <= vx_v2@.len() <= nc, pairs_part(out.log@, t1 + 2 * footer.file_lookup_num_entry, vx_n2 as int), out.log@.len() == t1 + 2 * footer.file_lookup_num_entry + 2 * vx_n2,
                /*@C10*/ out_offset == 48 * (1 + nf + nc) + 12 * footer.file_lookup_num_entry + 12 * vx_v2@.len(),
            decreases vx_v2@.len() - vx_n2,
//@ loop 12
            invariant
                b0 == log0.len(), out.limit@ == lim, lim <= b0 + 0xFFFF_FFFF, out.log@.len() <= lim || vx_n3 == 0,
                nf >= 1, nc >= 1, file_part(out.log@, log0, b0, nf), cas_part(out.log@, b0 + 1 + nf, nc), t1 == b0 + 1 + nf + nc,
                pairs_part(out.log@, t1, footer.file_lookup_num_entry as int), footer.file_lookup_num_entry <= nf,
                pairs_part(out.log@, t1 + 2 * footer.file_lookup_num_entry, footer.cas_lookup_num_entry as int), footer.cas_lookup_num_entry <= nc,
                vx_n3 <= vx_v3@.len() <= nc, triples_part(out.log@, t1 + 2 * footer.file_lookup_num_entry + 2 * footer.cas_lookup_num_entry, vx_n3 as int),
                out.log@.len() == t1 + 2 * footer.file_lookup_num_entry + 2 * footer.cas_lookup_num_entry + 3 * vx_n3,
                /*@C10*/ out_offset == 48 * (1 + nf + nc) + 12 * footer.file_lookup_num_entry + 12 * footer.cas_lookup_num_entry + 16 * vx_v3@.len(),
            decreases vx_v3@.len() - vx_n3,
//@ end

} // verus!
fn main() {}
