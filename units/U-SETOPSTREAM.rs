//@ unit U-SETOPSTREAM
//@ props C10
//@ verus-args --rlimit 200
//@ rules-from setops isearch
#![allow(non_snake_case, unused)]
use vstd::prelude::*;
use vstd::std_specs::cmp::*;
use std::cmp::Ordering;
use std::mem::size_of;
verus! {
global size_of usize == 8;

//@ include prelude/setops_merklehash.rs

//@ extract mdb_shard/src/set_operations.rs enum MDBSetOperation
//@ end
//@ extract mdb_shard/src/set_operations.rs enum NextAction
//@ end
//@ extract mdb_shard/src/file_structs.rs struct FileDataSequenceHeader
//@ end
//@ extract mdb_shard/src/file_structs.rs struct FileDataSequenceEntry
//@ end
//@ extract mdb_shard/src/file_structs.rs struct FileVerificationEntry
//@ end
//@ extract mdb_shard/src/file_structs.rs struct FileMetadataExt
//@ end
//@ extract mdb_shard/src/cas_structs.rs struct CASChunkSequenceHeader
//@ end
//@ extract mdb_shard/src/cas_structs.rs struct CASChunkSequenceEntry
//@ end
//@ extract mdb_shard/src/shard_format.rs struct MDBShardFileFooter
//@ end
//@ extract mdb_shard/src/shard_format.rs struct MDBShardInfo
//@ end
// shard_format.rs:23 `size_of::<[u64; 4]>() + 4 * size_of::<u32>()` (= 48, const_assert!ed there); Verus consts cannot call
// size_of.  Only used as a seek distance on the INPUT readers, irrelevant to the output accounting.
const MDB_FILE_INFO_ENTRY_SIZE: usize = 48;
//@ extract mdb_shard/src/file_structs.rs const MDB_DEFAULT_FILE_FLAG
//@ end
//@ extract mdb_shard/src/file_structs.rs const MDB_FILE_FLAG_WITH_VERIFICATION
//@ end
//@ extract mdb_shard/src/file_structs.rs const MDB_FILE_FLAG_VERIFICATION_MASK
//@ end
//@ extract mdb_shard/src/file_structs.rs const MDB_FILE_FLAG_WITH_METADATA_EXT
//@ end
//@ extract mdb_shard/src/file_structs.rs const MDB_FILE_FLAG_METADATA_EXT_MASK
//@ end
type HMACKey = MerkleHash;
// record sizes: checked by the compiler against the real layouts of the extracted structs (the repository `const_assert!`s the same)
global size_of FileDataSequenceHeader == 48;
global size_of FileDataSequenceEntry == 48;
global size_of FileVerificationEntry == 48;
global size_of FileMetadataExt == 48;
global size_of CASChunkSequenceEntry == 48;

//@ include prelude/setops_actions.rs
//@ include prelude/setopstream_io.rs
//@ include prelude/setops_merge.rs

// the two decision functions, with the contracts U-SETOPS proves for the real code
#[verifier::external_body]
fn get_next_actions(h1: Option<&MerkleHash>, h2: Option<&MerkleHash>, op: MDBSetOperation) -> (r: Option<[NextAction; 2]>)
    ensures gna_post(h1, h2, op, r)
{ unimplemented!() }
#[verifier::external_body]
fn get_next_actions_for_file_info(h1: Option<&FileDataSequenceHeader>, h2: Option<&FileDataSequenceHeader>, op: MDBSetOperation) -> (r: Option<[NextAction; 2]>)
    ensures gnaf_post(h1, h2, op, r)
{ unimplemented!() }
impl Clone for MDBSetOperation { fn clone(&self) -> (r: Self) ensures r == *self { match self { MDBSetOperation::Union => MDBSetOperation::Union, MDBSetOperation::Difference => MDBSetOperation::Difference } } }
impl Copy for MDBSetOperation {}

impl FileDataSequenceHeader {
//@ extract mdb_shard/src/file_structs.rs in `impl FileDataSequenceHeader` fn contains_metadata_ext
//@ ret r
//@ contract
    ensures r == (self.file_flags & MDB_FILE_FLAG_METADATA_EXT_MASK != 0),
//@ end
//@ extract mdb_shard/src/file_structs.rs in `impl FileDataSequenceHeader` fn contains_verification
//@ ret r
//@ contract
    ensures r == (self.file_flags & MDB_FILE_FLAG_VERIFICATION_MASK != 0),
//@ end
//@ extract mdb_shard/src/file_structs.rs in `impl FileDataSequenceHeader` fn num_info_entry_following
//@ ret r
//@ contract
    requires following(*self) <= u32::MAX,
    ensures r == following(*self),
//@ end
}
spec fn has_verif(h: FileDataSequenceHeader) -> bool { h.file_flags & MDB_FILE_FLAG_VERIFICATION_MASK != 0 }
spec fn has_ext(h: FileDataSequenceHeader) -> bool { h.file_flags & MDB_FILE_FLAG_METADATA_EXT_MASK != 0 }
// number of 48-byte records that follow the header of a file block
spec fn following(h: FileDataSequenceHeader) -> int {
    (if has_verif(h) { 2 * h.num_entries } else { h.num_entries as int }) + (if has_ext(h) { 1int } else { 0 })
}


// ================= the output as a sequence of records; C10's "correct lookup tables and totals", offsets half ========
// [0,b0) untouched, the shard header at b0, then n records of the file-info section and nothing else in between
spec fn file_part(l: Seq<Kind>, log0: Seq<Kind>, b0: int, n: int) -> bool {
    &&& b0 == log0.len() && n >= 0 && l.len() >= b0 + 1 + n
    &&& forall|j: int| 0 <= j < b0 ==> l[j] == log0[j]
    &&& l[b0] == Kind::Hdr
    &&& forall|j: int| b0 + 1 <= j < b0 + 1 + n ==> l[j] == Kind::File
}
spec fn cas_part(l: Seq<Kind>, a: int, n: int) -> bool {
    &&& n >= 0 && l.len() >= a + n
    &&& forall|j: int| a <= j < a + n ==> l[j] == Kind::Cas
}
// n lookup entries (u64 key, u32 index) starting at a
spec fn pairs_part(l: Seq<Kind>, a: int, n: int) -> bool {
    &&& n >= 0 && l.len() >= a + 2 * n
    &&& forall|j: int| a <= j < a + 2 * n ==> l[j] == (if (j - a) % 2 == 0 { Kind::U64 } else { Kind::U32 })
}
// n chunk lookup entries (u64 key, u32 block index, u32 chunk index) starting at a
spec fn triples_part(l: Seq<Kind>, a: int, n: int) -> bool {
    &&& n >= 0 && l.len() >= a + 3 * n
    &&& forall|j: int| a <= j < a + 3 * n ==> l[j] == (if (j - a) % 3 == 0 { Kind::U64 } else { Kind::U32 })
}
// The whole output of one call, read off the FOOTER VALUE THAT WAS WRITTEN: every offset field is the byte position at which
// its section starts (all records before it are accounted with their sizes 48 / 8 / 4), the num_entry fields are the numbers
// of entries actually written, and the footer is the last record.
spec fn output_ok(l: Seq<Kind>, log0: Seq<Kind>, f: MDBShardFileFooter) -> bool {
    let b0 = log0.len() as int;
    let nf = (f.cas_info_offset as int - 48) / 48;
    let nc = (f.file_lookup_offset as int - f.cas_info_offset as int) / 48;
    let n1 = f.file_lookup_num_entry as int; let n2 = f.cas_lookup_num_entry as int; let n3 = f.chunk_lookup_num_entry as int;
    let t1 = b0 + 1 + nf + nc; let t2 = t1 + 2 * n1; let t3 = t2 + 2 * n2;
    &&& f.file_info_offset == 48                                       // right after the 48-byte shard header
    &&& nf >= 1 && f.cas_info_offset == 48 + 48 * nf                   // after nf file-section records (the last one the bookend)
    &&& nc >= 1 && f.file_lookup_offset == f.cas_info_offset + 48 * nc // after nc CAS-section records (incl. bookend)
    &&& f.cas_lookup_offset == f.file_lookup_offset + 12 * n1
    &&& f.chunk_lookup_offset == f.cas_lookup_offset + 12 * n2
    &&& f.footer_offset == f.chunk_lookup_offset + 16 * n3
    &&& file_part(l, log0, b0, nf) && cas_part(l, b0 + 1 + nf, nc)
    &&& pairs_part(l, t1, n1) && pairs_part(l, t2, n2) && triples_part(l, t3, n3)
    &&& l.len() == t3 + 3 * n3 + 1 && l[t3 + 3 * n3] == Kind::Footer(f)
}
// what the action pair guarantees about the two current headers (from gna_post / gnaf_post)
spec fn slot_ok<T>(a: NextAction, h: Option<T>) -> bool { (a is CopyToOut || a is SkipOver) ==> h is Some }
spec fn acts_ok<T>(acts: [NextAction; 2], h0: Option<T>, h1: Option<T>) -> bool {
    &&& slot_ok(acts[0], h0) && slot_ok(acts[1], h1) && !(acts[1] is Merge)
    &&& acts[0] is Merge ==> h0 is Some && h1 is Some && acts[1] is Nothing
}
spec fn u(x: u32) -> int { x as int }
spec fn opt_small(h: Option<FileDataSequenceHeader>) -> bool { h is Some ==> hdr_small(h->0) }
proof fn lemma_flag_bits(cv: bool, cm: bool, flags: u32)
    requires flags == (0u32 | (if cv { 0x8000_0000u32 } else { 0u32 })) | (if cm { 0x4000_0000u32 } else { 0u32 }),
    ensures (flags & 0x8000_0000u32 != 0) == cv, (flags & 0x4000_0000u32 != 0) == cm,
{
    let a = if cv { 0x8000_0000u32 } else { 0u32 }; let b = if cm { 0x4000_0000u32 } else { 0u32 };
    assert(((0u32 | a) | b) & 0x8000_0000u32 == a & 0x8000_0000u32) by (bit_vector) requires b == 0x4000_0000u32 || b == 0u32;
    assert(((0u32 | a) | b) & 0x4000_0000u32 == b & 0x4000_0000u32) by (bit_vector) requires a == 0x8000_0000u32 || a == 0u32;
    assert(0x8000_0000u32 & 0x8000_0000u32 != 0 && 0u32 & 0x8000_0000u32 == 0 && 0x4000_0000u32 & 0x4000_0000u32 != 0 && 0u32 & 0x4000_0000u32 == 0) by (bit_vector);
}
proof fn lemma_consts()
    ensures MDB_FILE_FLAG_WITH_VERIFICATION == 0x8000_0000u32, MDB_FILE_FLAG_VERIFICATION_MASK == 0x8000_0000u32,
        MDB_FILE_FLAG_WITH_METADATA_EXT == 0x4000_0000u32, MDB_FILE_FLAG_METADATA_EXT_MASK == 0x4000_0000u32, MDB_DEFAULT_FILE_FLAG == 0u32,
{
    assert(1u32 << 31 == 0x8000_0000u32) by (bit_vector);
    assert(1u32 << 30 == 0x4000_0000u32) by (bit_vector);
}

// ================= content: WHICH block headers are written (C10 "neither lose nor invent records", header level) ==========
// side i of the file merge: lists unchanged, CAS part untouched, `cur` is the header loaded last (None after the bookend)
spec fn rd_f(r: VxReader, files: Seq<FileDataSequenceHeader>, cas: Seq<CASChunkSequenceHeader>, cur: Option<FileDataSequenceHeader>) -> bool {
    &&& reader_wf(r) && r.files@ == files && r.cas@ == cas && r.ci@ == 0
    &&& cur is Some ==> r.fi@ >= 1 && cur->0 == files[r.fi@ - 1]
    &&& cur is None ==> r.fi@ == files.len()
}
// what side i still has to contribute: from the loaded header on
spec fn rem_f(r: VxReader, cur: Option<FileDataSequenceHeader>) -> Seq<FileDataSequenceHeader> {
    if cur is Some { r.files@.subrange(r.fi@ - 1, r.files@.len() as int) } else { Seq::empty() }
}
spec fn rd_c(r: VxReader, files: Seq<FileDataSequenceHeader>, cas: Seq<CASChunkSequenceHeader>, cur: Option<CASChunkSequenceHeader>) -> bool {
    &&& reader_wf(r) && r.files@ == files && r.cas@ == cas && r.fi@ == files.len()
    &&& cur is Some ==> r.ci@ >= 1 && cur->0 == cas[r.ci@ - 1]
    &&& cur is None ==> r.ci@ == cas.len()
}
spec fn rem_c(r: VxReader, cur: Option<CASChunkSequenceHeader>) -> Seq<CASChunkSequenceHeader> {
    if cur is Some { r.cas@.subrange(r.ci@ - 1, r.cas@.len() as int) } else { Seq::empty() }
}
// the two halves of one merge step (what slot 0 / slot 1 of the action pair emits, and what is left of each side afterwards)
spec fn f_e0(x: NextAction, a: Seq<FileDataSequenceHeader>, b: Seq<FileDataSequenceHeader>) -> Seq<FileDataSequenceHeader> { if x is Merge { seq![merged_header(a[0], b[0])] } else { emit(x, hd(a)) } }
spec fn f_e1(x: NextAction, y: NextAction, b: Seq<FileDataSequenceHeader>) -> Seq<FileDataSequenceHeader> { if x is Merge { Seq::empty() } else { emit(y, hd(b)) } }
spec fn f_n0(x: NextAction, a: Seq<FileDataSequenceHeader>) -> Seq<FileDataSequenceHeader> { if x is Merge { a.drop_first() } else { rest(x, a) } }
spec fn f_n1(x: NextAction, y: NextAction, b: Seq<FileDataSequenceHeader>) -> Seq<FileDataSequenceHeader> { if x is Merge { b.drop_first() } else { rest(y, b) } }
proof fn lemma_merged_flags(a: u32, b: u32, hv: bool, he: bool, flags: u32)
    requires hv == ((a & 0x8000_0000u32 != 0) || (b & 0x8000_0000u32 != 0)), he == ((a & 0x4000_0000u32 != 0) || (b & 0x4000_0000u32 != 0)),
        flags == (0u32 | (if hv { 0x8000_0000u32 } else { 0u32 })) | (if he { 0x4000_0000u32 } else { 0u32 }),
    ensures flags == (a | b) & 0xC000_0000u32,
{
    let v: u32 = 0x8000_0000; let m: u32 = 0x4000_0000;
    let hvv = if hv { v } else { 0u32 }; let hmm = if he { m } else { 0u32 };
    assert(hvv == (a | b) & v) by (bit_vector) requires v == 0x8000_0000u32, hvv == (if (a & v != 0) || (b & v != 0) { v } else { 0u32 });
    assert(hmm == (a | b) & m) by (bit_vector) requires m == 0x4000_0000u32, hmm == (if (a & m != 0) || (b & m != 0) { m } else { 0u32 });
    assert((0u32 | hvv) | hmm == (a | b) & 0xC000_0000u32) by (bit_vector) requires hvv == (a | b) & 0x8000_0000u32, hmm == (a | b) & 0x4000_0000u32;
}

//@ extract mdb_shard/src/set_operations.rs fn set_operation
//@ ret res
//@ rules R9q R17 R4k R4b R4u
//@ prefix
#[verifier::exec_allows_no_decreases_clause]
//@ subst `fn set_operation<R: Read + Seek, W: Write>(` => `fn set_operation(` :: R11 reader/writer stubs instead of the generic parameters
//@ subst `r: [&mut R; 2]` => `r: [&mut VxReader; 2]` :: R11 reader stub with ghost header lists
//@ subst `_r: &mut R` => `_r: &mut VxReader` :: R11 reader stub (parameter type of the inlined load_next closures)
//@ subst `out: &mut W` => `out: &mut VxWriter` :: R11 writer stub with ghost record log
//@ subst `chunk_lookup_data.sort_unstable_by_key(|t| t.0)` => `vx_sort_chunk_lookup(&mut chunk_lookup_data)` :: R7 outline of the closure-keyed sort (length preserved)
//@ contract
    requires
        // environment: the writer accepts fewer than 2^32 records for this call (output < 200 GB); keeps the u32 record
        // indices of the lookup tables and the u64 offsets exact
        old(out).limit@ <= old(out).log@.len() + 0xFFFF_FFFF,
        // both readers are at the start of well-formed shards (no header handed out yet)
        setop_pre(*s[0], *old(r[0]), *s[1], *old(r[1])),
    ensures
        res matches Ok(info) ==> /*@C10*/ output_ok(final(out).log@, old(out).log@, info.metadata),
        // the block headers written to the two sections are exactly the merge of the operands' header lists: union / difference as
        // specified over what the operands HOLD (U-SETOPS' tables drive the merge), nothing lost, nothing invented
        res is Ok ==> /*@C10*/ setop_content(old(r[0]).files@, old(r[1]).files@, old(r[0]).cas@, old(r[1]).cas@, op, old(out).fhdrs@, final(out).fhdrs@, old(out).chdrs@, final(out).chdrs@),
//@ body-start
    let ghost b0 = out.log@.len() as int; let ghost log0 = out.log@; let ghost lim = out.limit@ as int;
    let ghost mut nf: int = 0; let ghost mut nc: int = 0; let ghost mut t1: int = 0;
    let ghost fa0 = r[0].files@; let ghost fa1 = r[1].files@; let ghost ca0 = r[0].cas@; let ghost ca1 = r[1].cas@; let ghost fh_init = out.fhdrs@; let ghost ch_init = out.chdrs@;
    broadcast use vstd::layout::layout_of_primitives;
    proof { lemma_consts(); }
//@ before `while let Some(action) =` #1
        proof {
            /*@C10*/ assert(rem_f(*r[0], file_data_header[0]) =~= fa0); /*@C10*/ assert(rem_f(*r[1], file_data_header[1]) =~= fa1);
        }
//@ loop 1
            invariant
                b0 == log0.len(), out.limit@ == lim, lim <= b0 + 0xFFFF_FFFF, out.log@.len() <= lim,
                /*@C10*/ file_part(out.log@, log0, b0, u(current_index)), out.log@.len() == b0 + 1 + u(current_index),
                /*@C10*/ out_offset == 48 * (1 + u(current_index)),
                footer.file_info_offset == 48, file_lookup_data@.len() <= u(current_index),
                footer.materialized_bytes <= 0xFFFF_FFFF * u(current_index), footer.stored_bytes == 0, footer.stored_bytes_on_disk == 0,
                opt_small(file_data_header[0]), opt_small(file_data_header[1]),
                rd_f(*r[0], fa0, ca0, file_data_header[0]), rd_f(*r[1], fa1, ca1, file_data_header[1]), out.chdrs@ == ch_init,
                /*@C10*/ out.fhdrs@ + merge_files(rem_f(*r[0], file_data_header[0]), rem_f(*r[1], file_data_header[1]), op) =~= fh_init + merge_files(fa0, fa1, op),
            ensures file_data_header[0] is None && file_data_header[1] is None,
//@ before `let vx_arr1 = [0, 1];`
            let ghost f0 = out.fhdrs@; let ghost sa = rem_f(*r[0], file_data_header[0]); let ghost sb = rem_f(*r[1], file_data_header[1]); let ghost ax = action[0]; let ghost ay = action[1];
            proof {
                /*@C10*/ assert(hd(sa) == file_data_header[0] && hd(sb) == file_data_header[1]);   // tagged: the loaded headers are the heads of what remains
                lemma_merge_files_step(sa, sb, op);
                /*@C10*/ assert(file_table(hd(sa), hd(sb), op) == Some((ax, ay)));   // tagged: the action pair taken is the table's answer for these heads
            }
//@ loop 2
                invariant
                    b0 == log0.len(), out.limit@ == lim, lim <= b0 + 0xFFFF_FFFF, out.log@.len() <= lim,
                    /*@C10*/ file_part(out.log@, log0, b0, u(current_index)), out.log@.len() == b0 + 1 + u(current_index),
                    /*@C10*/ out_offset == 48 * (1 + u(current_index)),
                    footer.file_info_offset == 48, file_lookup_data@.len() <= u(current_index),
                    footer.materialized_bytes <= 0xFFFF_FFFF * u(current_index), footer.stored_bytes == 0, footer.stored_bytes_on_disk == 0,
                    opt_small(file_data_header[0]), opt_small(file_data_header[1]),
                    vx_arr1[0] == 0 && vx_arr1[1] == 1, vx_n4 <= 2,
                    vx_n4 == 0 ==> acts_ok(action, file_data_header[0], file_data_header[1]),
                    vx_n4 <= 1 ==> slot_ok(action[1], file_data_header[1]) && !(action[1] is Merge),
                    rd_f(*r[0], fa0, ca0, file_data_header[0]), rd_f(*r[1], fa1, ca1, file_data_header[1]), out.chdrs@ == ch_init,
                    ax == action[0], ay == action[1], file_table(hd(sa), hd(sb), op) == Some((ax, ay)), ax is Merge ==> sa.len() > 0 && sb.len() > 0,
                    /*@C10*/ out.fhdrs@ =~= f0 + (if vx_n4 >= 1 { f_e0(ax, sa, sb) } else { Seq::empty() }) + (if vx_n4 >= 2 { f_e1(ax, ay, sb) } else { Seq::empty() }),
                    rem_f(*r[0], file_data_header[0]) =~= (if vx_n4 >= 1 { f_n0(ax, sa) } else { sa }),
                    rem_f(*r[1], file_data_header[1]) =~= (if vx_n4 >= 2 || (vx_n4 >= 1 && ax is Merge) { f_n1(ax, ay, sb) } else { sb }),
                    f0 + f_e0(ax, sa, sb) + f_e1(ax, ay, sb) + merge_files(f_n0(ax, sa), f_n1(ax, ay, sb), op) =~= fh_init + merge_files(fa0, fa1, op),
                decreases 2 - vx_n4,
//@ before `match action[i] {` #1
                let ghost fcur = out.fhdrs@; let ghost fi_0 = r[0].fi@; let ghost fi_1 = r[1].fi@; let ghost n_0 = fa0.len() as int; let ghost n_1 = fa1.len() as int;
//@ after `vx_load_next_r })?;` #1
                        proof {
                            if i == 0 { /*@C10*/ assert(rem_f(*r[0], file_data_header[0]) =~= fa0.subrange(fi_0 - 1, n_0).drop_first()); }
                            else { /*@C10*/ assert(rem_f(*r[1], file_data_header[1]) =~= fa1.subrange(fi_1 - 1, n_1).drop_first()); }
                        }
//@ after `vx_load_next_r })?;` #2
                        proof {
                            if i == 0 { /*@C10*/ assert(rem_f(*r[0], file_data_header[0]) =~= fa0.subrange(fi_0 - 1, n_0).drop_first()); }
                            else { /*@C10*/ assert(rem_f(*r[1], file_data_header[1]) =~= fa1.subrange(fi_1 - 1, n_1).drop_first()); }
                        }
//@ after `vx_load_next_r })?;` #4
                        proof {
                            /*@C10*/ assert(rem_f(*r[0], file_data_header[0]) =~= fa0.subrange(fi_0 - 1, n_0).drop_first());
                            /*@C10*/ assert(rem_f(*r[1], file_data_header[1]) =~= fa1.subrange(fi_1 - 1, n_1).drop_first());
                        }
//@ loop 3
                            invariant
                                b0 == log0.len(), out.limit@ == lim, lim <= b0 + 0xFFFF_FFFF, out.log@.len() <= lim,
                                /*@C10*/ file_part(out.log@, log0, b0, u(current_index) + 1 + vx_it1), out.log@.len() == b0 + 1 + u(current_index) + 1 + vx_it1,
                                footer.materialized_bytes <= 0xFFFF_FFFF * (u(current_index) + vx_it1), i < 2,
                                footer.file_info_offset == 48, footer.stored_bytes == 0, footer.stored_bytes_on_disk == 0,
                                rd_f(*r[0], fa0, ca0, file_data_header[0]), rd_f(*r[1], fa1, ca1, file_data_header[1]), out.chdrs@ == ch_init, out.fhdrs@ == fcur.push(*fh), r[0].fi@ == fi_0, r[1].fi@ == fi_1,
//@ loop 4
                                invariant
                                    b0 == log0.len(), out.limit@ == lim, lim <= b0 + 0xFFFF_FFFF, out.log@.len() <= lim,
                                    /*@C10*/ file_part(out.log@, log0, b0, u(current_index) + 1 + fh.num_entries + vx_it2), out.log@.len() == b0 + 1 + u(current_index) + 1 + fh.num_entries + vx_it2, i < 2,
                                    rd_f(*r[0], fa0, ca0, file_data_header[0]), rd_f(*r[1], fa1, ca1, file_data_header[1]), out.chdrs@ == ch_init, out.fhdrs@ == fcur.push(*fh), r[0].fi@ == fi_0, r[1].fi@ == fi_1,
//@ loop 5
                            invariant
                                b0 == log0.len(), out.limit@ == lim, lim <= b0 + 0xFFFF_FFFF, out.log@.len() <= lim,
                                /*@C10*/ file_part(out.log@, log0, b0, u(current_index) + 1 + vx_it3), out.log@.len() == b0 + 1 + u(current_index) + 1 + vx_it3,
                                footer.materialized_bytes <= 0xFFFF_FFFF * (u(current_index) + vx_it3),
                                footer.file_info_offset == 48, footer.stored_bytes == 0, footer.stored_bytes_on_disk == 0,
                                rd_f(*r[0], fa0, ca0, file_data_header[0]), rd_f(*r[1], fa1, ca1, file_data_header[1]), out.chdrs@ == ch_init, out.fhdrs@ == fcur.push(header), r[0].fi@ == fi_0, r[1].fi@ == fi_1,
//@ loop 6
                                invariant
                                    b0 == log0.len(), out.limit@ == lim, lim <= b0 + 0xFFFF_FFFF, out.log@.len() <= lim,
                                    /*@C10*/ file_part(out.log@, log0, b0, u(current_index) + 1 + fh0.num_entries + vx_it4), out.log@.len() == b0 + 1 + u(current_index) + 1 + fh0.num_entries + vx_it4,
                                    /*@C10*/ out_offset == 48 * (out.log@.len() - b0), read_idx < 2,
                                    rd_f(*r[0], fa0, ca0, file_data_header[0]), rd_f(*r[1], fa1, ca1, file_data_header[1]), out.chdrs@ == ch_init, out.fhdrs@ == fcur.push(header), r[0].fi@ == fi_0, r[1].fi@ == fi_1,
//@ before `out_offset += header.serialize(out)? as u64;` #2
                        proof {
                            lemma_consts(); lemma_flag_bits(has_verification, has_metadata_ext, header.file_flags);
                            lemma_merged_flags(fh0.file_flags, fh1.file_flags, has_verification, has_metadata_ext, header.file_flags);
                            /*@C10*/ assert(header == merged_header(*fh0, *fh1));   // tagged: the header written for a Merge is the specified merged header
                        }
//@ before `out_offset += FileDataSequenceHeader::bookend().serialize(out)? as u64;`
        proof {
            /*@C10*/ assert(file_data_header[0] is None && file_data_header[1] is None);   // tagged: the merge stops only when both sides are exhausted
            lemma_merge_files_step(Seq::<FileDataSequenceHeader>::empty(), Seq::<FileDataSequenceHeader>::empty(), op);
            /*@C10*/ assert(out.fhdrs@ =~= fh_init + merge_files(fa0, fa1, op));
        }
//@ after `footer.cas_info_offset = out_offset;`
        proof { nf = out.log@.len() - b0 - 1; }
//@ before `while let Some(action) =` #2
        proof {
            /*@C10*/ assert(rem_c(*r[0], cas_data_header[0]) =~= ca0); /*@C10*/ assert(rem_c(*r[1], cas_data_header[1]) =~= ca1);
        }
//@ loop 7
            invariant
                b0 == log0.len(), out.limit@ == lim, lim <= b0 + 0xFFFF_FFFF, out.log@.len() <= lim,
                /*@C10*/ nf >= 1, file_part(out.log@, log0, b0, nf), cas_part(out.log@, b0 + 1 + nf, u(current_index)), out.log@.len() == b0 + 1 + nf + u(current_index),
                /*@C10*/ out_offset == 48 * (1 + nf + u(current_index)),
                footer.file_info_offset == 48, footer.cas_info_offset == 48 * (1 + nf), file_lookup_data@.len() <= nf,
                cas_lookup_data@.len() <= u(current_index), chunk_lookup_data@.len() <= u(current_index),
                footer.stored_bytes <= 0xFFFF_FFFF * u(current_index), footer.stored_bytes_on_disk <= 0xFFFF_FFFF * u(current_index),
                rd_c(*r[0], fa0, ca0, cas_data_header[0]), rd_c(*r[1], fa1, ca1, cas_data_header[1]), out.fhdrs@ =~= fh_init + merge_files(fa0, fa1, op),
                /*@C10*/ out.chdrs@ + merge_cas(rem_c(*r[0], cas_data_header[0]), rem_c(*r[1], cas_data_header[1]), op) =~= ch_init + merge_cas(ca0, ca1, op),
            ensures cas_data_header[0] is None && cas_data_header[1] is None,
//@ before `let vx_arr2 = [0, 1];`
            let ghost g0 = out.chdrs@; let ghost sc = rem_c(*r[0], cas_data_header[0]); let ghost sd = rem_c(*r[1], cas_data_header[1]); let ghost cx = action[0]; let ghost cy = action[1];
            proof {
                /*@C10*/ assert(hd(sc) == cas_data_header[0] && hd(sd) == cas_data_header[1]);
                lemma_merge_cas_step(sc, sd, op);
                /*@C10*/ assert(key_table(cas_key(hd(sc)), cas_key(hd(sd)), op) == Some((cx, cy)));   // tagged: the action pair taken is the table's answer for these heads
            }
//@ loop 8
                invariant
                    b0 == log0.len(), out.limit@ == lim, lim <= b0 + 0xFFFF_FFFF, out.log@.len() <= lim,
                    /*@C10*/ nf >= 1, file_part(out.log@, log0, b0, nf), cas_part(out.log@, b0 + 1 + nf, u(current_index)), out.log@.len() == b0 + 1 + nf + u(current_index),
                    /*@C10*/ out_offset == 48 * (1 + nf + u(current_index)),
                    footer.file_info_offset == 48, footer.cas_info_offset == 48 * (1 + nf), file_lookup_data@.len() <= nf,
                    cas_lookup_data@.len() <= u(current_index), chunk_lookup_data@.len() <= u(current_index),
                    footer.stored_bytes <= 0xFFFF_FFFF * u(current_index), footer.stored_bytes_on_disk <= 0xFFFF_FFFF * u(current_index),
                    vx_arr2[0] == 0 && vx_arr2[1] == 1, vx_n5 <= 2,
                    vx_n5 == 0 ==> slot_ok(action[0], cas_data_header[0]),
                    vx_n5 <= 1 ==> slot_ok(action[1], cas_data_header[1]),
                    rd_c(*r[0], fa0, ca0, cas_data_header[0]), rd_c(*r[1], fa1, ca1, cas_data_header[1]), out.fhdrs@ =~= fh_init + merge_files(fa0, fa1, op),
                    cx == action[0], cy == action[1], !(cx is Merge) && !(cy is Merge),
                    /*@C10*/ out.chdrs@ =~= g0 + (if vx_n5 >= 1 { emit(cx, hd(sc)) } else { Seq::empty() }) + (if vx_n5 >= 2 { emit(cy, hd(sd)) } else { Seq::empty() }),
                    rem_c(*r[0], cas_data_header[0]) =~= (if vx_n5 >= 1 { rest(cx, sc) } else { sc }),
                    rem_c(*r[1], cas_data_header[1]) =~= (if vx_n5 >= 2 { rest(cy, sd) } else { sd }),
                    g0 + emit(cx, hd(sc)) + emit(cy, hd(sd)) + merge_cas(rest(cx, sc), rest(cy, sd), op) =~= ch_init + merge_cas(ca0, ca1, op),
                decreases 2 - vx_n5,
//@ before `match action[i] {` #2
                let ghost gcur = out.chdrs@; let ghost ci_0 = r[0].ci@; let ghost ci_1 = r[1].ci@; let ghost m_0 = ca0.len() as int; let ghost m_1 = ca1.len() as int;
//@ after `vx_load_next_r })?;` #5
                        proof {
                            if i == 0 { /*@C10*/ assert(rem_c(*r[0], cas_data_header[0]) =~= ca0.subrange(ci_0 - 1, m_0).drop_first()); }
                            else { /*@C10*/ assert(rem_c(*r[1], cas_data_header[1]) =~= ca1.subrange(ci_1 - 1, m_1).drop_first()); }
                        }
//@ after `vx_load_next_r })?;` #6
                        proof {
                            if i == 0 { /*@C10*/ assert(rem_c(*r[0], cas_data_header[0]) =~= ca0.subrange(ci_0 - 1, m_0).drop_first()); }
                            else { /*@C10*/ assert(rem_c(*r[1], cas_data_header[1]) =~= ca1.subrange(ci_1 - 1, m_1).drop_first()); }
                        }
//@ loop 9
                            invariant
                                b0 == log0.len(), out.limit@ == lim, lim <= b0 + 0xFFFF_FFFF, out.log@.len() <= lim,
                                /*@C10*/ nf >= 1, file_part(out.log@, log0, b0, nf), cas_part(out.log@, b0 + 1 + nf, u(current_index) + 1 + j), out.log@.len() == b0 + 1 + nf + u(current_index) + 1 + j,
                                /*@C10*/ out_offset == 48 * (out.log@.len() - b0),
                                chunk_lookup_data@.len() <= u(current_index) + j, i < 2,
                                rd_c(*r[0], fa0, ca0, cas_data_header[0]), rd_c(*r[1], fa1, ca1, cas_data_header[1]), out.fhdrs@ =~= fh_init + merge_files(fa0, fa1, op), out.chdrs@ == gcur.push(*fh), r[0].ci@ == ci_0, r[1].ci@ == ci_1,
//@ before `out_offset += CASChunkSequenceHeader::bookend().serialize(out)? as u64;`
        proof {
            /*@C10*/ assert(cas_data_header[0] is None && cas_data_header[1] is None);
            lemma_merge_cas_step(Seq::<CASChunkSequenceHeader>::empty(), Seq::<CASChunkSequenceHeader>::empty(), op);
            /*@C10*/ assert(out.chdrs@ =~= ch_init + merge_cas(ca0, ca1, op));
        }
//@ after `footer.file_lookup_offset = out_offset;`
        proof { nc = out.log@.len() - b0 - 1 - nf; t1 = b0 + 1 + nf + nc; }
//@ before `out_offset += (file_lookup_data.len()`
        proof {
            let n = file_lookup_data@.len() as int; let a = size_of::<u64>() as int; let b = size_of::<u32>() as int;
            assert(n * (a + b) == 12 * n) by (nonlinear_arith) requires a == 8, b == 4;
        }
//@ before `out_offset += (cas_lookup_data.len()`
        proof {
            let n = cas_lookup_data@.len() as int; let a = size_of::<u64>() as int; let b = size_of::<u32>() as int;
            assert(n * (a + b) == 12 * n) by (nonlinear_arith) requires a == 8, b == 4;
        }
//@ before `out_offset += (chunk_lookup_data.len()`
        proof {
            let n = chunk_lookup_data@.len() as int; let a = size_of::<u64>() as int; let b = size_of::<u32>() as int;
            assert(n * (a + 2 * b) == 16 * n) by (nonlinear_arith) requires a == 8, b == 4;
        }
//@ loop 10
            invariant
                out.fhdrs@ =~= fh_init + merge_files(fa0, fa1, op), out.chdrs@ =~= ch_init + merge_cas(ca0, ca1, op),
                b0 == log0.len(), out.limit@ == lim, lim <= b0 + 0xFFFF_FFFF, out.log@.len() <= lim || vx_n1 == 0,
                /*@C10*/ nf >= 1, nc >= 1, file_part(out.log@, log0, b0, nf), cas_part(out.log@, b0 + 1 + nf, nc), t1 == b0 + 1 + nf + nc,
                /*@C10*/ vx_n1 <= vx_v1@.len() <= nf, pairs_part(out.log@, t1, vx_n1 as int), out.log@.len() == t1 + 2 * vx_n1,
                /*@C10*/ out_offset == 48 * (1 + nf + nc) + 12 * vx_v1@.len(),
            decreases vx_v1@.len() - vx_n1,
//@ loop 11
            invariant
                out.fhdrs@ =~= fh_init + merge_files(fa0, fa1, op), out.chdrs@ =~= ch_init + merge_cas(ca0, ca1, op),
                b0 == log0.len(), out.limit@ == lim, lim <= b0 + 0xFFFF_FFFF, out.log@.len() <= lim || vx_n2 == 0,
                /*@C10*/ nf >= 1, nc >= 1, file_part(out.log@, log0, b0, nf), cas_part(out.log@, b0 + 1 + nf, nc), t1 == b0 + 1 + nf + nc,
                /*@C10*/ pairs_part(out.log@, t1, footer.file_lookup_num_entry as int), footer.file_lookup_num_entry <= nf,
                /*@C10*/ vx_n2 <= vx_v2@.len() <= nc, pairs_part(out.log@, t1 + 2 * footer.file_lookup_num_entry, vx_n2 as int), out.log@.len() == t1 + 2 * footer.file_lookup_num_entry + 2 * vx_n2,
                /*@C10*/ out_offset == 48 * (1 + nf + nc) + 12 * footer.file_lookup_num_entry + 12 * vx_v2@.len(),
            decreases vx_v2@.len() - vx_n2,
//@ loop 12
            invariant
                out.fhdrs@ =~= fh_init + merge_files(fa0, fa1, op), out.chdrs@ =~= ch_init + merge_cas(ca0, ca1, op),
                b0 == log0.len(), out.limit@ == lim, lim <= b0 + 0xFFFF_FFFF, out.log@.len() <= lim || vx_n3 == 0,
                /*@C10*/ nf >= 1, nc >= 1, file_part(out.log@, log0, b0, nf), cas_part(out.log@, b0 + 1 + nf, nc), t1 == b0 + 1 + nf + nc,
                /*@C10*/ pairs_part(out.log@, t1, footer.file_lookup_num_entry as int), footer.file_lookup_num_entry <= nf,
                /*@C10*/ pairs_part(out.log@, t1 + 2 * footer.file_lookup_num_entry, footer.cas_lookup_num_entry as int), footer.cas_lookup_num_entry <= nc,
                /*@C10*/ vx_n3 <= vx_v3@.len() <= nc, triples_part(out.log@, t1 + 2 * footer.file_lookup_num_entry + 2 * footer.cas_lookup_num_entry, vx_n3 as int),
                out.log@.len() == t1 + 2 * footer.file_lookup_num_entry + 2 * footer.cas_lookup_num_entry + 3 * vx_n3,
                /*@C10*/ out_offset == 48 * (1 + nf + nc) + 12 * footer.file_lookup_num_entry + 12 * footer.cas_lookup_num_entry + 16 * vx_v3@.len(),
            decreases vx_v3@.len() - vx_n3,
//@ end

} // verus!
fn main() {}
