//@ unit U-KEYEXPORTSEC
//@ props C09 C18
//@ verus-args --rlimit 200
//@ rules-from isearch keyexportsec
#![allow(non_snake_case, unused)]
use vstd::prelude::*;
use vstd::std_specs::cmp::*;
use std::cmp::Ordering;
use std::mem::size_of;
use std::sync::Arc;
verus! {
global size_of usize == 8;

//@ include prelude/setops_merklehash.rs
type HMACKey = MerkleHash;

// U-ISEARCH / U-SHLOOKUP vocabulary in its own module (prelude/shwrite_io.rs reads u64 tokens with `isx::spec_u64_at`)
pub mod isx {
use vstd::prelude::*;
use vstd::set_lib::set_int_range;
//@ include prelude/isearch_specs.rs
}

//@ extract mdb_shard/src/file_structs.rs struct FileDataSequenceHeader
//@ end
//@ extract mdb_shard/src/file_structs.rs struct FileDataSequenceEntry
//@ end
//@ extract mdb_shard/src/file_structs.rs struct FileVerificationEntry
//@ end
//@ extract mdb_shard/src/file_structs.rs struct FileMetadataExt
//@ end
//@ extract mdb_shard/src/file_structs.rs struct MDBFileInfo
//@ end
//@ extract mdb_shard/src/cas_structs.rs struct CASChunkSequenceHeader
//@ end
//@ extract mdb_shard/src/cas_structs.rs struct CASChunkSequenceEntry
//@ end
//@ extract mdb_shard/src/cas_structs.rs struct MDBCASInfo
//@ end
//@ extract mdb_shard/src/shard_format.rs struct MDBShardFileHeader
//@ end
//@ extract mdb_shard/src/shard_format.rs struct MDBShardFileFooter
//@ end
//@ extract mdb_shard/src/shard_format.rs struct MDBShardInfo
//@ end
//@ extract mdb_shard/src/file_structs.rs const MDB_FILE_FLAG_VERIFICATION_MASK
//@ end
//@ extract mdb_shard/src/file_structs.rs const MDB_FILE_FLAG_METADATA_EXT_MASK
//@ end
// shard_format.rs: `size_of::<[u64; 4]>() + 4 * size_of::<u32>()`, const_assert'ed there to equal the size of each 48-byte record
// (`size_of` in a const initialiser is not accepted by Verus)
const MDB_FILE_INFO_ENTRY_SIZE: usize = 48;
global size_of FileDataSequenceHeader == 48;
global size_of FileDataSequenceEntry == 48;
global size_of FileVerificationEntry == 48;
global size_of FileMetadataExt == 48;
global size_of CASChunkSequenceHeader == 48;
global size_of CASChunkSequenceEntry == 48;

//@ include prelude/shscan_io.rs
//@ include prelude/shwrite_sections.rs
//@ include prelude/shwrite_io.rs

// ---- the remaining callees ------------------------------------------------------------------------------------------------
spec fn spec_truncate(h: MerkleHash) -> u64 { h.0[0] }
//@ extract mdb_shard/src/utils.rs fn truncate_hash
//@ ret r
//@ subst `hash.deref()` => `(&hash.0)` :: R11 `Deref<Target=[u64;4]> for DataHash` returns `&self.0`; the stub type exposes the word array as field 0 (K-HASHBYTES)
//@ contract
    ensures r == spec_truncate(*hash),
//@ end
impl FileDataSequenceHeader {
//@ extract mdb_shard/src/file_structs.rs in `impl FileDataSequenceHeader` fn contains_metadata_ext
//@ ret r
//@ contract
    ensures r == has_ext(*self),
//@ end
//@ extract mdb_shard/src/file_structs.rs in `impl FileDataSequenceHeader` fn contains_verification
//@ ret r
//@ contract
    ensures r == has_verif(*self),
//@ end
}
// (fixes the type of an integer local that the code leaves to inference)
spec fn u64v(x: u64) -> int { x as int }
// bytes the reader can still deliver
spec fn avail(r: VxSR) -> int { if 0 <= r.pos@ <= r.data@.len() { r.data@.len() - r.pos@ } else { 0 } }
// `copy(&mut reader.take(n), writer)`: moves min(n, what is left) bytes from the reader to the writer (ONE raw token), returns the count
#[verifier::external_body]
fn vx_copy_take(reader: &mut VxSR, n: u64, writer: &mut VxW) -> (r: Result<u64>)
    ensures final(reader).data@ == old(reader).data@,
        r matches Ok(c) ==> c == (if n <= avail(*old(reader)) { n as int } else { avail(*old(reader)) }) && final(reader).pos@ == old(reader).pos@ + c
            && appended(*old(writer), *final(writer), Tok::Raw(old(reader).data@.subrange(old(reader).pos@, old(reader).pos@ + c))),
{ unimplemented!() }
// `std::io::sink()`: a fresh writer that is thrown away
#[verifier::external_body]
fn vx_sink() -> (r: VxW) { unimplemented!() }

// ---- the FILE section of the exported shard ----------------------------------------------------------------------------------
proof fn lemma_file_pos_mono(off: int, sec: Seq<FileDataSequenceHeader>, a: int, b: int)
    requires 0 <= a <= b <= sec.len(),
    ensures file_pos(off, sec, a) <= file_pos(off, sec, b),
    decreases b - a,
{
    if a < b { lemma_file_pos_mono(off, sec, a, b - 1); lemma_file_pos_step(off, sec, b - 1); }
}
proof fn lemma_file_pos_shift(off: int, sec: Seq<FileDataSequenceHeader>, k: int)
    requires 0 <= k <= sec.len(),
    ensures file_pos(off, sec, k) == off + file_pos(0, sec, k), file_pos(0, sec, k) >= 0, file_pos(0, sec, k) % 48 == 0,
    decreases k,
{
    if k > 0 { lemma_file_pos_shift(off, sec, k - 1); }
}
// the source: a well-formed file section at r0 that lies inside the data and has fewer than 2^32 records (lookup ordinals are u32)
spec fn src_ok(data: Seq<u8>, r0: int, sec: Seq<FileDataSequenceHeader>) -> bool {
    &&& file_section(data, r0, sec) && 0 <= r0
    &&& file_pos(r0, sec, sec.len() as int) + 48 <= data.len()
    &&& file_pos(0, sec, sec.len() as int) + 48 <= 48 * 0xFFFF_FFFF
}
// block copied: the data entries decode to the same values, the tail (verification entries, metadata-ext) is the same bytes
spec fn block_copied(src: Seq<u8>, ps: int, dst: Seq<u8>, pd: int, h: FileDataSequenceHeader) -> bool {
    &&& forall|j: int| 0 <= j < h.num_entries ==> #[trigger] file_entry_at(dst, pd + 48 + 48 * j) == file_entry_at(src, ps + 48 + 48 * j)
    &&& dst.subrange(pd + 48 + 48 * h.num_entries, pd + 48 + 48 * following(h)) == src.subrange(ps + 48 + 48 * h.num_entries, ps + 48 + 48 * following(h))
}
// lookup entry i: (truncated file hash, ordinal of the block's header among the 48-byte records of the WRITTEN section) - the
// ordinal counts headers, data entries, verification entries and metadata-ext records alike (file_pos/following of U-SHSCAN)
spec fn lookup_ok(lookup: Seq<(u64, u32)>, p0: int, sec: Seq<FileDataSequenceHeader>, i: int) -> bool {
    lookup[i].0 == spec_truncate(sec[i].file_hash) && p0 + 48 * lookup[i].1 == file_pos(p0, sec, i)
}
// after k file blocks
spec fn exp_inv(data0: Seq<u8>, r0: int, sec: Seq<FileDataSequenceHeader>, w0: VxW, w: VxW, rpos: int, lookup: Seq<(u64, u32)>, index: u32, k: int) -> bool {
    let p0 = w0.len();
    &&& 0 <= k <= sec.len() && lookup.len() == k
    &&& rpos == file_pos(r0, sec, k)
    &&& keeps(w0, w) && w.len() == file_pos(p0, sec, k)
    &&& 48 * index == file_pos(0, sec, k)
    &&& forall|i: int| 0 <= i < k ==> #[trigger] lookup_ok(lookup, p0, sec, i)
    &&& forall|i: int| 0 <= i < k ==> file_hdr_at(w.out@, #[trigger] file_pos(p0, sec, i)) == sec[i]
    &&& forall|i: int| 0 <= i < k ==> block_copied(data0, file_pos(r0, sec, i), w.out@, #[trigger] file_pos(p0, sec, i), sec[i])
}
// what the FILE-section part of export_as_keyed_shard_impl produced (the shape of U-SHWRITE's conv_file_post)
spec fn export_file_post(data0: Seq<u8>, r0: int, sec: Seq<FileDataSequenceHeader>, w0: VxW, w1: VxW, lookup: Seq<(u64, u32)>) -> bool {
    let p0 = w0.len(); let cnt = sec.len() as int;
    &&& keeps(w0, w1) && w1.len() == file_pos(p0, sec, cnt) + 48
    &&& lookup.len() == cnt
    &&& forall|i: int| 0 <= i < cnt ==> #[trigger] lookup_ok(lookup, p0, sec, i)
    &&& file_section(w1.out@, p0, sec)
    &&& forall|i: int| 0 <= i < cnt ==> block_copied(data0, file_pos(r0, sec, i), w1.out@, #[trigger] file_pos(p0, sec, i), sec[i])
}
// appending keeps a copied block
proof fn lemma_block_keeps(src: Seq<u8>, ps: int, wa: VxW, wb: VxW, pd: int, h: FileDataSequenceHeader)
    requires keeps(wa, wb), block_copied(src, ps, wa.out@, pd, h), 0 <= pd, pd + 48 + 48 * following(h) <= wa.len(),
    ensures block_copied(src, ps, wb.out@, pd, h),
{
    let n = h.num_entries as int;
    assert(following(h) >= n);
    assert forall|j: int| 0 <= j < n implies #[trigger] file_entry_at(wb.out@, pd + 48 + 48 * j) == file_entry_at(src, ps + 48 + 48 * j) by {
        assert(decodes(wa.out@, pd + 48 + 48 * j, Tok::FileEntry(file_entry_at(wa.out@, pd + 48 + 48 * j))));
    }
    let a = pd + 48 + 48 * n; let b = pd + 48 + 48 * following(h);
    assert(decodes(wa.out@, a, Tok::Raw(wa.out@.subrange(a, b))));
}
proof fn lemma_keeps_trans(a: VxW, b: VxW, c: VxW)
    requires keeps(a, b), keeps(b, c),
    ensures keeps(a, c),
{
    assert forall|p: int, t: Tok| 0 <= p && p + tok_size(t) <= a.len() && #[trigger] decodes(a.out@, p, t) implies decodes(c.out@, p, t) by {
        assert(decodes(b.out@, p, t));
    }
}
// one file block: header written (w -> wa), n data entries re-serialized (wa -> wb), the tail copied raw (wb -> wc)
proof fn lemma_exp_step(data0: Seq<u8>, r0: int, sec: Seq<FileDataSequenceHeader>, w0: VxW, w: VxW, wa: VxW, wb: VxW, wc: VxW,
        lookup: Seq<(u64, u32)>, index: u32, k: int, index2: u32)
    requires
        src_ok(data0, r0, sec), exp_inv(data0, r0, sec, w0, w, file_pos(r0, sec, k), lookup, index, k), k < sec.len(),
        appended(w, wa, Tok::FileHdr(sec[k])),
        keeps(wa, wb), wb.len() == wa.len() + 48 * sec[k].num_entries,
        forall|j: int| 0 <= j < sec[k].num_entries ==> #[trigger] file_entry_at(wb.out@, wa.len() + 48 * j) == file_entry_at(data0, file_pos(r0, sec, k) + 48 + 48 * j),
        following(sec[k]) > sec[k].num_entries ==> appended(wb, wc, Tok::Raw(data0.subrange(file_pos(r0, sec, k) + 48 + 48 * sec[k].num_entries, file_pos(r0, sec, k) + 48 + 48 * following(sec[k])))),
        following(sec[k]) == sec[k].num_entries ==> wc == wb,
        index2 == index + 1 + following(sec[k]),
    ensures
        exp_inv(data0, r0, sec, w0, wc, file_pos(r0, sec, k + 1), lookup.push((spec_truncate(sec[k].file_hash), index)), index2, k + 1),
{
    let p0 = w0.len(); let h = sec[k]; let n = h.num_entries as int; let lk2 = lookup.push((spec_truncate(h.file_hash), index));
    let ps = file_pos(r0, sec, k); let pd = file_pos(p0, sec, k);
    lemma_file_pos_step(r0, sec, k); lemma_file_pos_step(p0, sec, k); lemma_file_pos_step(0, sec, k);
    lemma_file_pos_shift(p0, sec, k); lemma_file_pos_shift(p0, sec, k + 1);
    lemma_file_pos_shift(r0, sec, k); lemma_file_pos_shift(r0, sec, k + 1); lemma_file_pos_mono(r0, sec, k + 1, sec.len() as int);
    assert(following(h) >= n);
    assert(0 <= ps + 48 + 48 * n <= ps + 48 + 48 * following(h) <= data0.len());
    assert(keeps(wb, wc));
    lemma_keeps_trans(w, wa, wb); lemma_keeps_trans(w, wb, wc); lemma_keeps_trans(w0, w, wc); lemma_keeps_trans(wa, wb, wc);
    assert(wc.len() == file_pos(p0, sec, k + 1));
    assert forall|i: int| 0 <= i < k + 1 implies #[trigger] lookup_ok(lk2, p0, sec, i) by {
        if i < k { assert(lookup_ok(lookup, p0, sec, i)); }
    }
    assert forall|i: int| 0 <= i < k + 1 implies file_hdr_at(wc.out@, #[trigger] file_pos(p0, sec, i)) == sec[i]
        && block_copied(data0, file_pos(r0, sec, i), wc.out@, file_pos(p0, sec, i), sec[i]) by {
        lemma_file_pos_shift(p0, sec, i);
        if i < k {
            lemma_file_pos_step(p0, sec, i); lemma_file_pos_mono(p0, sec, i + 1, k);
            assert(decodes(w.out@, file_pos(p0, sec, i), Tok::FileHdr(sec[i])));
            lemma_block_keeps(data0, file_pos(r0, sec, i), w, wc, file_pos(p0, sec, i), sec[i]);
        } else {
            assert(decodes(wa.out@, pd, Tok::FileHdr(h)));
            assert(decodes(wb.out@, pd, Tok::FileHdr(h)));
            assert forall|j: int| 0 <= j < n implies #[trigger] file_entry_at(wc.out@, pd + 48 + 48 * j) == file_entry_at(data0, ps + 48 + 48 * j) by {
                assert(wa.len() + 48 * j == pd + 48 + 48 * j);
                assert(decodes(wb.out@, pd + 48 + 48 * j, Tok::FileEntry(file_entry_at(wb.out@, wa.len() + 48 * j))));
            }
            if following(h) > n {
                assert(decodes(wc.out@, wb.len(), Tok::Raw(data0.subrange(ps + 48 + 48 * n, ps + 48 + 48 * following(h)))));
            } else {
                assert(wc.out@.subrange(pd + 48 + 48 * n, pd + 48 + 48 * n) =~= data0.subrange(ps + 48 + 48 * n, ps + 48 + 48 * n));
            }
        }
    }
}
// the bookend header closes the section
proof fn lemma_exp_done(data0: Seq<u8>, r0: int, sec: Seq<FileDataSequenceHeader>, w0: VxW, w: VxW, w1: VxW, lookup: Seq<(u64, u32)>, index: u32, bk: FileDataSequenceHeader)
    requires
        src_ok(data0, r0, sec), exp_inv(data0, r0, sec, w0, w, file_pos(r0, sec, sec.len() as int), lookup, index, sec.len() as int),
        appended(w, w1, Tok::FileHdr(bk)), bk.file_hash == bookend_hash(),
    ensures export_file_post(data0, r0, sec, w0, w1, lookup),
{
    let p0 = w0.len(); let cnt = sec.len() as int;
    lemma_keeps_trans(w0, w, w1);
    assert(decodes(w1.out@, w.len(), Tok::FileHdr(bk)));
    assert forall|i: int| 0 <= i < cnt implies file_hdr_at(w1.out@, #[trigger] file_pos(p0, sec, i)) == sec[i] && sec[i].file_hash != bookend_hash()
        && block_copied(data0, file_pos(r0, sec, i), w1.out@, file_pos(p0, sec, i), sec[i]) by {
        lemma_file_pos_shift(p0, sec, i);
        lemma_file_pos_step(p0, sec, i); lemma_file_pos_mono(p0, sec, i + 1, cnt);
        assert(decodes(w.out@, file_pos(p0, sec, i), Tok::FileHdr(sec[i])));
        lemma_block_keeps(data0, file_pos(r0, sec, i), w, w1, file_pos(p0, sec, i), sec[i]);
        assert(file_hdr_at(data0, file_pos(r0, sec, i)) == sec[i]);
    }
}

//@ extract mdb_shard/src/shard_format.rs in `impl MDBShardInfo` region export_as_keyed_shard_impl
//@ from `let mut file_lookup = Vec::<(u64, u32)>::new();`
//@ to-before `if let Some(self_) = self_verification {` #1
//@ sig `fn export_file_section(reader: &mut VxSR, writer: &mut VxW, include_file_info: bool, mut byte_pos: usize, Ghost(sec): Ghost<Seq<FileDataSequenceHeader>>) -> (res: Result<(Vec<(u64, u32)>, usize, u64)>)`
//@ epilogue `Ok((file_lookup, byte_pos, materialized_bytes))`
//@ rules R4u
//@ prefix
#[verifier::exec_allows_no_decreases_clause]
//@ subst `copy(&mut reader.take(` => `vx_copy_take(reader, (` :: R7 outline of io::copy from a Take adapter (count and destination arguments kept)
//@ subst `&mut std::io::sink()` => `&mut vx_sink()` :: R11 io::sink as a writer whose content nobody looks at
//@ contract
    requires
        // the source holds a well-formed file section at the reader position (only needed when the section is copied)
        include_file_info ==> src_ok(old(reader).data@, old(reader).pos@, sec),
        /*@AUX*/ byte_pos + 48 * 0xFFFF_FFFF <= usize::MAX,
    ensures
        final(reader).data@ == old(reader).data@,
        // C09/C18: the written section is the source's record list, and the rebuilt lookup table gives for every record its truncated
        // hash and the ordinal of its header in the WRITTEN section, counted in 48-byte records (verification and metadata-ext included)
        /*@C09,C18,C05*/ (include_file_info && res is Ok) ==> export_file_post(old(reader).data@, old(reader).pos@, sec, *old(writer), *final(writer), res->Ok_0.0@),
        /*@C09,C18,C05*/ (include_file_info && res is Ok) ==> res->Ok_0.1 == byte_pos + (final(writer).len() - old(writer).len())
            && final(reader).pos@ == file_pos(old(reader).pos@, sec, sec.len() as int) + 48,
        // without file info: an empty section (just the bookend) and an empty table
        /*@C09,C18,C05*/ (!include_file_info && res is Ok) ==> res->Ok_0.0@.len() == 0 && res->Ok_0.1 == byte_pos + 48
            && keeps(*old(writer), *final(writer)) && final(writer).len() == old(writer).len() + 48
            && file_section(final(writer).out@, old(writer).len(), Seq::<FileDataSequenceHeader>::empty()),
//@ body-start
    let ghost data0 = reader.data@; let ghost r0 = reader.pos@; let ghost w0 = *writer; let ghost bp0 = byte_pos as int;
    let ghost mut k: int = 0;
    proof { if include_file_info { lemma_file_pos_shift(r0, sec, 0); lemma_file_pos_shift(w0.len(), sec, 0); } }
//@ loop 1
        invariant_except_break
            /*@C09,C18,C05*/ include_file_info ==> exp_inv(data0, r0, sec, w0, *writer, reader.pos@, file_lookup@, index, k),
            include_file_info ==> byte_pos == bp0 + (writer.len() - w0.len()),
            /*@AUX*/ include_file_info ==> 48 * u64v(materialized_bytes) <= (reader.pos@ - r0) * 0xFFFF_FFFF,
            !include_file_info ==> *writer == w0 && file_lookup@.len() == 0 && byte_pos == bp0,
        invariant
            reader.data@ == data0, data0 == old(reader).data@, r0 == old(reader).pos@, w0 == *old(writer),
            include_file_info ==> src_ok(data0, r0, sec),
            /*@AUX*/ bp0 + 48 * 0xFFFF_FFFF <= usize::MAX,
        ensures
            /*@C09,C18,C05*/ include_file_info ==> export_file_post(data0, r0, sec, w0, *writer, file_lookup@),
            include_file_info ==> byte_pos == bp0 + (writer.len() - w0.len()) && reader.pos@ == file_pos(r0, sec, sec.len() as int) + 48,
            !include_file_info ==> file_lookup@.len() == 0 && byte_pos == bp0 + 48 && keeps(w0, *writer) && writer.len() == w0.len() + 48
                && file_section(writer.out@, w0.len(), Seq::<FileDataSequenceHeader>::empty()),
//@ loop 2
                    invariant
                        reader.data@ == data0, data0 == old(reader).data@, num_entries == file_metadata.num_entries, vx_it1 <= num_entries,
                        reader.pos@ == vx_ps + 48 + 48 * vx_it1,
                        keeps(vx_wa, *writer), writer.len() == vx_wa.len() + 48 * vx_it1,
                        byte_pos == vx_bpa + 48 * vx_it1,
                        /*@C18,C05*/ forall|j: int| 0 <= j < vx_it1 ==> #[trigger] file_entry_at(writer.out@, vx_wa.len() + 48 * j) == file_entry_at(data0, vx_ps + 48 + 48 * j),
                        /*@AUX*/ vx_bpa + 48 * num_entries + 48 <= usize::MAX,
                        /*@AUX*/ 48 * u64v(materialized_bytes) <= (reader.pos@ - r0) * 0xFFFF_FFFF, vx_ps + 48 + 48 * num_entries - r0 <= 48 * 0xFFFF_FFFF,
//@ after `let file_metadata = FileDataSequenceHeader::deserialize(reader)?;`
            let ghost vx_ps = reader.pos@ - 48; let ghost vx_w = *writer; let ghost vx_lk = file_lookup@; let ghost vx_ix = index;
            proof {
                if include_file_info {
                    let cnt = sec.len() as int;
                    lemma_file_pos_mono(r0, sec, k, cnt); lemma_file_pos_shift(r0, sec, k); lemma_file_pos_shift(r0, sec, cnt);
                    lemma_file_pos_shift(w0.len(), sec, k);
                    if k < cnt {
                        lemma_file_pos_step(r0, sec, k); lemma_file_pos_mono(r0, sec, k + 1, cnt); lemma_file_pos_shift(r0, sec, k + 1);
                        lemma_file_pos_step(0, sec, k);
                        assert(file_metadata == sec[k]);
                    }
                }
            }
//@ before `break;`
                proof {
                    if include_file_info {
                        /*@C09*/ assert(k == sec.len());   /* the copy stops exactly at the source section's bookend */
                        /*@C09,C18,C05*/ assert(appended(vx_w, *writer, Tok::FileHdr(file_metadata)));   /* the bookend read is the bookend written */
                        lemma_exp_done(data0, r0, sec, w0, vx_w, *writer, file_lookup@, index, file_metadata);
                    }
                }
//@ before `for vx_it1 in 0..num_entries {`
                let ghost vx_wa = *writer; let ghost vx_bpa = byte_pos as int;
                proof {
                    /*@C09*/ assert(k < sec.len());
                    /*@C09,C18,C05*/ assert(appended(vx_w, vx_wa, Tok::FileHdr(sec[k])));   /* the header written is the header read */
                    /*@C09*/ assert(n_extended_bytes == 48 * (following(file_metadata) - num_entries)) by (nonlinear_arith)
                        requires n_extended_bytes == (if has_verif(file_metadata) { num_entries * 48 } else { 0 }) + (if has_ext(file_metadata) { 48int } else { 0 }),
                            following(file_metadata) == (if has_verif(file_metadata) { 2 * num_entries } else { num_entries as int }) + (if has_ext(file_metadata) { 1int } else { 0 });
                }
//@ after `byte_pos += entry.serialize(writer)?;`
                    proof {
                        assert(decodes(writer.out@, vx_wa.len() + 48 * vx_it1, Tok::FileEntry(entry)));
                        assert forall|j: int| 0 <= j < vx_it1 implies #[trigger] file_entry_at(writer.out@, vx_wa.len() + 48 * j) == file_entry_at(data0, vx_ps + 48 + 48 * j) by {
                            assert(decodes(vx_we.out@, vx_wa.len() + 48 * j, Tok::FileEntry(file_entry_at(vx_we.out@, vx_wa.len() + 48 * j))));
                        }
                        lemma_keeps_trans(vx_wa, vx_we, *writer);
                    }
//@ before `byte_pos += entry.serialize(writer)?;`
                    let ghost vx_we = *writer;
//@ before `if n_extended_bytes != 0 {`
                let ghost vx_wb = *writer;
//@ before `} else {`
                proof {
                    /*@C09*/ assert(index == vx_ix + 1 + following(sec[k]));   /* the ordinal advances by ALL 48-byte records of the block: header, entries, verification, metadata-ext */
                    /*@C09*/ assert(file_lookup@ == vx_lk.push((spec_truncate(sec[k].file_hash), vx_ix)));   /* key = truncated file hash, value = ordinal of this block's header */
                    /*@C18,C05*/ assert(following(sec[k]) > sec[k].num_entries ==> appended(vx_wb, *writer, Tok::Raw(data0.subrange(vx_ps + 48 + 48 * sec[k].num_entries, vx_ps + 48 + 48 * following(sec[k])))));   /* verification and metadata-ext records are copied byte for byte */
                    /*@C18,C05*/ assert(following(sec[k]) == sec[k].num_entries ==> *writer == vx_wb);
                    lemma_exp_step(data0, r0, sec, w0, vx_w, vx_wa, vx_wb, *writer, vx_lk, vx_ix, k, index);
                    k = k + 1;
                }
//@ end

// ---- the CAS section of the exported shard: headers copied, chunk hashes keyed, both lookup tables rebuilt -----------------------
// ASSUMED (merklehash/src/data_hash.rs): `DataHash::default()` is the all-zero hash; `hmac` is a function of (key, hash)
pub uninterp spec fn zero_hash() -> MerkleHash;
uninterp spec fn spec_hmac(key: MerkleHash, h: MerkleHash) -> MerkleHash;
impl Default for MerkleHash {
    #[verifier::external_body]
    fn default() -> (r: MerkleHash) ensures r == zero_hash() { unimplemented!() }
}
impl MerkleHash {
    #[verifier::external_body]
    fn hmac(&self, key: HMACKey) -> (r: MerkleHash) ensures r == spec_hmac(key, *self) { unimplemented!() }
}
// the chunk entry as it appears in the exported shard
spec fn keyed(key: MerkleHash, e: CASChunkSequenceEntry) -> CASChunkSequenceEntry {
    if key != zero_hash() { CASChunkSequenceEntry { chunk_hash: spec_hmac(key, e.chunk_hash), ..e } } else { e }
}
proof fn lemma_cas_pos_mono(off: int, sec: Seq<CASChunkSequenceHeader>, a: int, b: int)
    requires 0 <= a <= b <= sec.len(),
    ensures cas_pos(off, sec, a) <= cas_pos(off, sec, b),
    decreases b - a,
{
    if a < b { lemma_cas_pos_mono(off, sec, a, b - 1); lemma_cas_pos_step(off, sec, b - 1); }
}
proof fn lemma_cas_pos_shift(off: int, sec: Seq<CASChunkSequenceHeader>, k: int)
    requires 0 <= k <= sec.len(),
    ensures cas_pos(off, sec, k) == off + cas_pos(0, sec, k), cas_pos(0, sec, k) >= 0,
    decreases k,
{
    if k > 0 { lemma_cas_pos_shift(off, sec, k - 1); }
}
// number of chunk entries in the first k blocks
spec fn chunks_before(sec: Seq<CASChunkSequenceHeader>, k: int) -> int decreases k {
    if k <= 0 { 0 } else { chunks_before(sec, k - 1) + sec[k - 1].num_entries }
}
proof fn lemma_chunks_before_mono(sec: Seq<CASChunkSequenceHeader>, a: int, b: int)
    requires 0 <= a <= b <= sec.len(),
    ensures 0 <= chunks_before(sec, a) <= chunks_before(sec, b),
    decreases b,
{
    if a < b { lemma_chunks_before_mono(sec, a, b - 1); } else if a > 0 { lemma_chunks_before_mono(sec, a - 1, a - 1); }
}
spec fn src_ok_cas(data: Seq<u8>, r0: int, sec: Seq<CASChunkSequenceHeader>) -> bool {
    &&& cas_section(data, r0, sec) && 0 <= r0
    &&& cas_pos(r0, sec, sec.len() as int) + 48 <= data.len()
    &&& cas_pos(0, sec, sec.len() as int) + 48 <= 48 * 0xFFFF_FFFF
}
// cas lookup entry i: (truncated xorb hash, ordinal of the block's header among the 48-byte records of the WRITTEN cas section)
spec fn cl_ok(cl: Seq<(u64, u32)>, p0: int, sec: Seq<CASChunkSequenceHeader>, i: int) -> bool {
    cl[i].0 == spec_truncate(sec[i].cas_hash) && p0 + 48 * cl[i].1 == cas_pos(p0, sec, i)
}
// chunk lookup entry for chunk j of block b: (truncated KEYED chunk hash, (ordinal of the block's header, j))
spec fn hl_ok(t: (u64, (u32, u32)), data0: Seq<u8>, r0: int, key: MerkleHash, sec: Seq<CASChunkSequenceHeader>, b: int, j: int) -> bool {
    t.0 == spec_truncate(keyed(key, cas_entry_at(data0, cas_pos(r0, sec, b) + 48 + 48 * j)).chunk_hash) && 48 * t.1.0 == cas_pos(0, sec, b) && t.1.1 == j
}
spec fn hl_upto(hl: Seq<(u64, (u32, u32))>, data0: Seq<u8>, r0: int, key: MerkleHash, sec: Seq<CASChunkSequenceHeader>, k: int) -> bool {
    forall|b: int, j: int| 0 <= b < k && 0 <= j < sec[b].num_entries ==> hl_ok(#[trigger] hl[chunks_before(sec, b) + j], data0, r0, key, sec, b, j)
}
spec fn entries_keyed(data0: Seq<u8>, ps: int, dst: Seq<u8>, pd: int, key: MerkleHash, n: int) -> bool {
    forall|j: int| 0 <= j < n ==> #[trigger] cas_entry_at(dst, pd + 48 + 48 * j) == keyed(key, cas_entry_at(data0, ps + 48 + 48 * j))
}
spec fn cas_inv(data0: Seq<u8>, r0: int, sec: Seq<CASChunkSequenceHeader>, key: MerkleHash, w0: VxW, w: VxW, rpos: int,
        cl: Seq<(u64, u32)>, hl: Seq<(u64, (u32, u32))>, inc_c: bool, inc_h: bool, cas_index: u32, k: int) -> bool {
    let p0 = w0.len();
    &&& 0 <= k <= sec.len()
    &&& rpos == cas_pos(r0, sec, k)
    &&& keeps(w0, w) && w.len() == cas_pos(p0, sec, k)
    &&& 48 * cas_index == cas_pos(0, sec, k)
    &&& cl.len() == (if inc_c { k } else { 0 }) && (inc_c ==> forall|i: int| 0 <= i < k ==> #[trigger] cl_ok(cl, p0, sec, i))
    &&& hl.len() == (if inc_h { chunks_before(sec, k) } else { 0 }) && (inc_h ==> hl_upto(hl, data0, r0, key, sec, k))
    &&& forall|i: int| 0 <= i < k ==> cas_hdr_at(w.out@, #[trigger] cas_pos(p0, sec, i)) == sec[i]
    &&& forall|i: int| 0 <= i < k ==> entries_keyed(data0, cas_pos(r0, sec, i), w.out@, #[trigger] cas_pos(p0, sec, i), key, sec[i].num_entries as int)
}
spec fn export_cas_post(data0: Seq<u8>, r0: int, sec: Seq<CASChunkSequenceHeader>, key: MerkleHash, w0: VxW, w1: VxW,
        cl: Seq<(u64, u32)>, hl: Seq<(u64, (u32, u32))>, inc_c: bool, inc_h: bool) -> bool {
    let p0 = w0.len(); let cnt = sec.len() as int;
    &&& keeps(w0, w1) && w1.len() == cas_pos(p0, sec, cnt) + 48
    &&& cl.len() == (if inc_c { cnt } else { 0 }) && (inc_c ==> forall|i: int| 0 <= i < cnt ==> #[trigger] cl_ok(cl, p0, sec, i))
    &&& hl.len() == (if inc_h { chunks_before(sec, cnt) } else { 0 }) && (inc_h ==> hl_upto(hl, data0, r0, key, sec, cnt))
    &&& cas_section(w1.out@, p0, sec)
    &&& forall|i: int| 0 <= i < cnt ==> entries_keyed(data0, cas_pos(r0, sec, i), w1.out@, #[trigger] cas_pos(p0, sec, i), key, sec[i].num_entries as int)
}
proof fn lemma_entries_keep(data0: Seq<u8>, ps: int, wa: VxW, wb: VxW, pd: int, key: MerkleHash, n: int)
    requires keeps(wa, wb), entries_keyed(data0, ps, wa.out@, pd, key, n), 0 <= pd, pd + 48 + 48 * n <= wa.len(),
    ensures entries_keyed(data0, ps, wb.out@, pd, key, n),
{
    assert forall|j: int| 0 <= j < n implies #[trigger] cas_entry_at(wb.out@, pd + 48 + 48 * j) == keyed(key, cas_entry_at(data0, ps + 48 + 48 * j)) by {
        assert(decodes(wa.out@, pd + 48 + 48 * j, Tok::CasEntry(cas_entry_at(wa.out@, pd + 48 + 48 * j))));
    }
}
// one xorb block: header written (w -> wa), its n chunk entries keyed and written (wa -> wb), tables extended
proof fn lemma_cas_step(data0: Seq<u8>, r0: int, sec: Seq<CASChunkSequenceHeader>, key: MerkleHash, w0: VxW, w: VxW, wa: VxW, wb: VxW,
        cl: Seq<(u64, u32)>, hl: Seq<(u64, (u32, u32))>, inc_c: bool, inc_h: bool, ci: u32, k: int,
        cl2: Seq<(u64, u32)>, hl2: Seq<(u64, (u32, u32))>, ci2: u32)
    requires
        src_ok_cas(data0, r0, sec), cas_inv(data0, r0, sec, key, w0, w, cas_pos(r0, sec, k), cl, hl, inc_c, inc_h, ci, k), k < sec.len(),
        appended(w, wa, Tok::CasHdr(sec[k])),
        keeps(wa, wb), wb.len() == wa.len() + 48 * sec[k].num_entries,
        forall|j: int| 0 <= j < sec[k].num_entries ==> #[trigger] cas_entry_at(wb.out@, wa.len() + 48 * j) == keyed(key, cas_entry_at(data0, cas_pos(r0, sec, k) + 48 + 48 * j)),
        cl2 == (if inc_c { cl.push((spec_truncate(sec[k].cas_hash), ci)) } else { cl }),
        inc_h ==> hl2.len() == hl.len() + sec[k].num_entries && (forall|i: int| 0 <= i < hl.len() ==> hl2[i] == hl[i])
            && (forall|j: int| 0 <= j < sec[k].num_entries ==> (#[trigger] hl2[hl.len() + j]) == (spec_truncate(keyed(key, cas_entry_at(data0, cas_pos(r0, sec, k) + 48 + 48 * j)).chunk_hash), (ci, j as u32))),
        !inc_h ==> hl2.len() == 0,
        ci2 == ci + 1 + sec[k].num_entries,
    ensures
        cas_inv(data0, r0, sec, key, w0, wb, cas_pos(r0, sec, k + 1), cl2, hl2, inc_c, inc_h, ci2, k + 1),
{
    let p0 = w0.len(); let h = sec[k]; let n = h.num_entries as int;
    let ps = cas_pos(r0, sec, k); let pd = cas_pos(p0, sec, k);
    lemma_cas_pos_step(r0, sec, k); lemma_cas_pos_step(p0, sec, k); lemma_cas_pos_step(0, sec, k);
    lemma_cas_pos_shift(p0, sec, k); lemma_cas_pos_shift(p0, sec, k + 1);
    lemma_keeps_trans(w, wa, wb); lemma_keeps_trans(w0, w, wb);
    assert(wb.len() == cas_pos(p0, sec, k + 1));
    if inc_c {
        assert forall|i: int| 0 <= i < k + 1 implies #[trigger] cl_ok(cl2, p0, sec, i) by {
            if i < k { assert(cl_ok(cl, p0, sec, i)); }
        }
    }
    if inc_h {
        assert(chunks_before(sec, k + 1) == chunks_before(sec, k) + n);
        assert forall|b: int, j: int| 0 <= b < k + 1 && 0 <= j < sec[b].num_entries implies hl_ok(#[trigger] hl2[chunks_before(sec, b) + j], data0, r0, key, sec, b, j) by {
            if b < k {
                lemma_chunks_before_mono(sec, b + 1, k); lemma_chunks_before_mono(sec, b, b);
                assert(chunks_before(sec, b + 1) == chunks_before(sec, b) + sec[b].num_entries);
                assert(hl_ok(hl[chunks_before(sec, b) + j], data0, r0, key, sec, b, j));
            } else {
                assert(hl2[hl.len() + j] == (spec_truncate(keyed(key, cas_entry_at(data0, ps + 48 + 48 * j)).chunk_hash), (ci, j as u32)));
            }
        }
    }
    assert forall|i: int| 0 <= i < k + 1 implies cas_hdr_at(wb.out@, #[trigger] cas_pos(p0, sec, i)) == sec[i]
        && entries_keyed(data0, cas_pos(r0, sec, i), wb.out@, cas_pos(p0, sec, i), key, sec[i].num_entries as int) by {
        lemma_cas_pos_shift(p0, sec, i);
        if i < k {
            lemma_cas_pos_step(p0, sec, i); lemma_cas_pos_mono(p0, sec, i + 1, k);
            assert(decodes(w.out@, cas_pos(p0, sec, i), Tok::CasHdr(sec[i])));
            lemma_entries_keep(data0, cas_pos(r0, sec, i), w, wb, cas_pos(p0, sec, i), key, sec[i].num_entries as int);
        } else {
            assert(decodes(wa.out@, pd, Tok::CasHdr(h)));
            assert forall|j: int| 0 <= j < n implies #[trigger] cas_entry_at(wb.out@, pd + 48 + 48 * j) == keyed(key, cas_entry_at(data0, ps + 48 + 48 * j)) by {
                assert(wa.len() + 48 * j == pd + 48 + 48 * j);
            }
        }
    }
}
// the bookend header (already written when the loop is left) closes the section
proof fn lemma_cas_done(data0: Seq<u8>, r0: int, sec: Seq<CASChunkSequenceHeader>, key: MerkleHash, w0: VxW, w: VxW, w1: VxW,
        cl: Seq<(u64, u32)>, hl: Seq<(u64, (u32, u32))>, inc_c: bool, inc_h: bool, ci: u32, bk: CASChunkSequenceHeader)
    requires
        src_ok_cas(data0, r0, sec), cas_inv(data0, r0, sec, key, w0, w, cas_pos(r0, sec, sec.len() as int), cl, hl, inc_c, inc_h, ci, sec.len() as int),
        appended(w, w1, Tok::CasHdr(bk)), bk.cas_hash == bookend_hash(),
    ensures export_cas_post(data0, r0, sec, key, w0, w1, cl, hl, inc_c, inc_h),
{
    let p0 = w0.len(); let cnt = sec.len() as int;
    lemma_keeps_trans(w0, w, w1);
    assert(decodes(w1.out@, w.len(), Tok::CasHdr(bk)));
    assert forall|i: int| 0 <= i < cnt implies cas_hdr_at(w1.out@, #[trigger] cas_pos(p0, sec, i)) == sec[i] && sec[i].cas_hash != bookend_hash()
        && entries_keyed(data0, cas_pos(r0, sec, i), w1.out@, cas_pos(p0, sec, i), key, sec[i].num_entries as int) by {
        lemma_cas_pos_shift(p0, sec, i);
        lemma_cas_pos_step(p0, sec, i); lemma_cas_pos_mono(p0, sec, i + 1, cnt);
        assert(decodes(w.out@, cas_pos(p0, sec, i), Tok::CasHdr(sec[i])));
        lemma_entries_keep(data0, cas_pos(r0, sec, i), w, w1, cas_pos(p0, sec, i), key, sec[i].num_entries as int);
        assert(cas_hdr_at(data0, cas_pos(r0, sec, i)) == sec[i]);
    }
    assert(keeps(w0, w1) && w1.len() == cas_pos(p0, sec, cnt) + 48);
    assert(cas_hdr_at(w1.out@, cas_pos(p0, sec, cnt)).cas_hash == bookend_hash());
    assert(forall|k: int| 0 <= k < sec.len() ==> cas_hdr_at(w1.out@, #[trigger] cas_pos(p0, sec, k)) == sec[k] && sec[k].cas_hash != bookend_hash());
    assert(cas_section(w1.out@, p0, sec));
    assert(cl.len() == (if inc_c { cnt } else { 0 }) && (inc_c ==> forall|i: int| 0 <= i < cnt ==> #[trigger] cl_ok(cl, p0, sec, i)));
    assert(hl.len() == (if inc_h { chunks_before(sec, cnt) } else { 0 }) && (inc_h ==> hl_upto(hl, data0, r0, key, sec, cnt)));
}

//@ extract mdb_shard/src/shard_format.rs in `impl MDBShardInfo` region export_as_keyed_shard_impl
//@ from `let mut cas_index = 0;`
//@ to-before `if let Some(self_) = self_verification {` #2
//@ sig `fn export_cas_section(reader: &mut VxSR, writer: &mut VxW, hmac_key: HMACKey, include_cas_lookup_table: bool, include_chunk_lookup_table: bool, cas_lookup: &mut Vec<(u64, u32)>, chunk_lookup: &mut Vec<(u64, (u32, u32))>, mut byte_pos: usize, Ghost(sec): Ghost<Seq<CASChunkSequenceHeader>>) -> (res: Result<(usize, u64, u64)>)`
//@ epilogue `Ok((byte_pos, stored_bytes_on_disk, stored_bytes))`
//@ prefix
#[verifier::exec_allows_no_decreases_clause]
//@ contract
    requires
        src_ok_cas(old(reader).data@, old(reader).pos@, sec),
        old(cas_lookup)@.len() == 0, old(chunk_lookup)@.len() == 0,
        /*@AUX*/ byte_pos + 48 * 0xFFFF_FFFF <= usize::MAX,
    ensures
        final(reader).data@ == old(reader).data@,
        // C09/C18: the written section has the source's block headers; every chunk entry is the source's with its hash keyed; the rebuilt
        // tables give (truncated xorb hash, ordinal of the block header in the WRITTEN section) and (truncated KEYED chunk hash, (that ordinal, chunk index))
        /*@C09,C18,C05*/ res is Ok ==> export_cas_post(old(reader).data@, old(reader).pos@, sec, hmac_key, *old(writer), *final(writer), final(cas_lookup)@, final(chunk_lookup)@,
            include_cas_lookup_table, include_chunk_lookup_table),
        /*@C09,C18,C05*/ res is Ok ==> res->Ok_0.0 == byte_pos + (final(writer).len() - old(writer).len())
            && final(reader).pos@ == cas_pos(old(reader).pos@, sec, sec.len() as int) + 48,
//@ body-start
    let ghost data0 = reader.data@; let ghost r0 = reader.pos@; let ghost w0 = *writer; let ghost bp0 = byte_pos as int;
    let ghost mut k: int = 0;
    proof { lemma_cas_pos_shift(r0, sec, 0); lemma_cas_pos_shift(w0.len(), sec, 0); }
//@ loop 1
        invariant_except_break
            /*@C09,C18,C05*/ cas_inv(data0, r0, sec, hmac_key, w0, *writer, reader.pos@, cas_lookup@, chunk_lookup@, include_cas_lookup_table, include_chunk_lookup_table, cas_index, k),
            byte_pos == bp0 + (writer.len() - w0.len()),
        invariant
            reader.data@ == data0, data0 == old(reader).data@, r0 == old(reader).pos@, w0 == *old(writer),
            src_ok_cas(data0, r0, sec),
            /*@AUX*/ bp0 + 48 * 0xFFFF_FFFF <= usize::MAX,
            /*@AUX*/ 48 * u64v(stored_bytes_on_disk) <= (reader.pos@ - r0) * 0xFFFF_FFFF, 48 * u64v(stored_bytes) <= (reader.pos@ - r0) * 0xFFFF_FFFF,
            /*@AUX*/ 0 <= reader.pos@ - r0 <= 48 * 0xFFFF_FFFF,
        ensures
            /*@C09,C18,C05*/ export_cas_post(data0, r0, sec, hmac_key, w0, *writer, cas_lookup@, chunk_lookup@, include_cas_lookup_table, include_chunk_lookup_table),
            byte_pos == bp0 + (writer.len() - w0.len()) && reader.pos@ == cas_pos(r0, sec, sec.len() as int) + 48,
//@ loop 2
                invariant
                    reader.data@ == data0, data0 == old(reader).data@, chunk_index <= cas_metadata.num_entries,
                    reader.pos@ == vx_ps + 48 + 48 * chunk_index,
                    keeps(vx_wa, *writer), writer.len() == vx_wa.len() + 48 * chunk_index,
                    byte_pos == vx_bpa + 48 * chunk_index,
                    cas_lookup@ == vx_cl2,
                    /*@C18,C05*/ forall|j: int| 0 <= j < chunk_index ==> #[trigger] cas_entry_at(writer.out@, vx_wa.len() + 48 * j) == keyed(hmac_key, cas_entry_at(data0, vx_ps + 48 + 48 * j)),
                    /*@C09,C18,C05*/ include_chunk_lookup_table ==> chunk_lookup@.len() == vx_hl.len() + chunk_index && (forall|i: int| 0 <= i < vx_hl.len() ==> chunk_lookup@[i] == vx_hl[i])
                        && (forall|j: int| 0 <= j < chunk_index ==> (#[trigger] chunk_lookup@[vx_hl.len() + j]) == (spec_truncate(keyed(hmac_key, cas_entry_at(data0, vx_ps + 48 + 48 * j)).chunk_hash), (cas_index, j as u32))),
                    !include_chunk_lookup_table ==> chunk_lookup@.len() == 0,
                    /*@AUX*/ vx_bpa + 48 * cas_metadata.num_entries + 48 <= usize::MAX,
//@ after `let cas_metadata = CASChunkSequenceHeader::deserialize(reader)?;`
            let ghost vx_ps = reader.pos@ - 48; let ghost vx_w = *writer; let ghost vx_cl = cas_lookup@; let ghost vx_hl = chunk_lookup@; let ghost vx_ci = cas_index;
            proof {
                let cnt = sec.len() as int;
                lemma_cas_pos_mono(r0, sec, k, cnt); lemma_cas_pos_shift(r0, sec, k); lemma_cas_pos_shift(r0, sec, cnt);
                lemma_cas_pos_shift(w0.len(), sec, k);
                if k < cnt {
                    lemma_cas_pos_step(r0, sec, k); lemma_cas_pos_mono(r0, sec, k + 1, cnt); lemma_cas_pos_shift(r0, sec, k + 1);
                    lemma_cas_pos_step(0, sec, k);
                    assert(cas_metadata == sec[k]);
                }
            }
//@ before `break;`
                proof {
                    /*@C09*/ assert(k == sec.len());   /* the copy stops exactly at the source section's bookend */
                    /*@C09,C18,C05*/ assert(appended(vx_w, *writer, Tok::CasHdr(cas_metadata)));   /* the bookend read is the bookend written */
                    lemma_cas_done(data0, r0, sec, hmac_key, w0, vx_w, *writer, cas_lookup@, chunk_lookup@, include_cas_lookup_table, include_chunk_lookup_table, cas_index, cas_metadata);
                }
//@ before `for chunk_index in 0..cas_metadata.num_entries {`
            let ghost vx_wa = *writer; let ghost vx_bpa = byte_pos as int; let ghost vx_cl2 = cas_lookup@;
            proof {
                /*@C09*/ assert(k < sec.len());
                /*@C09,C18,C05*/ assert(appended(vx_w, vx_wa, Tok::CasHdr(sec[k])));   /* the header written is the header read */
            }
//@ before `byte_pos += chunk.serialize(writer)?;`
                let ghost vx_we = *writer;
//@ after `byte_pos += chunk.serialize(writer)?;`
                proof {
                    assert(decodes(writer.out@, vx_wa.len() + 48 * chunk_index, Tok::CasEntry(chunk)));
                    assert forall|j: int| 0 <= j < chunk_index implies #[trigger] cas_entry_at(writer.out@, vx_wa.len() + 48 * j) == keyed(hmac_key, cas_entry_at(data0, vx_ps + 48 + 48 * j)) by {
                        assert(decodes(vx_we.out@, vx_wa.len() + 48 * j, Tok::CasEntry(cas_entry_at(vx_we.out@, vx_wa.len() + 48 * j))));
                    }
                    lemma_keeps_trans(vx_wa, vx_we, *writer);
                }
//@ before `stored_bytes_on_disk += cas_metadata.num_bytes_on_disk as u64;`
            proof {
                /*@C09*/ assert(cas_index == vx_ci + 1 + sec[k].num_entries);   /* the ordinal advances by the block's 48-byte records: header + chunk entries */
                /*@C09*/ assert(vx_cl2 == (if include_cas_lookup_table { vx_cl.push((spec_truncate(sec[k].cas_hash), vx_ci)) } else { vx_cl }));   /* key = truncated xorb hash, value = ordinal of this block's header */
                /*@C09*/ assert(cas_lookup@ == vx_cl2);   /* one table entry per block, pushed before the ordinal moves on */
                lemma_cas_step(data0, r0, sec, hmac_key, w0, vx_w, vx_wa, *writer, vx_cl, vx_hl, include_cas_lookup_table, include_chunk_lookup_table, vx_ci, k, cas_lookup@, chunk_lookup@, cas_index);
                k = k + 1;
            }
//@ end

// ---- the three lookup tables and their footer fields ---------------------------------------------------------------------------------
// entry i of a (u64 key, u32 value) table that starts at byte p: 12 bytes
spec fn pair_at(data: Seq<u8>, p: int, e: (u64, u32)) -> bool { decodes(data, p, Tok::U64(e.0)) && decodes(data, p + 8, Tok::U32(e.1)) }
spec fn pair_table(data: Seq<u8>, p: int, t: Seq<(u64, u32)>, n: int) -> bool { forall|i: int| 0 <= i < n ==> pair_at(data, p + 12 * i, #[trigger] t[i]) }
// entry i of the chunk table: (u64 key, u32 block ordinal, u32 chunk index), 16 bytes
spec fn triple_at(data: Seq<u8>, p: int, e: (u64, (u32, u32))) -> bool {
    decodes(data, p, Tok::U64(e.0)) && decodes(data, p + 8, Tok::U32(e.1.0)) && decodes(data, p + 12, Tok::U32(e.1.1))
}
spec fn triple_table(data: Seq<u8>, p: int, t: Seq<(u64, (u32, u32))>, n: int) -> bool { forall|i: int| 0 <= i < n ==> triple_at(data, p + 16 * i, #[trigger] t[i]) }
proof fn lemma_pair_table_keeps(wa: VxW, wb: VxW, p: int, t: Seq<(u64, u32)>, n: int)
    requires keeps(wa, wb), pair_table(wa.out@, p, t, n), 0 <= p, p + 12 * n <= wa.len(),
    ensures pair_table(wb.out@, p, t, n),
{
    assert forall|i: int| 0 <= i < n implies pair_at(wb.out@, p + 12 * i, #[trigger] t[i]) by { assert(pair_at(wa.out@, p + 12 * i, t[i])); }
}
proof fn lemma_triple_table_keeps(wa: VxW, wb: VxW, p: int, t: Seq<(u64, (u32, u32))>, n: int)
    requires keeps(wa, wb), triple_table(wa.out@, p, t, n), 0 <= p, p + 16 * n <= wa.len(),
    ensures triple_table(wb.out@, p, t, n),
{
    assert forall|i: int| 0 <= i < n implies triple_at(wb.out@, p + 16 * i, #[trigger] t[i]) by { assert(triple_at(wa.out@, p + 16 * i, t[i])); }
}
// R7 outline of `chunk_lookup.sort_by_key(|s| s.0)` (std: a stable sort by the key): ASSUMED to permute the vector into key order
#[verifier::external_body]
fn vx_sort_by_key0(v: &mut Vec<(u64, (u32, u32))>)
    ensures final(v)@.to_multiset() == old(v)@.to_multiset(), final(v)@.len() == old(v)@.len(),
        forall|i: int, j: int| 0 <= i <= j < final(v)@.len() ==> (#[trigger] final(v)@[i]).0 <= (#[trigger] final(v)@[j]).0,
{ unimplemented!() }
// the table sizes the flags select
spec fn sel(inc: bool, n: nat) -> int { if inc { n as int } else { 0 } }
spec fn tables_post(w0: VxW, w1: VxW, f0: MDBShardFileFooter, f1: MDBShardFileFooter, fl: Seq<(u64, u32)>, cl: Seq<(u64, u32)>, hl0: Seq<(u64, (u32, u32))>,
        hl: Seq<(u64, (u32, u32))>, inc_f: bool, inc_c: bool, inc_h: bool) -> bool {
    let p0 = w0.len(); let nf = sel(inc_f, fl.len()); let nc = sel(inc_c, cl.len()); let nh = sel(inc_h, hl.len());
    &&& keeps(w0, w1) && w1.len() == p0 + 12 * nf + 12 * nc + 16 * nh
    // footer: each table's offset is the byte position where its first entry was written, its count the number of entries written
    &&& f1 == (MDBShardFileFooter { file_lookup_offset: p0 as u64, file_lookup_num_entry: nf as u64, cas_lookup_offset: (p0 + 12 * nf) as u64, cas_lookup_num_entry: nc as u64,
            chunk_lookup_offset: (p0 + 12 * nf + 12 * nc) as u64, chunk_lookup_num_entry: nh as u64, ..f0 })
    // table bytes: entry i of each vector stands at its 12- / 16-byte slot
    &&& pair_table(w1.out@, p0, fl, nf) && pair_table(w1.out@, p0 + 12 * nf, cl, nc) && triple_table(w1.out@, p0 + 12 * nf + 12 * nc, hl, nh)
    // the chunk table is the rebuilt vector in key order
    &&& inc_h ==> hl.to_multiset() == hl0.to_multiset() && forall|i: int, j: int| 0 <= i <= j < hl.len() ==> (#[trigger] hl[i]).0 <= (#[trigger] hl[j]).0
}

//@ extract mdb_shard/src/shard_format.rs in `impl MDBShardInfo` region export_as_keyed_shard_impl
//@ from `out_footer.file_lookup_offset = byte_pos as u64;`
//@ to-before `out_footer.chunk_hash_hmac_key = hmac_key;`
//@ sig `fn export_lookup_tables(writer: &mut VxW, out_footer: &mut MDBShardFileFooter, include_file_info: bool, include_cas_lookup_table: bool, include_chunk_lookup_table: bool, self_verification: Option<&MDBShardInfo>, file_lookup: Vec<(u64, u32)>, cas_lookup: Vec<(u64, u32)>, mut chunk_lookup: Vec<(u64, (u32, u32))>, mut byte_pos: usize) -> (res: Result<(usize, Vec<(u64, (u32, u32))>)>)`
//@ epilogue `Ok((byte_pos, chunk_lookup))`
//@ rules R4p
//@ subst `chunk_lookup.sort_by_key(|s| s.0);` => `vx_sort_by_key0(&mut chunk_lookup);` :: R7 outline of the closure-keyed sort; assumed to permute into key order
//@ contract
    requires
        // everything written so far has been counted (export_file_post / export_cas_post: byte_pos advanced by exactly the bytes written)
        byte_pos == old(writer).len(),
        /*@AUX*/ byte_pos + 16 * (file_lookup@.len() + cas_lookup@.len() + chunk_lookup@.len()) <= usize::MAX,
        // the source handle's footer counts agree with the rebuilt tables (only used by the debug assertions)
        self_verification matches Some(sv) ==> (include_file_info ==> sv.metadata.file_lookup_num_entry == file_lookup@.len())
            && (include_cas_lookup_table ==> sv.metadata.cas_lookup_num_entry == cas_lookup@.len()),
    ensures
        // C09/C18: the footer offsets are the byte positions of the tables, the counts their lengths, the bytes the rebuilt vectors
        /*@C09,C18,C05*/ res matches Ok(rt) ==> tables_post(*old(writer), *final(writer), *old(out_footer), *final(out_footer), file_lookup@, cas_lookup@, chunk_lookup@, rt.1@,
            include_file_info, include_cas_lookup_table, include_chunk_lookup_table),
        /*@C09,C18,C05*/ res matches Ok(rt) ==> rt.0 == final(writer).len(),
//@ body-start
    let ghost w0 = *writer; let ghost f0 = *out_footer; let ghost p0 = writer.len(); let ghost hl0 = chunk_lookup@;
    let ghost nf = sel(include_file_info, file_lookup@.len()); let ghost nc = sel(include_cas_lookup_table, cas_lookup@.len());
//@ loop 1
                invariant
                    vx_p1 <= file_lookup@.len(), keeps(w0, *writer), p0 == w0.len(), byte_pos == p0,
                    /*@C09,C18,C05*/ writer.len() == p0 + 12 * vx_p1,
                    /*@C09,C18,C05*/ pair_table(writer.out@, p0, file_lookup@, vx_p1 as int),
                    /*@C09,C18,C05*/ *out_footer == (MDBShardFileFooter { file_lookup_offset: p0 as u64, ..f0 }),
                decreases file_lookup@.len() - vx_p1,
//@ loop 2
                invariant
                    vx_p2 <= cas_lookup@.len(), keeps(w0, *writer), p0 == w0.len(), nf == sel(include_file_info, file_lookup@.len()),
                    /*@C09,C18,C05*/ byte_pos == p0 + 12 * nf,   // the position counter has advanced by the bytes of the file table
                    /*@C09,C18,C05*/ writer.len() == p0 + 12 * nf + 12 * vx_p2,
                    /*@C09,C18,C05*/ pair_table(writer.out@, p0, file_lookup@, nf), pair_table(writer.out@, p0 + 12 * nf, cas_lookup@, vx_p2 as int),
                    /*@C09,C18,C05*/ *out_footer == (MDBShardFileFooter { file_lookup_offset: p0 as u64, file_lookup_num_entry: nf as u64, cas_lookup_offset: (p0 + 12 * nf) as u64, ..f0 }),
                decreases cas_lookup@.len() - vx_p2,
//@ loop 3
                invariant
                    vx_p3 <= chunk_lookup@.len(), keeps(w0, *writer), p0 == w0.len(),
                    /*@C09,C18,C05*/ byte_pos == p0 + 12 * nf + 12 * nc,   // ... and of the cas table
                    nf == sel(include_file_info, file_lookup@.len()), nc == sel(include_cas_lookup_table, cas_lookup@.len()),
                    /*@C09,C18,C05*/ writer.len() == p0 + 12 * nf + 12 * nc + 16 * vx_p3,
                    /*@C09,C18,C05*/ pair_table(writer.out@, p0, file_lookup@, nf), pair_table(writer.out@, p0 + 12 * nf, cas_lookup@, nc),
                    /*@C09,C18,C05*/ triple_table(writer.out@, p0 + 12 * nf + 12 * nc, chunk_lookup@, vx_p3 as int),
                    /*@C09,C18,C05*/ chunk_lookup@.to_multiset() == hl0.to_multiset(), chunk_lookup@.len() == hl0.len(),
                    /*@C09,C18,C05*/ forall|i: int, j: int| 0 <= i <= j < chunk_lookup@.len() ==> (#[trigger] chunk_lookup@[i]).0 <= (#[trigger] chunk_lookup@[j]).0,
                    /*@C09,C18,C05*/ *out_footer == (MDBShardFileFooter { file_lookup_offset: p0 as u64, file_lookup_num_entry: nf as u64, cas_lookup_offset: (p0 + 12 * nf) as u64, cas_lookup_num_entry: nc as u64,
                        chunk_lookup_offset: (p0 + 12 * nf + 12 * nc) as u64, ..f0 }),
                decreases chunk_lookup@.len() - vx_p3,
//@ before `write_u64(writer, key)?;` #1
                let ghost vx_a1 = *writer;
//@ after `write_u32(writer, idx)?;` #1
                proof {
                    let wm = vx_a1; let k = vx_p1 - 1;
                    lemma_pair_table_keeps(wm, *writer, p0, file_lookup@, k);
                    /*@C09,C18,C05*/ assert(pair_at(writer.out@, p0 + 12 * k, file_lookup@[k]));   /* entry k was written as (u64 key, u32 ordinal) at its 12-byte slot */
                    lemma_keeps_trans(w0, wm, *writer);
                }
//@ before `write_u64(writer, key)?;` #2
                let ghost vx_a2 = *writer;
//@ after `write_u32(writer, idx)?;` #2
                proof {
                    let wm = vx_a2; let k = vx_p2 - 1;
                    lemma_pair_table_keeps(wm, *writer, p0, file_lookup@, nf);
                    lemma_pair_table_keeps(wm, *writer, p0 + 12 * nf, cas_lookup@, k);
                    /*@C09,C18,C05*/ assert(pair_at(writer.out@, p0 + 12 * nf + 12 * k, cas_lookup@[k]));   /* entry k was written as (u64 key, u32 ordinal) at its 12-byte slot */
                    lemma_keeps_trans(w0, wm, *writer);
                }
//@ before `byte_pos += cas_lookup.len()`
            proof { assert(size_of::<u64>() + size_of::<u32>() == 12); assert(byte_pos + cas_lookup@.len() * 12 <= usize::MAX); }   /* pure arithmetic step */
//@ before `byte_pos += chunk_lookup.len()`
            proof { assert(size_of::<u64>() + 2 * size_of::<u32>() == 16); assert(byte_pos + chunk_lookup@.len() * 16 <= usize::MAX); }   /* pure arithmetic step */
//@ before `write_u64(writer, h)?;`
                let ghost vx_a3 = *writer;
//@ after `write_u32(writer, b)?;`
                proof {
                    let wm = vx_a3; let k = vx_p3 - 1;
                    lemma_pair_table_keeps(wm, *writer, p0, file_lookup@, nf);
                    lemma_pair_table_keeps(wm, *writer, p0 + 12 * nf, cas_lookup@, nc);
                    lemma_triple_table_keeps(wm, *writer, p0 + 12 * nf + 12 * nc, chunk_lookup@, k);
                    /*@C09,C18,C05*/ assert(triple_at(writer.out@, p0 + 12 * nf + 12 * nc + 16 * k, chunk_lookup@[k]));   /* entry k was written as (u64 key, u32 block ordinal, u32 chunk index) at its 16-byte slot */
                    lemma_keeps_trans(w0, wm, *writer);
                }
//@ end

} // verus!
fn main() {}
