//@ unit U-SETOPS
//@ props C10
//@ verus-args --rlimit 100
#![allow(non_snake_case, unused)]
use vstd::prelude::*;
use vstd::std_specs::cmp::*;
use vstd::std_specs::convert::TryIntoSpec;
use std::cmp::Ordering;
verus! {
global size_of usize == 8;

//@ include prelude/setops_merklehash.rs
// ASSUMED: core's derive(PartialEq) on `std::cmp::Ordering` is structural equality (vstd ships no spec for it)
pub assume_specification [<Ordering as PartialEq>::eq] (a: &Ordering, b: &Ordering) -> (r: bool) ensures r == (*a == *b);

// ASSUMED std behaviour: `bool::then_some(b, t)` is `if b { Some(t) } else { None }` (core definition; vstd ships no spec)
pub assume_specification<T> [bool::then_some] (b: bool, t: T) -> (r: Option<T>)
    ensures r == (if b { Some(t) } else { None::<T> });

// ASSUMED std fact: the reflexive conversion u32 -> u32 (`impl<T, U: Into<T>> TryFrom<U> for T`, Error = Infallible) is
// `Ok(x)`; vstd specifies the narrowing integer conversions only
#[verifier::external_body]
pub broadcast proof fn axiom_u32_try_into_u32(x: u32)
    ensures
        <u32 as TryIntoSpec<u32>>::obeys_try_into_spec(),
        #[trigger] <u32 as TryIntoSpec<u32>>::try_into_spec(x) == Ok::<u32, <u32 as TryInto<u32>>::Error>(x),
{}

// ---- derive(PartialEq) of the fieldless enum MDBSetOperation (R10 drops the derive): structural equality ---------
impl PartialEqSpecImpl for MDBSetOperation {
    open spec fn obeys_eq_spec() -> bool { true }
    open spec fn eq_spec(&self, other: &Self) -> bool { *self == *other }
}
impl PartialEq for MDBSetOperation {
    fn eq(&self, other: &Self) -> (r: bool) ensures r == (*self == *other) {
        match (self, other) {
            (MDBSetOperation::Union, MDBSetOperation::Union) => true,
            (MDBSetOperation::Difference, MDBSetOperation::Difference) => true,
            _ => false,
        }
    }
}

//@ extract mdb_shard/src/set_operations.rs enum MDBSetOperation
//@ end
//@ extract mdb_shard/src/set_operations.rs enum NextAction
//@ end
//@ extract mdb_shard/src/file_structs.rs enum SupersetResult
//@ end
//@ extract mdb_shard/src/file_structs.rs struct FileDataSequenceHeader
//@ end
//@ extract mdb_shard/src/file_structs.rs const MDB_DEFAULT_FILE_FLAG
//@ end
//@ extract mdb_shard/src/file_structs.rs const MDB_FILE_FLAG_WITH_VERIFICATION
//@ end
//@ extract mdb_shard/src/file_structs.rs const MDB_FILE_FLAG_VERIFICATION_MASK
//@ end
//@ extract mdb_shard/src/file_structs.rs const MDB_FILE_FLAG_WITH_METADATA_EXT
//@ end
//@ extract mdb_shard/src/file_structs.rs const MDB_FILE_FLAG_METADATA_EXT_MASK
//@ end

//@ include prelude/setops_actions.rs

// the table implies the property clauses (so the table is not just a transcript of the code)
proof fn lemma_key_table_meaning(k1: Option<MerkleHash>, k2: Option<MerkleHash>, op: MDBSetOperation, acts: [NextAction; 2])
    requires key_table(k1, k2, op) == Some((acts[0], acts[1])),
    ensures key_meaning(k1, k2, op, acts),
{
    match (k1, k2) {
        (Some(a), Some(b)) => { lemma_hash_order_total(a, b); }
        _ => {}
    }
}

//@ extract mdb_shard/src/set_operations.rs fn get_next_actions
//@ ret r
//@ contract
    ensures
        /*@C10*/ as_pair(r) == key_table(deref_opt(h1), deref_opt(h2), op),
        /*@C10*/ (h1 is None && h2 is None) <==> r is None,
        /*@C10*/ r is Some ==> key_meaning(deref_opt(h1), deref_opt(h2), op, r->0),
        /*@C10*/ gna_post(h1, h2, op, r),
//@ body-start
    proof { if h1 is Some && h2 is Some { lemma_hash_order_total(*h1->0, *h2->0); } }
//@ end

// ---- file-info flags -----------------------------------------------------------------------------------------------
proof fn lemma_flag_superset(a: u32, b: u32)
    ensures
        flag_superset(a, b) <==> (a & b == b),
        flag_superset(a, b) <==> (a | b == a),
        (flag_superset(a, b) && flag_superset(b, a)) <==> a == b,
{
    assert((b & !a == 0) <==> (a & b == b)) by (bit_vector);
    assert((b & !a == 0) <==> (a | b == a)) by (bit_vector);
    assert(((b & !a == 0) && (a & !b == 0)) <==> a == b) by (bit_vector);
}

// only the two defined flag bits may be set (bits 31 and 30; nothing in the repository ever sets another bit)
spec fn known_flags(f: u32) -> bool { f & !(MDB_FILE_FLAG_WITH_VERIFICATION | MDB_FILE_FLAG_WITH_METADATA_EXT) == 0 }
proof fn lemma_flag_consts()
    ensures MDB_FILE_FLAG_WITH_VERIFICATION == 0x8000_0000u32, MDB_FILE_FLAG_VERIFICATION_MASK == 0x8000_0000u32,
        MDB_FILE_FLAG_WITH_METADATA_EXT == 0x4000_0000u32, MDB_FILE_FLAG_METADATA_EXT_MASK == 0x4000_0000u32, MDB_DEFAULT_FILE_FLAG == 0u32,
{
    assert(1u32 << 31 == 0x8000_0000u32) by (bit_vector);
    assert(1u32 << 30 == 0x4000_0000u32) by (bit_vector);
}
proof fn lemma_merge_flags(a: u32, b: u32)
    ensures ({
        let v: u32 = 0x8000_0000; let m: u32 = 0x4000_0000;
        let h = (0u32 | (if (a & v != 0) || (b & v != 0) { v } else { 0u32 })) | (if (a & m != 0) || (b & m != 0) { m } else { 0u32 });
        &&& h == (a | b) & (v | m)
        &&& (a & !(v | m) == 0 && b & !(v | m) == 0) ==> h == a | b && a & !h == 0 && b & !h == 0
    }),
{
    let v: u32 = 0x8000_0000; let m: u32 = 0x4000_0000;
    let hv = if (a & v != 0) || (b & v != 0) { v } else { 0u32 };
    let hm = if (a & m != 0) || (b & m != 0) { m } else { 0u32 };
    assert(hv == (a | b) & v) by (bit_vector) requires v == 0x8000_0000u32, hv == (if (a & v != 0) || (b & v != 0) { v } else { 0u32 });
    assert(hm == (a | b) & m) by (bit_vector) requires m == 0x4000_0000u32, hm == (if (a & m != 0) || (b & m != 0) { m } else { 0u32 });
    let h = (0u32 | hv) | hm;
    assert(h == (a | b) & (v | m)) by (bit_vector) requires h == (0u32 | hv) | hm, hv == (a | b) & v, hm == (a | b) & m;
    assert((a & !(v | m) == 0 && b & !(v | m) == 0) ==> ((a | b) & (v | m)) == a | b) by (bit_vector);
    assert(a & !(a | b) == 0 && b & !(a | b) == 0) by (bit_vector);
}

impl FileDataSequenceHeader {
//@ extract mdb_shard/src/file_structs.rs in `impl FileDataSequenceHeader` fn compare_flag_superset
//@ ret r
//@ contract
    ensures
        /*@C10*/ r is Equal <==> header_a.file_flags == header_b.file_flags,
        /*@C10*/ r is SuperA <==> (header_a.file_flags != header_b.file_flags && flag_superset(header_a.file_flags, header_b.file_flags)),
        /*@C10*/ r is SuperB <==> (header_a.file_flags != header_b.file_flags && flag_superset(header_b.file_flags, header_a.file_flags)),
        /*@C10*/ r is Neither <==> (!flag_superset(header_a.file_flags, header_b.file_flags) && !flag_superset(header_b.file_flags, header_a.file_flags)),
//@ body-start
    proof { lemma_flag_superset(header_a.file_flags, header_b.file_flags); lemma_flag_superset(header_b.file_flags, header_a.file_flags); }
//@ end

//@ extract mdb_shard/src/file_structs.rs in `impl FileDataSequenceHeader` fn contains_metadata_ext
//@ ret r
//@ contract
    ensures r == (self.file_flags & MDB_FILE_FLAG_METADATA_EXT_MASK != 0),
//@ end
//@ extract mdb_shard/src/file_structs.rs in `impl FileDataSequenceHeader` fn contains_verification
//@ ret r
//@ contract
    ensures r == (self.file_flags & MDB_FILE_FLAG_VERIFICATION_MASK != 0),
//@ end
//@ extract mdb_shard/src/file_structs.rs in `impl FileDataSequenceHeader` fn new
//@ ret r
//@ contract
    requires
        // the `unwrap()` of the conversion: the entry count fits u32 (callers' obligation)
        <I as TryIntoSpec<u32>>::obeys_try_into_spec(), <I as TryIntoSpec<u32>>::try_into_spec(num_entries) is Ok,
    ensures
        r.file_hash == file_hash,
        Ok::<u32, <I as TryInto<u32>>::Error>(r.num_entries) == <I as TryIntoSpec<u32>>::try_into_spec(num_entries),
        r.file_flags == (MDB_DEFAULT_FILE_FLAG | (if contains_verification { MDB_FILE_FLAG_WITH_VERIFICATION } else { 0u32 })) | (if contains_metadata_ext { MDB_FILE_FLAG_WITH_METADATA_EXT } else { 0u32 }),
//@ end
}

//@ extract mdb_shard/src/set_operations.rs region set_operation
//@ from `let has_verification`
//@ to `has_metadata_ext, );`
//@ sig `fn merge_header(fh0: &FileDataSequenceHeader, fh1: &FileDataSequenceHeader) -> (header: FileDataSequenceHeader)`
//@ epilogue `header`
//@ contract
    // `Merge` is only ever issued for two records of the same file (file_meaning: is_merge ==> same file hash)
    requires fh0.file_hash == fh1.file_hash,
    ensures
        /*@C10*/ header.file_hash == fh0.file_hash,
        /*@C10*/ header.num_entries == fh0.num_entries,
        // the merged header carries the union of the two flag sets (over the defined flags: verification, metadata-ext)
        /*@C10*/ header.file_flags == (fh0.file_flags | fh1.file_flags) & (MDB_FILE_FLAG_WITH_VERIFICATION | MDB_FILE_FLAG_WITH_METADATA_EXT),
        /*@C10*/ (known_flags(fh0.file_flags) && known_flags(fh1.file_flags)) ==> header.file_flags == fh0.file_flags | fh1.file_flags,
        /*@C10*/ (known_flags(fh0.file_flags) && known_flags(fh1.file_flags)) ==> flag_superset(header.file_flags, fh0.file_flags) && flag_superset(header.file_flags, fh1.file_flags),
//@ body-start
    proof { axiom_u32_try_into_u32(fh0.num_entries); lemma_flag_consts(); lemma_merge_flags(fh0.file_flags, fh1.file_flags); }
//@ end

proof fn lemma_file_table_meaning(f1: Option<FileDataSequenceHeader>, f2: Option<FileDataSequenceHeader>, op: MDBSetOperation, acts: [NextAction; 2])
    requires file_table(f1, f2, op) == Some((acts[0], acts[1])),
    ensures file_meaning(f1, f2, op, acts),
{
    if f1 is Some && f2 is Some {
        lemma_flag_superset(f1->0.file_flags, f2->0.file_flags);
        lemma_flag_superset(f2->0.file_flags, f1->0.file_flags);
        lemma_hash_order_total(f1->0.file_hash, f2->0.file_hash);
    }
    if !(op is Union && f1 is Some && f2 is Some && f1->0.file_hash == f2->0.file_hash) {
        lemma_key_table_meaning(file_key(f1), file_key(f2), op, acts);
    }
}

//@ extract mdb_shard/src/set_operations.rs fn get_next_actions_for_file_info
//@ ret r
//@ rules setops.R17
//@ contract
    ensures
        /*@C10*/ as_pair(r) == file_table(deref_hdr(h1), deref_hdr(h2), op),
        /*@C10*/ (h1 is None && h2 is None) <==> r is None,
        /*@C10*/ r is Some ==> file_meaning(deref_hdr(h1), deref_hdr(h2), op, r->0),
        /*@C10*/ gnaf_post(h1, h2, op, r),
//@ body-start
    proof {
        if h1 is Some && h2 is Some {
            lemma_hash_order_total(h1->0.file_hash, h2->0.file_hash);
            lemma_flag_superset(h1->0.file_flags, h2->0.file_flags);
            lemma_flag_superset(h2->0.file_flags, h1->0.file_flags);
        }
    }
//@ end

} // verus!
fn main() {}
