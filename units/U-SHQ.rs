//@ unit U-SHQ
//@ props C05 C18
//@ verus-args --rlimit 100
//@ gsubst `impl AsRef<MerkleHash>` => `MerkleHash` :: R11 narrowing at the only instance used by the callers under proof (a `MerkleHash` by value; `as_ref` is then the identity impl of merklehash/src/data_hash.rs:83)
#![feature(allocator_api)]
#![allow(non_snake_case, unused)]
use vstd::prelude::*;
use std::mem::size_of;
verus! {
global size_of usize == 8;
type VxU64x4 = [u64; 4];
global size_of VxU64x4 == 32;   // checked by rustc (static assertion emitted by Verus)

//@ include prelude/ims_merklehash.rs

// ---- dependencies ---------------------------------------------------------------------------------------------------
pub type HMACKey = MerkleHash;
// blake3 keyed hash: opaque
pub uninterp spec fn spec_hmac(h: MerkleHash, key: MerkleHash) -> MerkleHash;
impl MerkleHash {
    #[verifier::external_body]
    pub fn hmac(&self, key: HMACKey) -> (r: MerkleHash) ensures r == spec_hmac(*self, key) { unimplemented!() }
    // `impl AsRef<DataHash> for DataHash { fn as_ref(&self) -> &DataHash { self } }`
    pub fn as_ref(&self) -> (r: &MerkleHash) ensures *r == *self { self }
}

pub struct IoError { pub x: u8 }                       // std::io::Error
pub enum MDBShardError { IOError(IoError), Other(u8) }  // mdb_shard::error::MDBShardError (`#[from] io::Error`)
impl vstd::std_specs::convert::FromSpecImpl<IoError> for MDBShardError {
    open spec fn obeys_from_spec() -> bool { true }
    open spec fn from_spec(e: IoError) -> Self { MDBShardError::IOError(e) }
}
impl From<IoError> for MDBShardError {
    fn from(e: IoError) -> (r: Self) { MDBShardError::IOError(e) }
}
pub type Result<T> = std::result::Result<T, MDBShardError>;
pub enum SeekFrom { Start(u64), End(i64), Current(i64) } // std::io::SeekFrom

// The reader: a positioned byte stream. `bytes` is the whole file, `pos` the cursor (may lie past the end).
pub trait VxStream {
    spec fn bytes(&self) -> Seq<u8>;
    spec fn pos(&self) -> int;
}
pub trait Read: VxStream { }
pub trait Seek: VxStream {
    // std::io::Seek::seek for files / cursors: absolute or relative repositioning, the content is untouched
    fn seek(&mut self, to: SeekFrom) -> (r: std::result::Result<u64, IoError>)
        ensures
            final(self).bytes() == old(self).bytes(),
            r is Ok ==> match to {
                SeekFrom::Start(n) => final(self).pos() == n,
                SeekFrom::Current(d) => final(self).pos() == old(self).pos() + d && final(self).pos() >= 0,
                SeekFrom::End(d) => final(self).pos() == old(self).bytes().len() + d && final(self).pos() >= 0,
            };
}

//@ extract mdb_shard/src/cas_structs.rs struct CASChunkSequenceHeader
//@ end
//@ extract mdb_shard/src/cas_structs.rs struct CASChunkSequenceEntry
//@ end
//@ extract mdb_shard/src/file_structs.rs struct FileDataSequenceEntry
//@ end
//@ extract mdb_shard/src/shard_format.rs struct MDBShardFileHeader
//@ end
//@ extract mdb_shard/src/shard_format.rs struct MDBShardFileFooter
//@ end
//@ extract mdb_shard/src/shard_format.rs struct MDBShardInfo
//@ end
//@ extract mdb_shard/src/shard_format.rs const MDB_CAS_INFO_ENTRY_SIZE
//@ subst `const MDB_CAS_INFO_ENTRY_SIZE: usize =` => `exec const MDB_CAS_INFO_ENTRY_SIZE: usize ensures MDB_CAS_INFO_ENTRY_SIZE == 48 {` :: Verus syntax for a constant computed by exec calls (`size_of`); the value 48 is a proof obligation
//@ subst `size_of::<u32>();` => `size_of::<u32>() }` :: closing brace of the exec-const block
//@ end

// ---- the 48-byte record codec (assumed here; field order checked against `serialize` by K-ENTRYCODEC) ---------------
uninterp spec fn decode_header(rec: Seq<u8>) -> CASChunkSequenceHeader;
uninterp spec fn decode_entry(rec: Seq<u8>) -> CASChunkSequenceEntry;

impl CASChunkSequenceHeader {
    // assumed: a successful call decoded the 48 bytes at the cursor and advanced it by 48
    #[verifier::external_body]
    fn deserialize<R: Read>(reader: &mut R) -> (r: std::result::Result<Self, IoError>)
        ensures
            final(reader).bytes() == old(reader).bytes(),
            r is Ok ==> 0 <= old(reader).pos() && old(reader).pos() + 48 <= old(reader).bytes().len()
                && final(reader).pos() == old(reader).pos() + 48
                && r->Ok_0 == decode_header(old(reader).bytes().subrange(old(reader).pos(), old(reader).pos() + 48)),
    { unimplemented!() }
}
impl CASChunkSequenceEntry {
    #[verifier::external_body]
    fn deserialize<R: Read>(reader: &mut R) -> (r: std::result::Result<Self, IoError>)
        ensures
            final(reader).bytes() == old(reader).bytes(),
            r is Ok ==> 0 <= old(reader).pos() && old(reader).pos() + 48 <= old(reader).bytes().len()
                && final(reader).pos() == old(reader).pos() + 48
                && r->Ok_0 == decode_entry(old(reader).bytes().subrange(old(reader).pos(), old(reader).pos() + 48)),
    { unimplemented!() }
}

// ---- shard view: the cas-info section is a flat run of 48-byte records starting at `base`; a block at flat index b is a
// header record followed by `num_entries` entry records -------------------------------------------------------------------
spec fn rec(bytes: Seq<u8>, base: int, idx: int) -> Seq<u8> { bytes.subrange(base + 48 * idx, base + 48 * idx + 48) }
spec fn blk_header(bytes: Seq<u8>, base: int, b: int) -> CASChunkSequenceHeader { decode_header(rec(bytes, base, b)) }
spec fn blk_entry(bytes: Seq<u8>, base: int, b: int, j: int) -> CASChunkSequenceEntry { decode_entry(rec(bytes, base, b + 1 + j)) }
spec fn blk_entries(bytes: Seq<u8>, base: int, b: int) -> Seq<CASChunkSequenceEntry> {
    Seq::new(blk_header(bytes, base, b).num_entries as nat, |j: int| blk_entry(bytes, base, b, j))
}
spec fn is_bookend(h: CASChunkSequenceHeader) -> bool { h.cas_hash == bookend_hash() }
pub uninterp spec fn bookend_hash() -> MerkleHash;
// flat indices of the block headers of the section, walking header -> next header until the bookend / end of file
spec fn block_starts(bytes: Seq<u8>, base: int, b: int, fuel: nat) -> Seq<int> decreases fuel {
    if fuel == 0 || b < 0 || base + 48 * b + 48 > bytes.len() || is_bookend(blk_header(bytes, base, b)) { Seq::empty() }
    else { seq![b] + block_starts(bytes, base, b + 1 + blk_header(bytes, base, b).num_entries, (fuel - 1) as nat) }
}
// the section as a sequence of (header, entries)
spec fn cas_section(bytes: Seq<u8>, base: int) -> Seq<(CASChunkSequenceHeader, Seq<CASChunkSequenceEntry>)> {
    block_starts(bytes, base, 0, bytes.len()).map(|i: int, b: int| (blk_header(bytes, base, b), blk_entries(bytes, base, b)))
}

spec fn sum_unpacked(s: Seq<CASChunkSequenceEntry>, a: int, b: int) -> int decreases b - a {
    if a >= b { 0 } else { sum_unpacked(s, a, b - 1) + s[b - 1].unpacked_segment_bytes as int }
}
proof fn lemma_sum_split(s: Seq<CASChunkSequenceEntry>, a: int, b: int, c: int)
    requires a <= b <= c,
    ensures sum_unpacked(s, a, c) == sum_unpacked(s, a, b) + sum_unpacked(s, b, c), sum_unpacked(s, a, b) >= 0, sum_unpacked(s, b, c) >= 0,
    decreases c - a,
{
    if b < c { lemma_sum_split(s, a, b, c - 1); }
    else if a < b { lemma_sum_split(s, a, b - 1, b - 1); assert(sum_unpacked(s, b, c) == 0); }
}

// keyed form of a query hash under the shard's key: hmac iff the key is not the zero key
spec fn keyed(key: MerkleHash, h: MerkleHash) -> MerkleHash { if key != zero_hash() { spec_hmac(h, key) } else { h } }

// C05 for an on-disk block: "the first n query hashes are stored in xorb X at chunks [a, a+n)" is true of the recorded
// (on-disk, possibly keyed) chunk hashes of X = (xh, xs), and the byte count is the sum of those chunks' lengths
spec fn truthful(xh: CASChunkSequenceHeader, xs: Seq<CASChunkSequenceEntry>, key: MerkleHash, q: Seq<MerkleHash>, n: int, fse: FileDataSequenceEntry) -> bool {
    &&& 1 <= n <= q.len()
    &&& fse.cas_hash == xh.cas_hash
    &&& fse.chunk_index_end == fse.chunk_index_start + n
    &&& fse.chunk_index_end <= xs.len()
    &&& forall|k: int| 0 <= k < n ==> (#[trigger] xs[fse.chunk_index_start + k]).chunk_hash == keyed(key, q[k])
    &&& fse.unpacked_segment_bytes == sum_unpacked(xs, fse.chunk_index_start as int, fse.chunk_index_end as int)
}

// a candidate position the lookup table of a well-formed shard can name: the block lies inside the file, the chunk offset
// inside the block, and the block's byte total fits the header's u32 `num_bytes_in_cas`
spec fn valid_pos(bytes: Seq<u8>, base: int, b: int, off: int) -> bool {
    &&& 0 <= base && 0 <= b
    &&& bytes.len() <= i64::MAX
    &&& base + 48 * (b + 1 + blk_header(bytes, base, b).num_entries) <= bytes.len()
    &&& 0 <= off < blk_header(bytes, base, b).num_entries
    &&& sum_unpacked(blk_entries(bytes, base, b), 0, blk_header(bytes, base, b).num_entries as int) <= u32::MAX
}

// what the chunk lookup table of a well-formed shard (as written by `serialize_from`) may name: a position inside a block
// of the cas section
spec fn lookup_pos_ok(bytes: Seq<u8>, base: int, b: int, off: int) -> bool {
    valid_pos(bytes, base, b, off) && block_starts(bytes, base, 0, bytes.len()).contains(b)
}
proof fn lemma_block_in_section(bytes: Seq<u8>, base: int, b: int)
    requires block_starts(bytes, base, 0, bytes.len()).contains(b),
    ensures exists|i: int| 0 <= i < cas_section(bytes, base).len()
        && #[trigger] cas_section(bytes, base)[i] == (blk_header(bytes, base, b), blk_entries(bytes, base, b)),
{
    let bs = block_starts(bytes, base, 0, bytes.len());
    let i = choose|i: int| 0 <= i < bs.len() && bs[i] == b;
    assert(cas_section(bytes, base)[i] == (blk_header(bytes, base, b), blk_entries(bytes, base, b)));
}

impl MDBShardInfo {
    // stub: interpolation search in the chunk lookup table (U-ISEARCH proves the search; the table *contents* are the
    // well-formedness assumption: every (cas index, chunk offset) it holds is a position inside a block of the cas section).
    // Nothing is assumed about *which* positions are returned, in particular not that their hashes match.
    #[verifier::external_body]
    fn get_cas_info_index_by_chunk<R: Read + Seek>(&self, reader: &mut R, unkeyed_chunk_hash: &MerkleHash, dest_indices: &mut [(u32, u32); 8]) -> (r: Result<usize>)
        ensures
            final(reader).bytes() == old(reader).bytes(),
            r is Ok ==> r->Ok_0 <= 8 && forall|k: int| 0 <= k < r->Ok_0 ==>
                lookup_pos_ok(old(reader).bytes(), self.metadata.cas_info_offset as int, (#[trigger] final(dest_indices)@[k]).0 as int, final(dest_indices)@[k].1 as int),
    { unimplemented!() }

//@ extract mdb_shard/src/shard_format.rs in `impl MDBShardInfo` fn chunk_hash_dedup_query
//@ ret r
//@ rules R4h
//@ contract
        ensures
            final(reader).bytes() == old(reader).bytes(),
            // C05: a reported match is a true statement about some block (header, entries) of the shard's cas section
            /*@C05,C18*/ match r {
                Ok(Some((n, fse))) => exists|i: int| 0 <= i < cas_section(old(reader).bytes(), self.metadata.cas_info_offset as int).len()
                    && #[trigger] truthful(cas_section(old(reader).bytes(), self.metadata.cas_info_offset as int)[i].0,
                                cas_section(old(reader).bytes(), self.metadata.cas_info_offset as int)[i].1,
                                self.metadata.chunk_hash_hmac_key, query_hashes@, n as int, fse),
                _ => true,
            },
//@ loop 1
            invariant
                reader.bytes() == old(reader).bytes(),
                num_indices <= 8,
                forall|k: int| 0 <= k < num_indices ==>
                    lookup_pos_ok(old(reader).bytes(), self.metadata.cas_info_offset as int, (#[trigger] dest_indices@[k]).0 as int, dest_indices@[k].1 as int),
            decreases 8 - vx_n1,
//@ before `return Ok(Some(cas));`
                proof {
                    let bytes = old(reader).bytes(); let base = self.metadata.cas_info_offset as int;
                    lemma_block_in_section(bytes, base, cas_index as int);
                    let i = choose|i: int| 0 <= i < cas_section(bytes, base).len()
                        && #[trigger] cas_section(bytes, base)[i] == (blk_header(bytes, base, cas_index as int), blk_entries(bytes, base, cas_index as int));
                    assert(truthful(cas_section(bytes, base)[i].0, cas_section(bytes, base)[i].1, self.metadata.chunk_hash_hmac_key, query_hashes@, cas.0 as int, cas.1));
                }
//@ end

//@ extract mdb_shard/src/shard_format.rs in `impl MDBShardInfo` fn keyed_chunk_hash
//@ ret r
//@ contract
        ensures /*@C05,C18*/ r == keyed(self.metadata.chunk_hash_hmac_key, chunk_hash),
//@ end

//@ extract mdb_shard/src/shard_format.rs in `impl MDBShardInfo` fn chunk_hash_dedup_query_direct
//@ ret r
//@ rules R4c
//@ contract
        requires
            valid_pos(old(reader).bytes(), self.metadata.cas_info_offset as int, cas_entry_index as int, cas_chunk_offset as int),
        ensures
            final(reader).bytes() == old(reader).bytes(),
            /*@C05,C18*/ match r {
                Ok(Some((n, fse))) => truthful(
                        blk_header(old(reader).bytes(), self.metadata.cas_info_offset as int, cas_entry_index as int),
                        blk_entries(old(reader).bytes(), self.metadata.cas_info_offset as int, cas_entry_index as int),
                        self.metadata.chunk_hash_hmac_key, unkeyed_query_hashes@, n as int, fse)
                    && fse.chunk_index_start == cas_chunk_offset
                    && fse.cas_flags == blk_header(old(reader).bytes(), self.metadata.cas_info_offset as int, cas_entry_index as int).cas_flags,
                _ => true,
            },
//@ body-start
        let ghost bytes = reader.bytes(); let ghost base = self.metadata.cas_info_offset as int;
        let ghost b = cas_entry_index as int; let ghost off = cas_chunk_offset as int;
        let ghost xs = blk_entries(bytes, base, b); let ghost key = self.metadata.chunk_hash_hmac_key;
        let ghost q = unkeyed_query_hashes@;
//@ loop 1
            invariant_except_break
                reader.pos() == base + 48 * (b + 1 + off + i),
            invariant
                reader.bytes() == bytes, bytes == old(reader).bytes(), bytes.len() <= i64::MAX, base == self.metadata.cas_info_offset, b == cas_entry_index, off == cas_chunk_offset,
                key == self.metadata.chunk_hash_hmac_key, q == unkeyed_query_hashes@,
                0 <= base, 0 <= b, 0 <= off,
                cas_header == blk_header(bytes, base, b), xs == blk_entries(bytes, base, b),
                xs.len() == cas_header.num_entries,
                sum_unpacked(xs, 0, xs.len() as int) <= u32::MAX,
                1 <= i <= q.len(),
                off + i <= cas_header.num_entries,
                n_bytes == sum_unpacked(xs, off, off + i),
                forall|k: int| 0 <= k < i ==> (#[trigger] xs[off + k]).chunk_hash == keyed(key, q[k]),
            ensures
                1 <= end_idx <= q.len(),
                off + end_idx <= cas_header.num_entries,
                n_bytes == sum_unpacked(xs, off, off + end_idx),
                forall|k: int| 0 <= k < end_idx ==> (#[trigger] xs[off + k]).chunk_hash == keyed(key, q[k]),
            decreases cas_header.num_entries - off - i,
//@ after `let mut n_bytes = first_chunk.unpacked_segment_bytes;`
        proof {
            assert(first_chunk == xs[off]);
            assert(sum_unpacked(xs, off, off) == 0);
        }
//@ before `n_bytes += chunk.unpacked_segment_bytes;`
            proof {
                assert(chunk == xs[off + i]);
                lemma_sum_split(xs, 0, off, off + i + 1); lemma_sum_split(xs, 0, off + i + 1, xs.len() as int);
            }
//@ end
}

} // verus!
fn main() {}
