//@ unit U-SHQ
//@ props C05 C18
//@ verus-args --rlimit 100
//@ gsubst `impl AsRef<MerkleHash>` => `MerkleHash` :: R11 narrowing at the only instance used by the callers under proof (a `MerkleHash` by value; `as_ref` is then the identity impl of merklehash/src/data_hash.rs:83)
//@ gsubst `PathBuf` => `VxPathBuf` :: R11 stub type (std::path::PathBuf; never inspected by the functions under proof)
//@ gsubst `SystemTime` => `VxSystemTime` :: R11 stub type (std::time::SystemTime; never inspected)
#![feature(allocator_api)]
#![allow(non_snake_case, unused)]
use vstd::prelude::*;
use std::mem::size_of;
verus! {
global size_of usize == 8;
type VxU64x4 = [u64; 4];
global size_of VxU64x4 == 32;   // checked by rustc (static assertion emitted by Verus)

//@ include prelude/ims_merklehash.rs

//@ include prelude/shq_io.rs


//@ extract mdb_shard/src/cas_structs.rs struct CASChunkSequenceHeader
//@ end
//@ extract mdb_shard/src/cas_structs.rs struct CASChunkSequenceEntry
//@ end
//@ extract mdb_shard/src/file_structs.rs struct FileDataSequenceEntry
//@ end
//@ extract mdb_shard/src/shard_format.rs struct MDBShardFileHeader
//@ end
//@ extract mdb_shard/src/shard_format.rs struct MDBShardFileFooter
//@ end
//@ extract mdb_shard/src/shard_format.rs struct MDBShardInfo
//@ end
pub struct VxPathBuf { pub x: u8 }
pub struct VxSystemTime { pub x: u8 }
//@ extract mdb_shard/src/shard_file_handle.rs struct MDBShardFile
//@ end
//@ extract mdb_shard/src/shard_format.rs const MDB_CAS_INFO_ENTRY_SIZE
//@ subst `const MDB_CAS_INFO_ENTRY_SIZE: usize =` => `exec const MDB_CAS_INFO_ENTRY_SIZE: usize ensures MDB_CAS_INFO_ENTRY_SIZE == 48 {` :: Verus syntax for a constant computed by exec calls (`size_of`); the value 48 is a proof obligation
//@ subst `size_of::<u32>();` => `size_of::<u32>() }` :: closing brace of the exec-const block
//@ end

//@ include prelude/ims_sum.rs
//@ include prelude/shq_truthful.rs
//@ include prelude/shq_vocab.rs


impl CASChunkSequenceHeader {
    // assumed: a successful call decoded the 48 bytes at the cursor and advanced it by 48
    #[verifier::external_body]
    fn deserialize<R: Read>(reader: &mut R) -> (r: std::result::Result<Self, IoError>)
        ensures
            final(reader).bytes() == old(reader).bytes(),
            r is Ok ==> 0 <= old(reader).pos() && old(reader).pos() + 48 <= old(reader).bytes().len()
                && final(reader).pos() == old(reader).pos() + 48
                && r->Ok_0 == decode_header(old(reader).bytes().subrange(old(reader).pos(), old(reader).pos() + 48)),
    { unimplemented!() }
}
impl CASChunkSequenceEntry {
    #[verifier::external_body]
    fn deserialize<R: Read>(reader: &mut R) -> (r: std::result::Result<Self, IoError>)
        ensures
            final(reader).bytes() == old(reader).bytes(),
            r is Ok ==> 0 <= old(reader).pos() && old(reader).pos() + 48 <= old(reader).bytes().len()
                && final(reader).pos() == old(reader).pos() + 48
                && r->Ok_0 == decode_entry(old(reader).bytes().subrange(old(reader).pos(), old(reader).pos() + 48)),
    { unimplemented!() }
}

proof fn lemma_sum_split(s: Seq<CASChunkSequenceEntry>, a: int, b: int, c: int)
    requires a <= b <= c,
    ensures sum_unpacked(s, a, c) == sum_unpacked(s, a, b) + sum_unpacked(s, b, c), sum_unpacked(s, a, b) >= 0, sum_unpacked(s, b, c) >= 0,
    decreases c - a,
{
    if b < c { lemma_sum_split(s, a, b, c - 1); }
    else if a < b { lemma_sum_split(s, a, b - 1, b - 1); assert(sum_unpacked(s, b, c) == 0); }
}

proof fn lemma_block_in_section(bytes: Seq<u8>, base: int, b: int)
    requires block_starts(bytes, base, 0, bytes.len()).contains(b),
    ensures exists|i: int| 0 <= i < cas_section(bytes, base).len()
        && #[trigger] cas_section(bytes, base)[i] == (blk_header(bytes, base, b), blk_entries(bytes, base, b)),
{
    let bs = block_starts(bytes, base, 0, bytes.len());
    let i = choose|i: int| 0 <= i < bs.len() && bs[i] == b;
    assert(cas_section(bytes, base)[i] == (blk_header(bytes, base, b), blk_entries(bytes, base, b)));
}

impl MDBShardInfo {
    // stub: interpolation search in the chunk lookup table (U-ISEARCH proves the search; the table *contents* are the
    // well-formedness assumption: every (cas index, chunk offset) it holds is a position inside a block of the cas section).
    // Nothing is assumed about *which* positions are returned, in particular not that their hashes match.
    #[verifier::external_body]
    fn get_cas_info_index_by_chunk<R: Read + Seek>(&self, reader: &mut R, unkeyed_chunk_hash: &MerkleHash, dest_indices: &mut [(u32, u32); 8]) -> (r: Result<usize>)
        ensures
            final(reader).bytes() == old(reader).bytes(),
            r is Ok ==> r->Ok_0 <= 8 && forall|k: int| 0 <= k < r->Ok_0 ==>
                lookup_pos_ok(old(reader).bytes(), self.metadata.cas_info_offset as int, (#[trigger] final(dest_indices)@[k]).0 as int, final(dest_indices)@[k].1 as int),
    { unimplemented!() }

//@ extract mdb_shard/src/shard_format.rs in `impl MDBShardInfo` fn chunk_hash_dedup_query
//@ ret r
//@ rules shq.R4h
//@ contract
        ensures
            final(reader).bytes() == old(reader).bytes(),
            // C05: a reported match is a true statement about some block (header, entries) of the shard's cas section
            /*@C05,C18*/ match r {
                Ok(Some((n, fse))) => exists|i: int| 0 <= i < cas_section(old(reader).bytes(), self.metadata.cas_info_offset as int).len()
                    && #[trigger] truthful(cas_section(old(reader).bytes(), self.metadata.cas_info_offset as int)[i].0,
                                cas_section(old(reader).bytes(), self.metadata.cas_info_offset as int)[i].1,
                                self.metadata.chunk_hash_hmac_key, query_hashes@, n as int, fse),
                _ => true,
            },
//@ loop 1
            invariant
                reader.bytes() == old(reader).bytes(),
                num_indices <= 8,
                forall|k: int| 0 <= k < num_indices ==>
                    lookup_pos_ok(old(reader).bytes(), self.metadata.cas_info_offset as int, (#[trigger] dest_indices@[k]).0 as int, dest_indices@[k].1 as int),
            decreases 8 - vx_n1,
//@ before `return Ok(Some(cas));`
                proof {
                    let bytes = old(reader).bytes(); let base = self.metadata.cas_info_offset as int;
                    lemma_block_in_section(bytes, base, cas_index as int);
                    let i = choose|i: int| 0 <= i < cas_section(bytes, base).len()
                        && #[trigger] cas_section(bytes, base)[i] == (blk_header(bytes, base, cas_index as int), blk_entries(bytes, base, cas_index as int));
                    assert(truthful(cas_section(bytes, base)[i].0, cas_section(bytes, base)[i].1, self.metadata.chunk_hash_hmac_key, query_hashes@, cas.0 as int, cas.1));
                }
//@ end

//@ extract mdb_shard/src/shard_format.rs in `impl MDBShardInfo` fn keyed_chunk_hash
//@ ret r
//@ contract
        ensures /*@C05,C18*/ r == keyed(self.metadata.chunk_hash_hmac_key, chunk_hash),
//@ end

//@ extract mdb_shard/src/shard_format.rs in `impl MDBShardInfo` fn chunk_hash_dedup_query_direct
//@ ret r
//@ rules R4c
//@ contract
        requires
            direct_pre(old(reader).bytes(), *self, cas_entry_index, cas_chunk_offset),
        ensures
            final(reader).bytes() == old(reader).bytes(),
            /*@C05,C18*/ direct_post(old(reader).bytes(), *self, unkeyed_query_hashes@, cas_entry_index, cas_chunk_offset, r),
//@ body-start
        let ghost bytes = reader.bytes(); let ghost base = self.metadata.cas_info_offset as int;
        let ghost b = cas_entry_index as int; let ghost off = cas_chunk_offset as int;
        let ghost xs = blk_entries(bytes, base, b); let ghost key = self.metadata.chunk_hash_hmac_key;
        let ghost q = unkeyed_query_hashes@;
//@ loop 1
            invariant_except_break
                reader.pos() == base + 48 * (b + 1 + off + i),
            invariant
                reader.bytes() == bytes, bytes == old(reader).bytes(), bytes.len() <= i64::MAX, base == self.metadata.cas_info_offset, b == cas_entry_index, off == cas_chunk_offset,
                key == self.metadata.chunk_hash_hmac_key, q == unkeyed_query_hashes@,
                0 <= base, 0 <= b, 0 <= off,
                cas_header == blk_header(bytes, base, b), xs == blk_entries(bytes, base, b),
                xs.len() == cas_header.num_entries,
                sum_unpacked(xs, 0, xs.len() as int) <= u32::MAX,
                1 <= i <= q.len(),
                off + i <= cas_header.num_entries,
                n_bytes == sum_unpacked(xs, off, off + i),
                forall|k: int| 0 <= k < i ==> (#[trigger] xs[off + k]).chunk_hash == keyed(key, q[k]),
            ensures
                1 <= end_idx <= q.len(),
                off + end_idx <= cas_header.num_entries,
                n_bytes == sum_unpacked(xs, off, off + end_idx),
                forall|k: int| 0 <= k < end_idx ==> (#[trigger] xs[off + k]).chunk_hash == keyed(key, q[k]),
            decreases cas_header.num_entries - off - i,
//@ after `let mut n_bytes = first_chunk.unpacked_segment_bytes;`
        proof {
            // carries the property: the record the code decoded after its two seeks IS entry `off` of the block the contract speaks about
            /*@C05,C18*/ assert(first_chunk == xs[off]);
            assert(sum_unpacked(xs, off, off) == 0);
        }
//@ before `n_bytes += chunk.unpacked_segment_bytes;`
            proof {
                // carries the property: the record compared in this iteration IS entry off+i of that block
                /*@C05,C18*/ assert(chunk == xs[off + i]);
                lemma_sum_split(xs, 0, off, off + i + 1); lemma_sum_split(xs, 0, off + i + 1, xs.len() as int);
            }
//@ end
}


// ---- the file-handle wrapper the shard manager calls ------------------------------------------------------------------
// `BufReader<std::fs::File>` opened on `self.path`
pub struct VxFileReader { pub x: u8 }
impl VxStream for VxFileReader {
    uninterp spec fn bytes(&self) -> Seq<u8>;
    uninterp spec fn pos(&self) -> int;
}
impl Read for VxFileReader { }
impl Seek for VxFileReader {
    #[verifier::external_body]
    fn seek(&mut self, to: SeekFrom) -> (r: std::result::Result<u64, IoError>) { unimplemented!() }
}
impl MDBShardFile {
    // stub: opens the shard file; `Ok(None)` when it has been deleted meanwhile. A reader it yields reads the file's content.
    #[verifier::external_body]
    fn get_reader_if_present(&self) -> (r: Result<Option<VxFileReader>>)
        ensures r matches Ok(Some(rd)) ==> rd.bytes() == file_bytes(*self),
    { unimplemented!() }

//@ extract mdb_shard/src/shard_file_handle.rs in `impl MDBShardFile` fn chunk_hash_dedup_query_direct
//@ ret r
//@ contract
        requires direct_pre(file_bytes(*self), self.shard, cas_block_index, cas_chunk_offset),
        ensures /*@C05,C18*/ direct_post(file_bytes(*self), self.shard, query_hashes@, cas_block_index, cas_chunk_offset, r),
//@ end
}

} // verus!
fn main() {}
