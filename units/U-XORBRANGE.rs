//@ unit U-XORBRANGE
//@ props C07
//@ verus-args --rlimit 100
//@ rules-from xorbidx
//@ gsubst `anyhow::Error` => `AnyhowError` :: R11 stub type for the anyhow dependency (opaque error value)
//@ gsubst `std::io::Error` => `IoError` :: R11 stub type (opaque error value)
//@ gsubst `lz4_flex::frame::Error` => `Lz4Error` :: R11 stub type (opaque error value)
//@ gsubst `Infallible` => `VxInfallible` :: R11 stub type (opaque error value)
//@ gsubst `DataHash` => `MerkleHash` :: `merklehash::MerkleHash` is an alias of `DataHash` (merklehash/src/lib.rs:49)
//@ gsubst `std::io::SeekFrom` => `SeekFrom` :: R11 stub enum for std::io::SeekFrom (same variants)
#![allow(non_snake_case, unused)]
use vstd::prelude::*;
verus! {
global size_of usize == 8;

//@ include prelude/xorbidx_types.rs
//@ include prelude/xorbidx_codec.rs
//@ include prelude/xorbidx_chunkspec.rs

//@ extract cas_object/src/error.rs enum CasObjectError
//@ end
//@ extract cas_object/src/cas_object_format.rs type CasObjectIdent
//@ end
//@ extract cas_object/src/cas_object_format.rs const CAS_OBJECT_FORMAT_BOUNDARIES_VERSION
//@ end
//@ extract cas_object/src/cas_object_format.rs struct CasObjectInfoV1
//@ end
//@ extract cas_object/src/cas_object_format.rs struct CasObject
//@ end

// ---- reader stubs (R11): ghost bytes + position ---------------------------------------------------------------------------------------
pub enum SeekFrom { Start(u64), End(i64), Current(i64) }
pub trait Read {
    spec fn bytes(&self) -> Seq<u8>;
    spec fn pos(&self) -> nat;
    fn read_exact(&mut self, buf: &mut [u8]) -> (r: Result<(), IoError>)
        ensures
            final(self).bytes() == old(self).bytes(), final(buf)@.len() == old(buf)@.len(),
            r is Ok ==> old(self).pos() + old(buf)@.len() <= old(self).bytes().len()
                && final(buf)@ == old(self).bytes().subrange(old(self).pos() as int, (old(self).pos() + old(buf)@.len()) as int)
                && final(self).pos() == old(self).pos() + old(buf)@.len();
}
pub trait Seek: Read {
    fn seek(&mut self, p: SeekFrom) -> (r: Result<u64, IoError>)
        ensures
            final(self).bytes() == old(self).bytes(),
            r matches Ok(n) ==> final(self).pos() == n && match p {
                SeekFrom::Start(x) => n == x,
                SeekFrom::End(d) => n == old(self).bytes().len() + d,
                SeekFrom::Current(d) => n == old(self).pos() + d,
            };
}
// std::io::Cursor<&[u8]> with bytes::Buf::has_remaining
pub struct Cursor { pub ghost data: Seq<u8>, pub ghost p: nat }
impl Cursor {
    #[verifier::external_body]
    fn new(inner: &[u8]) -> (c: Cursor) ensures c.data == inner@, c.p == 0 { unimplemented!() }
    #[verifier::external_body]
    fn has_remaining(&self) -> (r: bool) ensures r == (self.p < self.data.len()) { unimplemented!() }
}
impl Read for Cursor {
    open spec fn bytes(&self) -> Seq<u8> { self.data }
    open spec fn pos(&self) -> nat { self.p }
    #[verifier::external_body]
    fn read_exact(&mut self, buf: &mut [u8]) -> (r: Result<(), IoError>) { unimplemented!() }
}
// the synchronous single-chunk decoder: exactly the contract PROVED for cas_chunk_format.rs::deserialize_chunk in U-CHUNKDEC.
// `single_ok_sync`, not `single_ok`: afterwards the reader stands behind what the codec CONSUMED (chunk_next_sync), which is the end of the declared
// payload only for a frame-exact chunk (lz4_flex's frame decoder stops at the end mark; U-CODEC).  The range readers below therefore walk, and are
// specified along, chunk_next_sync; on serializer output (frame-exact chunks) that is the boundary table's walk (property level, below).
#[verifier::external_body]
fn deserialize_chunk<R: Read>(reader: &mut R) -> (r: Result<(Vec<u8>, usize, u32), CasObjectError>)
    ensures
        final(reader).bytes() == old(reader).bytes(),
        r matches Ok((buf, c, u)) ==> single_ok_sync(old(reader).bytes(), old(reader).pos(), Seq::empty(), buf@, final(reader).pos(), (c, u)),
{ unimplemented!() }
// `<[T] as AsRef<[T]>>::as_ref` is the identity (std)
pub assume_specification<T> [<[T] as std::convert::AsRef<[T]>>::as_ref] (s: &[T]) -> (r: &[T]) ensures r@ == s@;
// std::cmp::min (no vstd spec): verified shadow
fn min(a: u32, b: u32) -> (r: u32) ensures r == (if a <= b { a } else { b }) { if a <= b { a } else { b } }
// verification hash of a chunk-hash range: the same uninterpreted function as in U-DEDUP (mdb_shard::chunk_verification)
pub uninterp spec fn range_hash_spec(hs: Seq<MerkleHash>) -> MerkleHash;
#[verifier::external_body]
fn range_hash_from_chunks(chunks: &[MerkleHash]) -> (r: MerkleHash) ensures r == range_hash_spec(chunks@) { unimplemented!() }

// ---- tables (as in U-XORBIDX) --------------------------------------------------------------------------------------------------------------
pub open spec fn nondecreasing(t: Seq<u32>) -> bool { forall|i: int, j: int| 0 <= i <= j < t.len() ==> t[i] <= t[j] }
pub open spec fn prev_or_zero(t: Seq<u32>, i: int) -> int { if i <= 0 { 0 } else { t[i - 1] as int } }
pub proof fn lemma_trunc_le(len: usize) ensures (len as u32) as usize <= len { assert((len as u32) as usize <= len) by (bit_vector); }
// decoding a byte string chunk after chunk the way the sync decoder walks it: d_0 ++ d_1 ++ ... until the end, the next chunk starting where the
// codec stopped reading (chunk_next_sync; = behind the declared payload when the chunk is frame-exact)
pub open spec fn decode_from(bytes: Seq<u8>, pos: nat) -> Seq<u8> decreases (if pos < bytes.len() { bytes.len() - pos } else { 0 }) {
    if pos >= bytes.len() { Seq::empty() } else { chunk_data(bytes, pos) + decode_from(bytes, chunk_next_sync(bytes, pos)) }
}

proof fn lemma_contents_step(b: Seq<u8>, p: nat, res: Seq<u8>, d: Seq<u8>)
    requires p < b.len(), d == Seq::<u8>::empty() + chunk_data(b, p),
    ensures (res + d) + decode_from(b, chunk_next_sync(b, p)) == res + decode_from(b, p),
{
    assert(Seq::<u8>::empty() + chunk_data(b, p) =~= chunk_data(b, p));
    assert(decode_from(b, p) == chunk_data(b, p) + decode_from(b, chunk_next_sync(b, p)));
    assert((res + d) + decode_from(b, chunk_next_sync(b, p)) =~= res + (d + decode_from(b, chunk_next_sync(b, p))));
}

impl CasObject {
    spec fn info_complete(&self) -> bool {
        &&& self.info.num_chunks != 0
        &&& self.info.num_chunks == self.info.chunk_boundary_offsets@.len() as u32
        &&& self.info.num_chunks == self.info.chunk_hashes@.len() as u32
        &&& (self.info.boundaries_version == CAS_OBJECT_FORMAT_BOUNDARIES_VERSION ==> self.info.num_chunks == self.info.unpacked_chunk_offsets@.len() as u32)
        &&& self.info.cashash != zero_hash()
    }
    spec fn contents_len(&self) -> int { prev_or_zero(self.info.chunk_boundary_offsets@, self.info.chunk_boundary_offsets@.len() as int) }

// (validate_cas_object_info and get_byte_offset: same text and contracts as in U-XORBIDX, re-verified here because the range readers call them)
//@ extract cas_object/src/cas_object_format.rs in `impl CasObject` fn validate_cas_object_info
//@ ret r
//@ rules R15
//@ contract
        ensures match r { Ok(()) => self.info_complete(), Err(e) => !self.info_complete() && e is FormatError },
//@ end
//@ extract cas_object/src/cas_object_format.rs in `impl CasObject` fn get_byte_offset
//@ ret r
//@ contract
        ensures
            /*@C07*/ match r {
                Ok((s, e)) => self.info_complete()
                    && chunk_index_start < chunk_index_end <= self.info.num_chunks
                    && chunk_index_end <= self.info.chunk_boundary_offsets@.len()
                    && s == prev_or_zero(self.info.chunk_boundary_offsets@, chunk_index_start as int)
                    && e == self.info.chunk_boundary_offsets@[chunk_index_end - 1],
                Err(e) => (!self.info_complete() && e is FormatError)
                    || (self.info_complete() && !(chunk_index_start < chunk_index_end <= self.info.num_chunks) && e is InvalidArguments),
            },
//@ before `let byte_offset_start`
        proof { lemma_trunc_le(self.info.chunk_boundary_offsets.len()); }
//@ end

//@ extract cas_object/src/cas_object_format.rs in `impl CasObject` fn get_contents_length
//@ ret r
//@ rules R15
//@ contract
        ensures
            /*@C07*/ match r {
                Ok(c) => self.info_complete() && self.info.chunk_boundary_offsets@.len() > 0 && c == self.contents_len(),
                Err(e) => e is FormatError,
            },
//@ end

//@ extract cas_object/src/cas_object_format.rs in `impl CasObject` fn get_chunk_contents
//@ ret r
//@ subst `Cursor::new(chunk_data)` => `Cursor::new(chunk_data)` :: (R11: the unit's Cursor stub; no textual change)
//@ contract
        ensures
            /*@C07*/ r matches Ok(v) ==> v@ == decode_from(chunk_data@, 0),
//@ loop 1
            invariant
                /*@AUX*/ reader.data == chunk_data@,
                /*@C07*/ res@ + decode_from(chunk_data@, reader.p) == decode_from(chunk_data@, 0),
            decreases chunk_data@.len() - reader.p,
//@ before `res.extend_from_slice(&data);`
            proof { lemma_contents_step(reader.data, p_before, res@, data@); }
//@ before `let (data, _, _) = deserialize_chunk`
            let ghost p_before = reader.p;
//@ before `Ok(res)`
        proof { assert(res@ + Seq::<u8>::empty() =~= res@); }
//@ end

//@ extract cas_object/src/cas_object_format.rs in `impl CasObject` fn get_range
//@ ret r
//@ contract
        requires
            // `end - byte_start` with end = min(byte_end, contents length): the start must not lie behind the last chunk boundary
            // (guaranteed by the two callers only if the boundary table is non-decreasing -- see get_bytes_by_chunk_range)
            self.info_complete() ==> byte_start <= self.contents_len(),
        ensures
            /*@AUX*/ final(reader).bytes() == old(reader).bytes(),
            /*@C07*/ r matches Ok(v) ==> ({
                let end = if byte_end <= self.contents_len() { byte_end as int } else { self.contents_len() };
                &&& byte_start <= byte_end && self.info_complete() && end <= old(reader).bytes().len()
                // the decoded chunks of exactly the byte interval [byte_start, min(byte_end, contents length)) of the object
                &&& v@ == decode_from(old(reader).bytes().subrange(byte_start as int, end), 0)
            }),
            /*@C07*/ byte_end < byte_start ==> (r matches Err(e) && e is InvalidRange),
//@ end

//@ extract cas_object/src/cas_object_format.rs in `impl CasObject` fn get_all_bytes
//@ ret r
//@ contract
        ensures
            /*@AUX*/ final(reader).bytes() == old(reader).bytes(),
            /*@C07*/ r matches Ok(v) ==> self.info_complete() && self.contents_len() <= old(reader).bytes().len()
                && v@ == decode_from(old(reader).bytes().subrange(0, self.contents_len()), 0),
//@ end

//@ extract cas_object/src/cas_object_format.rs in `impl CasObject` fn get_bytes_by_chunk_range
//@ ret r
//@ contract
        requires
            // (see get_range) with a decreasing boundary table the start offset can lie behind the last boundary and `end - byte_start` underflows
            nondecreasing(self.info.chunk_boundary_offsets@),
        ensures
            /*@AUX*/ final(reader).bytes() == old(reader).bytes(),
            /*@C07*/ r matches Ok(v) ==> ({
                let t = self.info.chunk_boundary_offsets@;
                &&& self.info_complete() && chunk_index_start < chunk_index_end <= self.info.num_chunks && chunk_index_end <= t.len()
                &&& t[chunk_index_end - 1] <= old(reader).bytes().len()
                // bytes [boundary(start-1), boundary(end-1)) of the object, decoded chunk by chunk
                &&& v@ == decode_from(old(reader).bytes().subrange(prev_or_zero(t, chunk_index_start as int), t[chunk_index_end - 1] as int), 0)
            }),
            // bounds errors exactly as coded in get_byte_offset: start >= end or end > num_chunks
            /*@C07*/ self.info_complete() && !(chunk_index_start < chunk_index_end <= self.info.num_chunks) ==> (r matches Err(e) && e is InvalidArguments),
            /*@C07*/ !self.info_complete() ==> (r matches Err(e) && e is FormatError),
//@ before `self.get_range(reader, byte_start, byte_end)`
        proof {
            lemma_trunc_le(self.info.chunk_boundary_offsets.len());
            let t = self.info.chunk_boundary_offsets@;
            assert(t[chunk_index_end - 1] <= t[t.len() - 1]);
            if chunk_index_start > 0 { assert(t[chunk_index_start - 1] <= t[t.len() - 1]); }
        }
//@ end

//@ extract cas_object/src/cas_object_format.rs in `impl CasObject` fn generate_chunk_range_hash
//@ ret r
//@ contract
        ensures
            /*@C07*/ match r {
                Ok(h) => self.info_complete() && chunk_start_index < chunk_end_index <= self.info.num_chunks && chunk_end_index <= self.info.chunk_hashes@.len()
                    && h == range_hash_spec(self.info.chunk_hashes@.subrange(chunk_start_index as int, chunk_end_index as int)),
                Err(e) => (!self.info_complete() && e is FormatError)
                    || (self.info_complete() && !(chunk_start_index < chunk_end_index <= self.info.num_chunks) && e is InvalidArguments),
            },
//@ before `let range_hashes`
        proof { lemma_trunc_le(self.info.chunk_hashes.len()); }
//@ end
}

// ==== property level: what the range readers return in terms of the chunks of the object ====================================================
// payload layout: chunk i occupies exactly [boundary(i-1), boundary(i)), starts with a well-formed header and is frame-exact (no slack between the
// end of its lz4 frame and the end of its declared payload -- otherwise the sync walk of the range readers leaves the boundary table's positions)
spec fn tiled(bytes: Seq<u8>, t: Seq<u32>) -> bool {
    forall|i: int| 0 <= i < t.len() ==> {
        let q = prev_or_zero(t, i) as nat;
        &&& q + 8 + chunk_clen(bytes, q) == #[trigger] t[i] && t[i] <= bytes.len()
        &&& frame_exact_at(bytes, q)
    }
}
// d_a ++ d_{a+1} ++ ... ++ d_{b-1}, d_i = decode(chunk i)
spec fn dec_range(bytes: Seq<u8>, t: Seq<u32>, a: int, b: int) -> Seq<u8> decreases b - a {
    if a >= b { Seq::empty() } else { chunk_data(bytes, prev_or_zero(t, a) as nat) + dec_range(bytes, t, a + 1, b) }
}
proof fn lemma_tiled_mono(bytes: Seq<u8>, t: Seq<u32>, i: int, j: int)
    requires tiled(bytes, t), 0 <= i <= j <= t.len(),
    ensures prev_or_zero(t, i) <= prev_or_zero(t, j),
    decreases j - i,
{
    if i < j { lemma_tiled_mono(bytes, t, i, j - 1); assert(t[j - 1] >= prev_or_zero(t, j - 1)); }
}
// a chunk that lies inside a sub-interval [s, e) of the object looks the same in the sub-slice
proof fn lemma_chunk_in_slice(bytes: Seq<u8>, s: int, e: int, q: nat)
    requires 0 <= s, s + q + 8 + chunk_clen(bytes, (s + q) as nat) <= e <= bytes.len(),
    ensures ({
        let sub = bytes.subrange(s, e);
        &&& chunk_clen(sub, q) == chunk_clen(bytes, (s + q) as nat)
        &&& chunk_data(sub, q) == chunk_data(bytes, (s + q) as nat)
        &&& chunk_next(sub, q) + s == chunk_next(bytes, (s + q) as nat)
        &&& chunk_next_sync(sub, q) + s == chunk_next_sync(bytes, (s + q) as nat)
        &&& frame_exact_at(sub, q) == frame_exact_at(bytes, (s + q) as nat)
    }),
{
    let sub = bytes.subrange(s, e);
    let p = (s + q) as nat;
    assert(sub[q as int + 1] == bytes[p as int + 1] && sub[q as int + 2] == bytes[p as int + 2] && sub[q as int + 3] == bytes[p as int + 3]);
    assert(sub[q as int + 4] == bytes[p as int + 4]);
    assert(chunk_clen(sub, q) == chunk_clen(bytes, p));
    assert(chunk_avail(sub, q) == chunk_clen(bytes, p) && chunk_avail(bytes, p) == chunk_clen(bytes, p));
    assert(chunk_payload(sub, q) =~= chunk_payload(bytes, p));
}
proof fn lemma_decode_range(bytes: Seq<u8>, t: Seq<u32>, a: int, b: int, i: int)
    requires tiled(bytes, t), 0 <= a <= i <= b <= t.len(),
    ensures
        prev_or_zero(t, a) <= prev_or_zero(t, i) <= prev_or_zero(t, b) <= bytes.len(),
        decode_from(bytes.subrange(prev_or_zero(t, a), prev_or_zero(t, b)), (prev_or_zero(t, i) - prev_or_zero(t, a)) as nat) == dec_range(bytes, t, i, b),
    decreases b - i,
{
    lemma_tiled_mono(bytes, t, a, i); lemma_tiled_mono(bytes, t, i, b);
    if b > 0 { assert(t[b - 1] <= bytes.len()); }
    let s = prev_or_zero(t, a); let e = prev_or_zero(t, b);
    let sub = bytes.subrange(s, e);
    let q = (prev_or_zero(t, i) - s) as nat;
    if i == b {
        assert(q >= sub.len());
    } else {
        lemma_tiled_mono(bytes, t, i + 1, b);
        assert(prev_or_zero(t, i + 1) == t[i]);
        assert(prev_or_zero(t, i) + 8 + chunk_clen(bytes, prev_or_zero(t, i) as nat) == t[i]);
        lemma_chunk_in_slice(bytes, s, e, q);
        assert(q < sub.len());
        assert(frame_exact_at(bytes, prev_or_zero(t, i) as nat));
        assert(chunk_next_sync(sub, q) == (t[i] - s) as nat);
        lemma_decode_range(bytes, t, a, b, i + 1);
    }
}
// C07 (range read): for an object whose payload is tiled by the boundary table, what `get_bytes_by_chunk_range(a, b)` returns (its Ok
// postcondition) is the concatenation of the decoded chunks a..b; `get_all_bytes` is the case [0, n)
proof fn lemma_range_read_is_chunk_concat(bytes: Seq<u8>, t: Seq<u32>, a: int, b: int)
    requires tiled(bytes, t), 0 <= a < b <= t.len(),
    ensures /*@C07*/ decode_from(bytes.subrange(prev_or_zero(t, a), t[b - 1] as int), 0) == dec_range(bytes, t, a, b),
{
    lemma_decode_range(bytes, t, a, b, a);
}

// ---- round trip with the serializer -------------------------------------------------------------------------------------------------------
// what U-CHUNKSER proves serialize_chunk appends for `chunk`, found at `pos` (same predicate as in U-CHUNKDEC)
spec fn serialized_at(bytes: Seq<u8>, pos: nat, chunk: Seq<u8>) -> bool {
    &&& well_formed_at(bytes, pos)
    &&& chunk_ulen(bytes, pos) == chunk.len()
    &&& chunk_scheme(bytes, pos) matches Some(hs) && decode_spec(hs, bytes.subrange(pos as int + 8, pos as int + 8 + chunk_clen(bytes, pos))) == chunk
        && frame_exact(hs, bytes.subrange(pos as int + 8, pos as int + 8 + chunk_clen(bytes, pos)))   // (U-CHUNKSER: last conjunct of serialize_chunk's post)
}
// what CasObject::serialize produces (U-XORBIDX: boundary[i] = sum of the written sizes, unpacked_chunk_offsets[i] = ub[i]) with every chunk
// written by serialize_chunk (U-CHUNKSER) one after the other: chunk i of `data` (bytes ub[i-1]..ub[i]) sits at boundary(i-1), is 8 + clen long
spec fn serialized_object(bytes: Seq<u8>, t: Seq<u32>, data: Seq<u8>, ub: Seq<u32>) -> bool {
    &&& t.len() == ub.len()
    &&& forall|i: int| 0 <= i < ub.len() ==> prev_or_zero(ub, i) <= #[trigger] ub[i] <= data.len()
    &&& forall|i: int| 0 <= i < t.len() ==> {
        let q = prev_or_zero(t, i) as nat;
        &&& q + 8 + chunk_clen(bytes, q) == #[trigger] t[i] && t[i] <= bytes.len()
        &&& serialized_at(bytes, q, data.subrange(prev_or_zero(ub, i), ub[i] as int))
    }
}
proof fn lemma_ub_mono(ub: Seq<u32>, data_len: int, i: int, j: int)
    requires forall|k: int| 0 <= k < ub.len() ==> prev_or_zero(ub, k) <= #[trigger] ub[k] <= data_len, 0 <= i <= j <= ub.len(), 0 <= data_len,
    ensures prev_or_zero(ub, i) <= prev_or_zero(ub, j) <= data_len,
    decreases j - i,
{
    if i < j { lemma_ub_mono(ub, data_len, i, j - 1); assert(prev_or_zero(ub, j - 1) <= ub[j - 1]); }
    else if i > 0 { assert(ub[i - 1] <= data_len); }
}
proof fn lemma_dec_range_is_data(bytes: Seq<u8>, t: Seq<u32>, data: Seq<u8>, ub: Seq<u32>, a: int, b: int)
    requires serialized_object(bytes, t, data, ub), 0 <= a <= b <= t.len(),
    ensures dec_range(bytes, t, a, b) == data.subrange(prev_or_zero(ub, a), prev_or_zero(ub, b)),
    decreases b - a,
{
    lemma_ub_mono(ub, data.len() as int, a, b);
    if a == b {
        assert(data.subrange(prev_or_zero(ub, a), prev_or_zero(ub, a)) =~= Seq::<u8>::empty());
    } else {
        lemma_dec_range_is_data(bytes, t, data, ub, a + 1, b);
        lemma_ub_mono(ub, data.len() as int, a + 1, b);
        let q = prev_or_zero(t, a) as nat;
        assert(t[a] == q + 8 + chunk_clen(bytes, q));
        assert(serialized_at(bytes, q, data.subrange(prev_or_zero(ub, a), ub[a] as int)));
        assert(chunk_avail(bytes, q) == chunk_clen(bytes, q));
        assert(chunk_data(bytes, q) == data.subrange(prev_or_zero(ub, a), ub[a] as int));
        assert(prev_or_zero(ub, a + 1) == ub[a]);
        assert(data.subrange(prev_or_zero(ub, a), ub[a] as int) + data.subrange(ub[a] as int, prev_or_zero(ub, b)) =~= data.subrange(prev_or_zero(ub, a), prev_or_zero(ub, b)));
    }
}
// C07 round trip: serialize `data` with unpacked boundaries `ub`; reading chunk range [a, b) back returns exactly data[ub[a-1] .. ub[b-1]],
// whose length is unpacked_chunk_offsets[b-1] - unpacked_chunk_offsets[a-1] (= uncompressed_range_length(a, b), U-XORBIDX); [0, n) gives all of it
proof fn lemma_roundtrip_chunk_range(bytes: Seq<u8>, t: Seq<u32>, data: Seq<u8>, ub: Seq<u32>, a: int, b: int)
    requires serialized_object(bytes, t, data, ub), 0 <= a < b <= t.len(),
    ensures
        /*@C07*/ decode_from(bytes.subrange(prev_or_zero(t, a), t[b - 1] as int), 0) == data.subrange(prev_or_zero(ub, a), ub[b - 1] as int),
        /*@C07*/ decode_from(bytes.subrange(prev_or_zero(t, a), t[b - 1] as int), 0).len() == ub[b - 1] - prev_or_zero(ub, a),
{
    assert(tiled(bytes, t));
    lemma_range_read_is_chunk_concat(bytes, t, a, b);
    lemma_dec_range_is_data(bytes, t, data, ub, a, b);
    lemma_ub_mono(ub, data.len() as int, a, b);
}

} // verus!
fn main() {}
