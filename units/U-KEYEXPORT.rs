//@ unit U-KEYEXPORT
//@ props C18
//@ verus-args --rlimit 100
#![allow(non_snake_case, unused)]
use vstd::prelude::*;
use vstd::std_specs::cmp::*;
use std::cmp::Ordering;
verus! {
global size_of usize == 8;

//@ include prelude/setops_merklehash.rs
//@ include prelude/keyexport_io.rs

//@ extract mdb_shard/src/cas_structs.rs struct CASChunkSequenceHeader
//@ end
//@ extract mdb_shard/src/cas_structs.rs struct CASChunkSequenceEntry
//@ end

//@ extract mdb_shard/src/utils.rs fn truncate_hash
//@ ret r
//@ subst `hash.deref()` => `(&hash.0)` :: R11 `Deref<Target=[u64;4]> for DataHash` returns `&self.0`; the stub type exposes the word array as field 0 (K-HASHBYTES)
//@ contract
    ensures r == hash.0[0],
//@ end

// ================= C18, re-keying half, stated from the property text ==============================================
// the keyed form of a chunk hash: hmac under a non-zero key, the hash itself under the zero key ("unkeyed")
pub open spec fn keyed_hash(key: MerkleHash, h: MerkleHash) -> MerkleHash { if key != zero_hash() { spec_hmac(key, h) } else { h } }
// the re-exported entry: chunk hash replaced by its keyed form, every other field equal
spec fn keyed_entry(key: MerkleHash, e: CASChunkSequenceEntry) -> CASChunkSequenceEntry {
    CASChunkSequenceEntry { chunk_hash: keyed_hash(key, e.chunk_hash), ..e }
}

// ---- the header of each CAS block: written exactly as read (the xorb hash is kept) --------------------------------
//@ extract mdb_shard/src/shard_format.rs in `impl MDBShardInfo` region export_as_keyed_shard_impl
//@ from `let cas_metadata = CASChunkSequenceHeader::deserialize(reader)?;`
//@ to `byte_pos += cas_metadata.serialize(writer)?;`
//@ sig `fn export_cas_header(reader: &mut ShardReader, writer: &mut ShardWriter, hmac_key: HMACKey, mut byte_pos: usize) -> (res: IoResult<(CASChunkSequenceHeader, usize)>)`
//@ epilogue `Ok((cas_metadata, byte_pos))`
//@ contract
    requires byte_pos + 48 <= usize::MAX,
    ensures
        res matches Ok((hdr, bp)) ==> {
            &&& /*@C18,C05*/ hdr == decode_cas_header(old(reader).bytes@.subrange(old(reader).pos@, old(reader).pos@ + 48))
            &&& /*@C18,C05*/ final(writer).bytes@ == old(writer).bytes@ + encode_cas_header(hdr)
            &&& final(reader).pos@ == old(reader).pos@ + 48 && final(reader).bytes@ == old(reader).bytes@
            &&& bp == byte_pos + 48
        },
//@ end

// the xorb lookup entry is keyed by the (unkeyed) xorb hash
//@ extract mdb_shard/src/shard_format.rs in `impl MDBShardInfo` region export_as_keyed_shard_impl
//@ block `if include_cas_lookup_table {` #1
//@ sig `fn push_cas_lookup(cas_lookup: &mut Vec<(u64, u32)>, cas_metadata: &CASChunkSequenceHeader, cas_index: u32, hmac_key: HMACKey)`
//@ contract
    ensures /*@C18,C05*/ final(cas_lookup)@ == old(cas_lookup)@.push((cas_metadata.cas_hash.0[0], cas_index)),
//@ end

// the footer records the key the chunk hashes were keyed with (U-SHQ's keyed comparison reads it back); nothing else changes
//@ extract mdb_shard/src/shard_format.rs struct MDBShardFileFooter
//@ end
//@ extract mdb_shard/src/shard_format.rs in `impl MDBShardInfo` region export_as_keyed_shard_impl
//@ from `out_footer.chunk_hash_hmac_key`
//@ to-before `let creation_time`
//@ sig `fn set_footer_key(out_footer: &mut MDBShardFileFooter, hmac_key: HMACKey)`
//@ contract
    ensures /*@C18,C05*/ *final(out_footer) == (MDBShardFileFooter { chunk_hash_hmac_key: hmac_key, ..*old(out_footer) }),
//@ end

// ---- the chunk list of one block: the `for chunk_index in 0..num_entries` loop, header and body ------------------------
// per entry (the loop body, verified as the inductive step of the invariant below): the entry serialized is
// keyed_entry(key, entry read) and the lookup entry pushed is (truncate(keyed hash), (cas_index, chunk_index))
spec fn in_entry(bytes: Seq<u8>, p0: int, j: int) -> CASChunkSequenceEntry { decode_chunk_entry(bytes.subrange(p0 + 48 * j, p0 + 48 * j + 48)) }
// bytes written for the first n entries of the block that starts at p0
spec fn out_entries(key: MerkleHash, bytes: Seq<u8>, p0: int, n: int) -> Seq<u8> decreases n {
    if n <= 0 { Seq::<u8>::empty() } else { out_entries(key, bytes, p0, n - 1) + encode_chunk_entry(keyed_entry(key, in_entry(bytes, p0, n - 1))) }
}
// lookup entries pushed for the first n entries
spec fn block_lookups(key: MerkleHash, bytes: Seq<u8>, p0: int, cas_index: u32, n: int) -> Seq<(u64, (u32, u32))> {
    Seq::new(if n >= 0 { n as nat } else { 0 }, |j: int| (keyed_hash(key, in_entry(bytes, p0, j).chunk_hash).0[0], (cas_index, j as u32)))
}

//@ extract mdb_shard/src/shard_format.rs in `impl MDBShardInfo` region export_as_keyed_shard_impl
//@ from `for chunk_index in`
//@ to-before `cas_index += 1`
//@ sig `fn export_block_chunks(reader: &mut ShardReader, writer: &mut ShardWriter, hmac_key: HMACKey, include_chunk_lookup_table: bool, chunk_lookup: &mut Vec<(u64, (u32, u32))>, cas_index: u32, cas_metadata: &CASChunkSequenceHeader, mut byte_pos: usize) -> (res: IoResult<usize>)`
//@ epilogue `Ok(byte_pos)`
//@ contract
    requires byte_pos + 48 * cas_metadata.num_entries <= usize::MAX,
    ensures
        res is Ok ==> {
            let n = cas_metadata.num_entries as int; let p0 = old(reader).pos@;
            // every chunk entry of the block is re-exported in order with its keyed hash, nothing else written
            &&& /*@C18,C05*/ final(writer).bytes@ == old(writer).bytes@ + out_entries(hmac_key, old(reader).bytes@, p0, n)
            &&& final(reader).pos@ == p0 + 48 * n && final(reader).bytes@ == old(reader).bytes@
            &&& res->Ok_0 == byte_pos + 48 * n
            // the chunk lookup table receives exactly the truncated keyed hashes of this block, in order, with (block, chunk) indices
            &&& /*@C18,C05*/ final(chunk_lookup)@ == old(chunk_lookup)@ + (if include_chunk_lookup_table { block_lookups(hmac_key, old(reader).bytes@, p0, cas_index, n) } else { Seq::empty() })
        },
//@ loop 1
        invariant
            /*@AUX*/ byte_pos0 + 48 * cas_metadata.num_entries <= usize::MAX,
            byte_pos == byte_pos0 + 48 * chunk_index,
            reader.bytes@ == rb0, reader.pos@ == p0 + 48 * chunk_index,
            /*@C18,C05*/ writer.bytes@ == wb0 + out_entries(hmac_key, rb0, p0, chunk_index as int),
            /*@C18,C05*/ chunk_lookup@ == l0 + (if include_chunk_lookup_table { block_lookups(hmac_key, rb0, p0, cas_index, chunk_index as int) } else { Seq::empty() }),
//@ body-start
    let ghost byte_pos0 = byte_pos as int; let ghost rb0 = reader.bytes@; let ghost p0 = reader.pos@; let ghost wb0 = writer.bytes@; let ghost l0 = chunk_lookup@;
    proof {
        assert(wb0 + out_entries(hmac_key, rb0, p0, 0) =~= wb0);
        assert(l0 + block_lookups(hmac_key, rb0, p0, cas_index, 0) =~= l0);
        assert(l0 + Seq::<(u64, (u32, u32))>::empty() =~= l0);
    }
//@ after `byte_pos += chunk.serialize(writer)?;`
        proof {
            let i = chunk_index as int;
            assert((wb0 + out_entries(hmac_key, rb0, p0, i)) + encode_chunk_entry(keyed_entry(hmac_key, in_entry(rb0, p0, i))) =~= wb0 + out_entries(hmac_key, rb0, p0, i + 1));
            assert(block_lookups(hmac_key, rb0, p0, cas_index, i + 1) =~= block_lookups(hmac_key, rb0, p0, cas_index, i).push((keyed_hash(hmac_key, in_entry(rb0, p0, i).chunk_hash).0[0], (cas_index, chunk_index))));
            assert((l0 + block_lookups(hmac_key, rb0, p0, cas_index, i)).push((keyed_hash(hmac_key, in_entry(rb0, p0, i).chunk_hash).0[0], (cas_index, chunk_index))) =~= l0 + block_lookups(hmac_key, rb0, p0, cas_index, i + 1));
            assert(l0 + Seq::<(u64, (u32, u32))>::empty() =~= l0);
        }
//@ end

} // verus!
fn main() {}
