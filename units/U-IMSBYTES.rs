//@ unit U-IMSBYTES
//@ props C09
//@ verus-args --rlimit 100
//@ rules-from imsbytes shwrite
// C09 "... its size and byte totals equal the in-memory accounting": the accounting getters of the in-memory shard
// (mdb_shard/src/shard_in_memory.rs) and the footer getters of a shard (mdb_shard/src/shard_format.rs `impl MDBShardInfo`).
// U-SHWRITE owns `serialize_from` and pins the three footer totals to `spec_stored_bytes_on_disk / spec_materialized_bytes /
// spec_stored_bytes` of the in-memory shard, which are UNINTERPRETED there ("byte totals not unfolded").  This unit gives those three
// functions their definition (same names, same signature) and proves that the real getters compute them.
#![feature(allocator_api)]
#![allow(non_snake_case, unused)]
use vstd::prelude::*;
use vstd::std_specs::cmp::*;
use vstd::std_specs::btree::*;
use vstd::std_specs::iter::IteratorSpec;
use std::cmp::Ordering;
use std::mem::size_of;
use std::collections::{BTreeMap, HashMap};
use std::sync::Arc;
verus! {
global size_of usize == 8;
broadcast use vstd::std_specs::btree::group_btree_axioms;

//@ include prelude/setops_merklehash.rs
type HMACKey = MerkleHash;
impl std::hash::Hash for MerkleHash {
    #[verifier::external_body]
    fn hash<H: std::hash::Hasher>(&self, state: &mut H) { unimplemented!() }
}

//@ extract mdb_shard/src/file_structs.rs struct FileDataSequenceHeader
//@ end
//@ extract mdb_shard/src/file_structs.rs struct FileDataSequenceEntry
//@ end
//@ extract mdb_shard/src/file_structs.rs struct FileVerificationEntry
//@ end
//@ extract mdb_shard/src/file_structs.rs struct FileMetadataExt
//@ end
//@ extract mdb_shard/src/file_structs.rs struct MDBFileInfo
//@ end
//@ extract mdb_shard/src/cas_structs.rs struct CASChunkSequenceHeader
//@ end
//@ extract mdb_shard/src/cas_structs.rs struct CASChunkSequenceEntry
//@ end
//@ extract mdb_shard/src/cas_structs.rs struct MDBCASInfo
//@ end
//@ extract mdb_shard/src/shard_format.rs struct MDBShardFileHeader
//@ end
//@ extract mdb_shard/src/shard_format.rs struct MDBShardFileFooter
//@ end
//@ extract mdb_shard/src/shard_format.rs struct MDBShardInfo
//@ end
//@ extract mdb_shard/src/shard_in_memory.rs struct MDBInMemoryShard
//@ end
// ASSUMED (as in U-SHWRITE): the footer is 25 u64 words = 200 bytes (`MDBShardFileFooter::serialize` writes exactly these and
// returns `size_of::<MDBShardFileFooter>()`; checked on the real crate by Kani unit K-SHARDHDR)
global size_of MDBShardFileFooter == 200;

//@ include prelude/imsbytes_msum.rs

// the items a slice iterator yields are references to the elements, in order (as in U-SHWRITE)
spec fn refs_of<T>(r: Seq<&T>, s: Seq<T>) -> bool {
    r.len() == s.len() && forall|j: int| 0 <= j < r.len() ==> *(#[trigger] r[j]) == s[j]
}

//@ include prelude/imsbytes_totals.rs

// width of an accumulator variable: the largest value its TYPE represents.  Used by the "no wrap" clauses below: they say that the
// variable the code accumulates in can hold the mathematical (partial) total; the dispatch is on the variable's declared type in
// the code under proof, so an accumulator narrower than the total it has to hold violates the clause.
pub trait VxAccWidth { spec fn vx_type_max() -> int; }
impl VxAccWidth for u8 { open spec fn vx_type_max() -> int { u8::MAX as int } }
impl VxAccWidth for u16 { open spec fn vx_type_max() -> int { u16::MAX as int } }
impl VxAccWidth for u32 { open spec fn vx_type_max() -> int { u32::MAX as int } }
impl VxAccWidth for u64 { open spec fn vx_type_max() -> int { u64::MAX as int } }
impl VxAccWidth for usize { open spec fn vx_type_max() -> int { usize::MAX as int } }
impl VxAccWidth for u128 { open spec fn vx_type_max() -> int { u128::MAX as int } }
spec fn vx_tmax<T: VxAccWidth>(x: T) -> int { T::vx_type_max() }

// partial sums are non-negative and bounded by the total (all contributions are unsigned fields)
proof fn lemma_seg_sum_mono(s: Seq<FileDataSequenceEntry>, a: int, b: int)
    requires 0 <= a <= b <= s.len(),
    ensures 0 <= seg_sum(s, a) <= seg_sum(s, b),
    decreases b,
{
    if a < b { lemma_seg_sum_mono(s, a, b - 1); } else if a > 0 { lemma_seg_sum_mono(s, a - 1, a - 1); }
}
// every step of the segment sum stays below the file's total
spec fn seg_steps_ok() -> bool {
    forall|s: Seq<FileDataSequenceEntry>, k: int| 0 <= k < s.len() ==>
        0 <= #[trigger] seg_sum(s, k) && seg_sum(s, k) + s[k].unpacked_segment_bytes as int <= seg_sum(s, s.len() as int)
}
proof fn lemma_seg_steps_ok() ensures seg_steps_ok(), forall|s: Seq<FileDataSequenceEntry>| 0 <= #[trigger] seg_sum(s, s.len() as int),
{
    assert forall|s: Seq<FileDataSequenceEntry>, k: int| 0 <= k < s.len() implies
        0 <= #[trigger] seg_sum(s, k) && seg_sum(s, k) + s[k].unpacked_segment_bytes as int <= seg_sum(s, s.len() as int) by {
        lemma_seg_sum_mono(s, 0, k); lemma_seg_sum_mono(s, k + 1, s.len() as int);
    }
    assert forall|s: Seq<FileDataSequenceEntry>| 0 <= #[trigger] seg_sum(s, s.len() as int) by { lemma_seg_sum_mono(s, 0, s.len() as int); }
}
// what a loop over `m.iter()` may use: the items are the map's entries in key order, the sum along them is the sum over the map, and
// every step of the running sum stays below the total
spec fn iter_sums<V>(m: Map<MerkleHash, V>, c: spec_fn(V) -> int) -> bool {
    forall|r: Seq<(&MerkleHash, &V)>| #[trigger] iter_entries(r, m) ==> {
        &&& msum(m, c) == ssum(own(r), c, r.len() as int)
        &&& forall|k: int| 0 <= k < r.len() ==> 0 <= #[trigger] ssum(own(r), c, k) && ssum(own(r), c, k) + c(own(r)[k].1) <= msum(m, c)
    }
}
proof fn lemma_iter_sums<V>(m: Map<MerkleHash, V>, c: spec_fn(V) -> int)
    requires forall|v: V| #[trigger] c(v) >= 0,
    ensures iter_sums(m, c), msum(m, c) >= 0,
{
    lemma_msum_nonneg(m, c);
    assert forall|r: Seq<(&MerkleHash, &V)>| #[trigger] iter_entries(r, m) implies ({
        &&& msum(m, c) == ssum(own(r), c, r.len() as int)
        &&& forall|k: int| 0 <= k < r.len() ==> 0 <= #[trigger] ssum(own(r), c, k) && ssum(own(r), c, k) + c(own(r)[k].1) <= msum(m, c)
    }) by {
        lemma_entries_from_iter(r, m); lemma_msum_entries(own(r), m, c);
        let s = own(r);
        assert forall|k: int| 0 <= k < r.len() implies 0 <= #[trigger] ssum(s, c, k) && ssum(s, c, k) + c(s[k].1) <= msum(m, c) by {
            lemma_ssum_mono(s, c, 0, k); lemma_ssum_mono(s, c, k + 1, s.len() as int);
            assert(ssum(s, c, k + 1) == ssum(s, c, k) + c(s[k].1));
        }
    }
}
proof fn lemma_contribs_nonneg()
    ensures forall|v: MDBFileInfo| #[trigger] c_mat()(v) >= 0, forall|a: Arc<MDBCASInfo>| #[trigger] c_disk()(a) >= 0,
        forall|a: Arc<MDBCASInfo>| #[trigger] c_cas()(a) >= 0,
{
    lemma_seg_steps_ok();
    assert forall|v: MDBFileInfo| #[trigger] c_mat()(v) >= 0 by { assert(c_mat()(v) == seg_sum(v.segments@, v.segments@.len() as int)); }
}

proof fn lemma_totals_nonneg()
    ensures forall|m: MDBInMemoryShard| #[trigger] math_materialized_bytes(m) >= 0, forall|m: MDBInMemoryShard| #[trigger] math_stored_bytes_on_disk(m) >= 0,
        forall|m: MDBInMemoryShard| #[trigger] math_stored_bytes(m) >= 0,
{
    lemma_contribs_nonneg();
    assert forall|m: MDBInMemoryShard| #[trigger] math_materialized_bytes(m) >= 0 by { lemma_msum_nonneg(m.file_content@, c_mat()); }
    assert forall|m: MDBInMemoryShard| #[trigger] math_stored_bytes_on_disk(m) >= 0 by { lemma_msum_nonneg(m.cas_content@, c_disk()); }
    assert forall|m: MDBInMemoryShard| #[trigger] math_stored_bytes(m) >= 0 by { lemma_msum_nonneg(m.cas_content@, c_cas()); }
}

// ---- the in-memory getters ------------------------------------------------------------------------------------------------------------
impl MDBInMemoryShard {
//@ extract mdb_shard/src/shard_in_memory.rs in `impl MDBInMemoryShard` fn num_cas_entries
//@ ret r
//@ contract
        // the count is the number of xorb records held
        ensures /*@C09,C10*/ r == self.cas_content@.len(),
//@ body-start
        proof { axiom_merklehash_total_order(); }
//@ end

//@ extract mdb_shard/src/shard_in_memory.rs in `impl MDBInMemoryShard` fn num_file_entries
//@ ret r
//@ contract
        ensures /*@C09,C10*/ r == self.file_content@.len(),
//@ body-start
        proof { axiom_merklehash_total_order(); }
//@ end

//@ extract mdb_shard/src/shard_in_memory.rs in `impl MDBInMemoryShard` fn is_empty
//@ ret r
//@ contract
        // empty = no xorb record and no file record (the chunk index only mirrors xorb records)
        ensures /*@C09,C10*/ r == (self.cas_content@.len() == 0 && self.file_content@.len() == 0),
//@ body-start
        proof { axiom_merklehash_total_order(); }
//@ end

//@ extract mdb_shard/src/shard_in_memory.rs in `impl MDBInMemoryShard` fn stored_bytes_on_disk
//@ ret r
//@ rules R21f R21s R4n
//@ contract
        requires math_stored_bytes_on_disk(*self) <= u64::MAX,       // domain: the total fits u64
        ensures
            // the sum over ALL xorb records of `num_bytes_on_disk`, exactly (no wrap)
            /*@C09,C10*/ r == math_stored_bytes_on_disk(*self),
            /*@C09,C10*/ r == spec_stored_bytes_on_disk(*self),
//@ body-start
        let ghost cm = self.cas_content@;
        proof { axiom_merklehash_total_order(); lemma_contribs_nonneg(); lemma_iter_sums(cm, c_disk()); }
//@ loop 1
            invariant
                cm == self.cas_content@, iter_sums(cm, c_disk()), 0 <= msum(cm, c_disk()) <= u64::MAX,
                iter_entries(vx_it1.seq(), cm),
                // no wrap: the accumulator the code uses can hold the total
                /*@C09,C10*/ msum(cm, c_disk()) <= vx_tmax(vx_acc1),
                // the accumulator holds the sum over the records visited so far
                /*@C09,C10*/ vx_acc1 == ssum(own(vx_it1.seq()), c_disk(), vx_it1.index@ as int),
            ensures /*@C09,C10*/ vx_acc1 == msum(cm, c_disk()),
//@ end

//@ extract mdb_shard/src/shard_in_memory.rs in `impl MDBInMemoryShard` fn stored_bytes
//@ ret r
//@ rules R21f R21s R4n
//@ contract
        requires math_stored_bytes(*self) <= u64::MAX,       // domain: the total fits u64
        ensures
            // the sum over ALL xorb records of `num_bytes_in_cas`, exactly (no wrap)
            /*@C09,C10*/ r == math_stored_bytes(*self),
            /*@C09,C10*/ r == spec_stored_bytes(*self),
//@ body-start
        let ghost cm = self.cas_content@;
        proof { axiom_merklehash_total_order(); lemma_contribs_nonneg(); lemma_iter_sums(cm, c_cas()); }
//@ loop 1
            invariant
                cm == self.cas_content@, iter_sums(cm, c_cas()), 0 <= msum(cm, c_cas()) <= u64::MAX,
                iter_entries(vx_it1.seq(), cm),
                /*@C09,C10*/ msum(cm, c_cas()) <= vx_tmax(vx_acc1),
                /*@C09,C10*/ vx_acc1 == ssum(own(vx_it1.seq()), c_cas(), vx_it1.index@ as int),
            ensures /*@C09,C10*/ vx_acc1 == msum(cm, c_cas()),
//@ end

//@ extract mdb_shard/src/shard_in_memory.rs in `impl MDBInMemoryShard` fn materialized_bytes
//@ ret r
//@ rules R21f R21s R4n
//@ contract
        requires math_materialized_bytes(*self) <= u64::MAX,       // domain: the total fits u64 (each segment value is a u32)
        ensures
            // the sum over ALL file records of the sum of `unpacked_segment_bytes` over ALL their segments, exactly (no wrap)
            /*@C09,C10*/ r == math_materialized_bytes(*self),
            /*@C09,C10*/ r == spec_materialized_bytes(*self),
//@ body-start
        let ghost fm = self.file_content@;
        proof { axiom_merklehash_total_order(); lemma_contribs_nonneg(); lemma_iter_sums(fm, c_mat()); lemma_seg_steps_ok(); }
//@ loop 1
            invariant
                fm == self.file_content@, iter_sums(fm, c_mat()), 0 <= msum(fm, c_mat()) <= u64::MAX, seg_steps_ok(),
                iter_entries(vx_it1.seq(), fm),
                /*@C09,C10*/ msum(fm, c_mat()) <= vx_tmax(vx_acc1),
                /*@C09,C10*/ vx_acc1 == ssum(own(vx_it1.seq()), c_mat(), vx_it1.index@ as int),
            ensures /*@C09,C10*/ vx_acc1 == msum(fm, c_mat()),
//@ loop 2
            invariant
                seg_steps_ok(), refs_of(vx_it2.seq(), file.segments@), file_bytes(*file) <= u64::MAX,
                // no wrap: the accumulator the code uses for ONE file can hold that file's total (which is only bounded by the
                // domain bound on the whole sum: a single file may have >= 2^32 bytes although every segment value is a u32)
                /*@C09,C10*/ file_bytes(*file) <= vx_tmax(vx_acc2),
                // the accumulator holds the sum over the segments visited so far
                /*@C09,C10*/ vx_acc2 == seg_sum(file.segments@, vx_it2.index@ as int),
            ensures /*@C09,C10*/ vx_acc2 == file_bytes(*file),
//@ end
}

// ---- the footer getters -------------------------------------------------------------------------------------------------------------
//@ include prelude/imsbytes_footer.rs

impl MDBShardInfo {
//@ extract mdb_shard/src/shard_format.rs in `impl MDBShardInfo` fn num_cas_entries
//@ ret r
//@ contract
        ensures
            r == self.metadata.cas_lookup_num_entry,
            // on a shard written from `mdb`: the number of xorb records of `mdb` (= the in-memory getter's value)
            /*@C09,C10*/ forall|mdb: MDBInMemoryShard, dl: int, fsz: int, csz: int, nh: int| #[trigger] footer_written(mdb, *self, dl, fsz, csz, nh)
                ==> r == mdb.cas_content@.len(),
//@ end

//@ extract mdb_shard/src/shard_format.rs in `impl MDBShardInfo` fn num_file_entries
//@ ret r
//@ contract
        ensures
            r == self.metadata.file_lookup_num_entry,
            /*@C09,C10*/ forall|mdb: MDBInMemoryShard, dl: int, fsz: int, csz: int, nh: int| #[trigger] footer_written(mdb, *self, dl, fsz, csz, nh)
                ==> r == mdb.file_content@.len(),
//@ end

//@ extract mdb_shard/src/shard_format.rs in `impl MDBShardInfo` fn total_num_chunks
//@ ret r
//@ contract
        ensures
            r == self.metadata.chunk_lookup_num_entry,
            // the number of chunk-lookup entries written
            /*@C09,C10*/ forall|mdb: MDBInMemoryShard, dl: int, fsz: int, csz: int, nh: int| #[trigger] footer_written(mdb, *self, dl, fsz, csz, nh)
                ==> r == nh,
//@ end

//@ extract mdb_shard/src/shard_format.rs in `impl MDBShardInfo` fn file_info_byte_range
//@ ret r
//@ contract
        ensures
            r.0 == self.metadata.file_info_offset && r.1 == self.metadata.cas_info_offset,
            // right after the 48-byte header, as long as the file section
            /*@C09,C10*/ forall|mdb: MDBInMemoryShard, dl: int, fsz: int, csz: int, nh: int| #[trigger] footer_written(mdb, *self, dl, fsz, csz, nh)
                ==> r.0 == 48 && r.1 == r.0 + fsz,
//@ end

//@ extract mdb_shard/src/shard_format.rs in `impl MDBShardInfo` fn cas_info_byte_range
//@ ret r
//@ contract
        ensures
            r.0 == self.metadata.cas_info_offset && r.1 == self.metadata.file_lookup_offset,
            // starts where the file section ends, as long as the xorb section
            /*@C09,C10*/ forall|mdb: MDBInMemoryShard, dl: int, fsz: int, csz: int, nh: int| #[trigger] footer_written(mdb, *self, dl, fsz, csz, nh)
                ==> r.0 == 48 + fsz && r.1 == r.0 + csz,
//@ end

//@ extract mdb_shard/src/shard_format.rs in `impl MDBShardInfo` fn file_lookup_byte_range
//@ ret r
//@ contract
        ensures
            r.0 == self.metadata.file_lookup_offset && r.1 == self.metadata.cas_lookup_offset,
            // starts where the xorb section ends; one 12-byte entry per file record
            /*@C09,C10*/ forall|mdb: MDBInMemoryShard, dl: int, fsz: int, csz: int, nh: int| #[trigger] footer_written(mdb, *self, dl, fsz, csz, nh)
                ==> r.0 == 48 + fsz + csz && r.1 == r.0 + 12 * mdb.file_content@.len(),
//@ end

//@ extract mdb_shard/src/shard_format.rs in `impl MDBShardInfo` fn cas_lookup_byte_range
//@ ret r
//@ contract
        ensures
            r.0 == self.metadata.cas_lookup_offset && r.1 == self.metadata.chunk_lookup_offset,
            // starts where the file lookup ends; one 12-byte entry per xorb record
            /*@C09,C10*/ forall|mdb: MDBInMemoryShard, dl: int, fsz: int, csz: int, nh: int| #[trigger] footer_written(mdb, *self, dl, fsz, csz, nh)
                ==> r.0 == 48 + fsz + csz + 12 * mdb.file_content@.len() && r.1 == r.0 + 12 * mdb.cas_content@.len(),
//@ end

//@ extract mdb_shard/src/shard_format.rs in `impl MDBShardInfo` fn chuck_lookup_byte_range
//@ ret r
//@ contract
        ensures
            r.0 == self.metadata.chunk_lookup_offset && r.1 == self.metadata.footer_offset,
            // starts where the xorb lookup ends; one 16-byte entry per chunk; the 200-byte footer follows and ends the shard
            /*@C09,C10*/ forall|mdb: MDBInMemoryShard, dl: int, fsz: int, csz: int, nh: int| #[trigger] footer_written(mdb, *self, dl, fsz, csz, nh)
                ==> r.0 == 48 + fsz + csz + 12 * mdb.file_content@.len() + 12 * mdb.cas_content@.len() && r.1 == r.0 + 16 * nh && r.1 + 200 == dl,
//@ end

//@ extract mdb_shard/src/shard_format.rs in `impl MDBShardInfo` fn num_bytes
//@ ret r
//@ contract
        requires self.metadata.footer_offset + 200 <= u64::MAX,
        ensures
            r == self.metadata.footer_offset + 200,
            // the size of the serialized shard: the number of bytes written
            /*@C09,C10*/ forall|mdb: MDBInMemoryShard, dl: int, fsz: int, csz: int, nh: int| #[trigger] footer_written(mdb, *self, dl, fsz, csz, nh)
                ==> r == dl,
//@ end

//@ extract mdb_shard/src/shard_format.rs in `impl MDBShardInfo` fn stored_bytes_on_disk
//@ ret r
//@ contract
        ensures
            r == self.metadata.stored_bytes_on_disk,
            // the byte totals of the footer are the in-memory accounting: the mathematical sums, under the domain
            /*@C09,C10*/ forall|mdb: MDBInMemoryShard, dl: int, fsz: int, csz: int, nh: int| #[trigger] footer_written(mdb, *self, dl, fsz, csz, nh) && totals_fit(mdb)
                ==> r == math_stored_bytes_on_disk(mdb),
//@ body-start
        proof { lemma_totals_nonneg(); }
//@ end

//@ extract mdb_shard/src/shard_format.rs in `impl MDBShardInfo` fn materialized_bytes
//@ ret r
//@ contract
        ensures
            r == self.metadata.materialized_bytes,
            /*@C09,C10*/ forall|mdb: MDBInMemoryShard, dl: int, fsz: int, csz: int, nh: int| #[trigger] footer_written(mdb, *self, dl, fsz, csz, nh) && totals_fit(mdb)
                ==> r == math_materialized_bytes(mdb),
//@ body-start
        proof { lemma_totals_nonneg(); }
//@ end

//@ extract mdb_shard/src/shard_format.rs in `impl MDBShardInfo` fn stored_bytes
//@ ret r
//@ contract
        ensures
            r == self.metadata.stored_bytes,
            /*@C09,C10*/ forall|mdb: MDBInMemoryShard, dl: int, fsz: int, csz: int, nh: int| #[trigger] footer_written(mdb, *self, dl, fsz, csz, nh) && totals_fit(mdb)
                ==> r == math_stored_bytes(mdb),
//@ body-start
        proof { lemma_totals_nonneg(); }
//@ end
}

// ---- composition: "its size and byte totals equal the in-memory accounting" --------------------------------------------------------
// `ims_*` = the values the in-memory getters return (their postconditions above), `sh_*` = the values the footer getters return
// (first postcondition of each), for a footer written from `mdb`.
proof fn lemma_footer_equals_accounting(mdb: MDBInMemoryShard, sh: MDBShardInfo, data_len: int, fsz: int, csz: int, nh: int)
    requires footer_written(mdb, sh, data_len, fsz, csz, nh), totals_fit(mdb),
    ensures
        /*@C09,C10*/ sh.metadata.cas_lookup_num_entry == mdb.cas_content@.len(),
        /*@C09,C10*/ sh.metadata.file_lookup_num_entry == mdb.file_content@.len(),
        /*@C09,C10*/ sh.metadata.footer_offset + 200 == data_len,
        /*@C09,C10*/ sh.metadata.stored_bytes_on_disk == math_stored_bytes_on_disk(mdb),
        /*@C09,C10*/ sh.metadata.materialized_bytes == math_materialized_bytes(mdb),
        /*@C09,C10*/ sh.metadata.stored_bytes == math_stored_bytes(mdb),
        // the five byte ranges tile [48, footer_offset) in the order file section, xorb section, file / xorb / chunk lookup
        /*@C09,C10*/ sh.metadata.file_info_offset == 48 <= sh.metadata.cas_info_offset <= sh.metadata.file_lookup_offset
            <= sh.metadata.cas_lookup_offset <= sh.metadata.chunk_lookup_offset <= sh.metadata.footer_offset,
{
    lemma_contribs_nonneg();
    lemma_msum_nonneg(mdb.file_content@, c_mat()); lemma_msum_nonneg(mdb.cas_content@, c_disk()); lemma_msum_nonneg(mdb.cas_content@, c_cas());
}

} // verus!
fn main() {}
