//@ unit U-DEDUP
//@ props C01 C02 C03 C05 C14 C15
//@ verus-args --rlimit 200
//@ config MAX_XORB_BYTES MAX_XORB_CHUNKS
#![feature(allocator_api)]
#![allow(non_snake_case, unused)]
use vstd::prelude::*;
use std::collections::HashMap;
use std::sync::Arc;
verus! {
//@ include prelude/dedup_types.rs

//@ include prelude/dedup_model.rs

//@ include prelude/dedup_segments.rs

// ---- the store / session interface: callee contracts (assumed about implementors; DESIGN.md U-DEDUP) ------------------------------
trait DeduplicationDataInterface: Sized {
    type ErrorType;
//@ extract deduplication/src/interface.rs in `DeduplicationDataInterface` fn chunk_hash_dedup_query
//@ ret r
//@ contract
        requires query_hashes@.len() > 0,
        ensures match r { Ok(Some((n, fse))) => truthful(query_hashes@, n as int, fse), _ => true },
//@ end
//@ extract deduplication/src/interface.rs in `DeduplicationDataInterface` fn register_global_dedup_query
//@ end
//@ extract deduplication/src/interface.rs in `DeduplicationDataInterface` fn complete_global_dedup_queries
//@ end
//@ extract deduplication/src/interface.rs in `DeduplicationDataInterface` fn register_new_xorb
//@ contract
        requires /*@C15*/ xorb_within_limits(xorb), /*@C02*/ exists|cs: Seq<Chunk>| xorb_wf(xorb, cs),
//@ end
}

// R7 outlines of two iterator chains in process_chunks: assumed to be the projections they spell
#[verifier::external_body]
fn vx_chunk_hashes(chunks: &[Chunk]) -> (r: Vec<MerkleHash>)
    ensures r@ == hashes(chunks@)
{ Vec::from_iter(chunks.iter().map(|c| c.hash)) }
#[verifier::external_body]
fn vx_extend_hash_len(v: &mut Vec<(MerkleHash, usize)>, chunks: &[Chunk])
    ensures final(v)@ == old(v)@ + hl_view(chunks@)
{ v.extend(chunks.iter().map(|c| (c.hash, c.data.len()))); }
// R7 outline: `hash_is_global_dedup_eligible` (mdb_shard) only gates an optional background query; arbitrary
#[verifier::external_body] fn hash_is_global_dedup_eligible(h: &MerkleHash) -> bool { unimplemented!() }


// ---- file record types, the aggregator model (shared with U-AGG / U-SESSCUT) and the callees of finalize ------------------------------
//@ include prelude/agg_lemmas.rs
//@ include prelude/agg_model.rs
//@ extract mdb_shard/src/file_structs.rs const MDB_FILE_FLAG_WITH_VERIFICATION
//@ end
//@ extract mdb_shard/src/file_structs.rs const MDB_FILE_FLAG_VERIFICATION_MASK
//@ end
//@ extract mdb_shard/src/file_structs.rs const MDB_FILE_FLAG_WITH_METADATA_EXT
//@ end
//@ extract mdb_shard/src/file_structs.rs const MDB_FILE_FLAG_METADATA_EXT_MASK
//@ end
// what a reader of the record takes from the header (the bodies of `contains_verification` / `contains_metadata_ext`, verified against
// exactly these expressions in U-SETOPS): whether per-segment verification entries / a metadata extension follow the segments
spec fn hdr_says_verification(h: FileDataSequenceHeader) -> bool { h.file_flags & MDB_FILE_FLAG_VERIFICATION_MASK != 0 }
spec fn hdr_says_metadata_ext(h: FileDataSequenceHeader) -> bool { h.file_flags & MDB_FILE_FLAG_METADATA_EXT_MASK != 0 }
// the flag word FileDataSequenceHeader::new computes (the formula U-SETOPS proves for the extracted generic body)
spec fn new_flags(v: bool, m: bool) -> u32 {
    (MDB_DEFAULT_FILE_FLAG | (if v { MDB_FILE_FLAG_WITH_VERIFICATION } else { 0u32 })) | (if m { MDB_FILE_FLAG_WITH_METADATA_EXT } else { 0u32 })
}
proof fn lemma_new_flags(v: bool, m: bool)
    ensures (new_flags(v, m) & MDB_FILE_FLAG_VERIFICATION_MASK != 0) == v, (new_flags(v, m) & MDB_FILE_FLAG_METADATA_EXT_MASK != 0) == m,
{
    assert(1u32 << 31 == 0x8000_0000u32) by (bit_vector);
    assert(1u32 << 30 == 0x4000_0000u32) by (bit_vector);
    let a = if v { 0x8000_0000u32 } else { 0u32 };
    let b = if m { 0x4000_0000u32 } else { 0u32 };
    assert(((0u32 | a) | b) & 0x8000_0000u32 != 0 <==> a == 0x8000_0000u32) by (bit_vector) requires a == 0x8000_0000u32 || a == 0u32, b == 0x4000_0000u32 || b == 0u32;
    assert(((0u32 | a) | b) & 0x4000_0000u32 != 0 <==> b == 0x4000_0000u32) by (bit_vector) requires a == 0x8000_0000u32 || a == 0u32, b == 0x4000_0000u32 || b == 0u32;
}
impl FileDataSequenceHeader {
    // R11/R12 stub of FileDataSequenceHeader::new at the usize instantiation: the contract is the one U-SETOPS proves for the
    // extracted generic body (same flag formula); the `num_entries.try_into().unwrap()` panic is the precondition
    #[verifier::external_body]
    fn new(file_hash: MerkleHash, num_entries: usize, contains_verification: bool, contains_metadata_ext: bool) -> (r: Self)
        requires num_entries <= u32::MAX
        ensures r.file_hash == file_hash, r.num_entries == num_entries,
            r.file_flags == new_flags(contains_verification, contains_metadata_ext),
    { unimplemented!() }
}
impl FileVerificationEntry {
    // R11 stub (`_unused: Default::default()` on [u64; 2]); only the range hash matters
    #[verifier::external_body]
    fn new(range_hash: MerkleHash) -> (r: Self) ensures r.range_hash == range_hash { unimplemented!() }
}
impl DataAggregator {
    // callee contract: the SAME text that U-AGG proves for the extracted body of `DataAggregator::new`
    #[verifier::external_body]
    fn new(chunks: Vec<Chunk>, pending_file_info: MDBFileInfo, internally_referencing_entries: Vec<usize>) -> (r: Self)
//@ include prelude/c_agg_new.rs
    { unimplemented!() }
}
#[derive(Debug)]
pub struct MerkleDBError { pub x: u8 }
// the published file-hash construction (merkle root of the chunk list, then keyed with the salt) is proved against a recursive spec
// in U-MERKLE; here it is an uninterpreted function of the (hash, length) list and the salt.  Assumed: never Err (the code unwraps).
pub uninterp spec fn file_hash_spec(hl: Seq<(MerkleHash, usize)>, salt: [u8; 32]) -> MerkleHash;
#[verifier::external_body]
fn file_node_hash(chunks: &[(MerkleHash, usize)], salt: &[u8; 32]) -> (r: Result<MerkleHash, MerkleDBError>)
    ensures r.is_ok(), r.unwrap() == file_hash_spec(chunks@, *salt)
{ unimplemented!() }
pub uninterp spec fn range_hash_spec(hs: Seq<MerkleHash>) -> MerkleHash;
#[verifier::external_body]
fn range_hash_from_chunks(chunks: &[MerkleHash]) -> (r: MerkleHash) ensures r == range_hash_spec(chunks@) { unimplemented!() }
// R7 outline of `.iter().map(|(hash, _)| *hash).collect()` over a slice of (hash, len) pairs: assumed to be the projection it spells
#[verifier::external_body]
fn vx_firsts(s: &[(MerkleHash, usize)]) -> (r: Vec<MerkleHash>) ensures r@ == ch_hashes(s@)
{ s.iter().map(|(hash, _)| *hash).collect() }


// C14/C03: the bytes recorded in a file's segments add up to the bytes of the chunks it denotes (MDBFileInfo::file_size)
spec fn seg_bytes_sum(fi: Seq<FileDataSequenceEntry>) -> nat decreases fi.len() {
    if fi.len() == 0 { 0 } else { seg_bytes_sum(fi.drop_last()) + fi.last().unpacked_segment_bytes as nat }
}
proof fn lemma_seg_bytes_sum(fi: Seq<FileDataSequenceEntry>, nd: Seq<MerkleHash>)
    requires forall|i: int| 0 <= i < fi.len() ==> seg_ok(#[trigger] fi[i], nd),
    ensures seg_bytes_sum(fi) == sum_len(flatten(fi, nd)),
    decreases fi.len()
{
    if fi.len() > 0 {
        assert forall|i: int| 0 <= i < fi.drop_last().len() implies seg_ok(#[trigger] fi.drop_last()[i], nd) by { assert(fi.drop_last()[i] == fi[i]); }
        lemma_seg_bytes_sum(fi.drop_last(), nd);
        lemma_sum_len_append(flatten(fi.drop_last(), nd), seg_den(fi.last(), nd));
        assert(seg_ok(fi.last(), nd));
    }
}
spec fn seg_n(e: FileDataSequenceEntry) -> int { e.chunk_index_end - e.chunk_index_start }
// chunk offset of segment i in the file's chunk list: the running `chunk_idx` of finalize's closure
spec fn off(fi: Seq<FileDataSequenceEntry>, k: int) -> int decreases k {
    if k <= 0 { 0 } else { off(fi, k - 1) + seg_n(fi[k - 1]) }
}
proof fn lemma_off_prefix(fi: Seq<FileDataSequenceEntry>, k: int)
    requires 0 <= k < fi.len(),
    ensures off(fi.drop_last(), k) == off(fi, k),
    decreases k
{ if k > 0 { lemma_off_prefix(fi, k - 1); } }
proof fn lemma_flatten_len(fi: Seq<FileDataSequenceEntry>, nd: Seq<MerkleHash>)
    requires forall|i: int| 0 <= i < fi.len() ==> seg_ok(#[trigger] fi[i], nd),
    ensures flatten(fi, nd).len() == off(fi, fi.len() as int), fi.len() <= flatten(fi, nd).len(),
    decreases fi.len()
{
    if fi.len() > 0 {
        assert forall|i: int| 0 <= i < fi.drop_last().len() implies seg_ok(#[trigger] fi.drop_last()[i], nd) by { assert(fi.drop_last()[i] == fi[i]); }
        lemma_flatten_len(fi.drop_last(), nd);
        lemma_off_prefix(fi, fi.len() - 1);
        assert(seg_ok(fi.last(), nd));
        assert(seg_den(fi.last(), nd).len() == seg_n(fi.last()));
    }
}
// C02: segment i denotes exactly the chunk hashes [off(i), off(i+1)) of the file's chunk list
proof fn lemma_flatten_segment(fi: Seq<FileDataSequenceEntry>, nd: Seq<MerkleHash>, i: int)
    requires forall|j: int| 0 <= j < fi.len() ==> seg_ok(#[trigger] fi[j], nd), 0 <= i < fi.len(),
    ensures 0 <= off(fi, i) <= off(fi, i + 1) <= flatten(fi, nd).len(),
        flatten(fi, nd).subrange(off(fi, i), off(fi, i + 1)) == seg_den(fi[i], nd),
    decreases fi.len()
{
    let dl = fi.drop_last();
    assert forall|j: int| 0 <= j < dl.len() implies seg_ok(#[trigger] dl[j], nd) by { assert(dl[j] == fi[j]); }
    lemma_flatten_len(dl, nd); lemma_flatten_len(fi, nd);
    if i == fi.len() - 1 {
        if i > 0 { lemma_off_prefix(fi, i); }
        assert(flatten(fi, nd).subrange(off(fi, i), off(fi, i + 1)) =~= seg_den(fi[i], nd));
    } else {
        lemma_flatten_segment(dl, nd, i);
        lemma_off_prefix(fi, i); lemma_off_prefix(fi, i + 1);
        assert(dl[i] == fi[i]);
        assert(flatten(fi, nd).subrange(off(fi, i), off(fi, i + 1)) =~= flatten(dl, nd).subrange(off(fi, i), off(fi, i + 1)));
    }
}

//@ extract deduplication/src/file_deduplication.rs struct FileDeduper
//@ end

impl<DataInterfaceType: DeduplicationDataInterface> FileDeduper<DataInterfaceType> {
    // everything the deduper maintains except the denotation of the segment list
    spec fn istruct(&self) -> bool {
        let nd = hashes(self.new_data@);
        &&& xorb_config_ok()
        &&& chunks_ok(self.new_data@)
        &&& self.new_data_size == sum_len(nd)
        &&& /*C15*/ self.new_data@.len() <= spec_MAX_XORB_CHUNKS() && self.new_data_size <= spec_MAX_XORB_BYTES()
        &&& lookup_ok(self.new_data_hash_lookup@, nd)
        &&& forall|i: int| 0 <= i < self.file_info@.len() ==> seg_ok(#[trigger] self.file_info@[i], nd)
        &&& ire_ok(self.internally_referencing_entries@, self.file_info@)
    }
    // C01: the chunk-hash sequence the segment list denotes (zero-hash segments refer to the xorb under construction)
    spec fn den(&self) -> Seq<MerkleHash> { flatten(self.file_info@, hashes(self.new_data@)) }
    spec fn wf(&self) -> bool {
        &&& self.istruct()
        &&& /*C01*/ self.den() == ch_hashes(self.chunk_hashes@)
        &&& forall|i: int| 0 <= i < self.chunk_hashes@.len() ==> (#[trigger] self.chunk_hashes@[i]).1 == len_of(self.chunk_hashes@[i].0)
        &&& metrics_ok(self.deduplication_metrics, ch_hashes(self.chunk_hashes@))
    }
    spec fn same_but_file_info(&self, o: &Self) -> bool {
        &&& self.new_data == o.new_data && self.new_data_size == o.new_data_size && self.new_data_hash_lookup == o.new_data_hash_lookup
        &&& self.chunk_hashes == o.chunk_hashes && self.new_xorbs == o.new_xorbs && self.deduplication_metrics == o.deduplication_metrics
        &&& self.min_spacing_between_global_dedup_queries == o.min_spacing_between_global_dedup_queries
        &&& self.next_chunk_index_elegible_for_global_dedup_query == o.next_chunk_index_elegible_for_global_dedup_query
    }

//@ extract deduplication/src/file_deduplication.rs in `impl<DataInterfaceType: DeduplicationDataInterface> FileDeduper<DataInterfaceType>` fn file_data_sequence_continues_current
//@ ret r
//@ contract
        ensures r == (self.file_info@.len() > 0 && self.file_info@.last().cas_hash == fse.cas_hash
                      && self.file_info@.last().chunk_index_end == fse.chunk_index_start),
//@ end

//@ extract deduplication/src/file_deduplication.rs in `impl<DataInterfaceType: DeduplicationDataInterface> FileDeduper<DataInterfaceType>` fn add_file_data_sequence_entry
//@ contract
        requires
            old(self).istruct(),
            seg_ok(fse, hashes(old(self).new_data@)),
            n_deduped == seg_den(fse, hashes(old(self).new_data@)).len(),
        ensures
            final(self).istruct(),
            /*@C01,C02*/ final(self).den() == old(self).den() + seg_den(fse, hashes(old(self).new_data@)),
            final(self).same_but_file_info(old(self)),
//@ body-start
        let ghost fi0 = self.file_info@; let ghost nd = hashes(self.new_data@); let ghost ire0 = self.internally_referencing_entries@;
//@ before `let last_entry = self.file_info.last_mut().unwrap();`
            proof { lemma_extend_last(fi0, nd, fse); }
//@ before `self.defrag_tracker.increment_last_range_in_fragmentation_estimate(n_deduped);`
            proof {
                let m = merged(fi0.last(), fse);
                assert(self.file_info@ =~= fi0.update(fi0.len() - 1, m));
                assert(fi0.update(fi0.len() - 1, m) =~= fi0.drop_last().push(m));
                lemma_ire_update(ire0, fi0, fi0.len() - 1, m);
            }
//@ before `self.file_info.push(fse);`
            proof { assert(fi0.len() == self.file_info.len()); lemma_flatten_push(fi0, nd, fse); lemma_ire_push(ire0, fi0, fse); }
//@ end

//@ extract deduplication/src/file_deduplication.rs in `impl<DataInterfaceType: DeduplicationDataInterface> FileDeduper<DataInterfaceType>` fn dedup_query_against_local_data
//@ ret r
//@ rules R4e R5
//@ contract
        requires old(self).istruct(), chunks@.len() > 0,
        ensures
            *final(self) == *old(self),
            /*@C05,C01*/ match r {
                Some((n, fse)) => 1 <= n <= chunks@.len() && fse.cas_hash == zero_hash()
                    && seg_ok(fse, hashes(old(self).new_data@))
                    && seg_den(fse, hashes(old(self).new_data@)) == chunks@.subrange(0, n as int),
                None => true,
            },
//@ body-start
        let ghost nd = hashes(self.new_data@);
//@ after `let mut end_idx = base_idx + 1;`
            proof {
                lemma_sum_len_one(nd, base_idx as int);
                assert(nd.subrange(base_idx as int, end_idx as int) =~= chunks@.subrange(0, 1));
                lemma_sum_len_subrange(nd, 0, nd.len() as int); assert(nd.subrange(0, nd.len() as int) =~= nd);
            }
//@ loop 1
                invariant_except_break
                    end_idx == base_idx + vx_n1,
                invariant
                    *self == *old(self), /*@C01,C02,C05*/ self.istruct(), nd == hashes(self.new_data@),
                    1 <= vx_n1 <= chunks@.len() || (chunks@.len() == 1 && vx_n1 == 1),
                    base_idx < end_idx <= nd.len(), end_idx - base_idx <= chunks@.len(), end_idx - base_idx <= vx_n1,
                    n_bytes == sum_len(nd.subrange(base_idx as int, end_idx as int)),
                    nd.subrange(base_idx as int, end_idx as int) == chunks@.subrange(0, end_idx - base_idx),
                decreases chunks@.len() - vx_n1,
//@ before `Some((end_idx - base_idx`
            proof { lemma_sum_len_subrange(nd, base_idx as int, end_idx as int); }
//@ before `end_idx = idx + 1;`
                        proof {
                            lemma_sum_len_split(nd, base_idx as int, idx as int, idx + 1);
                            lemma_sum_len_one(nd, idx as int);
                            lemma_sum_len_subrange(nd, base_idx as int, idx + 1);
                            lemma_sum_len_subrange(nd, 0, nd.len() as int); assert(nd.subrange(0, nd.len() as int) =~= nd);
                            assert(nd.subrange(base_idx as int, idx + 1) =~= chunks@.subrange(0, idx + 1 - base_idx));
                        }
//@ end

//@ extract deduplication/src/file_deduplication.rs in `impl<DataInterfaceType: DeduplicationDataInterface> FileDeduper<DataInterfaceType>` fn cut_new_xorb
//@ ret r
//@ rules R4f
//@ subst `MerkleHash::default()` => `zero_hash()` :: spec form of Default::default() — all occurrences are inside debug assertions turned into proof obligations by R2
//@ contract
        requires old(self).istruct(),
            // the only caller (process_chunks) cuts only when the next chunk does not fit, hence with at least one chunk
            old(self).new_data@.len() >= 1,
        ensures
            /*@C02,C15*/ xorb_wf(r, old(self).new_data@),
            /*@C15*/ xorb_within_limits(r),
            final(self).istruct(),
            /*@C01*/ final(self).den() == old(self).den(),
            final(self).new_data@.len() == 0,
            /*@C15*/ forall|i: int| 0 <= i < final(self).file_info@.len() ==> (#[trigger] final(self).file_info@[i]).cas_hash != zero_hash(),
            final(self).file_info@.len() == old(self).file_info@.len(),
            final(self).chunk_hashes == old(self).chunk_hashes, final(self).new_xorbs == old(self).new_xorbs,
            final(self).deduplication_metrics == old(self).deduplication_metrics,
            final(self).min_spacing_between_global_dedup_queries == old(self).min_spacing_between_global_dedup_queries,
            final(self).next_chunk_index_elegible_for_global_dedup_query == old(self).next_chunk_index_elegible_for_global_dedup_query,
//@ body-start
        let ghost fi0 = self.file_info@; let ghost nd0 = hashes(self.new_data@); let ghost ire0 = self.internally_referencing_entries@;
        proof { assert(self.new_data@.subrange(0, self.new_data@.len() as int) =~= self.new_data@); }
//@ loop 1
            invariant
                vx_n1 <= ire0.len(), self.internally_referencing_entries@ == ire0, ire_ok(ire0, fi0),
                self.new_data == old(self).new_data, nd0 == hashes(self.new_data@),
                self.file_info@.len() == fi0.len(), xorb_hash != zero_hash(),
                forall|i: int| 0 <= i < fi0.len() ==> patched(#[trigger] fi0[i], self.file_info@[i], xorb_hash) && seg_ok(fi0[i], nd0),
                forall|j: int| 0 <= j < vx_n1 ==> self.file_info@[(#[trigger] ire0[j]) as int].cas_hash == xorb_hash,
                forall|j: int| vx_n1 <= j < ire0.len() ==> self.file_info@[(#[trigger] ire0[j]) as int].cas_hash == zero_hash(),
                self.new_data_size == old(self).new_data_size, self.new_data_hash_lookup == old(self).new_data_hash_lookup,
                self.chunk_hashes == old(self).chunk_hashes, self.new_xorbs == old(self).new_xorbs,
                self.deduplication_metrics == old(self).deduplication_metrics,
                self.min_spacing_between_global_dedup_queries == old(self).min_spacing_between_global_dedup_queries,
                self.next_chunk_index_elegible_for_global_dedup_query == old(self).next_chunk_index_elegible_for_global_dedup_query,
            decreases ire0.len() - vx_n1,
//@ loop 2
                invariant
                    vx_n2 <= self.file_info@.len(),
                    forall|i: int| 0 <= i < self.file_info@.len() ==> (#[trigger] self.file_info@[i]).cas_hash != zero_hash(),
                decreases self.file_info@.len() - vx_n2,
//@ before `{ let mut vx_n2`
            proof {
                assert forall|i: int| 0 <= i < self.file_info@.len() implies (#[trigger] self.file_info@[i]).cas_hash != zero_hash() by {
                    assert(patched(fi0[i], self.file_info@[i], xorb_hash));
                    if fi0[i].cas_hash == zero_hash() {
                        let j = choose|j: int| 0 <= j < ire0.len() && #[trigger] ire0[j] == i;
                        assert(self.file_info@[ire0[j] as int].cas_hash == xorb_hash);
                    }
                }
            }
//@ before `self.new_data.clear();`
        proof {
            lemma_sum_len_subrange(nd0, 0, nd0.len() as int); assert(nd0.subrange(0, nd0.len() as int) =~= nd0);
            lemma_cut_flatten(fi0, self.file_info@, nd0, xorb_hash);
        }
//@ before `new_xorb` #3
        proof {
            assert(hashes(self.new_data@) =~= Seq::<MerkleHash>::empty());
            assert(sum_len(Seq::<MerkleHash>::empty()) == 0);
        }
//@ end

//@ extract deduplication/src/file_deduplication.rs in `impl<DataInterfaceType: DeduplicationDataInterface> FileDeduper<DataInterfaceType>` fn process_chunks
//@ ret r
//@ rules R4b
//@ subst `= &deduped_blocks[local_chunk_index] { local_chunk_index += n_deduped;` => `= &deduped_blocks[local_chunk_index] { local_chunk_index += *n_deduped;` :: explicit deref of the `&usize` pattern binding: `usize += &usize` is std's forwarding impl of `usize += usize` on the dereferenced value, and vstd specifies only the latter
//@ subst `Vec::from_iter(chunks.iter().map(|c| c.hash))` => `vx_chunk_hashes(chunks)` :: R7 outline of an iterator chain (projection to the chunk hashes)
//@ subst `self.chunk_hashes.extend(chunks.iter().map(|c| (c.hash, c.data.len())));` => `vx_extend_hash_len(&mut self.chunk_hashes, chunks);` :: R7 outline of an iterator chain (appends the (hash, len) projection)
//@ contract
        requires
            old(self).wf(), chunks_ok(chunks@),
            // configuration: no chunk is longer than a xorb may be (the chunker's maximum is below MAX_XORB_BYTES)
            forall|i: int| 0 <= i < chunks@.len() ==> (#[trigger] chunks@[i]).data@.len() <= spec_MAX_XORB_BYTES(),
            // the file's chunk count and byte size fit usize
            old(self).chunk_hashes@.len() + chunks@.len() + old(self).min_spacing_between_global_dedup_queries <= usize::MAX,
            sum_len(ch_hashes(old(self).chunk_hashes@)) + sum_len(hashes(chunks@)) <= usize::MAX,
        ensures
            match r {
                Ok(m) => final(self).wf()
                    && /*@C03*/ final(self).chunk_hashes@ == old(self).chunk_hashes@ + hl_view(chunks@)
                    && /*@C14*/ metrics_ok(m, hashes(chunks@))
                    && /*@C14*/ m.xorb_bytes_uploaded == 0 && m.shard_bytes_uploaded == 0 && m.total_bytes_uploaded == 0
                    && /*@C14*/ metrics_sum(old(self).deduplication_metrics, m, final(self).deduplication_metrics),
                Err(_) => true,
            },
//@ after `let chunk_hashes = vx_chunk_hashes(chunks);`
        let ghost hs = hashes(chunks@);
        let ghost done0 = ch_hashes(self.chunk_hashes@);
        proof { lemma_sum_len_subrange(hs, 0, 0); assert(sum_len(hs.subrange(0, 0)) == 0) by { assert(hs.subrange(0, 0) =~= Seq::<MerkleHash>::empty()); } }
//@ loop 1
            invariant
                vx_n1 <= 2, vx_arr1@ == seq![true, false],
                hs == hashes(chunks@), chunk_hashes@ == hs, deduped_blocks@.len() == chunks@.len(), answers_ok(deduped_blocks@, hs),
                self.wf(), self.chunk_hashes == old(self).chunk_hashes, self.deduplication_metrics == old(self).deduplication_metrics,
                self.min_spacing_between_global_dedup_queries == old(self).min_spacing_between_global_dedup_queries,
                global_chunk_index_start == self.chunk_hashes@.len(),
                global_chunk_index_start + chunks@.len() + self.min_spacing_between_global_dedup_queries <= usize::MAX,
                dedup_metrics.total_bytes == 0, dedup_metrics.deduped_bytes == 0, dedup_metrics.new_bytes == 0, dedup_metrics.defrag_prevented_dedup_bytes == 0,
                dedup_metrics.total_chunks == 0, dedup_metrics.deduped_chunks == 0, dedup_metrics.new_chunks == 0, dedup_metrics.defrag_prevented_dedup_chunks == 0,
                dedup_metrics.xorb_bytes_uploaded == 0, dedup_metrics.shard_bytes_uploaded == 0, dedup_metrics.total_bytes_uploaded == 0,
                dedup_metrics.deduped_chunks_by_global_dedup <= chunks@.len(), dedup_metrics.deduped_bytes_by_global_dedup <= sum_len(hs),
                vx_n1 <= 1 ==> dedup_metrics.deduped_chunks_by_global_dedup == 0 && dedup_metrics.deduped_bytes_by_global_dedup == 0,
                sum_len(hs) <= usize::MAX,
            decreases 2 - vx_n1,
//@ loop 2
                invariant
                    vx_n1 <= 2, first_pass == (vx_n1 == 1),
                    local_chunk_index <= chunks@.len(),
                    hs == hashes(chunks@), chunk_hashes@ == hs, deduped_blocks@.len() == chunks@.len(), answers_ok(deduped_blocks@, hs),
                    self.wf(), self.chunk_hashes == old(self).chunk_hashes, self.deduplication_metrics == old(self).deduplication_metrics,
                    self.min_spacing_between_global_dedup_queries == old(self).min_spacing_between_global_dedup_queries,
                    global_chunk_index_start == self.chunk_hashes@.len(),
                    global_chunk_index_start + chunks@.len() + self.min_spacing_between_global_dedup_queries <= usize::MAX,
                    dedup_metrics.total_bytes == 0, dedup_metrics.deduped_bytes == 0, dedup_metrics.new_bytes == 0, dedup_metrics.defrag_prevented_dedup_bytes == 0,
                    dedup_metrics.total_chunks == 0, dedup_metrics.deduped_chunks == 0, dedup_metrics.new_chunks == 0, dedup_metrics.defrag_prevented_dedup_chunks == 0,
                    dedup_metrics.xorb_bytes_uploaded == 0, dedup_metrics.shard_bytes_uploaded == 0, dedup_metrics.total_bytes_uploaded == 0,
                    first_pass ==> dedup_metrics.deduped_chunks_by_global_dedup == 0 && dedup_metrics.deduped_bytes_by_global_dedup == 0,
                    dedup_metrics.deduped_chunks_by_global_dedup <= local_chunk_index,
                    dedup_metrics.deduped_bytes_by_global_dedup <= sum_len(hs.subrange(0, local_chunk_index as int)),
                    sum_len(hs) <= usize::MAX,
                decreases chunks@.len() - local_chunk_index,
//@ before `let global_chunk_index = global_chunk_index_start + local_chunk_index;`
                let ghost lci = local_chunk_index as int;
                proof { lemma_sum_len_subrange(hs, 0, lci); lemma_sum_len_subrange(hs, 0, hs.len() as int); assert(hs.subrange(0, hs.len() as int) =~= hs); }
//@ before `local_chunk_index += *n_deduped;`
                    proof {
                        let q = hs.subrange(lci, hs.len() as int);
                        assert(match deduped_blocks@[lci] { Some((n, fse)) => truthful(q, n as int, fse), None => true });
                        lemma_sum_len_split(hs, 0, lci, lci + *n_deduped);
                        lemma_sum_len_subrange(hs, 0, lci + *n_deduped);
                    }
//@ before `if !first_pass {`
                    proof {
                        let q = hs.subrange(lci, hs.len() as int);
                        assert(q.subrange(0, n_deduped as int) =~= hs.subrange(lci, lci + n_deduped));
                        lemma_sum_len_split(hs, 0, lci, lci + n_deduped);
                        lemma_sum_len_subrange(hs, 0, lci + n_deduped);
                    }
//@ before `local_chunk_index += 1;`
                    proof { lemma_sum_len_split(hs, 0, lci, lci + 1); lemma_sum_len_subrange(hs, 0, lci + 1); }
//@ before `let new_shards_added`
            proof { assert(hs.subrange(0, hs.len() as int) =~= hs); }
//@ loop 3
            invariant
                cur_idx <= chunks@.len(),
                hs == hashes(chunks@), chunk_hashes@ == hs, chunks_ok(chunks@), deduped_blocks@.len() == chunks@.len(), answers_ok(deduped_blocks@, hs),
                forall|i: int| 0 <= i < chunks@.len() ==> (#[trigger] chunks@[i]).data@.len() <= spec_MAX_XORB_BYTES(),
                /*@C01,C02,C05,C15*/ self.istruct(),   // the lookup tables index the xorb under construction: what every dedup answer and segment rests on
                /*@C01*/ self.den() == done0 + hs.subrange(0, cur_idx as int),
                done0 == ch_hashes(old(self).chunk_hashes@),
                self.chunk_hashes == old(self).chunk_hashes, self.deduplication_metrics == old(self).deduplication_metrics,
                old(self).wf(),
                sum_len(done0) + sum_len(hs) <= usize::MAX, old(self).chunk_hashes@.len() + chunks@.len() <= usize::MAX,
                /*@C14*/ dedup_metrics.total_chunks == cur_idx,
                /*@C14*/ dedup_metrics.total_bytes == sum_len(hs.subrange(0, cur_idx as int)),
                /*@C14*/ dedup_metrics.new_bytes + dedup_metrics.deduped_bytes == dedup_metrics.total_bytes,
                /*@C14*/ dedup_metrics.new_chunks + dedup_metrics.deduped_chunks == dedup_metrics.total_chunks,
                /*@C14*/ dedup_metrics.defrag_prevented_dedup_bytes <= dedup_metrics.new_bytes,
                /*@C14*/ dedup_metrics.defrag_prevented_dedup_chunks <= dedup_metrics.new_chunks,
                dedup_metrics.xorb_bytes_uploaded == 0, dedup_metrics.shard_bytes_uploaded == 0, dedup_metrics.total_bytes_uploaded == 0,
                dedup_metrics.deduped_chunks_by_global_dedup <= chunks@.len(), dedup_metrics.deduped_bytes_by_global_dedup <= sum_len(hs),
            decreases chunks@.len() - cur_idx,
//@ before `let mut dedupe_query = deduped_blocks[cur_idx].take();`
            let ghost ci = cur_idx as int;
            let ghost q = hs.subrange(ci, hs.len() as int);
            let ghost stored = deduped_blocks@[ci]; let ghost d0 = deduped_blocks@;
            proof {
                lemma_sum_len_subrange(hs, 0, ci); lemma_sum_len_subrange(hs, 0, hs.len() as int); assert(hs.subrange(0, hs.len() as int) =~= hs);
                lemma_sum_len_subrange(done0, 0, done0.len() as int);
            }
//@ before `if let Some((n_deduped, fse)) = dedupe_query {`
            proof {
                assert(answers_ok(deduped_blocks@, hs)) by {
                    assert forall|i: int| 0 <= i < deduped_blocks@.len() implies match #[trigger] deduped_blocks@[i] { Some((n, fse)) => truthful(hs.subrange(i, hs.len() as int), n as int, fse), None => true } by {
                        if i != ci { assert(deduped_blocks@[i] == d0[i]); }
                    }
                }
            }
            let ghost nd_q = hashes(self.new_data@);
//@ before `if self.file_data_sequence_continues_current(&fse)`
                proof {
                    // whichever source answered: the answer denotes the next n_deduped fed chunks
                    assert(seg_ok(fse, nd_q) && seg_den(fse, nd_q) == q.subrange(0, n_deduped as int) && 1 <= n_deduped <= q.len()) by {
                        if stored.is_some() { assert(truthful(q, n_deduped as int, fse)); }
                    }
                    assert(q.subrange(0, n_deduped as int) =~= hs.subrange(ci, ci + n_deduped));
                    lemma_sum_len_split(hs, 0, ci, ci + n_deduped);
                    lemma_sum_len_subrange(hs, 0, ci + n_deduped);
                }
//@ before `cur_idx += n_deduped;`
                    proof { assert((done0 + hs.subrange(0, ci)) + hs.subrange(ci, ci + n_deduped) =~= done0 + hs.subrange(0, ci + n_deduped)); }
//@ before `let n_bytes = chunks[cur_idx].data.len();`
            proof {
                lemma_sum_len_split(hs, 0, ci, ci + 1); lemma_sum_len_one(hs, ci); lemma_sum_len_subrange(hs, 0, ci + 1);
                assert(hs[ci] == chunks@[ci].hash); assert(chunk_ok(chunks@[ci]));
            }
//@ before `if !self.file_info.is_empty()`
            let ghost fi_b = self.file_info@; let ghost nd_b = hashes(self.new_data@); let ghost ire_b = self.internally_referencing_entries@; let ghost lk_b = self.new_data_hash_lookup@;
            let ghost h = chunks@[ci].hash;
            proof {
                // the xorb under construction has room for this chunk (the cut test above ran): the statement of C15 at the point where
                // a chunk is appended, not a proof convenience
                /*@C15*/ assert(self.new_data_size + n_bytes <= spec_MAX_XORB_BYTES() && self.new_data@.len() + 1 <= spec_MAX_XORB_CHUNKS());
                assert(self.den() == done0 + hs.subrange(0, ci));
            }
//@ before `let last_entry = self.file_info.last_mut().unwrap();`
                proof { lemma_new_chunk_extend(fi_b, nd_b, h); }
//@ before `self.defrag_tracker.increment_last_range_in_fragmentation_estimate(1);`
                proof {
                    assert(self.file_info@ =~= fi_b.update(fi_b.len() - 1, grown(fi_b.last(), h)));
                    lemma_ire_update(ire_b, fi_b, fi_b.len() - 1, grown(fi_b.last(), h));
                }
//@ before `self.defrag_tracker.add_range_to_fragmentation_estimate(1);`
                proof {
                    lemma_new_chunk_push(fi_b, nd_b, h, self.file_info@.last());
                    lemma_ire_push(ire_b, fi_b, self.file_info@.last());
                    assert(self.file_info@ =~= fi_b.push(self.file_info@.last()));
                }
//@ before `cur_idx += 1;`
            proof {
                lemma_sum_len_push(nd_b, h);
                lemma_lookup_insert(lk_b, nd_b, h);
                assert(hashes(self.new_data@) =~= nd_b.push(h));
                assert((done0 + hs.subrange(0, ci)).push(h) =~= done0 + hs.subrange(0, ci + 1));
            }
//@ before `self.deduplication_metrics.merge_in(&dedup_metrics);`
        proof {
            assert(hs.subrange(0, hs.len() as int) =~= hs);
            lemma_sum_len_append(done0, hs);
        }
//@ before `Ok(dedup_metrics)`
        proof {
            assert(ch_hashes(self.chunk_hashes@) =~= done0 + hs);
            assert forall|i: int| 0 <= i < self.chunk_hashes@.len() implies (#[trigger] self.chunk_hashes@[i]).1 == len_of(self.chunk_hashes@[i].0) by {
                if i >= old(self).chunk_hashes@.len() { assert(chunk_ok(chunks@[i - old(self).chunk_hashes@.len()])); }
            }
        }
//@ end

    // R7 outline of `self.file_info.iter().map(|entry| { .. }).collect()`: assumed to apply the closure - whose body is verified as
    // `vx_verification_step` below - to every segment in order, threading `chunk_idx`
    #[verifier::external_body]
    fn vx_verification_all(&self, chunk_idx: &mut usize) -> (r: Vec<FileVerificationEntry>)
        requires *old(chunk_idx) == 0,
            forall|i: int| 0 <= i < self.file_info@.len() ==> (#[trigger] self.file_info@[i]).chunk_index_start <= self.file_info@[i].chunk_index_end
                && off(self.file_info@, i + 1) <= self.chunk_hashes@.len(),
        ensures r@.len() == self.file_info@.len(),
            forall|i: int| 0 <= i < r@.len() ==> (#[trigger] r@[i]).range_hash
                == range_hash_spec(ch_hashes(self.chunk_hashes@).subrange(off(self.file_info@, i), off(self.file_info@, i + 1))),
    { unimplemented!() }

//@ extract deduplication/src/file_deduplication.rs in `impl<DataInterfaceType: DeduplicationDataInterface> FileDeduper<DataInterfaceType>` region finalize
//@ block `.map(|entry| {`
//@ sig `fn vx_verification_step(&self, entry: &FileDataSequenceEntry, chunk_idx: usize) -> (r: (FileVerificationEntry, usize))`
//@ epilogue `($tail, chunk_idx)`
//@ subst `self.chunk_hashes[chunk_idx..chunk_idx + n_chunks] .iter() .map(|(hash, _)| *hash) .collect()` => `vx_firsts(&self.chunk_hashes[chunk_idx..chunk_idx + n_chunks])` :: R7 outline of an iterator chain (projection to the hashes); the slice bounds stay verified
//@ subst `mdb_shard::chunk_verification::range_hash_from_chunks` => `range_hash_from_chunks` :: R11 stub path
//@ subst `let chunk_hashes: Vec<_> =` => `let chunk_hashes: Vec<MerkleHash> =` :: type annotation only
//@ body-start
        let mut chunk_idx = chunk_idx; let ghost c0 = chunk_idx as int;
//@ contract
        requires entry.chunk_index_start <= entry.chunk_index_end,
            chunk_idx + (entry.chunk_index_end - entry.chunk_index_start) <= self.chunk_hashes@.len(),
        ensures
            /*@C02*/ r.0.range_hash == range_hash_spec(ch_hashes(self.chunk_hashes@).subrange(chunk_idx as int, chunk_idx + seg_n(*entry))),
            r.1 == chunk_idx + seg_n(*entry),
//@ before `let chunk_hashes: Vec<MerkleHash> =`
        proof { assert(self.chunk_hashes@.len() == self.chunk_hashes.len()); }
//@ before `let range_hash =`
        proof { assert(ch_hashes(self.chunk_hashes@.subrange(c0, c0 + n_chunks)) =~= ch_hashes(self.chunk_hashes@).subrange(c0, c0 + n_chunks)); }
//@ end

//@ extract deduplication/src/file_deduplication.rs in `impl<DataInterfaceType: DeduplicationDataInterface> FileDeduper<DataInterfaceType>` fn finalize
//@ ret r
//@ replace-span `let verification = self` `}) .collect();` `let verification: Vec<FileVerificationEntry> = self.vx_verification_all(&mut chunk_idx);` :: R7 outline; the closure body is verified as vx_verification_step
//@ contract
        requires self.wf(),
            // a file record holds its segment count in a u32 (FileDataSequenceHeader::new panics otherwise)
            self.file_info@.len() <= u32::MAX,
        ensures
            /*@C03,C02*/ r.0 == file_hash_spec(self.chunk_hashes@, file_hash_salt),
            /*@C01,C15*/ r.1.chunks == self.new_data && r.1.num_bytes == self.new_data_size && r.1.pending_file_info@.len() == 1,
            // what the session layer (U-SESSCUT) requires of a finished file's left-over data, and C01 at the hand-over
            /*@C01,C02,C15*/ r.1.agg_wf() && r.1.within_limits() && r.1.den(0) == ch_hashes(self.chunk_hashes@),
            /*@C01,C02*/ r.1.pending_file_info@[0].0.segments == self.file_info && r.1.pending_file_info@[0].1 == self.internally_referencing_entries,
            /*@C02*/ r.1.pending_file_info@[0].0.metadata.file_hash == r.0 && r.1.pending_file_info@[0].0.metadata.num_entries == self.file_info@.len(),
            /*@C02*/ r.1.pending_file_info@[0].0.metadata_ext == metadata_ext,
            // the header announces exactly what the record carries (a reader sizes and parses the record by these two flags)
            /*@C02*/ hdr_says_verification(r.1.pending_file_info@[0].0.metadata) && hdr_says_metadata_ext(r.1.pending_file_info@[0].0.metadata) == (metadata_ext is Some),
            /*@C02*/ r.1.pending_file_info@[0].0.verification@.len() == self.file_info@.len(),
            /*@C02*/ forall|i: int| 0 <= i < self.file_info@.len() ==> (#[trigger] r.1.pending_file_info@[0].0.verification@[i]).range_hash
                        == range_hash_spec(seg_den(self.file_info@[i], hashes(self.new_data@))),
            /*@C14*/ r.2 == self.deduplication_metrics,
            /*@C14,C03*/ seg_bytes_sum(self.file_info@) == self.deduplication_metrics.total_bytes,
            r.3 == self.new_xorbs,
//@ body-start
        let ghost fi0 = self.file_info@; let ghost nd = hashes(self.new_data@); let ghost ch = ch_hashes(self.chunk_hashes@);
        proof {
            lemma_flatten_len(fi0, nd);
            assert forall|i: int| 0 <= i < fi0.len() implies (#[trigger] fi0[i]).chunk_index_start <= fi0[i].chunk_index_end && off(fi0, i + 1) <= self.chunk_hashes@.len() by {
                lemma_flatten_segment(fi0, nd, i);
            }
            assert(self.chunk_hashes@.subrange(0, self.chunk_hashes@.len() as int) =~= self.chunk_hashes@);
        }
//@ before `let fi = MDBFileInfo {`
        proof {
            lemma_new_flags(true, true); lemma_new_flags(true, false); lemma_new_flags(false, true); lemma_new_flags(false, false);
            assert forall|i: int| 0 <= i < fi0.len() implies (#[trigger] verification@[i]).range_hash == range_hash_spec(seg_den(fi0[i], nd)) by {
                lemma_flatten_segment(fi0, nd, i);
            }
            lemma_sum_len_subrange(nd, 0, nd.len() as int);
            lemma_seg_bytes_sum(fi0, nd);
        }
//@ end
}

} // verus!
fn main() {}
