//@ unit U-DEDUP
//@ props C01 C02 C03 C14 C15
//@ verus-args --rlimit 200
//@ config MAX_XORB_BYTES MAX_XORB_CHUNKS
#![feature(allocator_api)]
#![allow(non_snake_case, unused)]
use vstd::prelude::*;
use std::collections::HashMap;
use std::sync::Arc;
verus! {
//@ include prelude/dedup_types.rs

pub const MDB_DEFAULT_FILE_FLAG: u32 = 0;
pub const MDB_DEFAULT_CAS_FLAG: u32 = 0;

//@ extract deduplication/src/chunking.rs struct Chunk
//@ end
impl Clone for Chunk {
    #[verifier::external_body]
    fn clone(&self) -> (r: Chunk) ensures r == *self { unimplemented!() }
}
//@ extract mdb_shard/src/file_structs.rs struct FileDataSequenceEntry
//@ end
impl Clone for FileDataSequenceEntry {
    #[verifier::external_body]
    fn clone(&self) -> (r: FileDataSequenceEntry) ensures r == *self { unimplemented!() }
}
impl FileDataSequenceEntry {
//@ extract mdb_shard/src/file_structs.rs in `impl FileDataSequenceEntry` fn new
//@ rules R15 R12
//@ ret r
//@ contract
        requires unpacked_segment_bytes <= u32::MAX, chunk_index_start <= u32::MAX, chunk_index_end <= u32::MAX,
        ensures r.cas_hash == cas_hash, r.cas_flags == 0, r.unpacked_segment_bytes == unpacked_segment_bytes,
            r.chunk_index_start == chunk_index_start, r.chunk_index_end == chunk_index_end,
//@ end
}
//@ extract deduplication/src/dedup_metrics.rs struct DeduplicationMetrics
//@ end
impl Clone for DeduplicationMetrics {
    #[verifier::external_body]
    fn clone(&self) -> (r: DeduplicationMetrics) ensures r == *self { unimplemented!() }
}
impl Copy for DeduplicationMetrics {}
impl DeduplicationMetrics {
    // derived Default: all counters zero (assumed: #[derive(Default)] on a struct of usize fields)
    #[verifier::external_body]
    fn default() -> (r: DeduplicationMetrics)
        ensures r.total_bytes == 0, r.deduped_bytes == 0, r.new_bytes == 0, r.deduped_bytes_by_global_dedup == 0, r.defrag_prevented_dedup_bytes == 0,
            r.total_chunks == 0, r.deduped_chunks == 0, r.new_chunks == 0, r.deduped_chunks_by_global_dedup == 0, r.defrag_prevented_dedup_chunks == 0,
            r.xorb_bytes_uploaded == 0, r.shard_bytes_uploaded == 0, r.total_bytes_uploaded == 0,
    { unimplemented!() }
//@ extract deduplication/src/dedup_metrics.rs in `impl DeduplicationMetrics` fn merge_in
//@ contract
        requires
            old(self).total_bytes + other.total_bytes <= usize::MAX, old(self).deduped_bytes + other.deduped_bytes <= usize::MAX,
            old(self).new_bytes + other.new_bytes <= usize::MAX, old(self).deduped_bytes_by_global_dedup + other.deduped_bytes_by_global_dedup <= usize::MAX,
            old(self).defrag_prevented_dedup_bytes + other.defrag_prevented_dedup_bytes <= usize::MAX,
            old(self).total_chunks + other.total_chunks <= usize::MAX, old(self).deduped_chunks + other.deduped_chunks <= usize::MAX,
            old(self).new_chunks + other.new_chunks <= usize::MAX, old(self).deduped_chunks_by_global_dedup + other.deduped_chunks_by_global_dedup <= usize::MAX,
            old(self).defrag_prevented_dedup_chunks + other.defrag_prevented_dedup_chunks <= usize::MAX,
            old(self).xorb_bytes_uploaded + other.xorb_bytes_uploaded <= usize::MAX, old(self).shard_bytes_uploaded + other.shard_bytes_uploaded <= usize::MAX,
            old(self).total_bytes_uploaded + other.total_bytes_uploaded <= usize::MAX,
        ensures /*@C14*/ metrics_sum(*old(self), *other, *final(self)),
//@ end
}
spec fn metrics_sum(a: DeduplicationMetrics, b: DeduplicationMetrics, c: DeduplicationMetrics) -> bool {
    &&& c.total_bytes == a.total_bytes + b.total_bytes &&& c.deduped_bytes == a.deduped_bytes + b.deduped_bytes
    &&& c.new_bytes == a.new_bytes + b.new_bytes &&& c.deduped_bytes_by_global_dedup == a.deduped_bytes_by_global_dedup + b.deduped_bytes_by_global_dedup
    &&& c.defrag_prevented_dedup_bytes == a.defrag_prevented_dedup_bytes + b.defrag_prevented_dedup_bytes
    &&& c.total_chunks == a.total_chunks + b.total_chunks &&& c.deduped_chunks == a.deduped_chunks + b.deduped_chunks
    &&& c.new_chunks == a.new_chunks + b.new_chunks &&& c.deduped_chunks_by_global_dedup == a.deduped_chunks_by_global_dedup + b.deduped_chunks_by_global_dedup
    &&& c.defrag_prevented_dedup_chunks == a.defrag_prevented_dedup_chunks + b.defrag_prevented_dedup_chunks
    &&& c.xorb_bytes_uploaded == a.xorb_bytes_uploaded + b.xorb_bytes_uploaded &&& c.shard_bytes_uploaded == a.shard_bytes_uploaded + b.shard_bytes_uploaded
    &&& c.total_bytes_uploaded == a.total_bytes_uploaded + b.total_bytes_uploaded
}

// ---- R11 stub: fragmentation heuristics (floating point); every method is arbitrary, so the proofs cover every decision -------------
pub struct DefragPrevention { pub x: u8 }
impl DefragPrevention {
    #[verifier::external_body] pub fn increment_last_range_in_fragmentation_estimate(&mut self, nchunks: usize) { unimplemented!() }
    #[verifier::external_body] pub fn add_range_to_fragmentation_estimate(&mut self, nchunks: usize) { unimplemented!() }
    #[verifier::external_body] pub fn allow_dedup_on_next_range(&mut self, n: usize) -> bool { unimplemented!() }
}

// ---- xorb construction ------------------------------------------------------------------------------------------------------------
//@ extract mdb_shard/src/cas_structs.rs struct CASChunkSequenceHeader
//@ end
//@ extract mdb_shard/src/cas_structs.rs struct CASChunkSequenceEntry
//@ end
//@ extract mdb_shard/src/cas_structs.rs struct MDBCASInfo
//@ end
impl CASChunkSequenceHeader {
//@ extract mdb_shard/src/cas_structs.rs in `impl CASChunkSequenceHeader` fn new
//@ rules R15 R12
//@ ret r
//@ contract
        requires num_entries <= u32::MAX, num_bytes_in_cas <= u32::MAX,
        ensures r.cas_hash == cas_hash, r.num_entries == num_entries, r.num_bytes_in_cas == num_bytes_in_cas, r.cas_flags == 0, r.num_bytes_on_disk == 0,
//@ end
}
impl CASChunkSequenceEntry {
//@ extract mdb_shard/src/cas_structs.rs in `impl CASChunkSequenceEntry` fn new
//@ rules R15 R12
//@ ret r
//@ contract
        requires unpacked_segment_bytes <= u32::MAX, chunk_byte_range_start <= u32::MAX,
        ensures r.chunk_hash == chunk_hash, r.unpacked_segment_bytes == unpacked_segment_bytes, r.chunk_byte_range_start == chunk_byte_range_start,
//@ end
}

spec fn hashes(s: Seq<Chunk>) -> Seq<MerkleHash> { Seq::new(s.len(), |i: int| s[i].hash) }
spec fn chunk_ok(c: Chunk) -> bool { c.data@.len() == len_of(c.hash) }
spec fn chunks_ok(s: Seq<Chunk>) -> bool { forall|i: int| 0 <= i < s.len() ==> chunk_ok(#[trigger] s[i]) }
spec fn hl_view(s: Seq<Chunk>) -> Seq<(MerkleHash, usize)> { Seq::new(s.len(), |i: int| (s[i].hash, s[i].data@.len() as usize)) }

// the published xorb-hash construction is proved against a recursive spec in U-MERKLE; here it is an uninterpreted function of the
// (hash, length) list.  Content addressing (assumed, per call): the hash names exactly this list and is not the zero hash.
spec fn firsts(hl: Seq<(MerkleHash, usize)>) -> Seq<MerkleHash> { Seq::new(hl.len(), |i: int| hl[i].0) }
pub uninterp spec fn cas_hash_spec(hl: Seq<(MerkleHash, usize)>) -> MerkleHash;
#[verifier::external_body]
fn cas_node_hash(hl: &[(MerkleHash, usize)]) -> (r: MerkleHash)
    ensures r == cas_hash_spec(hl@), r != zero_hash(),
        xorb_chunks(r) == firsts(hl@),
{ unimplemented!() }
// R7 outline of `chunks.iter().map(|c| (c.hash, c.data.len())).collect()` (iterator chain): assumed to be the projection it spells
#[verifier::external_body]
fn vx_hash_and_len(chunks: &[Chunk]) -> (r: Vec<(MerkleHash, usize)>)
    ensures r@ == hl_view(chunks@)
{ chunks.iter().map(|c| (c.hash, c.data.len())).collect() }

//@ extract deduplication/src/raw_xorb_data.rs struct RawXorbData
//@ end
spec fn xorb_wf(x: RawXorbData, cs: Seq<Chunk>) -> bool {
    &&& x.cas_info.metadata.cas_hash == cas_hash_spec(hl_view(cs))
    &&& x.cas_info.metadata.cas_hash != zero_hash()
    &&& xorb_chunks(x.cas_info.metadata.cas_hash) == hashes(cs)
    &&& x.cas_info.metadata.num_entries == cs.len()
    &&& x.cas_info.metadata.num_bytes_in_cas == sum_len(hashes(cs))
    &&& x.cas_info.chunks@.len() == cs.len()
    &&& x.data@.len() == cs.len()
    &&& forall|i: int| 0 <= i < cs.len() ==> (#[trigger] x.cas_info.chunks@[i]).chunk_hash == cs[i].hash
            && x.cas_info.chunks@[i].unpacked_segment_bytes == cs[i].data@.len()
            && x.cas_info.chunks@[i].chunk_byte_range_start == sum_len(hashes(cs).subrange(0, i))
    &&& forall|i: int| 0 <= i < cs.len() ==> (#[trigger] x.data@[i])@ == cs[i].data@
}
// C15: what may be handed to the store
spec fn xorb_within_limits(x: RawXorbData) -> bool {
    &&& 1 <= x.cas_info.chunks@.len() <= spec_MAX_XORB_CHUNKS()
    &&& x.cas_info.metadata.num_bytes_in_cas <= spec_MAX_XORB_BYTES()
    &&& x.cas_info.metadata.cas_hash != zero_hash()
}
impl RawXorbData {
//@ extract deduplication/src/raw_xorb_data.rs in `impl RawXorbData` fn from_chunks
//@ rules R4g
//@ ret r
//@ subst `let mut chunk_seq_entries =` => `let mut chunk_seq_entries: Vec<CASChunkSequenceEntry> =` :: type annotation only (the spliced invariant mentions the variable before inference fixes its type; rustc checks it)
//@ subst `let mut data =` => `let mut data: Vec<Arc<[u8]>> =` :: type annotation only
//@ subst `chunks.iter().map(|c| (c.hash, c.data.len())).collect()` => `vx_hash_and_len(chunks)` :: R7 outline of an iterator chain (projection to (hash, len) pairs)
//@ contract
        requires xorb_config_ok(), chunks_ok(chunks@),
            /*@C15*/ chunks@.len() <= spec_MAX_XORB_CHUNKS(), sum_len(hashes(chunks@)) <= spec_MAX_XORB_BYTES(),
        ensures /*@C02,C15*/ xorb_wf(r, chunks@),
//@ loop 1
            invariant
                vx_n1 <= chunks@.len(), chunks_ok(chunks@), xorb_config_ok(),
                chunks@.len() <= spec_MAX_XORB_CHUNKS(), sum_len(hashes(chunks@)) <= spec_MAX_XORB_BYTES(),
                pos == sum_len(hashes(chunks@).subrange(0, vx_n1 as int)),
                data@.len() == vx_n1, chunk_seq_entries@.len() == vx_n1,
                forall|i: int| 0 <= i < vx_n1 ==> (#[trigger] chunk_seq_entries@[i]).chunk_hash == chunks@[i].hash
                    && chunk_seq_entries@[i].unpacked_segment_bytes == chunks@[i].data@.len()
                    && chunk_seq_entries@[i].chunk_byte_range_start == sum_len(hashes(chunks@).subrange(0, i)),
                forall|i: int| 0 <= i < vx_n1 ==> (#[trigger] data@[i])@ == chunks@[i].data@,
            decreases chunks@.len() - vx_n1,
//@ before `chunk_seq_entries.push(`
            proof {
                let hs = hashes(chunks@);
                let k = (vx_n1 - 1) as int;
                lemma_sum_len_subrange(hs, 0, k);
                lemma_sum_len_subrange(hs, 0, k + 1);
                lemma_sum_len_split(hs, 0, k, k + 1);
                lemma_sum_len_one(hs, k);
                assert(hs[k] == chunks@[k].hash);
                assert(hs.subrange(0, hs.len() as int) =~= hs);
                lemma_sum_len_subrange(hs, 0, hs.len() as int);
            }
//@ before `let num_bytes = pos;`
        proof { assert(hashes(chunks@).subrange(0, chunks@.len() as int) =~= hashes(chunks@)); assert(firsts(hl_view(chunks@)) =~= hashes(chunks@)); }
//@ end
//@ extract deduplication/src/raw_xorb_data.rs in `impl RawXorbData` fn hash
//@ ret r
//@ contract
        ensures r == self.cas_info.metadata.cas_hash,
//@ end
}

// ---- the store / session interface: callee contracts (assumed about implementors; DESIGN.md U-DEDUP) ------------------------------
// A dedup answer (n, fse) for the query hashes q is *truthful* (C05) when the first n query hashes are the chunk hashes of xorb
// fse.cas_hash at [start, start+n), the byte count is the sum of their lengths, and the xorb obeys the u32 format limit.
spec fn seg_src(e: FileDataSequenceEntry, nd: Seq<MerkleHash>) -> Seq<MerkleHash> {
    if e.cas_hash == zero_hash() { nd } else { xorb_chunks(e.cas_hash) }
}
spec fn seg_den(e: FileDataSequenceEntry, nd: Seq<MerkleHash>) -> Seq<MerkleHash> {
    seg_src(e, nd).subrange(e.chunk_index_start as int, e.chunk_index_end as int)
}
spec fn seg_ok(e: FileDataSequenceEntry, nd: Seq<MerkleHash>) -> bool {
    &&& e.chunk_index_start < e.chunk_index_end <= seg_src(e, nd).len()
    &&& e.unpacked_segment_bytes == sum_len(seg_den(e, nd))
    &&& sum_len(seg_src(e, nd)) <= u32::MAX
}
spec fn truthful(q: Seq<MerkleHash>, n: int, fse: FileDataSequenceEntry) -> bool {
    &&& 1 <= n <= q.len()
    &&& fse.cas_hash != zero_hash()
    &&& seg_ok(fse, Seq::<MerkleHash>::empty())
    &&& seg_den(fse, Seq::<MerkleHash>::empty()) == q.subrange(0, n)
}
trait DeduplicationDataInterface: Sized {
    type ErrorType;
//@ extract deduplication/src/interface.rs in `DeduplicationDataInterface` fn chunk_hash_dedup_query
//@ ret r
//@ contract
        requires query_hashes@.len() > 0,
        ensures match r { Ok(Some((n, fse))) => truthful(query_hashes@, n as int, fse), _ => true },
//@ end
//@ extract deduplication/src/interface.rs in `DeduplicationDataInterface` fn register_global_dedup_query
//@ end
//@ extract deduplication/src/interface.rs in `DeduplicationDataInterface` fn complete_global_dedup_queries
//@ end
//@ extract deduplication/src/interface.rs in `DeduplicationDataInterface` fn register_new_xorb
//@ contract
        requires /*@C15*/ xorb_within_limits(xorb), /*@C02*/ exists|cs: Seq<Chunk>| xorb_wf(xorb, cs),
//@ end
}

// R7 outlines of two iterator chains in process_chunks: assumed to be the projections they spell
#[verifier::external_body]
fn vx_chunk_hashes(chunks: &[Chunk]) -> (r: Vec<MerkleHash>)
    ensures r@ == hashes(chunks@)
{ Vec::from_iter(chunks.iter().map(|c| c.hash)) }
#[verifier::external_body]
fn vx_extend_hash_len(v: &mut Vec<(MerkleHash, usize)>, chunks: &[Chunk])
    ensures final(v)@ == old(v)@ + hl_view(chunks@)
{ v.extend(chunks.iter().map(|c| (c.hash, c.data.len()))); }
// R7 outline: `hash_is_global_dedup_eligible` (mdb_shard) only gates an optional background query; arbitrary
#[verifier::external_body] fn hash_is_global_dedup_eligible(h: &MerkleHash) -> bool { unimplemented!() }

spec fn flatten(fi: Seq<FileDataSequenceEntry>, nd: Seq<MerkleHash>) -> Seq<MerkleHash> decreases fi.len() {
    if fi.len() == 0 { Seq::<MerkleHash>::empty() } else { flatten(fi.drop_last(), nd) + seg_den(fi.last(), nd) }
}
spec fn ch_hashes(s: Seq<(MerkleHash, usize)>) -> Seq<MerkleHash> { Seq::new(s.len(), |i: int| s[i].0) }
spec fn lookup_ok(m: Map<MerkleHash, usize>, nd: Seq<MerkleHash>) -> bool {
    forall|h: MerkleHash| m.contains_key(h) ==> (#[trigger] m[h]) < nd.len() && nd[m[h] as int] == h
}
// the list of indices whose segment still refers to the xorb under construction (zero hash): exactly those
spec fn ire_ok(ire: Seq<usize>, fi: Seq<FileDataSequenceEntry>) -> bool {
    &&& forall|j: int| 0 <= j < ire.len() ==> (#[trigger] ire[j]) < fi.len() && fi[ire[j] as int].cas_hash == zero_hash()
    &&& forall|i: int| 0 <= i < fi.len() && (#[trigger] fi[i]).cas_hash == zero_hash() ==> exists|j: int| 0 <= j < ire.len() && #[trigger] ire[j] == i
    &&& forall|j1: int, j2: int| 0 <= j1 < j2 < ire.len() ==> (#[trigger] ire[j1]) < (#[trigger] ire[j2])
}
spec fn metrics_ok(m: DeduplicationMetrics, fed: Seq<MerkleHash>) -> bool {
    &&& /*C14*/ m.total_bytes == sum_len(fed) && m.total_chunks == fed.len()
    &&& m.new_bytes + m.deduped_bytes == m.total_bytes && m.new_chunks + m.deduped_chunks == m.total_chunks
    &&& m.defrag_prevented_dedup_bytes <= m.new_bytes && m.defrag_prevented_dedup_chunks <= m.new_chunks
    &&& m.deduped_bytes_by_global_dedup <= m.total_bytes && m.deduped_chunks_by_global_dedup <= m.total_chunks
}


proof fn lemma_flatten_push(fi: Seq<FileDataSequenceEntry>, nd: Seq<MerkleHash>, e: FileDataSequenceEntry)
    ensures flatten(fi.push(e), nd) == flatten(fi, nd) + seg_den(e, nd)
{ assert(fi.push(e).drop_last() =~= fi); }
spec fn merged(last: FileDataSequenceEntry, fse: FileDataSequenceEntry) -> FileDataSequenceEntry {
    FileDataSequenceEntry { cas_hash: last.cas_hash, cas_flags: last.cas_flags,
        unpacked_segment_bytes: (last.unpacked_segment_bytes + fse.unpacked_segment_bytes) as u32,
        chunk_index_start: last.chunk_index_start, chunk_index_end: fse.chunk_index_end }
}
// extending the last segment by a contiguous range of the same xorb
proof fn lemma_extend_last(fi: Seq<FileDataSequenceEntry>, nd: Seq<MerkleHash>, fse: FileDataSequenceEntry)
    requires fi.len() > 0, fi.last().cas_hash == fse.cas_hash, fi.last().chunk_index_end == fse.chunk_index_start,
        seg_ok(fi.last(), nd), seg_ok(fse, nd),
    ensures
        fi.last().unpacked_segment_bytes + fse.unpacked_segment_bytes <= u32::MAX,
        seg_ok(merged(fi.last(), fse), nd),
        seg_den(merged(fi.last(), fse), nd) == seg_den(fi.last(), nd) + seg_den(fse, nd),
        flatten(fi.drop_last().push(merged(fi.last(), fse)), nd) == flatten(fi, nd) + seg_den(fse, nd),
{
    let l = fi.last(); let m = merged(l, fse); let src = seg_src(l, nd);
    assert(seg_src(fse, nd) == src); assert(seg_src(m, nd) == src);
    lemma_sum_len_split(src, l.chunk_index_start as int, l.chunk_index_end as int, fse.chunk_index_end as int);
    lemma_sum_len_subrange(src, l.chunk_index_start as int, fse.chunk_index_end as int);
    assert(seg_den(m, nd) =~= seg_den(l, nd) + seg_den(fse, nd));
    lemma_flatten_push(fi.drop_last(), nd, m);
    assert(flatten(fi, nd) == flatten(fi.drop_last(), nd) + seg_den(l, nd));
    assert((flatten(fi.drop_last(), nd) + seg_den(l, nd)) + seg_den(fse, nd) =~= flatten(fi.drop_last(), nd) + (seg_den(l, nd) + seg_den(fse, nd)));
}
proof fn lemma_ire_update(ire: Seq<usize>, fi: Seq<FileDataSequenceEntry>, i: int, e: FileDataSequenceEntry)
    requires ire_ok(ire, fi), 0 <= i < fi.len(), e.cas_hash == fi[i].cas_hash,
    ensures ire_ok(ire, fi.update(i, e)),
{
    let fi2 = fi.update(i, e);
    assert forall|k: int| 0 <= k < fi2.len() && (#[trigger] fi2[k]).cas_hash == zero_hash() implies exists|j: int| 0 <= j < ire.len() && #[trigger] ire[j] == k by {
        assert(fi[k].cas_hash == zero_hash());
    }
}
proof fn lemma_ire_push(ire: Seq<usize>, fi: Seq<FileDataSequenceEntry>, e: FileDataSequenceEntry)
    requires ire_ok(ire, fi), fi.len() <= usize::MAX,
    ensures e.cas_hash != zero_hash() ==> ire_ok(ire, fi.push(e)),
            e.cas_hash == zero_hash() ==> ire_ok(ire.push(fi.len() as usize), fi.push(e)),
{
    let fi2 = fi.push(e);
    if e.cas_hash != zero_hash() {
        assert forall|k: int| 0 <= k < fi2.len() && (#[trigger] fi2[k]).cas_hash == zero_hash() implies exists|j: int| 0 <= j < ire.len() && #[trigger] ire[j] == k by {
            assert(k < fi.len()); assert(fi[k].cas_hash == zero_hash());
        }
    } else {
        let ire2 = ire.push(fi.len() as usize);
        assert forall|j: int| 0 <= j < ire2.len() implies (#[trigger] ire2[j]) < fi2.len() && fi2[ire2[j] as int].cas_hash == zero_hash() by {
            if j < ire.len() { assert(ire2[j] == ire[j]); }
        }
        assert forall|k: int| 0 <= k < fi2.len() && (#[trigger] fi2[k]).cas_hash == zero_hash() implies exists|j: int| 0 <= j < ire2.len() && #[trigger] ire2[j] == k by {
            if k < fi.len() {
                assert(fi[k].cas_hash == zero_hash());
                let j = choose|j: int| 0 <= j < ire.len() && #[trigger] ire[j] == k;
                assert(ire2[j] == k);
            } else {
                assert(ire2[ire.len() as int] == k);
            }
        }
    }
}


// ---- cutting a xorb: every zero-hash segment is re-pointed at the new xorb X, whose chunk list is the old new_data -------------------
spec fn patched(a: FileDataSequenceEntry, b: FileDataSequenceEntry, x: MerkleHash) -> bool {
    &&& b.cas_flags == a.cas_flags && b.unpacked_segment_bytes == a.unpacked_segment_bytes
    &&& b.chunk_index_start == a.chunk_index_start && b.chunk_index_end == a.chunk_index_end
    &&& (b.cas_hash == a.cas_hash || (a.cas_hash == zero_hash() && b.cas_hash == x))
}
proof fn lemma_cut_flatten(fi0: Seq<FileDataSequenceEntry>, fi1: Seq<FileDataSequenceEntry>, nd0: Seq<MerkleHash>, x: MerkleHash)
    requires fi0.len() == fi1.len(), x != zero_hash(), xorb_chunks(x) == nd0, sum_len(nd0) <= u32::MAX,
        forall|i: int| 0 <= i < fi0.len() ==> patched(#[trigger] fi0[i], fi1[i], x) && fi1[i].cas_hash != zero_hash() && seg_ok(fi0[i], nd0),
    ensures flatten(fi1, Seq::<MerkleHash>::empty()) == flatten(fi0, nd0),
        forall|i: int| 0 <= i < fi1.len() ==> seg_ok(#[trigger] fi1[i], Seq::<MerkleHash>::empty()),
    decreases fi0.len()
{
    let e = Seq::<MerkleHash>::empty();
    if fi0.len() > 0 {
        let n = fi0.len() - 1;
        assert forall|i: int| 0 <= i < fi0.drop_last().len() implies patched(#[trigger] fi0.drop_last()[i], fi1.drop_last()[i], x)
            && fi1.drop_last()[i].cas_hash != zero_hash() && seg_ok(fi0.drop_last()[i], nd0) by { assert(fi0.drop_last()[i] == fi0[i]); }
        lemma_cut_flatten(fi0.drop_last(), fi1.drop_last(), nd0, x);
        assert(patched(fi0[n], fi1[n], x));
        assert(seg_src(fi1[n], e) == seg_src(fi0[n], nd0));
        assert(seg_den(fi1[n], e) == seg_den(fi0[n], nd0));
        assert forall|i: int| 0 <= i < fi1.len() implies seg_ok(#[trigger] fi1[i], e) by {
            assert(patched(fi0[i], fi1[i], x));
            assert(seg_src(fi1[i], e) == seg_src(fi0[i], nd0));
            if i < n { assert(fi1.drop_last()[i] == fi1[i]); }
        }
    }
}


// ---- appending one new chunk hash h to the xorb under construction ---------------------------------------------------------------
proof fn lemma_nd_push(fi: Seq<FileDataSequenceEntry>, nd: Seq<MerkleHash>, h: MerkleHash)
    requires forall|i: int| 0 <= i < fi.len() ==> seg_ok(#[trigger] fi[i], nd), sum_len(nd) + len_of(h) <= u32::MAX,
    ensures forall|i: int| 0 <= i < fi.len() ==> seg_ok(#[trigger] fi[i], nd.push(h)) && seg_den(fi[i], nd.push(h)) == seg_den(fi[i], nd),
        flatten(fi, nd.push(h)) == flatten(fi, nd),
    decreases fi.len()
{
    lemma_sum_len_push(nd, h);
    assert forall|i: int| 0 <= i < fi.len() implies seg_ok(#[trigger] fi[i], nd.push(h)) && seg_den(fi[i], nd.push(h)) == seg_den(fi[i], nd) by {
        if fi[i].cas_hash == zero_hash() {
            assert(nd.push(h).subrange(fi[i].chunk_index_start as int, fi[i].chunk_index_end as int) =~= nd.subrange(fi[i].chunk_index_start as int, fi[i].chunk_index_end as int));
        }
    }
    if fi.len() > 0 {
        assert forall|i: int| 0 <= i < fi.drop_last().len() implies seg_ok(#[trigger] fi.drop_last()[i], nd) by { assert(fi.drop_last()[i] == fi[i]); }
        lemma_nd_push(fi.drop_last(), nd, h);
    }
}
spec fn grown(last: FileDataSequenceEntry, h: MerkleHash) -> FileDataSequenceEntry {
    FileDataSequenceEntry { cas_hash: last.cas_hash, cas_flags: last.cas_flags,
        unpacked_segment_bytes: (last.unpacked_segment_bytes + len_of(h)) as u32,
        chunk_index_start: last.chunk_index_start, chunk_index_end: (last.chunk_index_end + 1) as u32 }
}
// case A: the last segment is the open zero-hash run ending at |nd|; it grows by the new chunk
proof fn lemma_new_chunk_extend(fi: Seq<FileDataSequenceEntry>, nd: Seq<MerkleHash>, h: MerkleHash)
    requires fi.len() > 0, fi.last().cas_hash == zero_hash(), fi.last().chunk_index_end == nd.len(),
        forall|i: int| 0 <= i < fi.len() ==> seg_ok(#[trigger] fi[i], nd), sum_len(nd) + len_of(h) <= u32::MAX, nd.len() < u32::MAX,
    ensures
        fi.last().unpacked_segment_bytes + len_of(h) <= u32::MAX,
        forall|i: int| 0 <= i < fi.len() ==> seg_ok(#[trigger] fi.update(fi.len() - 1, grown(fi.last(), h))[i], nd.push(h)),
        flatten(fi.update(fi.len() - 1, grown(fi.last(), h)), nd.push(h)) == flatten(fi, nd).push(h),
{
    let l = fi.last(); let g = grown(l, h); let nd2 = nd.push(h); let fi2 = fi.update(fi.len() - 1, g);
    lemma_nd_push(fi, nd, h);
    lemma_sum_len_push(nd, h);
    lemma_sum_len_subrange(nd, l.chunk_index_start as int, l.chunk_index_end as int);
    assert(seg_den(g, nd2) =~= seg_den(l, nd).push(h));
    lemma_sum_len_push(seg_den(l, nd), h);
    assert(fi2.drop_last() =~= fi.drop_last());
    assert forall|i: int| 0 <= i < fi.drop_last().len() implies seg_ok(#[trigger] fi.drop_last()[i], nd) by { assert(fi.drop_last()[i] == fi[i]); }
    lemma_nd_push(fi.drop_last(), nd, h);
    assert(flatten(fi2, nd2) == flatten(fi2.drop_last(), nd2) + seg_den(g, nd2));
    assert(flatten(fi, nd) == flatten(fi.drop_last(), nd) + seg_den(l, nd));
    assert(flatten(fi.drop_last(), nd) + seg_den(l, nd).push(h) =~= (flatten(fi.drop_last(), nd) + seg_den(l, nd)).push(h));
    assert forall|i: int| 0 <= i < fi.len() implies seg_ok(#[trigger] fi2[i], nd2) by {
        if i < fi.len() - 1 { assert(fi2[i] == fi[i]); }
    }
}
// case B: a fresh zero-hash segment [|nd|, |nd|+1) is pushed
proof fn lemma_new_chunk_push(fi: Seq<FileDataSequenceEntry>, nd: Seq<MerkleHash>, h: MerkleHash, e: FileDataSequenceEntry)
    requires forall|i: int| 0 <= i < fi.len() ==> seg_ok(#[trigger] fi[i], nd), sum_len(nd) + len_of(h) <= u32::MAX,
        e.cas_hash == zero_hash(), e.chunk_index_start == nd.len(), e.chunk_index_end == nd.len() + 1, e.unpacked_segment_bytes == len_of(h),
    ensures
        forall|i: int| 0 <= i < fi.len() + 1 ==> seg_ok(#[trigger] fi.push(e)[i], nd.push(h)),
        flatten(fi.push(e), nd.push(h)) == flatten(fi, nd).push(h),
{
    let nd2 = nd.push(h);
    lemma_nd_push(fi, nd, h);
    lemma_sum_len_push(nd, h);
    lemma_sum_len_one(nd2, nd.len() as int);
    assert(seg_den(e, nd2) =~= seq![h]);
    lemma_flatten_push(fi, nd2, e);
    assert(flatten(fi, nd) + seq![h] =~= flatten(fi, nd).push(h));
    assert forall|i: int| 0 <= i < fi.len() + 1 implies seg_ok(#[trigger] fi.push(e)[i], nd2) by {
        if i < fi.len() { assert(fi.push(e)[i] == fi[i]); }
    }
}
proof fn lemma_lookup_insert(m: Map<MerkleHash, usize>, nd: Seq<MerkleHash>, h: MerkleHash)
    requires lookup_ok(m, nd), nd.len() < usize::MAX,
    ensures lookup_ok(m.insert(h, nd.len() as usize), nd.push(h)),
{
    let m2 = m.insert(h, nd.len() as usize); let nd2 = nd.push(h);
    assert forall|k: MerkleHash| m2.contains_key(k) implies (#[trigger] m2[k]) < nd2.len() && nd2[m2[k] as int] == k by {
        if k != h { assert(m.contains_key(k)); assert(m[k] < nd.len()); }
    }
}
spec fn answers_ok(d: Seq<Option<(usize, FileDataSequenceEntry)>>, hs: Seq<MerkleHash>) -> bool {
    forall|i: int| 0 <= i < d.len() ==> match #[trigger] d[i] { Some((n, fse)) => truthful(hs.subrange(i, hs.len() as int), n as int, fse), None => true }
}

//@ extract deduplication/src/file_deduplication.rs struct FileDeduper
//@ end

impl<DataInterfaceType: DeduplicationDataInterface> FileDeduper<DataInterfaceType> {
    // everything the deduper maintains except the denotation of the segment list
    spec fn istruct(&self) -> bool {
        let nd = hashes(self.new_data@);
        &&& xorb_config_ok()
        &&& chunks_ok(self.new_data@)
        &&& self.new_data_size == sum_len(nd)
        &&& /*C15*/ self.new_data@.len() <= spec_MAX_XORB_CHUNKS() && self.new_data_size <= spec_MAX_XORB_BYTES()
        &&& lookup_ok(self.new_data_hash_lookup@, nd)
        &&& forall|i: int| 0 <= i < self.file_info@.len() ==> seg_ok(#[trigger] self.file_info@[i], nd)
        &&& ire_ok(self.internally_referencing_entries@, self.file_info@)
    }
    // C01: the chunk-hash sequence the segment list denotes (zero-hash segments refer to the xorb under construction)
    spec fn den(&self) -> Seq<MerkleHash> { flatten(self.file_info@, hashes(self.new_data@)) }
    spec fn wf(&self) -> bool {
        &&& self.istruct()
        &&& /*C01*/ self.den() == ch_hashes(self.chunk_hashes@)
        &&& forall|i: int| 0 <= i < self.chunk_hashes@.len() ==> (#[trigger] self.chunk_hashes@[i]).1 == len_of(self.chunk_hashes@[i].0)
        &&& metrics_ok(self.deduplication_metrics, ch_hashes(self.chunk_hashes@))
    }
    spec fn same_but_file_info(&self, o: &Self) -> bool {
        &&& self.new_data == o.new_data && self.new_data_size == o.new_data_size && self.new_data_hash_lookup == o.new_data_hash_lookup
        &&& self.chunk_hashes == o.chunk_hashes && self.new_xorbs == o.new_xorbs && self.deduplication_metrics == o.deduplication_metrics
        &&& self.min_spacing_between_global_dedup_queries == o.min_spacing_between_global_dedup_queries
        &&& self.next_chunk_index_elegible_for_global_dedup_query == o.next_chunk_index_elegible_for_global_dedup_query
    }

//@ extract deduplication/src/file_deduplication.rs in `impl<DataInterfaceType: DeduplicationDataInterface> FileDeduper<DataInterfaceType>` fn file_data_sequence_continues_current
//@ ret r
//@ contract
        ensures r == (self.file_info@.len() > 0 && self.file_info@.last().cas_hash == fse.cas_hash
                      && self.file_info@.last().chunk_index_end == fse.chunk_index_start),
//@ end

//@ extract deduplication/src/file_deduplication.rs in `impl<DataInterfaceType: DeduplicationDataInterface> FileDeduper<DataInterfaceType>` fn add_file_data_sequence_entry
//@ contract
        requires
            old(self).istruct(),
            seg_ok(fse, hashes(old(self).new_data@)),
            n_deduped == seg_den(fse, hashes(old(self).new_data@)).len(),
        ensures
            final(self).istruct(),
            /*@C01,C02*/ final(self).den() == old(self).den() + seg_den(fse, hashes(old(self).new_data@)),
            final(self).same_but_file_info(old(self)),
//@ body-start
        let ghost fi0 = self.file_info@; let ghost nd = hashes(self.new_data@); let ghost ire0 = self.internally_referencing_entries@;
//@ before `let last_entry = self.file_info.last_mut().unwrap();`
            proof { lemma_extend_last(fi0, nd, fse); }
//@ before `self.defrag_tracker.increment_last_range_in_fragmentation_estimate(n_deduped);`
            proof {
                let m = merged(fi0.last(), fse);
                assert(self.file_info@ =~= fi0.update(fi0.len() - 1, m));
                assert(fi0.update(fi0.len() - 1, m) =~= fi0.drop_last().push(m));
                lemma_ire_update(ire0, fi0, fi0.len() - 1, m);
            }
//@ before `self.file_info.push(fse);`
            proof { assert(fi0.len() == self.file_info.len()); lemma_flatten_push(fi0, nd, fse); lemma_ire_push(ire0, fi0, fse); }
//@ end

//@ extract deduplication/src/file_deduplication.rs in `impl<DataInterfaceType: DeduplicationDataInterface> FileDeduper<DataInterfaceType>` fn dedup_query_against_local_data
//@ ret r
//@ rules R4e R5
//@ contract
        requires old(self).istruct(), chunks@.len() > 0,
        ensures
            *final(self) == *old(self),
            /*@C05,C01*/ match r {
                Some((n, fse)) => 1 <= n <= chunks@.len() && fse.cas_hash == zero_hash()
                    && seg_ok(fse, hashes(old(self).new_data@))
                    && seg_den(fse, hashes(old(self).new_data@)) == chunks@.subrange(0, n as int),
                None => true,
            },
//@ body-start
        let ghost nd = hashes(self.new_data@);
//@ after `let mut end_idx = base_idx + 1;`
            proof {
                lemma_sum_len_one(nd, base_idx as int);
                assert(nd.subrange(base_idx as int, end_idx as int) =~= chunks@.subrange(0, 1));
                lemma_sum_len_subrange(nd, 0, nd.len() as int); assert(nd.subrange(0, nd.len() as int) =~= nd);
            }
//@ loop 1
                invariant_except_break
                    end_idx == base_idx + vx_n1,
                invariant
                    *self == *old(self), self.istruct(), nd == hashes(self.new_data@),
                    1 <= vx_n1 <= chunks@.len() || (chunks@.len() == 1 && vx_n1 == 1),
                    base_idx < end_idx <= nd.len(), end_idx - base_idx <= chunks@.len(), end_idx - base_idx <= vx_n1,
                    n_bytes == sum_len(nd.subrange(base_idx as int, end_idx as int)),
                    nd.subrange(base_idx as int, end_idx as int) == chunks@.subrange(0, end_idx - base_idx),
                decreases chunks@.len() - vx_n1,
//@ before `Some((end_idx - base_idx`
            proof { lemma_sum_len_subrange(nd, base_idx as int, end_idx as int); }
//@ before `end_idx = idx + 1;`
                        proof {
                            lemma_sum_len_split(nd, base_idx as int, idx as int, idx + 1);
                            lemma_sum_len_one(nd, idx as int);
                            lemma_sum_len_subrange(nd, base_idx as int, idx + 1);
                            lemma_sum_len_subrange(nd, 0, nd.len() as int); assert(nd.subrange(0, nd.len() as int) =~= nd);
                            assert(nd.subrange(base_idx as int, idx + 1) =~= chunks@.subrange(0, idx + 1 - base_idx));
                        }
//@ end

//@ extract deduplication/src/file_deduplication.rs in `impl<DataInterfaceType: DeduplicationDataInterface> FileDeduper<DataInterfaceType>` fn cut_new_xorb
//@ ret r
//@ rules R4f
//@ subst `MerkleHash::default()` => `zero_hash()` :: spec form of Default::default() — all occurrences are inside debug assertions turned into proof obligations by R2
//@ contract
        requires old(self).istruct(),
        ensures
            /*@C02,C15*/ xorb_wf(r, old(self).new_data@),
            /*@C15*/ old(self).new_data@.len() >= 1 ==> xorb_within_limits(r),
            final(self).istruct(),
            /*@C01*/ final(self).den() == old(self).den(),
            final(self).new_data@.len() == 0,
            /*@C15*/ forall|i: int| 0 <= i < final(self).file_info@.len() ==> (#[trigger] final(self).file_info@[i]).cas_hash != zero_hash(),
            final(self).file_info@.len() == old(self).file_info@.len(),
            final(self).chunk_hashes == old(self).chunk_hashes, final(self).new_xorbs == old(self).new_xorbs,
            final(self).deduplication_metrics == old(self).deduplication_metrics,
            final(self).min_spacing_between_global_dedup_queries == old(self).min_spacing_between_global_dedup_queries,
            final(self).next_chunk_index_elegible_for_global_dedup_query == old(self).next_chunk_index_elegible_for_global_dedup_query,
//@ body-start
        let ghost fi0 = self.file_info@; let ghost nd0 = hashes(self.new_data@); let ghost ire0 = self.internally_referencing_entries@;
        proof { assert(self.new_data@.subrange(0, self.new_data@.len() as int) =~= self.new_data@); }
//@ loop 1
            invariant
                vx_n1 <= ire0.len(), self.internally_referencing_entries@ == ire0, ire_ok(ire0, fi0),
                self.new_data == old(self).new_data, nd0 == hashes(self.new_data@),
                self.file_info@.len() == fi0.len(), xorb_hash != zero_hash(),
                forall|i: int| 0 <= i < fi0.len() ==> patched(#[trigger] fi0[i], self.file_info@[i], xorb_hash) && seg_ok(fi0[i], nd0),
                forall|j: int| 0 <= j < vx_n1 ==> self.file_info@[(#[trigger] ire0[j]) as int].cas_hash == xorb_hash,
                forall|j: int| vx_n1 <= j < ire0.len() ==> self.file_info@[(#[trigger] ire0[j]) as int].cas_hash == zero_hash(),
                self.new_data_size == old(self).new_data_size, self.new_data_hash_lookup == old(self).new_data_hash_lookup,
                self.chunk_hashes == old(self).chunk_hashes, self.new_xorbs == old(self).new_xorbs,
                self.deduplication_metrics == old(self).deduplication_metrics,
                self.min_spacing_between_global_dedup_queries == old(self).min_spacing_between_global_dedup_queries,
                self.next_chunk_index_elegible_for_global_dedup_query == old(self).next_chunk_index_elegible_for_global_dedup_query,
            decreases ire0.len() - vx_n1,
//@ loop 2
                invariant
                    vx_n2 <= self.file_info@.len(),
                    forall|i: int| 0 <= i < self.file_info@.len() ==> (#[trigger] self.file_info@[i]).cas_hash != zero_hash(),
                decreases self.file_info@.len() - vx_n2,
//@ before `{ let mut vx_n2`
            proof {
                assert forall|i: int| 0 <= i < self.file_info@.len() implies (#[trigger] self.file_info@[i]).cas_hash != zero_hash() by {
                    assert(patched(fi0[i], self.file_info@[i], xorb_hash));
                    if fi0[i].cas_hash == zero_hash() {
                        let j = choose|j: int| 0 <= j < ire0.len() && #[trigger] ire0[j] == i;
                        assert(self.file_info@[ire0[j] as int].cas_hash == xorb_hash);
                    }
                }
            }
//@ before `self.new_data.clear();`
        proof {
            lemma_sum_len_subrange(nd0, 0, nd0.len() as int); assert(nd0.subrange(0, nd0.len() as int) =~= nd0);
            lemma_cut_flatten(fi0, self.file_info@, nd0, xorb_hash);
        }
//@ before `new_xorb` #3
        proof {
            assert(hashes(self.new_data@) =~= Seq::<MerkleHash>::empty());
            assert(sum_len(Seq::<MerkleHash>::empty()) == 0);
        }
//@ end

//@ extract deduplication/src/file_deduplication.rs in `impl<DataInterfaceType: DeduplicationDataInterface> FileDeduper<DataInterfaceType>` fn process_chunks
//@ ret r
//@ rules R4b
//@ subst `= &deduped_blocks[local_chunk_index] { local_chunk_index += n_deduped;` => `= &deduped_blocks[local_chunk_index] { local_chunk_index += *n_deduped;` :: explicit deref of the `&usize` pattern binding: `usize += &usize` is std's forwarding impl of `usize += usize` on the dereferenced value, and vstd specifies only the latter
//@ subst `Vec::from_iter(chunks.iter().map(|c| c.hash))` => `vx_chunk_hashes(chunks)` :: R7 outline of an iterator chain (projection to the chunk hashes)
//@ subst `self.chunk_hashes.extend(chunks.iter().map(|c| (c.hash, c.data.len())));` => `vx_extend_hash_len(&mut self.chunk_hashes, chunks);` :: R7 outline of an iterator chain (appends the (hash, len) projection)
//@ contract
        requires
            old(self).wf(), chunks_ok(chunks@),
            // configuration: no chunk is longer than a xorb may be (the chunker's maximum is below MAX_XORB_BYTES)
            forall|i: int| 0 <= i < chunks@.len() ==> (#[trigger] chunks@[i]).data@.len() <= spec_MAX_XORB_BYTES(),
            // the file's chunk count and byte size fit usize
            old(self).chunk_hashes@.len() + chunks@.len() + old(self).min_spacing_between_global_dedup_queries <= usize::MAX,
            sum_len(ch_hashes(old(self).chunk_hashes@)) + sum_len(hashes(chunks@)) <= usize::MAX,
        ensures
            match r {
                Ok(m) => final(self).wf()
                    && /*@C03*/ final(self).chunk_hashes@ == old(self).chunk_hashes@ + hl_view(chunks@)
                    && /*@C14*/ metrics_ok(m, hashes(chunks@))
                    && /*@C14*/ m.xorb_bytes_uploaded == 0 && m.shard_bytes_uploaded == 0 && m.total_bytes_uploaded == 0
                    && /*@C14*/ metrics_sum(old(self).deduplication_metrics, m, final(self).deduplication_metrics),
                Err(_) => true,
            },
//@ after `let chunk_hashes = vx_chunk_hashes(chunks);`
        let ghost hs = hashes(chunks@);
        let ghost done0 = ch_hashes(self.chunk_hashes@);
        proof { lemma_sum_len_subrange(hs, 0, 0); assert(sum_len(hs.subrange(0, 0)) == 0) by { assert(hs.subrange(0, 0) =~= Seq::<MerkleHash>::empty()); } }
//@ loop 1
            invariant
                vx_n1 <= 2, vx_arr1@ == seq![true, false],
                hs == hashes(chunks@), chunk_hashes@ == hs, deduped_blocks@.len() == chunks@.len(), answers_ok(deduped_blocks@, hs),
                self.wf(), self.chunk_hashes == old(self).chunk_hashes, self.deduplication_metrics == old(self).deduplication_metrics,
                self.min_spacing_between_global_dedup_queries == old(self).min_spacing_between_global_dedup_queries,
                global_chunk_index_start == self.chunk_hashes@.len(),
                global_chunk_index_start + chunks@.len() + self.min_spacing_between_global_dedup_queries <= usize::MAX,
                dedup_metrics.total_bytes == 0, dedup_metrics.deduped_bytes == 0, dedup_metrics.new_bytes == 0, dedup_metrics.defrag_prevented_dedup_bytes == 0,
                dedup_metrics.total_chunks == 0, dedup_metrics.deduped_chunks == 0, dedup_metrics.new_chunks == 0, dedup_metrics.defrag_prevented_dedup_chunks == 0,
                dedup_metrics.xorb_bytes_uploaded == 0, dedup_metrics.shard_bytes_uploaded == 0, dedup_metrics.total_bytes_uploaded == 0,
                dedup_metrics.deduped_chunks_by_global_dedup <= chunks@.len(), dedup_metrics.deduped_bytes_by_global_dedup <= sum_len(hs),
                vx_n1 <= 1 ==> dedup_metrics.deduped_chunks_by_global_dedup == 0 && dedup_metrics.deduped_bytes_by_global_dedup == 0,
                sum_len(hs) <= usize::MAX,
            decreases 2 - vx_n1,
//@ loop 2
                invariant
                    vx_n1 <= 2, first_pass == (vx_n1 == 1),
                    local_chunk_index <= chunks@.len(),
                    hs == hashes(chunks@), chunk_hashes@ == hs, deduped_blocks@.len() == chunks@.len(), answers_ok(deduped_blocks@, hs),
                    self.wf(), self.chunk_hashes == old(self).chunk_hashes, self.deduplication_metrics == old(self).deduplication_metrics,
                    self.min_spacing_between_global_dedup_queries == old(self).min_spacing_between_global_dedup_queries,
                    global_chunk_index_start == self.chunk_hashes@.len(),
                    global_chunk_index_start + chunks@.len() + self.min_spacing_between_global_dedup_queries <= usize::MAX,
                    dedup_metrics.total_bytes == 0, dedup_metrics.deduped_bytes == 0, dedup_metrics.new_bytes == 0, dedup_metrics.defrag_prevented_dedup_bytes == 0,
                    dedup_metrics.total_chunks == 0, dedup_metrics.deduped_chunks == 0, dedup_metrics.new_chunks == 0, dedup_metrics.defrag_prevented_dedup_chunks == 0,
                    dedup_metrics.xorb_bytes_uploaded == 0, dedup_metrics.shard_bytes_uploaded == 0, dedup_metrics.total_bytes_uploaded == 0,
                    first_pass ==> dedup_metrics.deduped_chunks_by_global_dedup == 0 && dedup_metrics.deduped_bytes_by_global_dedup == 0,
                    dedup_metrics.deduped_chunks_by_global_dedup <= local_chunk_index,
                    dedup_metrics.deduped_bytes_by_global_dedup <= sum_len(hs.subrange(0, local_chunk_index as int)),
                    sum_len(hs) <= usize::MAX,
                decreases chunks@.len() - local_chunk_index,
//@ before `let global_chunk_index = global_chunk_index_start + local_chunk_index;`
                let ghost lci = local_chunk_index as int;
                proof { lemma_sum_len_subrange(hs, 0, lci); lemma_sum_len_subrange(hs, 0, hs.len() as int); assert(hs.subrange(0, hs.len() as int) =~= hs); }
//@ before `local_chunk_index += *n_deduped;`
                    proof {
                        let q = hs.subrange(lci, hs.len() as int);
                        assert(match deduped_blocks@[lci] { Some((n, fse)) => truthful(q, n as int, fse), None => true });
                        lemma_sum_len_split(hs, 0, lci, lci + *n_deduped);
                        lemma_sum_len_subrange(hs, 0, lci + *n_deduped);
                    }
//@ before `if !first_pass {`
                    proof {
                        let q = hs.subrange(lci, hs.len() as int);
                        assert(q.subrange(0, n_deduped as int) =~= hs.subrange(lci, lci + n_deduped));
                        lemma_sum_len_split(hs, 0, lci, lci + n_deduped);
                        lemma_sum_len_subrange(hs, 0, lci + n_deduped);
                    }
//@ before `local_chunk_index += 1;`
                    proof { lemma_sum_len_split(hs, 0, lci, lci + 1); lemma_sum_len_subrange(hs, 0, lci + 1); }
//@ before `let new_shards_added`
            proof { assert(hs.subrange(0, hs.len() as int) =~= hs); }
//@ loop 3
            invariant
                cur_idx <= chunks@.len(),
                hs == hashes(chunks@), chunk_hashes@ == hs, chunks_ok(chunks@), deduped_blocks@.len() == chunks@.len(), answers_ok(deduped_blocks@, hs),
                forall|i: int| 0 <= i < chunks@.len() ==> (#[trigger] chunks@[i]).data@.len() <= spec_MAX_XORB_BYTES(),
                self.istruct(),
                /*@C01*/ self.den() == done0 + hs.subrange(0, cur_idx as int),
                done0 == ch_hashes(old(self).chunk_hashes@),
                self.chunk_hashes == old(self).chunk_hashes, self.deduplication_metrics == old(self).deduplication_metrics,
                old(self).wf(),
                sum_len(done0) + sum_len(hs) <= usize::MAX, old(self).chunk_hashes@.len() + chunks@.len() <= usize::MAX,
                /*@C14*/ dedup_metrics.total_chunks == cur_idx,
                /*@C14*/ dedup_metrics.total_bytes == sum_len(hs.subrange(0, cur_idx as int)),
                /*@C14*/ dedup_metrics.new_bytes + dedup_metrics.deduped_bytes == dedup_metrics.total_bytes,
                /*@C14*/ dedup_metrics.new_chunks + dedup_metrics.deduped_chunks == dedup_metrics.total_chunks,
                /*@C14*/ dedup_metrics.defrag_prevented_dedup_bytes <= dedup_metrics.new_bytes,
                /*@C14*/ dedup_metrics.defrag_prevented_dedup_chunks <= dedup_metrics.new_chunks,
                dedup_metrics.xorb_bytes_uploaded == 0, dedup_metrics.shard_bytes_uploaded == 0, dedup_metrics.total_bytes_uploaded == 0,
                dedup_metrics.deduped_chunks_by_global_dedup <= chunks@.len(), dedup_metrics.deduped_bytes_by_global_dedup <= sum_len(hs),
            decreases chunks@.len() - cur_idx,
//@ before `let mut dedupe_query = deduped_blocks[cur_idx].take();`
            let ghost ci = cur_idx as int;
            let ghost q = hs.subrange(ci, hs.len() as int);
            let ghost stored = deduped_blocks@[ci]; let ghost d0 = deduped_blocks@;
            proof {
                lemma_sum_len_subrange(hs, 0, ci); lemma_sum_len_subrange(hs, 0, hs.len() as int); assert(hs.subrange(0, hs.len() as int) =~= hs);
                lemma_sum_len_subrange(done0, 0, done0.len() as int);
            }
//@ before `if let Some((n_deduped, fse)) = dedupe_query {`
            proof {
                assert(answers_ok(deduped_blocks@, hs)) by {
                    assert forall|i: int| 0 <= i < deduped_blocks@.len() implies match #[trigger] deduped_blocks@[i] { Some((n, fse)) => truthful(hs.subrange(i, hs.len() as int), n as int, fse), None => true } by {
                        if i != ci { assert(deduped_blocks@[i] == d0[i]); }
                    }
                }
            }
            let ghost nd_q = hashes(self.new_data@);
//@ before `if self.file_data_sequence_continues_current(&fse)`
                proof {
                    // whichever source answered: the answer denotes the next n_deduped fed chunks
                    assert(seg_ok(fse, nd_q) && seg_den(fse, nd_q) == q.subrange(0, n_deduped as int) && 1 <= n_deduped <= q.len()) by {
                        if stored.is_some() { assert(truthful(q, n_deduped as int, fse)); }
                    }
                    assert(q.subrange(0, n_deduped as int) =~= hs.subrange(ci, ci + n_deduped));
                    lemma_sum_len_split(hs, 0, ci, ci + n_deduped);
                    lemma_sum_len_subrange(hs, 0, ci + n_deduped);
                }
//@ before `cur_idx += n_deduped;`
                    proof { assert((done0 + hs.subrange(0, ci)) + hs.subrange(ci, ci + n_deduped) =~= done0 + hs.subrange(0, ci + n_deduped)); }
//@ before `let n_bytes = chunks[cur_idx].data.len();`
            proof {
                lemma_sum_len_split(hs, 0, ci, ci + 1); lemma_sum_len_one(hs, ci); lemma_sum_len_subrange(hs, 0, ci + 1);
                assert(hs[ci] == chunks@[ci].hash); assert(chunk_ok(chunks@[ci]));
            }
//@ before `if !self.file_info.is_empty()`
            let ghost fi_b = self.file_info@; let ghost nd_b = hashes(self.new_data@); let ghost ire_b = self.internally_referencing_entries@; let ghost lk_b = self.new_data_hash_lookup@;
            let ghost h = chunks@[ci].hash;
            proof {
                assert(self.new_data_size + n_bytes <= spec_MAX_XORB_BYTES() && self.new_data@.len() + 1 <= spec_MAX_XORB_CHUNKS());
                assert(self.den() == done0 + hs.subrange(0, ci));
            }
//@ before `let last_entry = self.file_info.last_mut().unwrap();`
                proof { lemma_new_chunk_extend(fi_b, nd_b, h); }
//@ before `self.defrag_tracker.increment_last_range_in_fragmentation_estimate(1);`
                proof {
                    assert(self.file_info@ =~= fi_b.update(fi_b.len() - 1, grown(fi_b.last(), h)));
                    lemma_ire_update(ire_b, fi_b, fi_b.len() - 1, grown(fi_b.last(), h));
                }
//@ before `self.defrag_tracker.add_range_to_fragmentation_estimate(1);`
                proof {
                    lemma_new_chunk_push(fi_b, nd_b, h, self.file_info@.last());
                    lemma_ire_push(ire_b, fi_b, self.file_info@.last());
                    assert(self.file_info@ =~= fi_b.push(self.file_info@.last()));
                }
//@ before `cur_idx += 1;`
            proof {
                lemma_sum_len_push(nd_b, h);
                lemma_lookup_insert(lk_b, nd_b, h);
                assert(hashes(self.new_data@) =~= nd_b.push(h));
                assert((done0 + hs.subrange(0, ci)).push(h) =~= done0 + hs.subrange(0, ci + 1));
            }
//@ before `self.deduplication_metrics.merge_in(&dedup_metrics);`
        proof {
            assert(hs.subrange(0, hs.len() as int) =~= hs);
            lemma_sum_len_append(done0, hs);
        }
//@ before `Ok(dedup_metrics)`
        proof {
            assert(ch_hashes(self.chunk_hashes@) =~= done0 + hs);
            assert forall|i: int| 0 <= i < self.chunk_hashes@.len() implies (#[trigger] self.chunk_hashes@[i]).1 == len_of(self.chunk_hashes@[i].0) by {
                if i >= old(self).chunk_hashes@.len() { assert(chunk_ok(chunks@[i - old(self).chunk_hashes@.len()])); }
            }
        }
//@ end
}

} // verus!
fn main() {}
