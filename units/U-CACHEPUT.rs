//@ unit U-CACHEPUT
//@ props C12
//@ verus-args --rlimit 100
//@ gsubst `VerificationCell<CacheItem>` => `CacheItem` :: R11 stub: the wrapper `VerificationCell<T>` derefs to its `T`; Verus has no user `Deref`, so the wrapper is erased to its payload
#![feature(allocator_api)]
#![allow(non_snake_case, unused)]
use vstd::prelude::*;
use vstd::bytes::*;
verus! {
global size_of usize == 8;

// ---- stub types of dependencies (R11) ------------------------------------------------------------------------------
pub struct Key { pub prefix: String, pub hash: [u64; 4] }
pub struct StateHandle { pub id: u64 }
pub enum ChunkCacheError { General, IO, Parse, BadRange, CacheEmpty, Infallible, LockPoison, InvalidArguments }

// paths are opaque names; `exists` may answer anything (another process can create or delete files at any time)
pub struct PathBuf { pub id: u64 }
impl PathBuf {
    #[verifier::external_body]
    fn exists(&self) -> bool { unimplemented!() }
}

// The file system, made explicit (Verus has no global ghost state): a ghost map path -> contents.
pub struct FileSystem { pub files: Ghost<Map<PathBuf, Seq<u8>>> }

// `std::io::Write` over a ghost view of everything written so far.  Errors arrive already converted to
// `ChunkCacheError::IO` (the code's `?` applies `From<io::Error>`, which yields exactly that variant).
pub trait Write {
    spec fn written(&self) -> Seq<u8>;
    spec fn dest(&self) -> PathBuf;
    fn write_all(&mut self, buf: &[u8]) -> (r: Result<(), ChunkCacheError>)
        ensures
            final(self).dest() == old(self).dest(),
            r is Ok ==> final(self).written() == old(self).written() + buf@,
            r is Err ==> r matches Err(ChunkCacheError::IO);
}
pub uninterp spec fn no_path() -> PathBuf;
impl Write for Vec<u8> {
    open spec fn written(&self) -> Seq<u8> { self@ }
    open spec fn dest(&self) -> PathBuf { no_path() }
    #[verifier::external_body]
    fn write_all(&mut self, buf: &[u8]) -> (r: Result<(), ChunkCacheError>) { unimplemented!() }
}
// stub of file_utils::SafeFileCreator: writes go to a temporary file; `close` renames it onto the destination
pub struct SafeFileCreator { pub dest_path: Ghost<PathBuf>, pub buf: Ghost<Seq<u8>> }
impl Write for SafeFileCreator {
    open spec fn written(&self) -> Seq<u8> { self.buf@ }
    open spec fn dest(&self) -> PathBuf { self.dest_path@ }
    #[verifier::external_body]
    fn write_all(&mut self, buf: &[u8]) -> (r: Result<(), ChunkCacheError>) { unimplemented!() }
}
impl SafeFileCreator {
    // R12: `new<P: AsRef<Path>>` at the instantiation used (`P = PathBuf`)
    #[verifier::external_body]
    fn new(dest_path: PathBuf) -> (r: Result<SafeFileCreator, ChunkCacheError>)
        ensures
            r matches Ok(fw) ==> fw.dest() == dest_path && fw.written() == Seq::<u8>::empty(),
            r is Err ==> r matches Err(ChunkCacheError::IO),
    { unimplemented!() }
    // the only operation that changes a destination file: on success the destination holds exactly what was written
    // through this creator, whatever was there before; on failure nothing is promised about the destination
    #[verifier::external_body]
    fn close(&mut self, fs: &mut FileSystem) -> (r: Result<(), ChunkCacheError>)
        ensures
            r is Ok ==> final(fs).files@ == old(fs).files@.insert(old(self).dest(), old(self).written()),
            r is Err ==> r matches Err(ChunkCacheError::IO),
    { unimplemented!() }
}

// crc32fast::Hasher: crc32 is an uninterpreted function of the bytes fed
pub uninterp spec fn crc32(b: Seq<u8>) -> u32;
pub struct Crc32Hasher { pub fed: Ghost<Seq<u8>> }
impl Crc32Hasher {
    #[verifier::external_body]
    fn new() -> (r: Crc32Hasher) ensures r.fed@ == Seq::<u8>::empty() { unimplemented!() }
    #[verifier::external_body]
    fn update(&mut self, buf: &[u8]) ensures final(self).fed@ == old(self).fed@ + buf@ { unimplemented!() }
    #[verifier::external_body]
    fn finalize(self) -> (r: u32) ensures r == crc32(self.fed@) { unimplemented!() }
}

//@ extract cas_types/src/lib.rs struct Range
//@ end
impl<Idx: Copy> Copy for Range<Idx> {}
impl<Idx: Copy> Clone for Range<Idx> {
    #[verifier::external_body]
    fn clone(&self) -> (r: Self) ensures r == *self { unimplemented!() }
}
//@ extract cas_types/src/lib.rs type ChunkRange
//@ end
//@ extract chunk_cache/src/disk/cache_item.rs struct CacheItem
//@ end
//@ extract chunk_cache/src/disk/cache_file_header.rs struct CacheFileHeader
//@ end
//@ extract chunk_cache/src/disk.rs struct DiskCache
//@ subst `Arc<Mutex<CacheState>>` => `StateHandle` :: R11 stub: the mutex handle is not used before the lock is taken
//@ end

// ---- specification ---------------------------------------------------------------------------------------------------
spec fn le4(v: u32) -> Seq<u8> { spec_u32_to_le_bytes(v) }          // u32::to_le_bytes
spec fn le32(b: Seq<u8>) -> u32 { spec_u32_from_le_bytes(b) }       // u32::from_le_bytes (U-CACHESLICE's `le32`)
spec fn enc_u32s(s: Seq<u32>) -> Seq<u8> decreases s.len() {
    if s.len() == 0 { Seq::<u8>::empty() } else { enc_u32s(s.drop_last()) + le4(s.last()) }
}
// the on-disk header: count, then the indices, little endian
spec fn enc_hdr(idx: Seq<u32>) -> Seq<u8> { le4(idx.len() as u32) + enc_u32s(idx) }
spec fn hdr_len(n: int) -> int { (n + 1) * 4 }
spec fn strictly_inc(s: Seq<u32>) -> bool { forall|i: int| 1 <= i < s.len() ==> s[i - 1] < #[trigger] s[i] }
spec fn hdr_ok(s: Seq<u32>) -> bool { strictly_inc(s) && (s.len() > 0 ==> s[0] == 0) }

// what put_impl validates about its arguments before anything is written
spec fn put_valid(range: ChunkRange, idx: Seq<u32>, data: Seq<u8>) -> bool {
    &&& range.start < range.end
    &&& idx.len() == range.end - range.start + 1
    &&& idx[0] == 0
    &&& idx.last() as int == data.len()
    &&& strictly_inc(idx)
}

proof fn lemma_le4(v: u32) ensures le4(v).len() == 4, le32(le4(v)) == v {
    lemma_auto_spec_u32_to_from_le_bytes();
    let s = spec_u32_to_le_bytes(v);
    assert(s.len() == 4);
    assert(spec_u32_from_le_bytes(s) == v);
}
proof fn lemma_enc_len(s: Seq<u32>) ensures enc_u32s(s).len() == 4 * s.len() decreases s.len() {
    if s.len() > 0 { lemma_enc_len(s.drop_last()); lemma_le4(s.last()); }
}
proof fn lemma_enc_at(s: Seq<u32>, i: int)
    requires 0 <= i < s.len()
    ensures enc_u32s(s).len() == 4 * s.len(), enc_u32s(s).subrange(4 * i, 4 * i + 4) == le4(s[i])
    decreases s.len()
{
    lemma_enc_len(s); lemma_enc_len(s.drop_last()); lemma_le4(s.last());
    if i == s.len() - 1 {
        assert(enc_u32s(s).subrange(4 * i, 4 * i + 4) =~= le4(s.last()));
    } else {
        lemma_enc_at(s.drop_last(), i);
        assert(enc_u32s(s).subrange(4 * i, 4 * i + 4) =~= enc_u32s(s.drop_last()).subrange(4 * i, 4 * i + 4));
    }
}
// the file a successful put leaves behind, seen through U-CACHESLICE's reader contract
spec fn file_roundtrips(b: Seq<u8>, range: ChunkRange, idx: Seq<u32>, data: Seq<u8>) -> bool {
    let n = idx.len() as int;
    &&& b.len() == hdr_len(n) + data.len()
    &&& le32(b.subrange(0, 4)) == n                                                     // what deserialize reads as the count
    &&& forall|i: int| 0 <= i < n ==> le32(#[trigger] b.subrange(4 + 4 * i, 8 + 4 * i)) == idx[i]   // … and as the indices
    &&& hdr_ok(idx) && n == range.end - range.start + 1                                // U-CACHESLICE's preconditions on a stored header
    &&& b.subrange(hdr_len(n), b.len() as int) == data                                  // the payload the slices are cut from
    &&& idx[n - 1] as int == data.len()
}
proof fn lemma_file_roundtrips(range: ChunkRange, idx: Seq<u32>, data: Seq<u8>)
    requires put_valid(range, idx, data), range.end - range.start < u32::MAX
    ensures file_roundtrips(enc_hdr(idx) + data, range, idx, data)
{
    let b = enc_hdr(idx) + data;
    let n = idx.len() as int;
    lemma_le4(n as u32); lemma_enc_len(idx);
    assert(b.subrange(0, 4) =~= le4(n as u32));
    assert forall|i: int| 0 <= i < n implies le32(#[trigger] b.subrange(4 + 4 * i, 8 + 4 * i)) == idx[i] by {
        lemma_enc_at(idx, i); lemma_le4(idx[i]);
        assert(b.subrange(4 + 4 * i, 8 + 4 * i) =~= enc_u32s(idx).subrange(4 * i, 4 * i + 4));
    }
    assert(b.subrange(hdr_len(n), b.len() as int) =~= data);
}

// stubs of utils::serialization_utils::{write_u32, write_u32s}: `writer.write_all(&v.to_le_bytes())`, element by element
#[verifier::external_body]
fn write_u32<W: Write>(writer: &mut W, v: u32) -> (r: Result<(), ChunkCacheError>)
    ensures final(writer).dest() == old(writer).dest(),
        r is Ok ==> final(writer).written() == old(writer).written() + le4(v),
        r is Err ==> r matches Err(ChunkCacheError::IO),
{ unimplemented!() }
#[verifier::external_body]
fn write_u32s<W: Write>(writer: &mut W, vs: &[u32]) -> (r: Result<(), ChunkCacheError>)
    ensures final(writer).dest() == old(writer).dest(),
        r is Ok ==> final(writer).written() == old(writer).written() + enc_u32s(vs@),
        r is Err ==> r matches Err(ChunkCacheError::IO),
{ unimplemented!() }

impl CacheFileHeader {
    // R12 generic narrowing: `new<T: Into<Vec<u32>>>` at the instantiation used here (`T = &[u32]`: `<[u32]>::to_vec`)
    #[verifier::external_body]
    fn new(chunk_byte_indices: &[u32]) -> (r: Self) ensures r.chunk_byte_indices@ == chunk_byte_indices@ { unimplemented!() }

//@ extract chunk_cache/src/disk/cache_file_header.rs in `impl CacheFileHeader` fn header_len
//@ ret r
//@ contract
        requires self.chunk_byte_indices@.len() < 0x1000_0000_0000_0000,
        ensures r == hdr_len(self.chunk_byte_indices@.len() as int),
//@ end

//@ extract chunk_cache/src/disk/cache_file_header.rs in `impl CacheFileHeader` fn serialize
//@ ret r
//@ subst `std::io::Error` => `ChunkCacheError` :: R11: the writer stubs return the error already converted (see `Write`)
//@ contract
        requires self.chunk_byte_indices@.len() <= u32::MAX,
        ensures
            final(writer).dest() == old(writer).dest(),
            /*@C12*/ r is Ok ==> final(writer).written() == old(writer).written() + enc_hdr(self.chunk_byte_indices@),
//@ before `Ok(())`
        proof {
            let a = old(writer).written(); let x = le4(self.chunk_byte_indices@.len() as u32); let y = enc_u32s(self.chunk_byte_indices@);
            assert((a + x) + y =~= a + (x + y));
        }
//@ end
}

//@ extract chunk_cache/src/disk.rs fn strictly_increasing
//@ ret r
//@ rules cacheacct.R18
//@ contract
    ensures r == strictly_inc(chunk_byte_indices@),
//@ loop 1
        invariant forall|j: int| 1 <= j < 1 + vx_it1.index@ ==> chunk_byte_indices@[j - 1] < #[trigger] chunk_byte_indices@[j],
//@ end

uninterp spec fn spec_item_path(c: DiskCache, key: Key, item: CacheItem) -> PathBuf;

impl DiskCache {
    // stub (R11): a function of cache root, key and item (range, len, crc are encoded in the file name)
    #[verifier::external_body]
    fn item_path(&self, key: &Key, cache_item: &CacheItem) -> (r: Result<PathBuf, ChunkCacheError>)
        ensures r matches Ok(p) ==> p == spec_item_path(*self, *key, *cache_item)
    { unimplemented!() }

//@ extract chunk_cache/src/disk.rs in `impl DiskCache` region put_impl
//@ from `if range.start >= range.end`
//@ to `return Err(ChunkCacheError::InvalidArguments); }`
//@ sig `fn put_check_args(range: &ChunkRange, chunk_byte_indices: &[u32], data: &[u8]) -> (r: Result<(), ChunkCacheError>)`
//@ epilogue `Ok(())`
//@ contract
        requires range.end - range.start < u32::MAX,     // `range.end - range.start + 1` is computed in u32
        ensures
            /*@C12*/ r is Ok <==> put_valid(*range, chunk_byte_indices@, data@),
            r is Err ==> r matches Err(ChunkCacheError::InvalidArguments),
//@ end

//@ extract chunk_cache/src/disk.rs in `impl DiskCache` region put_impl
//@ from `let header = CacheFileHeader::new(chunk_byte_indices);`
//@ to-before `let mut state = self.state.lock()?;`
//@ sig `fn put_write_file(&self, vx_fs: &mut FileSystem, key: &Key, range: &ChunkRange, chunk_byte_indices: &[u32], data: &[u8]) -> (r: Result<CacheItem, ChunkCacheError>)`
//@ epilogue `Ok(cache_item)`
//@ optsubst `crc32fast::Hasher::new()` => `Crc32Hasher::new()` :: R11 stub type path for the crc32fast dependency
//@ optsubst `fw.close()` => `fw.close(vx_fs)` :: R11: the process-global file system is an explicit stub object (Verus has no global ghost state); `close` is the call that acts on it
//@ contract
        requires
            put_valid(*range, chunk_byte_indices@, data@),      // established by put_check_args
            range.end - range.start < u32::MAX,                 // the header stores the index count as u32
        ensures
            // reaching the lock (and then the registration as VERIFIED) means: the file under the item's name holds exactly
            // header ++ data as written by this call, whatever was there before, and the item describes exactly that file
            /*@C12*/ r matches Ok(ci) ==> {
                let bytes = enc_hdr(chunk_byte_indices@) + data@;
                &&& final(vx_fs).files@ == old(vx_fs).files@.insert(spec_item_path(*self, *key, ci), bytes)
                &&& ci.range == *range
                &&& ci.len == bytes.len()
                &&& ci.checksum == crc32(bytes)
                // = the flag invariant of U-CACHEGET: what `VerificationCell::new_verified(cache_item)` (a write of the shared
                // flag) needs; the item is verified by construction because this very call wrote the file it checksummed
                &&& crc32(final(vx_fs).files@[spec_item_path(*self, *key, ci)]) == ci.checksum
                &&& file_roundtrips(bytes, *range, chunk_byte_indices@, data@)
            },
//@ body-start
        proof {
            lemma_file_roundtrips(*range, chunk_byte_indices@, data@);
            lemma_enc_len(chunk_byte_indices@); lemma_le4(chunk_byte_indices@.len() as u32);
        }
//@ before `let cache_item = CacheItem {`
        proof { assert(Seq::<u8>::empty() + enc_hdr(chunk_byte_indices@) =~= enc_hdr(chunk_byte_indices@)); }
//@ before `fw.close(vx_fs)`
            proof { assert((Seq::<u8>::empty() + header_buf@) + data@ =~= header_buf@ + data@); }
//@ end
}

} // verus!
fn main() {}
