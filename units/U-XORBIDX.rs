//@ unit U-XORBIDX
//@ props C07
//@ verus-args --rlimit 100
//@ gsubst `anyhow::Error` => `AnyhowError` :: R11 stub type for the anyhow dependency (opaque error value)
//@ gsubst `std::io::Error` => `IoError` :: R11 stub type (opaque error value)
//@ gsubst `lz4_flex::frame::Error` => `Lz4Error` :: R11 stub type (opaque error value)
//@ gsubst `Infallible` => `VxInfallible` :: R11 stub type (opaque error value)
//@ gsubst `to_le_bytes` => `vx_to_le_bytes` :: R11 stub for std `{u8,u32}::to_le_bytes` (result length is in the type; byte values unspecified)
//@ gsubst `size_of_val` => `vx_size_of_val` :: R11 stub for std::mem::size_of_val; contract: the size of each argument type used (u8, u32, [u8;7], [u8;16])
#![allow(non_snake_case, unused)]
use vstd::prelude::*;
use std::mem::size_of;
verus! {
global size_of usize == 8;

//@ include prelude/xorbidx_types.rs

//@ extract cas_object/src/error.rs enum CasObjectError
//@ end
//@ extract cas_object/src/cas_object_format.rs type CasObjectIdent
//@ end
//@ extract cas_object/src/cas_object_format.rs const CAS_OBJECT_FORMAT_IDENT
//@ end
//@ extract cas_object/src/cas_object_format.rs const CAS_OBJECT_FORMAT_IDENT_HASHES
//@ end
//@ extract cas_object/src/cas_object_format.rs const CAS_OBJECT_FORMAT_IDENT_BOUNDARIES
//@ end
//@ extract cas_object/src/cas_object_format.rs const CAS_OBJECT_FORMAT_VERSION
//@ end
//@ extract cas_object/src/cas_object_format.rs const CAS_OBJECT_FORMAT_HASHES_VERSION
//@ end
//@ extract cas_object/src/cas_object_format.rs const CAS_OBJECT_FORMAT_BOUNDARIES_VERSION
//@ end
//@ extract cas_object/src/cas_object_format.rs const CAS_OBJECT_INFO_DEFAULT_LENGTH
//@ end
//@ extract cas_object/src/cas_object_format.rs const CAS_OBJECT_FORMAT_BOUNDARIES_VERSION_NO_UNPACKED_INFO
//@ end
//@ extract cas_object/src/cas_object_format.rs struct CasObjectInfoV0
//@ end
//@ extract cas_object/src/cas_object_format.rs struct CasObjectInfoV1
//@ end
//@ extract cas_object/src/cas_object_format.rs struct CasObject
//@ end

// ---- offset tables -----------------------------------------------------------------------------------------------------
// t[i] = end offset of chunk i (cumulative); chunk i occupies [t[i-1] or 0, t[i])
pub open spec fn nondecreasing(t: Seq<u32>) -> bool { forall|i: int, j: int| 0 <= i <= j < t.len() ==> t[i] <= t[j] }
pub open spec fn prev_or_zero(t: Seq<u32>, i: int) -> int { if i <= 0 { 0 } else { t[i - 1] as int } }
pub open spec fn chunk_len(t: Seq<u32>, i: int) -> int { t[i] - prev_or_zero(t, i) }
// sum of the lengths of chunks a..b
pub open spec fn range_len(t: Seq<u32>, a: int, b: int) -> int decreases b - a {
    if a >= b { 0 } else { range_len(t, a, b - 1) + chunk_len(t, b - 1) }
}
pub proof fn lemma_range_len_telescopes(t: Seq<u32>, a: int, b: int)
    requires 0 <= a <= b <= t.len(),
    ensures range_len(t, a, b) == prev_or_zero(t, b) - prev_or_zero(t, a),
    decreases b - a,
{
    if a < b { lemma_range_len_telescopes(t, a, b - 1); }
}
// `len as u32 == n` implies `n <= len`: the truncated comparison in validate_cas_object_info still bounds the indices
pub proof fn lemma_trunc_le(len: usize)
    ensures (len as u32) as usize <= len,
{
    assert((len as u32) as usize <= len) by (bit_vector);
}

pub proof fn lemma_bounds_nondecreasing(c: Seq<(MerkleHash, u32)>, data_len: int, us: Seq<u32>)
    requires bounds_ok(c, data_len), us.len() == c.len(), forall|i: int| 0 <= i < us.len() ==> us[i] == c[i].1,
    ensures nondecreasing(us),
{
    assert forall|i: int, j: int| 0 <= i <= j < us.len() implies us[i] <= us[j] by { lemma_bounds_step(c, data_len, i, j); }
}
pub proof fn lemma_bounds_step(c: Seq<(MerkleHash, u32)>, data_len: int, i: int, j: int)
    requires bounds_ok(c, data_len), 0 <= i <= j < c.len(),
    ensures c[i].1 <= c[j].1,
    decreases j - i,
{
    if i < j { lemma_bounds_step(c, data_len, i, j - 1); assert(bound_before(c, j) <= c[j].1); }
}

impl CasObject {
    // what `validate_cas_object_info` checks, literally (lengths compared after the `as u32` truncation)
    spec fn info_complete(&self) -> bool {
        &&& self.info.num_chunks != 0
        &&& self.info.num_chunks == self.info.chunk_boundary_offsets@.len() as u32
        &&& self.info.num_chunks == self.info.chunk_hashes@.len() as u32
        &&& (self.info.boundaries_version == CAS_OBJECT_FORMAT_BOUNDARIES_VERSION ==> self.info.num_chunks == self.info.unpacked_chunk_offsets@.len() as u32)
        &&& self.info.cashash != zero_hash()
    }
}

impl CasObject {
//@ extract cas_object/src/cas_object_format.rs in `impl CasObject` fn validate_cas_object_info
//@ ret r
//@ rules R15
//@ contract
        ensures
            match r {
                Ok(()) => self.info_complete(),
                Err(e) => !self.info_complete() && e is FormatError,
            },
//@ end

//@ extract cas_object/src/cas_object_format.rs in `impl CasObject` fn get_byte_offset
//@ ret r
//@ contract
        ensures
            /*@C07*/ match r {
                Ok((s, e)) => self.info_complete()
                    && chunk_index_start < chunk_index_end <= self.info.num_chunks
                    && chunk_index_end <= self.info.chunk_boundary_offsets@.len()
                    && s == prev_or_zero(self.info.chunk_boundary_offsets@, chunk_index_start as int)
                    && e == self.info.chunk_boundary_offsets@[chunk_index_end - 1],
                Err(e) => (!self.info_complete() && e is FormatError)
                    || (self.info_complete() && !(chunk_index_start < chunk_index_end <= self.info.num_chunks) && e is InvalidArguments),
            },
//@ before `let byte_offset_start`
        proof { lemma_trunc_le(self.info.chunk_boundary_offsets.len()); }
//@ end

//@ extract cas_object/src/cas_object_format.rs in `impl CasObject` fn uncompressed_chunk_length
//@ ret r
//@ contract
        requires
            nondecreasing(self.info.unpacked_chunk_offsets@),
        ensures
            /*@C07*/ match r {
                Ok(l) => self.info_complete() && chunk_index < self.info.unpacked_chunk_offsets@.len()
                    && l == chunk_len(self.info.unpacked_chunk_offsets@, chunk_index as int),
                Err(e) => (!self.info_complete() && e is FormatError)
                    || (self.info_complete() && chunk_index >= self.info.unpacked_chunk_offsets@.len() && e is InvalidArguments),
            },
//@ end

//@ extract cas_object/src/cas_object_format.rs in `impl CasObject` fn uncompressed_range_length
//@ ret r
//@ contract
        requires
            nondecreasing(self.info.unpacked_chunk_offsets@),
            self.info.unpacked_chunk_offsets@.len() == self.info.num_chunks,
        ensures
            /*@C07*/ match r {
                Ok(l) => self.info_complete()
                    && chunk_index_start <= chunk_index_end <= self.info.num_chunks && chunk_index_start < self.info.num_chunks
                    && l == range_len(self.info.unpacked_chunk_offsets@, chunk_index_start as int, chunk_index_end as int),
                Err(e) => (!self.info_complete() && e is FormatError)
                    || (self.info_complete() && !(chunk_index_start <= chunk_index_end <= self.info.num_chunks && chunk_index_start < self.info.num_chunks)
                        && e is InvalidArguments),
            },
//@ before `let before_start`
        proof { lemma_range_len_telescopes(self.info.unpacked_chunk_offsets@, chunk_index_start as int, chunk_index_end as int); }
//@ before `return Ok(0);`
        proof { lemma_range_len_telescopes(self.info.unpacked_chunk_offsets@, chunk_index_start as int, chunk_index_end as int); }
//@ end
}

// ==== serialization side ================================================================================================
// ---- writer stubs (R11): only the number of bytes written is modelled ---------------------------------------------------
// `wlen()` is the writer's STREAM POSITION: an arbitrary start position (whatever `old(writer).wlen()` is when a function is entered -- never
// assumed 0: a writer may already hold other data, e.g. an earlier xorb) plus the bytes written since.  Every contract below speaks about
// differences of it only.
pub trait Write {
    spec fn wlen(&self) -> nat;
    fn write_all(&mut self, buf: &[u8]) -> (r: Result<(), IoError>)
        ensures r is Ok ==> final(self).wlen() == old(self).wlen() + buf@.len();
}
// std::io::Seek for the writers `CasObject::serialize` is generic over (`W: Write + Seek`; the stub trait names `Write` as supertrait so that its
// contracts can speak about the position): `stream_position()` reports the position = start position + bytes written so far and moves nothing;
// `seek` is an uninterpreted move.
pub enum SeekFrom { Start(u64), End(i64), Current(i64) }
pub uninterp spec fn spec_seek_to(pos: nat, to: SeekFrom) -> nat;
pub trait Seek: Write {
    fn stream_position(&mut self) -> (r: Result<u64, IoError>)
        ensures final(self).wlen() == old(self).wlen(), r matches Ok(p) ==> p == old(self).wlen();
    fn seek(&mut self, pos: SeekFrom) -> (r: Result<u64, IoError>)
        ensures r matches Ok(p) ==> final(self).wlen() == spec_seek_to(old(self).wlen(), pos) && p == final(self).wlen();
}
// countio::Counter: counts the bytes that pass through it
pub struct Counter { pub ghost n: nat }
impl Counter {
    #[verifier::external_body]
    pub fn new<W: Write>(w: &mut W) -> (r: Counter) ensures r.n == 0 { unimplemented!() }
    #[verifier::external_body]
    pub fn writer_bytes(&self) -> (r: usize) requires self.n <= usize::MAX ensures r == self.n { unimplemented!() }
}
impl Write for Counter {
    open spec fn wlen(&self) -> nat { self.n }
    #[verifier::external_body]
    fn write_all(&mut self, buf: &[u8]) -> (r: Result<(), IoError>) { unimplemented!() }
}
// `to_le_bytes` (std): vstd has no specification and its anonymous-const return type cannot be named in `assume_specification`;
// the calls go through this stub trait (only the array length, carried by the type, matters here)
pub trait VxToLe { type B; fn vx_to_le_bytes(self) -> Self::B; }
impl VxToLe for u32 { type B = [u8; 4]; #[verifier::external_body] fn vx_to_le_bytes(self) -> [u8; 4] { self.to_le_bytes() } }
impl VxToLe for u8 { type B = [u8; 1]; #[verifier::external_body] fn vx_to_le_bytes(self) -> [u8; 1] { self.to_le_bytes() } }
impl MerkleHash {
    #[verifier::external_body]
    pub fn as_bytes(&self) -> (r: &[u8]) ensures r@.len() == 32 { unimplemented!() }
}
global layout MerkleHash is size == 32, align == 8;
// std::mem::size_of_val (no usable vstd specification): stub whose contract states the size per argument type actually used
// (u8: 1, u32: 4, [u8; N]: N -- Rust reference, type layout); a call with any other type does not type-check
pub trait VxSized { spec fn vx_size() -> nat; }
impl VxSized for u8 { open spec fn vx_size() -> nat { 1 } }
impl VxSized for u32 { open spec fn vx_size() -> nat { 4 } }
impl VxSized for [u8; 7] { open spec fn vx_size() -> nat { 7 } }
impl VxSized for [u8; 16] { open spec fn vx_size() -> nat { 16 } }
#[verifier::external_body]
pub fn vx_size_of_val<T: VxSized>(x: &T) -> (r: usize) ensures r == T::vx_size() { std::mem::size_of_val(x) }

#[derive(Clone, Copy)]
pub enum CompressionScheme { None, LZ4, ByteGrouping4LZ4 }
// number of bytes `serialize_chunk` writes for a chunk: 8-byte header + payload (compressed, or raw when compression does not help)
pub uninterp spec fn spec_chunk_ser_len(chunk: Seq<u8>, scheme: Option<CompressionScheme>) -> nat;
#[verifier::external_body]
pub fn serialize_chunk<W: Write>(chunk: &[u8], w: &mut W, compression_scheme: Option<CompressionScheme>) -> (r: Result<usize, CasObjectError>)
    // (this contract is what U-CHUNKSER proves for the real serialize_chunk: same precondition, n == 8 + |payload|, |payload| <= |chunk|)
    requires chunk@.len() < 16_777_216
    ensures r matches Ok(n) ==> n == spec_chunk_ser_len(chunk@, compression_scheme) && 8 <= n <= 8 + chunk@.len()
        && final(w).wlen() == old(w).wlen() + n,
{ unimplemented!() }

// R7 outlines of the two iterator chains in `CasObject::serialize` (bodies are the original expressions; contracts assumed)
#[verifier::external_body]
fn vx_collect_hashes(chunk_and_boundaries: &[(MerkleHash, u32)]) -> (r: Vec<MerkleHash>)
    ensures r@.len() == chunk_and_boundaries@.len(), forall|i: int| 0 <= i < r@.len() ==> r@[i] == chunk_and_boundaries@[i].0,
{ chunk_and_boundaries.iter().map(|(hash, _)| *hash).collect() }
#[verifier::external_body]
fn vx_collect_bounds(chunk_and_boundaries: &[(MerkleHash, u32)]) -> (r: Vec<u32>)
    ensures r@.len() == chunk_and_boundaries@.len(), forall|i: int| 0 <= i < r@.len() ==> r@[i] == chunk_and_boundaries@[i].1,
{ chunk_and_boundaries.iter().map(|(_, unpacked_chunk_boundary)| *unpacked_chunk_boundary).collect() }

// ---- footer geometry ------------------------------------------------------------------------------------------------------
pub open spec fn first_section_len() -> nat { 7 + 1 + 32 }
pub open spec fn hash_section_len(nh: nat) -> nat { 7 + 1 + 4 + 32 * nh }
pub open spec fn boundary_section_len(nb: nat, nu: nat) -> nat { 7 + 1 + 4 + 4 * nb + 4 * nu + 4 + 4 + 4 + 16 }
pub open spec fn info_len(k: nat) -> nat { first_section_len() + hash_section_len(k) + boundary_section_len(k, k) }

// ---- the chunk list handed to `serialize` -----------------------------------------------------------------------------------
pub open spec fn bound_before(c: Seq<(MerkleHash, u32)>, i: int) -> int { if i <= 0 { 0 } else { c[i - 1].1 as int } }
// the unpacked end offsets are non-decreasing and inside `data` (otherwise `&data[a..b]` panics)
pub open spec fn bounds_ok(c: Seq<(MerkleHash, u32)>, data_len: int) -> bool {
    forall|i: int| 0 <= i < c.len() ==> bound_before(c, i) <= (#[trigger] c[i]).1 <= data_len
}
// every chunk is shorter than 16 MiB: the chunk header stores the lengths in 3 bytes (`debug_assert!` in copy_three_byte_num, see U-CHUNKSER)
pub open spec fn chunks_small(c: Seq<(MerkleHash, u32)>) -> bool {
    forall|i: int| 0 <= i < c.len() ==> (#[trigger] c[i]).1 - bound_before(c, i) < 16_777_216
}
pub open spec fn written_j(data: Seq<u8>, c: Seq<(MerkleHash, u32)>, scheme: Option<CompressionScheme>, j: int) -> nat {
    spec_chunk_ser_len(data.subrange(bound_before(c, j), c[j].1 as int), scheme)
}
// bytes written for chunks 0..i
pub open spec fn written_sum(data: Seq<u8>, c: Seq<(MerkleHash, u32)>, scheme: Option<CompressionScheme>, i: int) -> nat decreases i {
    if i <= 0 { 0 } else { written_sum(data, c, scheme, i - 1) + written_j(data, c, scheme, i - 1) }
}
pub proof fn lemma_written_sum_mono(data: Seq<u8>, c: Seq<(MerkleHash, u32)>, scheme: Option<CompressionScheme>, i: int, j: int)
    requires i <= j,
    ensures written_sum(data, c, scheme, i) <= written_sum(data, c, scheme, j),
    decreases j - i,
{
    if i < j { lemma_written_sum_mono(data, c, scheme, i, j - 1); }
}

impl CasObjectInfoV1 {
    // the two offset fields hold the section lengths
    spec fn offsets_filled(&self) -> bool {
        &&& self.boundary_section_offset_from_end == boundary_section_len(self.chunk_boundary_offsets@.len(), self.unpacked_chunk_offsets@.len())
        &&& self.hashes_section_offset_from_end == hash_section_len(self.chunk_hashes@.len())
                + boundary_section_len(self.chunk_boundary_offsets@.len(), self.unpacked_chunk_offsets@.len())
    }
}

//@ extract utils/src/serialization_utils.rs fn write_hash
//@ ret r
//@ contract
    ensures r is Ok ==> final(writer).wlen() == old(writer).wlen() + 32,
//@ end
//@ extract utils/src/serialization_utils.rs fn write_u8
//@ ret r
//@ contract
    ensures r is Ok ==> final(writer).wlen() == old(writer).wlen() + 1,
//@ end
//@ extract utils/src/serialization_utils.rs fn write_u32
//@ ret r
//@ contract
    ensures r is Ok ==> final(writer).wlen() == old(writer).wlen() + 4,
//@ end
//@ extract utils/src/serialization_utils.rs fn write_bytes
//@ ret r
//@ contract
    ensures r is Ok ==> final(writer).wlen() == old(writer).wlen() + vs@.len(),
//@ end
//@ extract utils/src/serialization_utils.rs fn write_u32s
//@ ret r
//@ rules R4s
//@ contract
    ensures r is Ok ==> final(writer).wlen() == old(writer).wlen() + 4 * vs@.len(),
//@ loop 1
        invariant /*@C07*/ writer.wlen() == old(writer).wlen() + 4 * vx_i_e,
//@ end

// (the `Default` impls are public trait impls; Verus does not let their contracts name fields of the crate-private structs
// directly, hence the two predicates)
pub closed spec fn info_is_default(r: CasObjectInfoV1) -> bool {
    &&& r.num_chunks == 0 && r.chunk_hashes@.len() == 0 && r.chunk_boundary_offsets@.len() == 0 && r.unpacked_chunk_offsets@.len() == 0
    &&& r.boundaries_version == CAS_OBJECT_FORMAT_BOUNDARIES_VERSION && r.cashash == zero_hash()
    &&& r.offsets_filled()
}
pub closed spec fn cas_is_default(r: CasObject) -> bool { info_is_default(r.info) && r.info_length == info_len(0) }
impl Default for CasObjectInfoV1 {
//@ extract cas_object/src/cas_object_format.rs in `impl Default for CasObjectInfoV1` fn default
//@ ret r
//@ contract
        ensures info_is_default(r),
//@ end
}
impl Default for CasObject {
//@ extract cas_object/src/cas_object_format.rs in `impl Default for CasObject` fn default
//@ ret r
//@ contract
        ensures cas_is_default(r),
//@ end
}

impl CasObjectInfoV1 {
//@ extract cas_object/src/cas_object_format.rs in `impl CasObjectInfoV1` fn fill_in_boundary_offsets
//@ contract
        requires
            // the u32 arithmetic of the two offsets: 52 + 32*|hashes| + 4*|boundaries| + 4*|unpacked| must fit u32
            hash_section_len(old(self).chunk_hashes@.len()) + boundary_section_len(old(self).chunk_boundary_offsets@.len(), old(self).unpacked_chunk_offsets@.len()) <= u32::MAX,
        ensures
            /*@C07*/ final(self).offsets_filled(),
            *final(self) == (CasObjectInfoV1 {
                boundary_section_offset_from_end: final(self).boundary_section_offset_from_end,
                hashes_section_offset_from_end: final(self).hashes_section_offset_from_end,
                ..*old(self) }),
//@ body-start
        broadcast use vstd::layout::layout_of_primitives;
        proof {
            assert(self.chunk_hashes@.len() * vstd::layout::size_of::<MerkleHash>() == 32 * self.chunk_hashes@.len()) by (nonlinear_arith)
                requires vstd::layout::size_of::<MerkleHash>() == 32;
            assert(self.chunk_boundary_offsets@.len() * vstd::layout::size_of::<u32>() == 4 * self.chunk_boundary_offsets@.len()) by (nonlinear_arith)
                requires vstd::layout::size_of::<u32>() == 4;
            assert(self.unpacked_chunk_offsets@.len() * vstd::layout::size_of::<u32>() == 4 * self.unpacked_chunk_offsets@.len()) by (nonlinear_arith)
                requires vstd::layout::size_of::<u32>() == 4;
        }
//@ end

//@ extract cas_object/src/cas_object_format.rs in `impl CasObjectInfoV1` fn serialize
//@ ret r
//@ rules R15 R4s
//@ subst `countio::Counter::new(writer)` => `Counter::new(writer)` :: R11 stub type for the countio dependency
//@ contract
        requires
            // R2: the three `debug_assert_eq!` on the table lengths are obligations
            self.num_chunks == self.chunk_hashes@.len(),
            self.num_chunks == self.chunk_boundary_offsets@.len(),
            self.num_chunks == self.unpacked_chunk_offsets@.len(),
        ensures
            /*@C07*/ r matches Ok(n) ==> n == info_len(self.num_chunks as nat),
//@ before `write_bytes(w, &self.ident_hash_section)`
        let ghost c_h = w.n;
//@ loop 1
            invariant
                /*@AUX*/ self.num_chunks == self.chunk_hashes@.len(),
                /*@C07*/ w.n == c_h + 12 + 32 * vx_i_hash,
                /*@C07*/ c_h == first_section_len(),
//@ before `write_bytes(w, &self.ident_boundary_section)`
        let ghost c_b = w.n;
//@ before `Ok(w.writer_bytes())`
        // the section offsets stored in the footer are the distances from the section starts to the end of the footer
        /*@C07*/ assert(self.offsets_filled() ==> w.n - c_h == self.hashes_section_offset_from_end);
        /*@C07*/ assert(self.offsets_filled() ==> w.n - c_b == self.boundary_section_offset_from_end);
//@ end
}

impl CasObject {
//@ extract cas_object/src/cas_object_format.rs in `impl CasObject` fn serialize
//@ ret r
//@ rules R4s
//@ subst `chunk_and_boundaries.iter().map(|(hash, _)| *hash).collect()` => `vx_collect_hashes(chunk_and_boundaries)` :: R7 outline (iterator chain), contract assumed: pointwise first components
//@ subst `chunk_and_boundaries .iter() .map(|(_, unpacked_chunk_boundary)| *unpacked_chunk_boundary) .collect()` => `vx_collect_bounds(chunk_and_boundaries)` :: R7 outline (iterator chain), contract assumed: pointwise second components
//@ contract
        requires
            // `&data[a..b]` of every chunk is in range
            bounds_ok(chunk_and_boundaries@, data@.len() as int),
            // every chunk fits the 3-byte length fields of the chunk header (precondition of serialize_chunk)
            chunks_small(chunk_and_boundaries@),
            // u32 no-overflow preconditions that are genuinely needed:
            //  (1) the physical end offset of every chunk fits u32 (otherwise `total_written_bytes as u32` truncates and the table wraps)
            written_sum(data@, chunk_and_boundaries@, compression_scheme, chunk_and_boundaries@.len() as int) <= u32::MAX,
            //  (2) the footer length 92 + 40*k fits u32 (`len() as u32`, `info_length as u32`, section offsets)
            info_len(chunk_and_boundaries@.len()) <= u32::MAX,
        ensures
            r matches Ok((cas, total)) ==> ({
                let c = chunk_and_boundaries@;
                let k = c.len();
                &&& /*@C07*/ cas.info.num_chunks == k
                &&& /*@C07*/ cas.info.chunk_hashes@.len() == k && cas.info.unpacked_chunk_offsets@.len() == k && cas.info.chunk_boundary_offsets@.len() == k
                &&& /*@C07*/ forall|i: int| 0 <= i < k ==> cas.info.chunk_hashes@[i] == c[i].0
                &&& /*@C07*/ forall|i: int| 0 <= i < k ==> cas.info.unpacked_chunk_offsets@[i] == c[i].1
                // boundary i = number of bytes of THIS xorb written up to the end of chunk i: an offset from the xorb's first byte, whatever the
                // writer's position was when serialization began (it is what get_byte_offset / get_bytes_by_chunk_range consume, U-XORBRANGE)
                &&& /*@C07*/ forall|i: int| 0 <= i < k ==> cas.info.chunk_boundary_offsets@[i] == written_sum(data@, c, compression_scheme, i + 1)
                &&& /*@C07*/ nondecreasing(cas.info.chunk_boundary_offsets@)
                &&& /*@C07*/ nondecreasing(cas.info.unpacked_chunk_offsets@)
                &&& /*@C07*/ cas.info.cashash == *hash
                &&& /*@C07*/ cas.info.boundaries_version == CAS_OBJECT_FORMAT_BOUNDARIES_VERSION
                &&& /*@C07*/ cas.info.offsets_filled()
                &&& /*@C07*/ cas.info_length == info_len(k)
                &&& /*@C07*/ total == written_sum(data@, c, compression_scheme, k as int) + info_len(k) + 4
            }),
//@ before `let mut total_written_bytes`
        let ghost c = chunk_and_boundaries@; let ghost k = c.len(); let ghost hs = cas.info.chunk_hashes@; let ghost us = cas.info.unpacked_chunk_offsets@;
//@ loop 1
            invariant
                c == chunk_and_boundaries@, k == c.len(),
                /*@AUX*/ bounds_ok(c, data@.len() as int),
                /*@AUX*/ chunks_small(c),
                /*@AUX*/ written_sum(data@, c, compression_scheme, k as int) <= u32::MAX,
                /*@AUX*/ info_len(k) <= u32::MAX,
                /*@C07*/ cas.info.chunk_hashes@ == hs,
                /*@C07*/ cas.info.unpacked_chunk_offsets@ == us,
                /*@C07*/ cas.info.num_chunks == k,
                /*@C07*/ cas.info.cashash == *hash,
                /*@C07*/ cas.info.boundaries_version == CAS_OBJECT_FORMAT_BOUNDARIES_VERSION,
                /*@C07*/ cas.info.chunk_boundary_offsets@.len() == vx_i_boundary,
                /*@C07*/ total_written_bytes == written_sum(data@, c, compression_scheme, vx_i_boundary as int),
                // the writer stands `total_written_bytes` after the position it had when the xorb began (that position is arbitrary)
                /*@C07*/ writer.wlen() == old(writer).wlen() + total_written_bytes,
                /*@C07*/ raw_start_idx == bound_before(c, vx_i_boundary as int),
                /*@C07*/ forall|i: int| 0 <= i < vx_i_boundary ==> cas.info.chunk_boundary_offsets@[i] == written_sum(data@, c, compression_scheme, i + 1),
//@ after `let chunk_raw_bytes = &data[raw_start_idx as usize..chunk_boundary as usize];`
            // (placed before the chunk is written: the lemma does not depend on the write, and the running total may be updated in the same statement)
            proof { lemma_written_sum_mono(data@, c, compression_scheme, vx_i_boundary + 1, k as int); }
//@ before `cas.info.fill_in_boundary_offsets();`
        proof {
            assert forall|i: int, j: int| 0 <= i <= j < k implies cas.info.chunk_boundary_offsets@[i] <= cas.info.chunk_boundary_offsets@[j] by {
                lemma_written_sum_mono(data@, c, compression_scheme, i + 1, j + 1);
            }
            lemma_bounds_nondecreasing(c, data@.len() as int, us);
        }
//@ end
}

// ---- constructors from a version-0 footer: every constructor leaves the two section offsets consistent with the table lengths --------------
impl CasObjectInfoV1 {
    // the ident / version fields every in-memory V1 info carries
    spec fn idents_are_v1(&self) -> bool {
        &&& self.version == CAS_OBJECT_FORMAT_VERSION
        &&& self.ident_hash_section == CAS_OBJECT_FORMAT_IDENT_HASHES && self.hashes_version == CAS_OBJECT_FORMAT_HASHES_VERSION
        &&& self.ident_boundary_section == CAS_OBJECT_FORMAT_IDENT_BOUNDARIES
    }

//@ extract cas_object/src/cas_object_format.rs in `impl CasObjectInfoV1` fn from_v0
//@ ret r
//@ contract
        requires
            // u32 arithmetic of fill_in_boundary_offsets
            hash_section_len(src.chunk_hashes@.len()) + boundary_section_len(src.chunk_boundary_offsets@.len(), 0) <= u32::MAX,
        ensures
            /*@C07*/ r.offsets_filled(),
            /*@C07*/ r.chunk_hashes@ == src.chunk_hashes@ && r.chunk_boundary_offsets@ == src.chunk_boundary_offsets@ && r.unpacked_chunk_offsets@.len() == 0,
            /*@C07*/ r.num_chunks == src.num_chunks && r.cashash == src.cashash && r.ident == src.ident && r.idents_are_v1(),
            /*@C07*/ r.boundaries_version == CAS_OBJECT_FORMAT_BOUNDARIES_VERSION_NO_UNPACKED_INFO,
//@ end

//@ extract cas_object/src/cas_object_format.rs in `impl CasObjectInfoV1` fn from_v0_with_unpacked_chunk_offsets
//@ ret r
//@ contract
        requires
            hash_section_len(src.chunk_hashes@.len()) + boundary_section_len(src.chunk_boundary_offsets@.len(), unpacked_chunk_offsets@.len()) <= u32::MAX,
        ensures
            // the footer of the upgraded info is self-consistent: re-serialising it writes the sections where the offsets say (serialize's
            // section assertions are conditional on exactly this predicate) and deserialize's offset checks accept it
            /*@C07*/ r.offsets_filled(),
            /*@C07*/ r.chunk_hashes@ == src.chunk_hashes@ && r.chunk_boundary_offsets@ == src.chunk_boundary_offsets@ && r.unpacked_chunk_offsets@ == unpacked_chunk_offsets@,
            /*@C07*/ r.num_chunks == src.num_chunks && r.cashash == src.cashash && r.ident == src.ident && r.idents_are_v1(),
            /*@C07*/ r.boundaries_version == CAS_OBJECT_FORMAT_BOUNDARIES_VERSION,
//@ end
}

impl CasObjectInfoV1 {
//@ extract cas_object/src/cas_object_format.rs in `impl CasObjectInfoV1` fn has_chunk_hashes
//@ ret r
//@ contract
        ensures /*@C07*/ r == (self.chunk_hashes@.len() != 0),
//@ end
}
impl CasObject {
//@ extract cas_object/src/cas_object_format.rs in `impl CasObject` fn serialize_given_info
//@ ret r
//@ contract
        requires
            info.num_chunks == info.chunk_hashes@.len(), info.num_chunks == info.chunk_boundary_offsets@.len(), info.num_chunks == info.unpacked_chunk_offsets@.len(),
            info_len(info.num_chunks as nat) <= u32::MAX,
        ensures
            /*@C07*/ r matches Ok((cas, total)) ==> cas.info == info && cas.info_length == info_len(info.num_chunks as nat) && total == info_len(info.num_chunks as nat) + 4,
//@ end
}

// C07 at table level: what `serialize` stores and what the accessors compute from it agree with the input chunk list --
// the byte range of chunks a..b is [bytes written for chunks 0..a, bytes written for chunks 0..b), and the uncompressed
// length of the range is the distance of the input's unpacked boundaries.
proof fn lemma_tables_roundtrip(data: Seq<u8>, c: Seq<(MerkleHash, u32)>, scheme: Option<CompressionScheme>, cas: CasObject, a: int, b: int)
    requires
        // (postcondition of `CasObject::serialize`)
        cas.info.unpacked_chunk_offsets@.len() == c.len(), cas.info.chunk_boundary_offsets@.len() == c.len(),
        forall|i: int| 0 <= i < c.len() ==> cas.info.unpacked_chunk_offsets@[i] == c[i].1,
        forall|i: int| 0 <= i < c.len() ==> cas.info.chunk_boundary_offsets@[i] == written_sum(data, c, scheme, i + 1),
        0 <= a < b <= c.len(),
    ensures
        // (what get_byte_offset(a, b) returns)
        prev_or_zero(cas.info.chunk_boundary_offsets@, a) == written_sum(data, c, scheme, a),
        cas.info.chunk_boundary_offsets@[b - 1] == written_sum(data, c, scheme, b),
        // (what uncompressed_range_length(a, b) returns)
        range_len(cas.info.unpacked_chunk_offsets@, a, b) == c[b - 1].1 - bound_before(c, a),
        // (what uncompressed_chunk_length(a) returns)
        chunk_len(cas.info.unpacked_chunk_offsets@, a) == c[a].1 - bound_before(c, a),
{
    lemma_range_len_telescopes(cas.info.unpacked_chunk_offsets@, a, b);
}

} // verus!
fn main() {}
