//@ unit U-XORBIDX
//@ props C07
//@ verus-args --rlimit 100
//@ gsubst `anyhow::Error` => `AnyhowError` :: R11 stub type for the anyhow dependency (opaque error value)
//@ gsubst `std::io::Error` => `IoError` :: R11 stub type (opaque error value)
//@ gsubst `lz4_flex::frame::Error` => `Lz4Error` :: R11 stub type (opaque error value)
//@ gsubst `Infallible` => `VxInfallible` :: R11 stub type (opaque error value)
#![allow(non_snake_case, unused)]
use vstd::prelude::*;
verus! {
global size_of usize == 8;

//@ include prelude/xorbidx_types.rs

//@ extract cas_object/src/error.rs enum CasObjectError
//@ end
//@ extract cas_object/src/cas_object_format.rs type CasObjectIdent
//@ end
//@ extract cas_object/src/cas_object_format.rs const CAS_OBJECT_FORMAT_BOUNDARIES_VERSION
//@ end
//@ extract cas_object/src/cas_object_format.rs struct CasObjectInfoV1
//@ end
//@ extract cas_object/src/cas_object_format.rs struct CasObject
//@ end

// ---- offset tables -----------------------------------------------------------------------------------------------------
// t[i] = end offset of chunk i (cumulative); chunk i occupies [t[i-1] or 0, t[i])
pub open spec fn nondecreasing(t: Seq<u32>) -> bool { forall|i: int, j: int| 0 <= i <= j < t.len() ==> t[i] <= t[j] }
pub open spec fn prev_or_zero(t: Seq<u32>, i: int) -> int { if i <= 0 { 0 } else { t[i - 1] as int } }
pub open spec fn chunk_len(t: Seq<u32>, i: int) -> int { t[i] - prev_or_zero(t, i) }
// sum of the lengths of chunks a..b
pub open spec fn range_len(t: Seq<u32>, a: int, b: int) -> int decreases b - a {
    if a >= b { 0 } else { range_len(t, a, b - 1) + chunk_len(t, b - 1) }
}
pub proof fn lemma_range_len_telescopes(t: Seq<u32>, a: int, b: int)
    requires 0 <= a <= b <= t.len(),
    ensures range_len(t, a, b) == prev_or_zero(t, b) - prev_or_zero(t, a),
    decreases b - a,
{
    if a < b { lemma_range_len_telescopes(t, a, b - 1); }
}
// `len as u32 == n` implies `n <= len`: the truncated comparison in validate_cas_object_info still bounds the indices
pub proof fn lemma_trunc_le(len: usize)
    ensures (len as u32) as usize <= len,
{
    assert((len as u32) as usize <= len) by (bit_vector);
}

impl CasObject {
    // what `validate_cas_object_info` checks, literally (lengths compared after the `as u32` truncation)
    spec fn info_complete(&self) -> bool {
        &&& self.info.num_chunks != 0
        &&& self.info.num_chunks == self.info.chunk_boundary_offsets@.len() as u32
        &&& self.info.num_chunks == self.info.chunk_hashes@.len() as u32
        &&& (self.info.boundaries_version == CAS_OBJECT_FORMAT_BOUNDARIES_VERSION ==> self.info.num_chunks == self.info.unpacked_chunk_offsets@.len() as u32)
        &&& self.info.cashash != zero_hash()
    }
}

impl CasObject {
//@ extract cas_object/src/cas_object_format.rs in `impl CasObject` fn validate_cas_object_info
//@ ret r
//@ rules R15
//@ contract
        ensures
            match r {
                Ok(()) => self.info_complete(),
                Err(e) => !self.info_complete() && e is FormatError,
            },
//@ end

//@ extract cas_object/src/cas_object_format.rs in `impl CasObject` fn get_byte_offset
//@ ret r
//@ contract
        ensures
            /*@C07*/ match r {
                Ok((s, e)) => self.info_complete()
                    && chunk_index_start < chunk_index_end <= self.info.num_chunks
                    && chunk_index_end <= self.info.chunk_boundary_offsets@.len()
                    && s == prev_or_zero(self.info.chunk_boundary_offsets@, chunk_index_start as int)
                    && e == self.info.chunk_boundary_offsets@[chunk_index_end - 1],
                Err(e) => (!self.info_complete() && e is FormatError)
                    || (self.info_complete() && !(chunk_index_start < chunk_index_end <= self.info.num_chunks) && e is InvalidArguments),
            },
//@ before `let byte_offset_start`
        proof { lemma_trunc_le(self.info.chunk_boundary_offsets.len()); }
//@ end

//@ extract cas_object/src/cas_object_format.rs in `impl CasObject` fn uncompressed_chunk_length
//@ ret r
//@ contract
        requires
            nondecreasing(self.info.unpacked_chunk_offsets@),
        ensures
            /*@C07*/ match r {
                Ok(l) => self.info_complete() && chunk_index < self.info.unpacked_chunk_offsets@.len()
                    && l == chunk_len(self.info.unpacked_chunk_offsets@, chunk_index as int),
                Err(e) => (!self.info_complete() && e is FormatError)
                    || (self.info_complete() && chunk_index >= self.info.unpacked_chunk_offsets@.len() && e is InvalidArguments),
            },
//@ end

//@ extract cas_object/src/cas_object_format.rs in `impl CasObject` fn uncompressed_range_length
//@ ret r
//@ contract
        requires
            nondecreasing(self.info.unpacked_chunk_offsets@),
            self.info.unpacked_chunk_offsets@.len() == self.info.num_chunks,
        ensures
            /*@C07*/ match r {
                Ok(l) => self.info_complete()
                    && chunk_index_start <= chunk_index_end <= self.info.num_chunks && chunk_index_start < self.info.num_chunks
                    && l == range_len(self.info.unpacked_chunk_offsets@, chunk_index_start as int, chunk_index_end as int),
                Err(e) => (!self.info_complete() && e is FormatError)
                    || (self.info_complete() && !(chunk_index_start <= chunk_index_end <= self.info.num_chunks && chunk_index_start < self.info.num_chunks)
                        && e is InvalidArguments),
            },
//@ before `let before_start`
        proof { lemma_range_len_telescopes(self.info.unpacked_chunk_offsets@, chunk_index_start as int, chunk_index_end as int); }
//@ before `return Ok(0);`
        proof { lemma_range_len_telescopes(self.info.unpacked_chunk_offsets@, chunk_index_start as int, chunk_index_end as int); }
//@ end
}

} // verus!
fn main() {}
