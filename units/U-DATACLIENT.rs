//@ unit U-DATACLIENT
//@ props C03 C14 C16 C01
//@ verus-args --rlimit 100 --triggers-mode silent
//@ config INGESTION_BLOCK_SIZE
//@ gsubst `dyn ProgressUpdater` => `VxProgressUpdater` :: R11 stub type for the progress trait object
//@ gsubst `dyn TokenRefresher` => `VxTokenRefresher` :: R11 stub type for the token refresher trait object
//@ config MAX_CONCURRENT_FILE_INGESTION MAX_CONCURRENT_DOWNLOADS
#![feature(allocator_api)]
#![allow(non_snake_case, unused)]
use vstd::prelude::*;
use std::sync::Arc;
verus! {
global size_of usize == 8;

// =====================================================================================================================
// data/src/data_client.rs — the file-level entry points.  `clean_file` is the loop that turns a file into add_data calls; the
// property (C03/C14) is that, whatever sizes `Read::read` happens to return, the blocks handed to the cleaner concatenate to the
// WHOLE file, so that the cleaner's own contract (U-METRICS: stream = bytes fed; finish: pointer size = |stream|, hash = file
// hash of the stream) speaks about the whole file.
// =====================================================================================================================

pub uninterp spec fn spec_INGESTION_BLOCK_SIZE() -> usize;
#[verifier::external_body] pub fn INGESTION_BLOCK_SIZE() -> (r: usize) ensures r == spec_INGESTION_BLOCK_SIZE() { unimplemented!() }

// not needed by the unchanged code; keeps "swallowing" edits decidable
pub assume_specification<T, E> [std::result::Result::<T, E>::unwrap_or] (r: std::result::Result<T, E>, default: T) -> (o: T)
    ensures o == (match r { Ok(v) => v, Err(_) => default });

// ---- errors ---------------------------------------------------------------------------------------------------------------------
#[verifier::external_body] pub struct DataProcessingError { _p: () }
/// std::io::Error
#[verifier::external_body] pub struct IoError { _p: () }
impl From<IoError> for DataProcessingError { #[verifier::external_body] fn from(e: IoError) -> DataProcessingError { unimplemented!() } }
pub mod errors { pub type Result<T> = std::result::Result<T, super::DataProcessingError>; }

// ---- the file system as the reader sees it (R11 stub for std::fs::File + std::io::Read) ----------------------------------------------
pub struct VxPath { _p: () }
/// the bytes of the file a path names (at the time it is opened)
pub uninterp spec fn fs_content(p: &VxPath) -> Seq<u8>;
/// the size `stat` reports for that path: NOT tied to the content (procfs/sysfs report 0; a file may grow after the stat)
pub uninterp spec fn fs_stat_len(p: &VxPath) -> u64;
#[verifier::external_body] pub struct Metadata { _p: () }
impl Metadata {
    pub uninterp spec fn spec_len(&self) -> u64;
    #[verifier::external_body] pub fn len(&self) -> (r: u64) ensures r == self.spec_len() { unimplemented!() }
}
#[verifier::external_body] pub struct File { _p: () }
impl File {
    /// everything this handle will ever deliver, and how much of it has been delivered
    pub uninterp spec fn content(&self) -> Seq<u8>;
    pub uninterp spec fn pos(&self) -> int;
    pub uninterp spec fn stat_len(&self) -> u64;
    /// ASSUMED: a file's content fits the address space (64-bit target)
    #[verifier::external_body]
    pub fn open(p: &VxPath) -> (r: std::result::Result<File, IoError>)
        ensures r matches Ok(f) ==> f.content() == fs_content(p) && f.pos() == 0 && f.content().len() <= usize::MAX && f.stat_len() == fs_stat_len(p)
    { unimplemented!() }
    #[verifier::external_body]
    pub fn metadata(&self) -> (r: std::result::Result<Metadata, IoError>) ensures r matches Ok(m) ==> m.spec_len() == self.stat_len() { unimplemented!() }
    /// std::io::Read::read, its documented contract and nothing more: Ok(n) with ANY 0 <= n <= buf.len(); the n bytes are the
    /// next n bytes of the content and are placed at the start of buf; for a non-empty buf, n == 0 only at end of file.
    /// (The buffer is passed as `&mut Vec<u8>`: the call site's `&mut buffer` before its deref-coercion to `&mut [u8]`.)
    #[verifier::external_body]
    pub fn read(&mut self, buf: &mut Vec<u8>) -> (r: std::result::Result<usize, IoError>)
        ensures
            final(self).content() == old(self).content(),
            final(buf)@.len() == old(buf)@.len(),
            match r {
                Ok(n) => {
                    &&& n <= old(buf)@.len()
                    &&& old(self).pos() + n <= old(self).content().len()
                    &&& final(self).pos() == old(self).pos() + n
                    &&& final(buf)@.subrange(0, n as int) == old(self).content().subrange(old(self).pos(), old(self).pos() + n)
                    &&& (n == 0 && old(buf)@.len() > 0) ==> old(self).pos() == old(self).content().len()
                },
                Err(_) => final(self).pos() == old(self).pos(),
            },
    { unimplemented!() }
}

// ---- the cleaner: U-METRICS' contracts of SingleFileCleaner::add_data / finish as callee stubs --------------------------------------
#[verifier::external_body] pub struct FileUploadSession { _p: () }
#[verifier::external_body] pub struct SingleFileCleaner { _p: () }
pub struct PointerFile { pub hash: String, pub filesize_: u64, pub path_: String }
pub struct DeduplicationMetrics { pub total_bytes: usize }
/// U-METRICS `finish`, hash clause: the pointer's hash text is hex(file_hash_spec(chunk list of `stream`, session salt))
pub uninterp spec fn pointer_hash_is(hash: Seq<char>, stream: Seq<u8>, session: FileUploadSession) -> bool;
/// what U-METRICS proves `finish` returns for a cleaner that was fed `stream`
pub open spec fn cleaned_as(pf: PointerFile, m: DeduplicationMetrics, stream: Seq<u8>, session: FileUploadSession) -> bool {
    pf.filesize_ == stream.len() && m.total_bytes == stream.len() && pointer_hash_is(pf.hash@, stream, session)
}
impl SingleFileCleaner {
    pub uninterp spec fn stream(&self) -> Seq<u8>;     // U-METRICS: all bytes fed so far
    pub uninterp spec fn wf(&self) -> bool;            // U-METRICS: wf()
    pub uninterp spec fn session(&self) -> FileUploadSession;
    /// U-METRICS add_data: exactly `data` is appended to the stream, whatever the ingestion block size
    #[verifier::external_body]
    pub fn add_data(&mut self, data: &[u8]) -> (r: errors::Result<()>)
        requires old(self).wf(), data@.len() <= isize::MAX, old(self).stream().len() + data@.len() <= usize::MAX,
        ensures final(self).session() == old(self).session(),
            match r { Ok(()) => final(self).wf() && final(self).stream() == old(self).stream() + data@, Err(_) => true },
    { unimplemented!() }
    /// U-METRICS finish
    #[verifier::external_body]
    pub fn finish(self) -> (r: errors::Result<(PointerFile, DeduplicationMetrics)>)
        requires self.wf(), self.stream().len() <= usize::MAX,
        ensures r matches Ok(p) ==> cleaned_as(p.0, p.1, self.stream(), self.session()),
    { unimplemented!() }
}
impl FileUploadSession {
    /// U-SESSAPI start_clean (fresh_for) + U-METRICS' configuration predicate: a fresh cleaner is well-formed and has been fed nothing
    #[verifier::external_body]
    pub fn start_clean(self: &Arc<Self>, file_name: String) -> (r: SingleFileCleaner)
        ensures r.wf(), r.stream() == Seq::<u8>::empty(), r.session() == **self
    { unimplemented!() }
}
/// R7 outline of `filename.as_ref().to_string_lossy().into()` (path -> display string; str is outside Verus)
#[verifier::external_body] pub fn vx_path_string(p: &VxPath) -> String { unimplemented!() }

//@ extract data/src/data_client.rs fn clean_file
//@ ret ret
//@ subst `impl AsRef<Path>` => `VxPath` :: R11 stub type for the path argument (generic AsRef<Path> narrowed to the stub path)
//@ subst `filename.as_ref().to_string_lossy().into()` => `vx_path_string(&filename)` :: R7 outline of the path-to-string conversion; result arbitrary (only the cleaner's file_name)
//@ contract
        requires
            // configuration domain: a positive ingestion block size that fits a slice (U-METRICS' add_data precondition
            // data.len() <= isize::MAX; with a zero block size the read buffer would be empty and nothing could be read)
            0 < spec_INGESTION_BLOCK_SIZE() <= isize::MAX,
        ensures
            // C03/C14: the pointer (hash, size) and the metrics are those of the WHOLE file, for every way `read` fragments it and
            // whatever size `stat` reports (the reported size only sizes the buffer)
            /*@C03,C14,C02,C04,C01*/ ret matches Ok(p) ==> cleaned_as(p.0, p.1, fs_content(&filename), *processor),
//@ body-start
        let ghost content = fs_content(&filename);
//@ loop 1
        invariant
            // all the loop needs from the buffer sizing: the buffer can hold something
            /*@C03,C14,C02,C04,C01*/ buffer@.len() > 0,
            reader.content() == content, content.len() <= usize::MAX,
            0 <= reader.pos() <= content.len(),
            buffer@.len() <= isize::MAX,
            handle.wf(), handle.session() == *processor,
            // the blocks handed to add_data so far, in order, are exactly the bytes read so far
            /*@C03,C14,C02,C04,C01*/ handle.stream() == content.subrange(0, reader.pos()),
        ensures
            // the loop is left only at end of file
            /*@C03,C14,C02,C04,C01*/ reader.pos() == content.len(),
            /*@C03,C14,C02,C04,C01*/ handle.stream() == content.subrange(0, reader.pos()),
            handle.wf(), handle.session() == *processor, content.len() <= usize::MAX, 0 <= reader.pos() <= content.len(),
        decreases content.len() - reader.pos(),
//@ before `let bytes = reader.read`
        let ghost pos0 = reader.pos();
//@ after `handle.add_data(&buffer[0..bytes])?;`
        proof { assert(content.subrange(0, pos0) + content.subrange(pos0, pos0 + bytes) =~= content.subrange(0, pos0 + bytes)); }
//@ before `handle.finish()`
        proof { assert(content.subrange(0, content.len() as int) =~= content); }
//@ end

// ===== upload_async / download_async / smudge_file ===========================================================================
pub struct VxProgressUpdater { _p: () }
pub struct VxTokenRefresher { _p: () }
pub struct ThreadPool { _p: () }
pub struct TranslatorConfig { _p: () }
pub struct CompressionScheme { _p: () }
pub uninterp spec fn spec_MAX_CONCURRENT_FILE_INGESTION() -> usize;
pub uninterp spec fn spec_MAX_CONCURRENT_DOWNLOADS() -> usize;
#[verifier::external_body] pub fn MAX_CONCURRENT_FILE_INGESTION() -> (r: usize) ensures r == spec_MAX_CONCURRENT_FILE_INGESTION() { unimplemented!() }
#[verifier::external_body] pub fn MAX_CONCURRENT_DOWNLOADS() -> (r: usize) ensures r == spec_MAX_CONCURRENT_DOWNLOADS() { unimplemented!() }
#[verifier::external_body] pub fn DEFAULT_CAS_ENDPOINT() -> String { unimplemented!() }
#[verifier::external_body]
pub fn default_config(endpoint: String, xorb_compression: Option<CompressionScheme>, token_info: Option<(String, u64)>, token_refresher: Option<Arc<VxTokenRefresher>>) -> errors::Result<Arc<TranslatorConfig>> { unimplemented!() }

/// U-SESSAPI: what `finalize` returning Ok means (= U-JOIN: every xorb and shard upload task joined Ok, shards after xorbs)
pub uninterp spec fn vx_session_durable(s: FileUploadSession) -> bool;
impl FileUploadSession {
    #[verifier::external_body]
    pub fn new(config: Arc<TranslatorConfig>, threadpool: Arc<ThreadPool>, upload_progress_updater: Option<Arc<VxProgressUpdater>>) -> errors::Result<Arc<FileUploadSession>> { unimplemented!() }
    /// U-SESSAPI `finalize`
    #[verifier::external_body]
    pub fn finalize(self: Arc<Self>) -> (r: errors::Result<DeduplicationMetrics>) ensures r is Ok ==> vx_session_durable(*self) { unimplemented!() }
}

/// the display string of a path / the path a string names (String <-> Path conversions are outside Verus)
pub uninterp spec fn vx_path_of(s: Seq<char>) -> VxPath;
/// what cleaning one input file must deliver: the pointer of the WHOLE file
pub open spec fn each_clean_post(session: FileUploadSession, path: VxPath, pf: PointerFile) -> bool {
    exists|m: DeduplicationMetrics| cleaned_as(pf, m, fs_content(&path), session)
}

// ---- parutils::tokio_par_for_each (R11 stub): runs the closure on every input, results at the same index, first error wins -------
#[verifier::external_body]
#[verifier::accept_recursive_types(I)]
#[verifier::accept_recursive_types(O)]
pub struct VxEachFn<I, O> { _p: std::marker::PhantomData<(I, O)> }
impl<I, O> VxEachFn<I, O> {
    /// prophecy: what the closure returns when applied to this input
    pub uninterp spec fn out(&self, input: I) -> errors::Result<O>;
}
pub enum ParallelError { JoinError, TaskError(DataProcessingError) }
#[verifier::external_body]
pub fn tokio_par_for_each<I, O>(inputs: Vec<I>, max_concurrent: usize, f: VxEachFn<I, O>) -> (r: std::result::Result<Vec<O>, ParallelError>)
    ensures r matches Ok(v) ==> v@.len() == inputs@.len() && forall|i: int| 0 <= i < inputs@.len() ==> f.out(#[trigger] inputs@[i]) == Ok::<O, DataProcessingError>(v@[i])
{ unimplemented!() }
/// R7 outline of `.map_err(|e| match e { ParallelError::JoinError => InternalError(..), ParallelError::TaskError(e) => e })`
pub trait VxFlattenParallel<T> { fn vx_flatten_parallel_error(self) -> errors::Result<T>; }
impl<T> VxFlattenParallel<T> for std::result::Result<T, ParallelError> {
    #[verifier::external_body]
    fn vx_flatten_parallel_error(self) -> (r: errors::Result<T>)
        ensures self matches Ok(v) ==> r == Ok::<T, DataProcessingError>(v), self is Err ==> r is Err
    { unimplemented!() }
}
/// R7 outline of the per-file closure of upload_async `|f, _| async { .. }`; its body is verified below as the lifted region
/// `upload_async__each` against the same predicate.  ASSUMED: the closure value has the contract of that body, with the
/// captured session.
#[verifier::external_body]
pub fn vx_each_clean(upload_session: &Arc<FileUploadSession>) -> (r: VxEachFn<String, PointerFile>)
    ensures forall|p: String| (#[trigger] r.out(p)) matches Ok(pf) ==> each_clean_post(**upload_session, vx_path_of(p@), pf)
{ unimplemented!() }

/// every input file is cleaned in full, its pointer is returned at the same index, and the session was finalized successfully
pub open spec fn upload_post(s: FileUploadSession, paths: Seq<String>, v: Seq<PointerFile>) -> bool {
    &&& v.len() == paths.len()
    &&& forall|i: int| 0 <= i < paths.len() ==> each_clean_post(s, vx_path_of(#[trigger] paths[i]@), v[i])
    &&& vx_session_durable(s)
}

//@ extract data/src/data_client.rs fn upload_async
//@ ret ret
//@ rules ujoin.R16
//@ subst `DEFAULT_CAS_ENDPOINT.clone()` => `DEFAULT_CAS_ENDPOINT()` :: R6 configurable constant (String) -> stub accessor
//@ subst `|f, _| vx_async_block()` => `vx_each_clean(&upload_session)` :: R7 outline of the per-file closure (body verified as region upload_async__each); contract assumed
//@ subst `.map_err(|e| match e { ParallelError::JoinError => DataProcessingError::InternalError("Join error".to_string()), ParallelError::TaskError(e) => e, })` => `.vx_flatten_parallel_error()` :: R7 outline of the error-flattening closure; contract assumed (Ok kept, Err stays Err)
//@ contract
        ensures
            // C03/C14: every file cleaned in full, pointer i belongs to file i; C16: Ok only after a successful finalize
            /*@C03,C14,C16,C02,C04,C01*/ ret matches Ok(v) ==> exists|s: FileUploadSession| upload_post(s, file_paths@, v@),
//@ before `let pointers =`
        let ghost paths0 = file_paths@;
//@ before `Ok(pointers)`
        // carries the property (ties the returned vector and the finalized session to the postcondition's witness), not a proof convenience
        /*@C03,C14,C16,C02,C04,C01*/ assert(upload_post(*upload_session, paths0, pointers@));
//@ end

// the body of the per-file closure of upload_async
//@ extract data/src/data_client.rs region upload_async
//@ block `|f, _| async {`
//@ sig `fn upload_async__each(upload_session: &Arc<FileUploadSession>, f: VxPath) -> (ret: errors::Result<PointerFile>)`
//@ contract
        requires 0 < spec_INGESTION_BLOCK_SIZE() <= isize::MAX,
        ensures /*@C03,C14,C02,C04,C01*/ ret matches Ok(pf) ==> each_clean_post(**upload_session, f, pf),
//@ end

// ---- download side -------------------------------------------------------------------------------------------------------------------
pub struct PathBuf { _p: () }
impl PathBuf {
    pub uninterp spec fn text(&self) -> Seq<char>;
    #[verifier::external_body] pub fn from(s: &str) -> (r: PathBuf) ensures r.text() == s@ { unimplemented!() }
    #[verifier::external_body] pub fn parent(&self) -> Option<&VxPath> { unimplemented!() }
}
#[verifier::external_body] pub fn vx_create_dir_all(p: &VxPath) -> std::result::Result<(), IoError> { unimplemented!() }
pub struct FileProvider { pub path_text: Ghost<Seq<char>> }
impl FileProvider {
    #[verifier::external_body] pub fn new(p: PathBuf) -> (r: FileProvider) ensures r.path_text@ == p.text() { unimplemented!() }
}
pub enum OutputProvider { File(FileProvider) }
pub struct FileRange { pub start: u64, pub end: u64 }
impl PointerFile {
    #[verifier::external_body] pub fn path(&self) -> (r: &str) ensures r@ == self.path_@ { unimplemented!() }
}
#[verifier::external_body] pub struct FileDownloader { _p: () }
/// U-SESSAPI smudge_file_from_pointer: the store is asked for the pointer's hash and exactly this range, writing to this output
pub uninterp spec fn spec_smudge(d: FileDownloader, pointer: PointerFile, out_path: Seq<char>, range: Option<FileRange>) -> errors::Result<u64>;
impl FileDownloader {
    #[verifier::external_body]
    pub fn smudge_file_from_pointer(&self, pointer: &PointerFile, output: &OutputProvider, range: Option<FileRange>, progress_updater: Option<Arc<VxProgressUpdater>>) -> (r: errors::Result<u64>)
        ensures r == spec_smudge(*self, *pointer, output->File_0.path_text@, range)
    { unimplemented!() }
}

//@ extract data/src/data_client.rs fn smudge_file
//@ ret ret
//@ subst `std::fs::create_dir_all(parent_dir)` => `vx_create_dir_all(parent_dir)` :: R7 outline of the directory creation (std::fs is outside Verus); result arbitrary
//@ contract
        ensures
            // each pointer is smudged whole (range None) into the file named by its OWN path, and that path is what is returned
            /*@C01*/ ret matches Ok(s) ==> s@ == pointer_file.path_@ && spec_smudge(*downloader, *pointer_file, pointer_file.path_@, None) is Ok,
            /*@C01,C16*/ (spec_smudge(*downloader, *pointer_file, pointer_file.path_@, None) is Err) ==> ret is Err,
//@ end

// the body of the per-pointer closure of download_async
//@ extract data/src/data_client.rs region download_async
//@ block `|(pointer_file, updater), _| async move {`
//@ sig `fn download_async__each(processor: &Arc<FileDownloader>, pointer_file: PointerFile, updater: Option<Arc<VxProgressUpdater>>) -> (ret: errors::Result<String>)`
//@ contract
        ensures
            /*@C01*/ ret matches Ok(s) ==> s@ == pointer_file.path_@ && spec_smudge(**processor, pointer_file, pointer_file.path_@, None) is Ok,
            /*@C01,C16*/ (spec_smudge(**processor, pointer_file, pointer_file.path_@, None) is Err) ==> ret is Err,
//@ end

// the argument check at the head of download_async: one progress updater per pointer, or none at all
impl DataProcessingError {
    /// the enum variant constructor `DataProcessingError::ParameterError(String)`
    #[verifier::external_body] pub fn ParameterError(msg: String) -> DataProcessingError { unimplemented!() }
}
//@ extract data/src/data_client.rs region download_async
//@ from `if let Some(updaters) = &progress_updaters`
//@ to-before `let config =`
//@ sig `fn download_async__check(progress_updaters: Option<Vec<Arc<VxProgressUpdater>>>, pointer_files: Vec<PointerFile>) -> (ret: errors::Result<()>)`
//@ epilogue `Ok(())`
//@ contract
        ensures /*@C01*/ ret is Ok <==> (progress_updaters matches Some(u) ==> u@.len() == pointer_files@.len()),
//@ end

} // verus!
fn main() {}
