//@ unit U-SFMNEW
//@ props C11
//@ verus-args --rlimit 100
//@ config MDB_SHARD_MIN_TARGET_SIZE
//@ gsubst `impl AsRef<Path>` => `PathBuf` :: R11 narrowing: path arguments at the PathBuf instance (paths are opaque here)
//@ gsubst `MDB_SHARD_FILE_MANAGER_CACHE` => `vx_sfm_cache()` :: R11 the process-global lazy_static map as a function returning the lock
//@ gsubst `std::collections::hash_map::Entry` => `VxEntry` :: R11 stub of the HashMap entry API with exact contracts
//@ gsubst `std::path::absolute` => `vx_path_absolute` :: R11 stub of the path/fs call
//@ gsubst `std::fs::create_dir_all` => `vx_create_dir_all` :: R11 stub of the path/fs call
#![feature(allocator_api)]
#![allow(non_snake_case, unused)]
use vstd::prelude::*;
use std::collections::HashMap;
use std::sync::Arc;
verus! {
global size_of usize == 8;

//@ include prelude/ims_merklehash.rs
//@ include prelude/shq_io.rs

// ---- paths and the shard directory --------------------------------------------------------------------------------------------
pub struct PathBuf { pub id: int }   // std::path::PathBuf, opaque
impl Clone for PathBuf { #[verifier::external_body] fn clone(&self) -> (r: PathBuf) ensures r == *self { unimplemented!() } }
impl PathBuf {
    #[verifier::external_body] pub fn exists(&self) -> bool { unimplemented!() }
}
pub uninterp spec fn spec_abs(p: PathBuf) -> PathBuf;
#[verifier::external_body]
pub fn vx_path_absolute(p: PathBuf) -> (r: std::result::Result<PathBuf, IoError>) ensures r matches Ok(a) ==> a == spec_abs(p) { unimplemented!() }
#[verifier::external_body]
pub fn vx_create_dir_all(p: &PathBuf) -> std::result::Result<(), IoError> { unimplemented!() }

// DIRECTORY MODEL: the set of (hashes of) valid, unexpired shard files present in directory `d` when the current call started.
// Shard files are only ever added to a shard directory while it is in use (expired ones are removed by the separate cleaner,
// U-EXPIRY: never a file `load_all_valid` would load), so every scan made during the call sees at least these.
pub uninterp spec fn vx_dir_shards(d: PathBuf) -> Set<MerkleHash>;

pub struct MDBShardFile { pub shard_hash: MerkleHash, pub x: u8 }
impl MDBShardFile {
    // `load_all_valid(dir)` (U-EXPIRY: = load_all with load_expired = false): handles of the valid shard files found in `dir`
    #[verifier::external_body]
    pub fn load_all_valid(path: &PathBuf) -> (r: Result<Vec<Arc<MDBShardFile>>>)
        ensures r matches Ok(v) ==> forall|h: MerkleHash| vx_dir_shards(*path).contains(h) ==> exists|i: int| 0 <= i < v@.len() && (#[trigger] v@[i]).shard_hash == h,
    { unimplemented!() }
    // NOT `load_all_valid`: also hands out expired shards and promises nothing here (keeps a `load_all` substitution decidable)
    #[verifier::external_body]
    pub fn load_all(path: &PathBuf, load_expired: bool) -> (r: Result<Vec<Arc<MDBShardFile>>>) { unimplemented!() }
}

// ---- locks: read()/write() yield the protected value (guard stub); ghost knowledge attached to the LOCK --------------------------
#[verifier::external_body]
#[verifier::accept_recursive_types(T)]
pub struct RwLock<T> { _p: std::marker::PhantomData<T> }
pub struct ShardBookkeeper { pub shard_lookup_by_shard_hash: HashMap<MerkleHash, (usize, usize)>, pub x: u8 }
pub struct MDBInMemoryShard { pub x: u8 }
pub struct AtomicBool { pub x: u8 }
impl ShardBookkeeper { #[verifier::external_body] pub fn new() -> Self { unimplemented!() } }
impl MDBInMemoryShard { #[verifier::external_body] pub fn default() -> Self { unimplemented!() } }
impl AtomicBool { #[verifier::external_body] pub fn new(b: bool) -> Self { unimplemented!() } }
impl<T> RwLock<T> {
    #[verifier::external_body] pub fn new(v: T) -> Self { unimplemented!() }
}
impl RwLock<ShardBookkeeper> {
    /// MARKER: the shard with hash h is registered in the bookkeeper behind this lock (in `shard_lookup_by_shard_hash`, hence —
    /// U-SHREG — in the collection of its key with its table rows indexed).  Registered shards are never unregistered.
    pub uninterp spec fn vx_known(&self, h: MerkleHash) -> bool;
    #[verifier::external_body]
    pub fn read(&self) -> (r: &ShardBookkeeper)
        ensures forall|h: MerkleHash| r.shard_lookup_by_shard_hash@.contains_key(h) ==> #[trigger] self.vx_known(h),
    { unimplemented!() }
}

//@ extract mdb_shard/src/shard_file_manager.rs struct ShardFileManager
//@ end

// the manager has registered every valid shard file present in ITS directory (at the time of the call)
spec fn current(m: ShardFileManager) -> bool {
    forall|h: MerkleHash| vx_dir_shards(m.shard_directory).contains(h) ==> #[trigger] m.shard_bookkeeper.vx_known(h)
}

// ---- the process-global cache map: HashMap<PathBuf, Arc<ShardFileManager>> with exact get / entry / insert contracts ------------
struct VxCacheMap { m: Map<PathBuf, Arc<ShardFileManager>> }
// map invariant: a manager is filed under its own directory (assumed for the value found under the lock; its preservation is the
// precondition of the only mutation, `VxVacantEntry::insert`)
spec fn cache_inv(c: VxCacheMap) -> bool { forall|k: PathBuf| c.m.contains_key(k) ==> (#[trigger] c.m[k]).shard_directory == k }
// MARKER: manager m is (or was just) filed in the process-global cache map under directory k (established only by the map stubs)
uninterp spec fn vx_filed(k: PathBuf, m: Arc<ShardFileManager>) -> bool;
struct VxVacantEntry<'a> { map: &'a mut VxCacheMap, key: PathBuf }
struct VxOccupiedEntry<'a> { map: &'a mut VxCacheMap, key: PathBuf }
enum VxEntry<'a> { Vacant(VxVacantEntry<'a>), Occupied(VxOccupiedEntry<'a>) }
impl<'a> VxVacantEntry<'a> {
    #[verifier::external_body]
    fn insert(self, v: Arc<ShardFileManager>)
        requires /*@C11*/ v.shard_directory == self.key,
        ensures final(self.map).m == old(self.map).m.insert(self.key, v), vx_filed(self.key, v),
    { unimplemented!() }
}
impl<'a> VxOccupiedEntry<'a> {
    #[verifier::external_body]
    fn get(&self) -> (r: &Arc<ShardFileManager>) ensures old(self.map).m.contains_key(self.key), *r == old(self.map).m[self.key], vx_filed(self.key, *r) { unimplemented!() }
}
impl VxCacheMap {
    #[verifier::external_body]
    fn get(&self, k: &PathBuf) -> (r: Option<&Arc<ShardFileManager>>)
        ensures match r { Some(v) => self.m.contains_key(*k) && *v == self.m[*k] && vx_filed(*k, *v), None => !self.m.contains_key(*k) },
    { unimplemented!() }
    #[verifier::external_body]
    fn entry<'a>(&'a mut self, k: PathBuf) -> (e: VxEntry<'a>)
        ensures match e {
            VxEntry::Vacant(s) => !old(self).m.contains_key(k) && s.key == k && *s.map == *old(self) && *final(s.map) == *final(self),
            VxEntry::Occupied(o) => old(self).m.contains_key(k) && o.key == k && *o.map == *old(self) && *final(o.map) == *final(self),
        },
    { unimplemented!() }
}
impl RwLock<VxCacheMap> {
    #[verifier::external_body] fn read(&self) -> (r: &VxCacheMap) ensures cache_inv(*r) { unimplemented!() }
    #[verifier::external_body] fn write(&self) -> (r: &mut VxCacheMap) ensures cache_inv(*r) { unimplemented!() }
}
#[verifier::external_body]
fn vx_sfm_cache() -> &'static RwLock<VxCacheMap> { unimplemented!() }

pub uninterp spec fn spec_MDB_SHARD_MIN_TARGET_SIZE() -> u64;
#[verifier::external_body] pub fn MDB_SHARD_MIN_TARGET_SIZE() -> (r: u64) ensures r == spec_MDB_SHARD_MIN_TARGET_SIZE() { unimplemented!() }

// outline (R7) of `shard_files.retain(|s| !guard.shard_lookup_by_shard_hash.contains_key(&s.shard_hash))`; contract = std `retain`:
// exactly the elements satisfying the predicate are kept (order kept; only membership is stated)
#[verifier::external_body]
fn vx_retain_unregistered(v: &mut Vec<Arc<MDBShardFile>>, guard: &ShardBookkeeper)
    ensures
        forall|i: int| 0 <= i < old(v)@.len() && !guard.shard_lookup_by_shard_hash@.contains_key((#[trigger] old(v)@[i]).shard_hash)
            ==> exists|j: int| 0 <= j < final(v)@.len() && final(v)@[j] == old(v)@[i],
        forall|j: int| 0 <= j < final(v)@.len() ==> exists|i: int| 0 <= i < old(v)@.len() && old(v)@[i] == #[trigger] final(v)@[j],
{ v.retain(|s| !guard.shard_lookup_by_shard_hash.contains_key(&s.shard_hash)); }

impl ShardFileManager {
    // U-SHREG (clause 1 of `register_shards`): after Ok every shard of the batch is known to the bookkeeper (and, clauses 2-5, sits in
    // the collection of its key and answers for its chunks)
    #[verifier::external_body]
    fn register_shards(&self, new_shards: &[Arc<MDBShardFile>]) -> (r: Result<()>)
        ensures r is Ok ==> forall|i: int| 0 <= i < new_shards@.len() ==> self.shard_bookkeeper.vx_known((#[trigger] new_shards@[i]).shard_hash),
    { unimplemented!() }

//@ extract mdb_shard/src/shard_file_manager.rs in `impl ShardFileManager` fn refresh_shard_dir
//@ ret r
//@ subst `shard_files.retain(|s| !shard_read_guard.shard_lookup_by_shard_hash.contains_key(&s.shard_hash));` => `vx_retain_unregistered(&mut shard_files, shard_read_guard);` :: R7 outline: closure-taking `Vec::retain`; contract assumed (std semantics)
//@ contract
        ensures
            // refresh = load_all_valid(dir) then register what is not yet registered: afterwards the manager is current
            /*@C11*/ r is Ok ==> current(*self),
//@ end

//@ extract mdb_shard/src/shard_file_manager.rs in `impl ShardFileManager` fn new_impl
//@ ret r
//@ rules isearch.R9 shq.R20
//@ subst `let vx_lb1;` => `let vx_lb1: Arc<ShardFileManager>;` :: type annotation of the variable rule R20 introduced (rustc needs it because the loop contract mentions it before its assignment)
//@ contract
        ensures
            // on Ok the returned manager — freshly created OR taken from the process-global cache map — serves the requested
            // directory and has registered every valid shard file present in it at the time of the call
            /*@C11*/ r matches Ok(m) ==> current(*m),
            /*@C11*/ r matches Ok(m) ==> m.shard_directory == spec_abs(directory),
            // a cachable manager is THE manager filed under its directory in the process-global map (one manager per directory and
            // process: sessions share its registrations)
            is_cachable ==> (r matches Ok(m) ==> vx_filed(spec_abs(directory), m)),
//@ loop 1
            invariant shard_directory == spec_abs(directory),
            ensures vx_lb1.shard_directory == shard_directory, is_cachable ==> vx_filed(shard_directory, vx_lb1),
            decreases 0int,
//@ end

//@ extract mdb_shard/src/shard_file_manager.rs in `impl ShardFileManager` fn new_in_cache_directory
//@ ret r
//@ contract
        ensures /*@C11*/ r matches Ok(m) ==> current(*m) && m.shard_directory == spec_abs(cache_directory),
//@ end

//@ extract mdb_shard/src/shard_file_manager.rs in `impl ShardFileManager` fn new_in_session_directory
//@ ret r
//@ contract
        ensures /*@C11*/ r matches Ok(m) ==> current(*m) && m.shard_directory == spec_abs(session_directory),
//@ end
}

} // verus!
fn main() {}
