//@ unit U-CACHESLICE
//@ props C12
//@ verus-args --rlimit 100
//@ gsubst `VerificationCell<CacheItem>` => `CacheItem` :: R11 stub: the wrapper `VerificationCell<T>` derefs to its `T`; its verification flag is not part of what a hit returns. Verus has no user `Deref`, so the wrapper is erased to its payload
#![feature(allocator_api)]
#![allow(non_snake_case, unused)]
use vstd::prelude::*;
use std::sync::Arc;
verus! {
global size_of usize == 8;

// ---- stub types of dependencies (R11) ------------------------------------------------------------------------------
pub enum ChunkCacheError { General, IO, Parse, BadRange, CacheEmpty, Infallible, LockPoison, InvalidArguments }
impl ChunkCacheError {
    #[verifier::external_body]
    fn parse(value: &str) -> (r: ChunkCacheError) ensures r is Parse { unimplemented!() }
}
pub enum SeekFrom { Start(u64), End(i64), Current(i64) }

// little-endian u32 at a byte position
uninterp spec fn le32(b: Seq<u8>) -> u32;

// `std::io::Read + Seek` as traits over a ghost byte view and a ghost cursor.  The stubs return the error already
// converted to `ChunkCacheError::IO` (the code's `?` applies `From<io::Error>`, which yields exactly that variant).
pub trait Read {
    spec fn bytes(&self) -> Seq<u8>;
    spec fn pos(&self) -> nat;
    fn read_exact(&mut self, buf: &mut Vec<u8>) -> (r: Result<(), ChunkCacheError>)
        ensures
            final(self).bytes() == old(self).bytes(),
            final(buf)@.len() == old(buf)@.len(),
            match r {
                Ok(_) => old(self).pos() + old(buf)@.len() <= old(self).bytes().len()
                    && final(buf)@ == old(self).bytes().subrange(old(self).pos() as int, (old(self).pos() + old(buf)@.len()) as int)
                    && final(self).pos() == old(self).pos() + old(buf)@.len(),
                Err(e) => e is IO,
            };
}
pub trait Seek: Read {
    fn seek(&mut self, pos: SeekFrom) -> (r: Result<u64, ChunkCacheError>)
        ensures
            final(self).bytes() == old(self).bytes(),
            match r {
                Ok(_) => (pos matches SeekFrom::Start(p) ==> final(self).pos() == p),
                Err(e) => e is IO,
            };
}
// stub of utils::serialization_utils::read_u32 (read_exact of 4 bytes + u32::from_le_bytes)
#[verifier::external_body]
fn read_u32<R: Read>(reader: &mut R) -> (r: Result<u32, ChunkCacheError>)
    ensures
        final(reader).bytes() == old(reader).bytes(),
        match r {
            Ok(v) => old(reader).pos() + 4 <= old(reader).bytes().len()
                && v == le32(old(reader).bytes().subrange(old(reader).pos() as int, old(reader).pos() + 4 as int))
                && final(reader).pos() == old(reader).pos() + 4,
            Err(e) => e is IO,
        },
{ unimplemented!() }

pub assume_specification<T, A: std::alloc::Allocator + Clone> [<Arc<[T], A> as From<Vec<T, A>>>::from] (v: Vec<T, A>) -> (r: Arc<[T], A>)
    ensures r@ == v@;

//@ extract cas_types/src/lib.rs struct Range
//@ end
impl<Idx: Copy> Copy for Range<Idx> {}
impl<Idx: Copy> Clone for Range<Idx> {
    #[verifier::external_body]
    fn clone(&self) -> (r: Self) ensures r == *self { unimplemented!() }
}
//@ extract cas_types/src/lib.rs type ChunkRange
//@ end
//@ extract chunk_cache/src/disk/cache_item.rs struct CacheItem
//@ end
impl Clone for CacheItem {
    #[verifier::external_body]
    fn clone(&self) -> (r: Self) ensures r == *self { unimplemented!() }
}
//@ extract chunk_cache/src/lib.rs struct CacheRange
//@ end
//@ extract chunk_cache/src/disk/cache_file_header.rs struct CacheFileHeader
//@ end

// ---- specification ---------------------------------------------------------------------------------------------------
// chunk byte indices of a well-formed header: strictly increasing, starting at 0
spec fn strictly_inc(s: Seq<u32>) -> bool { forall|i: int| 1 <= i < s.len() ==> s[i - 1] < #[trigger] s[i] }
spec fn hdr_ok(s: Seq<u32>) -> bool { strictly_inc(s) && (s.len() > 0 ==> s[0] == 0) }
proof fn lemma_inc_le(s: Seq<u32>, a: int, b: int)
    requires strictly_inc(s), 0 <= a <= b < s.len()
    ensures s[a] <= s[b], a < b ==> s[a] < s[b]
    decreases b - a
{ if a < b { lemma_inc_le(s, a, b - 1); } }
spec fn hdr_len(n: int) -> int { (n + 1) * 4 }

impl CacheFileHeader {
    // R12 generic narrowing: `new<T: Into<Vec<u32>>>` at the instantiation used (`T = Vec<u32>`, `into` is the identity)
    fn new(chunk_byte_indices: Vec<u32>) -> (r: Self) ensures r.chunk_byte_indices == chunk_byte_indices { Self { chunk_byte_indices } }

//@ extract chunk_cache/src/disk/cache_file_header.rs in `impl CacheFileHeader` fn header_len
//@ ret r
//@ contract
        requires self.chunk_byte_indices@.len() < 0x1000_0000_0000_0000,
        ensures r == hdr_len(self.chunk_byte_indices@.len() as int),
//@ end

//@ extract chunk_cache/src/disk/cache_file_header.rs in `impl CacheFileHeader` fn deserialize
//@ ret r
//@ rules cacheacct.R18
//@ subst `std::io::SeekFrom::Start(0)` => `SeekFrom::Start(0)` :: R11 stub type path
//@ contract
        ensures
            final(reader).bytes() == old(reader).bytes(),
            match r {
                Ok(h) => {
                    let b = old(reader).bytes(); let n = h.chunk_byte_indices@.len() as int;
                    /*@C12*/ &&& hdr_ok(h.chunk_byte_indices@)
                    &&& hdr_len(n) <= b.len()
                    &&& n == le32(b.subrange(0, 4))
                    &&& forall|i: int| 0 <= i < n ==> h.chunk_byte_indices@[i] == le32(#[trigger] b.subrange(4 + 4 * i, 8 + 4 * i))
                    &&& final(reader).pos() == hdr_len(n)
                },
                Err(_) => true,
            },
//@ loop 1
            invariant
                reader.bytes() == old(reader).bytes(),
                chunk_byte_indices@.len() == i,
                hdr_ok(chunk_byte_indices@),
                reader.pos() == 4 + 4 * i,
                reader.pos() <= reader.bytes().len(),
                chunk_byte_indices_len == le32(reader.bytes().subrange(0, 4)),
                forall|j: int| 0 <= j < i ==> chunk_byte_indices@[j] == le32(#[trigger] reader.bytes().subrange(4 + 4 * j, 8 + 4 * j)),
//@ end
}

//@ extract chunk_cache/src/disk.rs fn strictly_increasing
//@ ret r
//@ rules cacheacct.R18
//@ contract
    ensures /*@C12*/ r == strictly_inc(chunk_byte_indices@),
//@ loop 1
        invariant forall|j: int| 1 <= j < 1 + vx_it1.index@ ==> chunk_byte_indices@[j - 1] < #[trigger] chunk_byte_indices@[j],
//@ end

// what a hit must return for `range` out of an item that starts at chunk `start`, whose file is `b`
spec fn covered(idx: Seq<u32>, range: ChunkRange, start: u32) -> bool { range.end - start < idx.len() }

//@ extract chunk_cache/src/disk.rs fn get_range_from_cache_file
//@ ret r
//@ rules umerkle.R4d cacheacct.R18
//@ contract
    requires
        hdr_ok(header.chunk_byte_indices@), header.chunk_byte_indices@.len() <= u32::MAX,    // deserialize reads the count as u32
        start <= range.start < range.end,      // find_match only returns items with item.start <= range.start
    ensures
        final(file_contents).bytes() == old(file_contents).bytes(),
        /*@C12*/ !covered(header.chunk_byte_indices@, *range, start) <==> r matches Err(ChunkCacheError::BadRange),
        /*@C12*/ match r {
            Ok(cr) => {
                let idx = header.chunk_byte_indices@; let b = old(file_contents).bytes();
                let s = (range.start - start) as int; let e = (range.end - start) as int;
                let hl = hdr_len(idx.len() as int);
                &&& covered(idx, *range, start)
                &&& hl + idx[e] <= b.len()
                &&& cr.data@ == b.subrange(hl + idx[s], hl + idx[e])
                &&& cr.offsets@.len() == range.end - range.start + 1
                &&& forall|k: int| 0 <= k <= e - s ==> #[trigger] cr.offsets@[k] == idx[s + k] - idx[s]
                &&& cr.range == *range
            },
            Err(_) => true,
        },
//@ before `file_contents.seek(`
    proof { lemma_inc_le(header.chunk_byte_indices@, start_idx as int, end_idx as int); }
//@ loop 1
        invariant
            start_idx < end_idx < header.chunk_byte_indices@.len(), hdr_ok(header.chunk_byte_indices@),
            vx_it1.seq().len() == end_idx - start_idx + 1,
            vx_v@.len() == vx_it1.index@,
            forall|k: int| 0 <= k < vx_v@.len() ==> #[trigger] vx_v@[k] == header.chunk_byte_indices@[start_idx + k] - header.chunk_byte_indices@[start_idx as int],
//@ before `vx_v.push(`
        proof { lemma_inc_le(header.chunk_byte_indices@, start_idx as int, start_idx + vx_i); }
//@ end

spec fn covers(item: CacheItem, range: ChunkRange) -> bool { item.range.start <= range.start && range.end <= item.range.end }

//@ extract chunk_cache/src/disk.rs in `impl DiskCache` region find_match
//@ from `for item in items.iter()`
//@ to `Ok(None)` #2
//@ sig `fn find_match_scan(items: &Vec<CacheItem>, range: &ChunkRange) -> (r: Result<Option<CacheItem>, ChunkCacheError>)`
//@ rules cacheacct.R18
//@ contract
    ensures
        /*@C12*/ match r {
            Ok(Some(it)) => covers(it, *range) && items@.contains(it),
            Ok(None) => forall|j: int| 0 <= j < items@.len() ==> !covers(#[trigger] items@[j], *range),
            Err(_) => false,
        },
//@ loop 1
        invariant
            vx_it1.seq().len() == items@.len(),
            forall|j: int| 0 <= j < items@.len() ==> *(#[trigger] vx_it1.seq()[j]) == items@[j],
            forall|j: int| 0 <= j < vx_it1.index@ ==> !covers(#[trigger] items@[j], *range),
//@ end

// `validate_match`'s comparison loop is under contract in U-CACHEVALIDATE, together with the check (f3ea644) that establishes
// "the stored header has one index per chunk boundary of the item's named range" — formerly an assumption of this unit.

} // verus!
fn main() {}
