//@ unit U-HASHEDWRITE
//@ props C06
//@ verus-args --rlimit 50
#![allow(non_snake_case, unused)]
use vstd::prelude::*;
verus! {
global size_of usize == 8;

// ===== merklehash::HashedWrite: "the streaming hasher equals the one-shot hash" (C06) ==================================================
// blake3's incremental hasher and the inner writer are stubs with a ghost byte history.  std::io::Write::write may accept fewer
// bytes than offered (a short write); write_all then offers the rest again.  The obligation, from the property: the bytes fed to the
// hasher are always exactly the bytes that reached the inner writer, so hash() is the one-shot hash of what was written.

pub struct DataHash(pub [u64; 4]);
pub uninterp spec fn spec_data_hash(s: Seq<u8>) -> DataHash;       // one-shot keyed blake3 of a byte string (compute_data_hash)

// R11 stub of blake3::Hasher keyed with DATA_KEY: incremental hashing is the one-shot hash of the concatenation (assumed of blake3)
#[verifier::external_body] pub struct VxHasher { _p: u8 }
pub uninterp spec fn hasher_fed(h: &VxHasher) -> Seq<u8>;
pub struct VxDigest { pub h: DataHash }
impl VxHasher {
    #[verifier::external_body] fn new_keyed_data() -> (r: VxHasher) ensures hasher_fed(&r) == Seq::<u8>::empty() { unimplemented!() }
    #[verifier::external_body] fn update(&mut self, input: &[u8]) ensures hasher_fed(final(self)) == hasher_fed(old(self)) + input@ { unimplemented!() }
    #[verifier::external_body] fn finalize(&self) -> (r: VxDigest) ensures r.h == spec_data_hash(hasher_fed(self)) { unimplemented!() }
}
impl VxDigest { #[verifier::external_body] fn as_bytes(&self) -> (r: &DataHash) ensures *r == self.h { unimplemented!() } }
impl DataHash { #[verifier::external_body] fn from(b: &DataHash) -> (r: DataHash) ensures r == *b { unimplemented!() } }

// R11 stub of std::io::Write for the inner writer: a call accepts SOME prefix of the buffer (possibly short), or fails
pub struct IoError { pub x: u8 }
pub trait VxWrite: Sized {
    spec fn written(&self) -> Seq<u8>;
    fn write(&mut self, buf: &[u8]) -> (r: Result<usize, IoError>)
        ensures match r {
            Ok(n) => n <= buf@.len() && final(self).written() == old(self).written() + buf@.subrange(0, n as int),
            Err(_) => final(self).written() == old(self).written(),
        };
    fn flush(&mut self) -> (r: Result<(), IoError>) ensures final(self).written() == old(self).written();
}

//@ extract merklehash/src/data_hash.rs struct HashedWrite
//@ subst `blake3::Hasher` => `VxHasher` :: R11 stub type for the blake3 dependency
//@ subst `W: Write` => `W: VxWrite` :: R11 stub trait for std::io::Write
//@ end

impl<W: VxWrite> HashedWrite<W> {
    // the invariant the property asks for: what was hashed is what was written
    spec fn wf(&self) -> bool { hasher_fed(&self.hasher) == self.writer.written() }

//@ extract merklehash/src/data_hash.rs in `impl<W: Write> HashedWrite<W>` fn new
//@ ret r
//@ subst `blake3::Hasher::new_keyed(&DATA_KEY)` => `VxHasher::new_keyed_data()` :: R11 stub constructor (keyed blake3 with the data key)
//@ contract
        requires writer.written() == Seq::<u8>::empty(),
        ensures /*@C06*/ r.wf(), r.writer == writer,
//@ end

//@ extract merklehash/src/data_hash.rs in `impl<W: Write> HashedWrite<W>` fn hash
//@ ret r
//@ contract
        requires self.wf(),
        // C06: the streaming hash is the one-shot hash of exactly the bytes that reached the inner writer
        ensures /*@C06*/ r == spec_data_hash(self.writer.written()),
//@ end

//@ extract merklehash/src/data_hash.rs in `impl<W: Write> HashedWrite<W>` fn into_inner
//@ ret r
//@ contract
        ensures r == self.writer,
//@ end

// the two methods of `impl<W: Write> Write for HashedWrite<W>`
//@ extract merklehash/src/data_hash.rs in `impl<W: Write> Write for HashedWrite<W>` fn write
//@ ret r
//@ subst `std::io::Result<usize>` => `Result<usize, IoError>` :: R11 stub error type
//@ contract
        requires old(self).wf(),
        ensures
            /*@C06*/ final(self).wf(),
            match r {
                Ok(n) => n <= buf@.len() && final(self).writer.written() == old(self).writer.written() + buf@.subrange(0, n as int),
                Err(_) => final(self).writer.written() == old(self).writer.written(),
            },
//@ end

//@ extract merklehash/src/data_hash.rs in `impl<W: Write> Write for HashedWrite<W>` fn flush
//@ ret r
//@ subst `std::io::Result<()>` => `Result<(), IoError>` :: R11 stub error type
//@ contract
        requires old(self).wf(),
        ensures /*@C06*/ final(self).wf(), final(self).writer.written() == old(self).writer.written(),
//@ end
}

} // verus!
fn main() {}
