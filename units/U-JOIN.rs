//@ unit U-JOIN
//@ props C16 C14
//@ verus-args --rlimit 100 --triggers-mode silent
//@ config MDB_SHARD_MIN_TARGET_SIZE MDB_SHARD_LOCAL_CACHE_EXPIRATION_SECS
//@ gsubst `dyn Client + Send + Sync` => `VxClient` :: R11 stub type for the cas_client trait object (never called by the functions under proof)
//@ gsubst `dyn ProgressUpdater` => `VxProgressUpdater` :: R11 stub type for the progress trait object (never called by the functions under proof)
#![feature(allocator_api)]
#![allow(non_snake_case, unused)]
use vstd::prelude::*;
use vstd::multiset::*;
use std::sync::Arc;
use std::mem::take;
verus! {
global size_of usize == 8;

// =====================================================================================================================
// R11 stubs for tokio (same paths as in the code): JoinSet with a ghost multiset of the *outcomes of the pending tasks*
// (prophecy values: what each task will return when it is joined).  `join_next` hands back an ARBITRARY member, so a proof
// holds for every completion order; `try_join_next` may in addition answer `None` at any time.
// =====================================================================================================================
pub mod tokio {
    pub mod task {
        use vstd::prelude::*;
        use vstd::multiset::*;
        #[verifier::external_body]
        pub struct JoinError { _p: () }

        /// opaque future produced by R16 from an `async move { .. }` block; `outcome()` = what joining it will yield
        #[verifier::external_body]
        #[verifier::accept_recursive_types(T)]
        pub struct VxFuture<T> { _p: std::marker::PhantomData<T> }
        impl<T> VxFuture<T> {
            pub uninterp spec fn outcome(&self) -> Result<T, JoinError>;
            /// prophecy: total this task adds to a shared byte counter it captured (0 if it captured none)
            pub uninterp spec fn rep_c(&self) -> int;
            /// prophecy: bytes this task reports through its return value (0 when the value carries no count)
            pub uninterp spec fn rep_v(&self) -> int;
            /// prophecy: total bytes this task hands to the store (sum of the lengths it passes to accepted uploads)
            pub uninterp spec fn handed(&self) -> int;
            pub open spec fn rec(&self) -> TaskRec<T> { TaskRec { outcome: self.outcome(), rep_v: self.rep_v(), rep_c: self.rep_c(), handed: self.handed() } }
        }
        /// ghost record of one task: its outcome and its two byte quantities
        pub struct TaskRec<T> { pub outcome: Result<T, JoinError>, pub rep_v: int, pub rep_c: int, pub handed: int }

        #[verifier::external_body]
        #[verifier::accept_recursive_types(T)]
        pub struct JoinSet<T> { _p: std::marker::PhantomData<T> }
        impl<T> View for JoinSet<T> {
            type V = Multiset<Result<T, JoinError>>;
            uninterp spec fn view(&self) -> Multiset<Result<T, JoinError>>;
        }
        impl<T> JoinSet<T> {
            /// the pending tasks as records (parallel to `@`, which holds only their outcomes)
            pub uninterp spec fn recs(&self) -> Multiset<TaskRec<T>>;
            /// record of the task most recently handed back by join_next / try_join_next
            pub uninterp spec fn last(&self) -> TaskRec<T>;
            /// history sums over every task joined from this set since it was created
            pub uninterp spec fn joined_v(&self) -> int;
            pub uninterp spec fn joined_c(&self) -> int;
            pub uninterp spec fn joined_h(&self) -> int;
            /// STATED DOMAIN ASSUMPTION (byte-sum bound): the bytes reported by the tasks joined from one set — through their
            /// return values and through a shared counter together — are non-negative and stay below 2^62.  Both a shared
            /// atomic's and a local accumulator's freedom from overflow follow from it.
            pub open spec fn ledger_bounded(&self) -> bool {
                0 <= self.joined_v() && 0 <= self.joined_c() && self.joined_v() + self.joined_c() <= crate::counter_bound()
            }
            pub open spec fn joined_step(old_s: &Self, new_s: &Self, x: Result<T, JoinError>) -> bool {
                &&& old_s.recs().contains(new_s.last()) && new_s.last().outcome == x
                &&& new_s.recs() == old_s.recs().remove(new_s.last())
                &&& new_s.joined_v() == old_s.joined_v() + new_s.last().rep_v
                &&& new_s.joined_c() == old_s.joined_c() + new_s.last().rep_c
                &&& new_s.ledger_bounded()
                &&& new_s.joined_h() == old_s.joined_h() + new_s.last().handed
            }
            pub open spec fn unchanged_ledger(old_s: &Self, new_s: &Self) -> bool {
                new_s.recs() == old_s.recs() && new_s.joined_v() == old_s.joined_v() && new_s.joined_c() == old_s.joined_c() && new_s.joined_h() == old_s.joined_h()
            }

            #[verifier::external_body]
            pub fn new() -> (r: Self)
                ensures r@ == Multiset::<Result<T, JoinError>>::empty(), r.recs() == Multiset::<TaskRec<T>>::empty(),
                    r.joined_v() == 0, r.joined_c() == 0, r.joined_h() == 0,
            { unimplemented!() }

            #[verifier::external_body]
            pub fn spawn(&mut self, task: VxFuture<T>)
                ensures final(self)@ == old(self)@.insert(task.outcome()),
                    final(self).recs() == old(self).recs().insert(task.rec()),
                    final(self).joined_v() == old(self).joined_v(),
                    final(self).joined_c() == old(self).joined_c(), final(self).joined_h() == old(self).joined_h(),
            { unimplemented!() }

            /// tokio: "Returns None if the set is empty"; otherwise waits for *some* task
            #[verifier::external_body]
            pub fn join_next(&mut self) -> (r: Option<Result<T, JoinError>>)
                ensures match r {
                    None => old(self)@.len() == 0 && final(self)@ == old(self)@ && Self::unchanged_ledger(old(self), final(self)),
                    Some(x) => old(self)@.contains(x) && final(self)@ == old(self)@.remove(x) && Self::joined_step(old(self), final(self), x),
                }
            { unimplemented!() }

            /// tokio: "Returns None if the set is empty or no task has completed yet"
            #[verifier::external_body]
            pub fn try_join_next(&mut self) -> (r: Option<Result<T, JoinError>>)
                ensures match r {
                    None => final(self)@ == old(self)@ && Self::unchanged_ledger(old(self), final(self)),
                    Some(x) => old(self)@.contains(x) && final(self)@ == old(self)@.remove(x) && Self::joined_step(old(self), final(self), x),
                }
            { unimplemented!() }
        }
        impl<T> Default for JoinSet<T> {
            #[verifier::external_body]
            fn default() -> (r: Self)
                ensures r@ == Multiset::<Result<T, JoinError>>::empty()
            { unimplemented!() }
        }
    }
    pub mod sync {
        use vstd::prelude::*;
        /// lock invariant of a mutex-protected value (assumed when the lock is taken)
        pub trait VxLockInv { spec fn lock_inv(&self) -> bool; }
        #[verifier::external_body]
        #[verifier::accept_recursive_types(T)]
        pub struct Mutex<T> { _p: std::marker::PhantomData<T> }
        impl<T: VxLockInv> Mutex<T> {
            /// the guard is modelled as `&mut T`; the protected value is ARBITRARY (other tasks may have changed it) up to
            /// the lock invariant
            #[verifier::external_body]
            pub fn lock(&self) -> (r: &mut T)
                ensures r.lock_inv()
            { unimplemented!() }
        }
    }
}
use tokio::task::{JoinSet, JoinError, VxFuture, TaskRec};
use tokio::sync::{Mutex, VxLockInv};

#[verifier::external_body]
pub fn vx_async_block<T>() -> VxFuture<T> { unimplemented!() }

pub assume_specification<T: std::default::Default> [std::mem::take] (x: &mut T) -> (r: T)
    ensures r == *old(x), call_ensures(T::default, (), *final(x));

pub assume_specification<T> [std::mem::drop] (_0: T);

// std specs that the unchanged code does not need; they only keep "swallowing" edits of the source decidable (exit 1, not 2)
pub assume_specification<T, E> [std::result::Result::<T, E>::unwrap_or] (r: std::result::Result<T, E>, default: T) -> (o: T)
    ensures o == (match r { Ok(v) => v, Err(_) => default });
pub assume_specification<T: std::default::Default, E> [std::result::Result::<T, E>::unwrap_or_default] (r: std::result::Result<T, E>) -> (o: T)
    ensures match r { Ok(v) => o == v, Err(_) => call_ensures(T::default, (), o) };

// ---- error types: only Err-ness matters; the conversions used by `?` are what thiserror's #[from] generates ------------
#[verifier::external_body]
pub struct DataProcessingError { _p: () }
#[verifier::external_body]
pub struct MDBShardError { _p: () }
impl From<JoinError> for DataProcessingError {
    #[verifier::external_body]
    fn from(e: JoinError) -> DataProcessingError { unimplemented!() }
}
impl From<MDBShardError> for DataProcessingError {
    #[verifier::external_body]
    fn from(e: MDBShardError) -> DataProcessingError { unimplemented!() }
}
#[verifier::external_body]
pub struct CasClientError { _p: () }
/// stands for std::io::Error (result of the outlined `std::fs::read`)
#[verifier::external_body]
pub struct VxIoError { _p: () }
impl From<CasClientError> for DataProcessingError {
    #[verifier::external_body]
    fn from(e: CasClientError) -> DataProcessingError { unimplemented!() }
}
impl From<VxIoError> for DataProcessingError {
    #[verifier::external_body]
    fn from(e: VxIoError) -> DataProcessingError { unimplemented!() }
}
pub type Result<T> = std::result::Result<T, DataProcessingError>;

// ---- the C16 vocabulary ------------------------------------------------------------------------------------------------
/// what joining a task of value type V yields (V = () in the repository; generic so that an edit of the task's value type
/// is still decided)
pub type TaskResV<V> = std::result::Result<Result<V>, JoinError>;
pub type TaskRes = TaskResV<()>;
/// a joined task reported success: neither a JoinError (panic / cancel) nor an upload error
pub open spec fn task_ok<V>(x: TaskResV<V>) -> bool { x matches Ok(Ok(_)) }
/// `now` is what is left of `before` after removing only successful results
pub open spec fn drained_ok<V>(before: Multiset<TaskResV<V>>, now: Multiset<TaskResV<V>>) -> bool {
    now.subset_of(before) && forall|x: TaskResV<V>| before.count(x) > now.count(x) ==> #[trigger] task_ok(x)
}
pub open spec fn all_ok<V>(s: Multiset<TaskResV<V>>) -> bool {
    forall|x: TaskResV<V>| s.count(x) > 0 ==> #[trigger] task_ok(x)
}
pub proof fn lemma_drained_all<V>(before: Multiset<TaskResV<V>>, now: Multiset<TaskResV<V>>)
    requires drained_ok(before, now), now.len() == 0,
    ensures all_ok(before),
{
    assert forall|x: TaskResV<V>| before.count(x) > 0 implies #[trigger] task_ok(x) by {
        if now.count(x) > 0 { assert(now.contains(x)); assert(now.len() > 0); }
    }
}

// ---- the C14 vocabulary: bytes reported == bytes handed to the store ---------------------------------------------------
/// bytes a task reports through its return value: nothing for `()`, the number itself for `usize`
pub trait VxTaskVal { spec fn val_bytes(&self) -> int; }
impl VxTaskVal for () { open spec fn val_bytes(&self) -> int { 0 } }
impl VxTaskVal for usize { open spec fn val_bytes(&self) -> int { *self as int } }
pub open spec fn outcome_val<V: VxTaskVal>(o: TaskResV<V>) -> int { match o { Ok(Ok(v)) => v.val_bytes(), _ => 0 } }
/// contract of one shard upload task, in terms of: bytes reported by its value, bytes it added to the shared counter, bytes it
/// handed to the store.  Outside dry run: handed == reported (by either channel).  Dry run: nothing is handed.
pub open spec fn shard_task_post(dry_run: bool, val: int, added: int, handed: int) -> bool {
    if dry_run { handed == 0 } else { handed == val + added }
}
pub open spec fn shard_rec_ok<V: VxTaskVal>(dry_run: bool, has_counter: bool, t: TaskRec<Result<V>>) -> bool {
    &&& !has_counter ==> t.rep_c == 0
    &&& t.outcome matches Ok(Ok(v)) ==> v.val_bytes() == t.rep_v && shard_task_post(dry_run, v.val_bytes(), t.rep_c, t.handed)
}
/// R16 + capture link for the shard task: the future built at the spawn site runs the task body (verified separately as the
/// lifted region `upload_and_register_session_shards__task` against `shard_task_post`) with the spawn site's `dry_run`, and
/// adds to a shared counter only if it captured one.  ASSUMED: that the future's prophecy quantities are those of that body.
#[verifier::external_body]
pub fn vx_shard_task<V: VxTaskVal>(dry_run: Ghost<bool>, has_counter: Ghost<bool>) -> (f: VxFuture<Result<V>>)
    ensures shard_rec_ok(dry_run@, has_counter@, f.rec())
{ unimplemented!() }

/// whatever the enclosing function uses to arrive at the byte total it reports
pub trait VxByteCounter {
    /// a shared counter the tasks add to (true) or a plain local / nothing (false)
    spec fn vx_is_shared(&self) -> bool;
    /// bytes accumulated so far in a plain local integer (0 for a shared counter)
    spec fn vx_local_value(&self) -> int;
    spec fn vx_init_value(&self) -> int;
    /// every task that can add to the counter has finished
    spec fn vx_quiescent(&self) -> bool;
    /// the value the counter holds once quiescent
    spec fn vx_final_value(&self) -> int;
}
impl VxByteCounter for Arc<AtomicUsize> {
    open spec fn vx_is_shared(&self) -> bool { true }
    open spec fn vx_local_value(&self) -> int { 0 }
    open spec fn vx_init_value(&self) -> int { (**self).vx_init() as int }
    open spec fn vx_quiescent(&self) -> bool { (**self).vx_quiescent() }
    open spec fn vx_final_value(&self) -> int { (**self).vx_final() as int }
}
impl VxByteCounter for usize {
    open spec fn vx_is_shared(&self) -> bool { false }
    open spec fn vx_local_value(&self) -> int { *self as int }
    open spec fn vx_init_value(&self) -> int { 0 }
    open spec fn vx_quiescent(&self) -> bool { true }
    open spec fn vx_final_value(&self) -> int { *self as int }
}
/// placeholder for "no byte counter in scope yet"
pub struct VxNoCounter { _p: () }
impl VxByteCounter for VxNoCounter {
    open spec fn vx_is_shared(&self) -> bool { false }
    open spec fn vx_local_value(&self) -> int { 0 }
    open spec fn vx_init_value(&self) -> int { 0 }
    open spec fn vx_quiescent(&self) -> bool { true }
    open spec fn vx_final_value(&self) -> int { 0 }
}
/// ASSUMED ghost-sum invariant of the shared atomic counter: its only writers are the tasks of `js` (the Arc clones are moved
/// into them and nowhere else), each adds exactly its `rep_c` in total, so once `js` is empty the counter is quiescent and
/// holds  initial value + sum of rep_c over the joined tasks.
#[verifier::external_body]
pub proof fn vx_counter_quiescent<C: VxByteCounter, T>(c: &C, js: &JoinSet<T>)
    requires /*@C14*/ js@.len() == 0,
    ensures c.vx_is_shared() ==> c.vx_quiescent() && c.vx_final_value() == c.vx_init_value() + js.joined_c(),
{}

// ---- ghost event markers ----------------------------------------------------------------------------------------------
// Uninterpreted predicates that occur nowhere but here: the two introduction lemmas are the only way to obtain them, and each
// demands the drained-and-all-Ok fact at the place it is called.  (They are conservative: reading both markers as `true`
// satisfies the lemmas, so they add no logical strength; they only carry "this point was passed" into contracts.)
impl SessionShardInterface {
    /// the session's xorb upload task set has been taken, fully drained, and every drained result was Ok(Ok(_))
    pub uninterp spec fn vx_xorbs_drained(&self) -> bool;
    /// this interface's shard upload task set has been fully drained and every drained result was Ok(Ok(_))
    pub uninterp spec fn vx_shards_stored(&self) -> bool;
    /// a call of upload_and_register_session_shards joined all its tasks, and they handed `n` bytes in total to upload_shard
    pub uninterp spec fn vx_shard_bytes_handed(&self, n: int) -> bool;
}
#[verifier::external_body]
proof fn vx_mark_shard_bytes<T>(si: &SessionShardInterface, js: &JoinSet<T>, n: int)
    requires /*@C14*/ js@.len() == 0, /*@C14*/ n == js.joined_h(),
    ensures si.vx_shard_bytes_handed(n),
{}
#[verifier::external_body]
proof fn vx_mark_xorbs_drained<V>(si: &SessionShardInterface, taken: Multiset<TaskResV<V>>, now: Multiset<TaskResV<V>>)
    requires /*@C16,C01,C02*/ now.len() == 0, /*@C16,C01,C02*/ drained_ok(taken, now),
    ensures si.vx_xorbs_drained(), all_ok(taken),
{}
#[verifier::external_body]
proof fn vx_mark_shards_stored<V>(si: &SessionShardInterface, spawned: Multiset<TaskResV<V>>, now: Multiset<TaskResV<V>>)
    requires /*@C16,C01,C02*/ now.len() == 0, /*@C16,C01,C02*/ drained_ok(spawned, now),
    ensures si.vx_shards_stored(), all_ok(spawned),
{}

// ---- store capabilities (task bodies) -------------------------------------------------------------------------------------
// Uninterpreted predicates used as capabilities: ONLY a successful `upload_shard` / `put` of the client stub establishes them,
// and the calls that make a shard visible to later sessions (export into the cache directory, `register_shards`) require
// them.  (Conservative for the same reason as the markers: reading them as `true` satisfies every assumed contract.)
pub struct MerkleHash(pub [u64; 4]);
/// the shard with this hash has been accepted by the store in this task
pub uninterp spec fn vx_shard_in_store(h: MerkleHash) -> bool;
/// the xorb with this hash has been accepted by the store in this task
pub uninterp spec fn vx_xorb_in_store(h: MerkleHash) -> bool;
pub struct VxClient { _p: () }
impl VxClient {
    /// cas_client::UploadClient::put
    #[verifier::external_body]
    pub fn put(&self, prefix: &str, hash: &MerkleHash, data: Vec<u8>, chunk_and_boundaries: Vec<(MerkleHash, u32)>) -> (r: std::result::Result<usize, CasClientError>)
        ensures r matches Ok(n) ==> vx_xorb_in_store(*hash) && n <= counter_bound()
    { unimplemented!() }
}
// ---- the C14 xorb ledger (added 2026-10-04 after fix d6ffad5) ---------------------------------------------------------------
/// the xorb upload task's view of the store client: ghost ledger of the byte counts `put` has RETURNED to this task.
/// (Dry-run caveat, U-XORBPUT: a dry-run client's `put` returns the full n while posting nothing; the ledger is about the returned
/// n, which is what the session reports - outside dry run it is the number of bytes handed to the store.)
#[verifier::external_body]
pub struct VxXorbTaskClient { _p: () }
impl VxXorbTaskClient {
    pub uninterp spec fn handed(&self) -> int;
    /// cas_client::UploadClient::put (same contract as `VxClient::put`, plus the ledger)
    #[verifier::external_body]
    pub fn put(&mut self, prefix: &str, hash: &MerkleHash, data: Vec<u8>, chunk_and_boundaries: Vec<(MerkleHash, u32)>) -> (r: std::result::Result<usize, CasClientError>)
        ensures r matches Ok(n) ==> vx_xorb_in_store(*hash) && n <= counter_bound() && final(self).handed() == old(self).handed() + n,
                r is Err ==> final(self).handed() == old(self).handed(),
    { unimplemented!() }
}
/// the xorb upload task's view of the mutex-held session metrics: ghost total of what THIS task has added to `xorb_bytes_uploaded`.
/// `lock` hands out the guard as `&mut` (value found arbitrary up to the lock invariant: other tasks may have changed it); whatever
/// the task does to the field while it holds the guard is booked on its ledger (one critical section = one atomic delta).
#[verifier::external_body]
pub struct VxTaskMetrics { _p: () }
impl VxTaskMetrics {
    pub uninterp spec fn added(&self) -> int;
    #[verifier::external_body]
    fn lock(&mut self) -> (r: &mut DeduplicationMetrics)
        ensures r.lock_inv(), final(self).added() == old(self).added() + (final(r).xorb_bytes_uploaded - r.xorb_bytes_uploaded),
    { unimplemented!() }
}
impl FileUploadSession {
    /// sum, over ALL xorb upload tasks this session spawned in its life, of the byte count `put` returned to the task (0 for a task
    /// whose `put` failed)
    pub uninterp spec fn vx_xorb_bytes_handed(&self) -> int;
}
impl FileUploadSession {
    /// `self.deduplication_metrics.lock()` in `finalize_impl`, with the state of the session's xorb task set AT THE MOMENT OF THE LOCK
    /// as ghost arguments (`taken`: the set as taken out of the session, `now`: what is left of it; before the set has been taken both
    /// are arbitrary).  The guard is `&mut`; the value found is arbitrary up to the lock invariant, except:
    /// ASSUMED ghost-sum invariant of the mutex-held session metrics (the analogue of `vx_counter_quiescent` for the shard counter):
    ///  (1) the only writers of `xorb_bytes_uploaded` are the session's xorb upload tasks, and each adds, in total, exactly what `put`
    ///      returned to it - PROVED for the task body (region `register_new_xorb_for_upload__task`, `/*@C14*/` postcondition
    ///      added == handed); a task still running has added nothing yet (it adds at its very end);
    ///  (2) every task the session spawned sits in the session's task set until it is joined, and no task is spawned any more once
    ///      `finalize_impl` (which consumes the session) has taken the set.
    /// Hence a value found at a moment when the set taken from the session has been drained to empty (every result Ok) holds the sum
    /// over ALL spawned tasks.  Nothing is known about a value found while tasks may still be pending.
    #[verifier::external_body]
    fn vx_lock_metrics(&self, Ghost(taken): Ghost<Multiset<TaskRes>>, Ghost(now): Ghost<Multiset<TaskRes>>) -> (r: &mut DeduplicationMetrics)
        ensures r.lock_inv(),
            (now.len() == 0 && drained_ok(taken, now)) ==> r.xorb_bytes_uploaded as int == self.vx_xorb_bytes_handed(),
    { unimplemented!() }
}

/// the shard task's view of the store client: ghost ledger of the bytes it has handed over in accepted uploads
#[verifier::external_body]
pub struct VxTaskClient { _p: () }
impl VxTaskClient {
    pub uninterp spec fn handed(&self) -> int;
    /// cas_client::RegistrationClient::upload_shard
    #[verifier::external_body]
    pub fn upload_shard(&mut self, prefix: &str, hash: &MerkleHash, force_sync: bool, shard_data: &[u8], salt: &[u8; 32]) -> (r: std::result::Result<bool, CasClientError>)
        ensures r is Ok ==> vx_shard_in_store(*hash) && final(self).handed() == old(self).handed() + shard_data@.len(),
                r is Err ==> final(self).handed() == old(self).handed(),
    { unimplemented!() }
}
/// the shard task's view of the shared `Arc<AtomicUsize>`: ghost total of what this task has added
#[verifier::external_body]
pub struct VxTaskCounter { _p: () }
impl VxTaskCounter {
    pub uninterp spec fn added(&self) -> int;
    /// AtomicUsize::fetch_add adds exactly its argument
    #[verifier::external_body]
    pub fn fetch_add(&mut self, v: usize, o: Ordering) -> usize
        ensures final(self).added() == old(self).added() + v
    { unimplemented!() }
}
pub struct VxPathBuf { _p: () }
pub struct MDBShardFile { pub shard_hash: MerkleHash, pub path: VxPathBuf }
/// `copy` is the handle of the file `src.export_with_expiration(..)` wrote: `src`'s file up to its footer, followed by `src`'s footer
/// with ONLY the expiry re-stamped (proved of the wrapper in U-EXPORTWRAP: `restamped`).  It holds exactly `src`'s records; its
/// content hash - hence `copy.shard_hash` - differs from `src.shard_hash` in general (the footer bytes changed).
pub uninterp spec fn vx_cache_copy_of(copy: MDBShardFile, src: MDBShardFile) -> bool;
/// the shard's records are in the store: the shard itself was accepted, or it is a re-stamped local copy of an accepted shard
pub open spec fn vx_shard_backed_by_store(sf: MDBShardFile) -> bool {
    vx_shard_in_store(sf.shard_hash) || exists|src: MDBShardFile| #[trigger] vx_cache_copy_of(sf, src) && vx_shard_in_store(src.shard_hash)
}
impl MDBShardFile {
    /// writes a copy of the shard into `target_directory` (the local cache): from then on later sessions dedup against it.
    /// (corrected 2026-10-04: the clause used to read `n.shard_hash == self.shard_hash`, which is false - see U-EXPORTWRAP)
    #[verifier::external_body]
    pub fn export_with_expiration(&self, target_directory: &VxPath, shard_valid_for: Duration) -> (r: std::result::Result<Arc<MDBShardFile>, MDBShardError>)
        requires /*@C16,C01,C02*/ vx_shard_in_store(self.shard_hash),
        ensures r matches Ok(n) ==> vx_cache_copy_of(*n, *self),
    { unimplemented!() }
}
pub struct Duration { _p: () }
impl Duration { #[verifier::external_body] pub fn from_secs(s: u64) -> Duration { unimplemented!() } }
/// outline (R7) of `std::fs::read(&si.path)`
#[verifier::external_body]
pub fn vx_fs_read(p: &VxPathBuf) -> std::result::Result<Vec<u8>, VxIoError> { unimplemented!() }
pub uninterp spec fn spec_MDB_SHARD_LOCAL_CACHE_EXPIRATION_SECS() -> u64;
#[verifier::external_body] pub fn MDB_SHARD_LOCAL_CACHE_EXPIRATION_SECS() -> (r: u64) ensures r == spec_MDB_SHARD_LOCAL_CACHE_EXPIRATION_SECS() { unimplemented!() }

// ---- other dependency stubs (R11), none has a contract unless stated -----------------------------------------------
pub struct VxProgressUpdater { _p: () }
impl VxProgressUpdater { #[verifier::external_body] pub fn update(&self, increment: u64) { unimplemented!() } }
pub struct ThreadPool { _p: () }
pub struct TempDir { _p: () }
pub struct VxPath { _p: () }
pub struct MDBFileInfo { _p: () }
pub struct OwnedSemaphorePermit { _p: () }
pub type RepoSalt = [u8; 32];
pub struct ShardConfig { pub prefix: String, pub repo_salt: RepoSalt }
pub struct DataConfig { pub prefix: String }
pub struct TranslatorConfig { pub shard_config: ShardConfig, pub data_config: DataConfig }
pub struct DataAggregator { _p: () }
impl Default for DataAggregator { #[verifier::external_body] fn default() -> Self { unimplemented!() } }
impl VxLockInv for DataAggregator { open spec fn lock_inv(&self) -> bool { true } }
impl VxLockInv for JoinSet<Result<()>> { open spec fn lock_inv(&self) -> bool { true } }

// byte counters: ASSUMED to stay below 2^62 (nothing to do with C16; keeps `shard + xorb` inside usize)
pub open spec fn counter_bound() -> usize { 0x4000_0000_0000_0000 }
impl VxLockInv for DeduplicationMetrics { closed spec fn lock_inv(&self) -> bool { self.xorb_bytes_uploaded <= counter_bound() } }
impl Default for DeduplicationMetrics { #[verifier::external_body] fn default() -> Self { unimplemented!() } }
pub enum Ordering { Relaxed }
#[verifier::external_body]
pub struct AtomicUsize { _p: () }
impl AtomicUsize {
    pub uninterp spec fn vx_init(&self) -> usize;
    pub uninterp spec fn vx_quiescent(&self) -> bool;
    pub uninterp spec fn vx_final(&self) -> usize;
    #[verifier::external_body] pub fn new(v: usize) -> (r: Self) ensures r.vx_init() == v { unimplemented!() }
    /// a load is only meaningful as "the total" once every writer has finished: that is a PRECONDITION here
    #[verifier::external_body] pub fn load(&self, o: Ordering) -> (r: usize)
        requires /*@C14*/ self.vx_quiescent(),
        ensures r == self.vx_final()
    { unimplemented!() }
}

pub struct VxCounter { _p: () }
impl VxCounter { #[verifier::external_body] pub fn inc_by(&self, v: u64) { unimplemented!() } }
pub mod prometheus_metrics {
    use vstd::prelude::*;
    #[verifier::external_body] pub fn FILTER_CAS_BYTES_PRODUCED() -> super::VxCounter { unimplemented!() }
    #[verifier::external_body] pub fn FILTER_BYTES_CLEANED() -> super::VxCounter { unimplemented!() }
}

pub uninterp spec fn spec_MDB_SHARD_MIN_TARGET_SIZE() -> u64;
#[verifier::external_body] pub fn MDB_SHARD_MIN_TARGET_SIZE() -> (r: u64) ensures r == spec_MDB_SHARD_MIN_TARGET_SIZE() { unimplemented!() }

pub struct ShardFileManager { _p: () }
impl ShardFileManager {
    #[verifier::external_body] pub fn flush(&self) -> std::result::Result<Option<VxPath>, MDBShardError> { unimplemented!() }
    #[verifier::external_body] pub fn shard_directory(&self) -> &VxPath { unimplemented!() }
    /// makes the shards available for deduplication in this and (via the cache directory) later sessions
    #[verifier::external_body]
    pub fn register_shards(&self, new_shards: &[Arc<MDBShardFile>]) -> std::result::Result<(), MDBShardError>
        // "local registration of a shard follows its successful upload": what is registered is an accepted shard or the re-stamped
        // local copy of one (the copy's own hash was never uploaded - it names a different byte string)
        requires /*@C16,C01,C02*/ forall|i: int| 0 <= i < new_shards@.len() ==> vx_shard_backed_by_store(*#[trigger] new_shards@[i]),
    { unimplemented!() }
}
#[verifier::external_body]
pub fn consolidate_shards_in_directory(session_directory: &VxPath, target_max_size: u64) -> std::result::Result<Vec<Arc<MDBShardFile>>, MDBShardError> { unimplemented!() }
#[verifier::external_body]
pub fn acquire_upload_permit() -> Result<OwnedSemaphorePermit> { unimplemented!() }

//@ extract deduplication/src/dedup_metrics.rs struct DeduplicationMetrics
//@ end
//@ extract data/src/shard_interface.rs struct SessionShardInterface
//@ end
//@ extract data/src/file_upload_session.rs struct FileUploadSession
//@ end

impl SessionShardInterface {
    #[verifier::external_body]
    pub fn session_file_info_list(&self) -> Result<Vec<MDBFileInfo>> { unimplemented!() }

//@ extract data/src/shard_interface.rs in `impl SessionShardInterface` fn upload_and_register_session_shards
//@ ret ret
//@ rules R16 R17
//@ subst `vx_async_block()` => `vx_shard_task(Ghost(dry_run), Ghost(shard_bytes_uploaded.vx_is_shared()))` :: R16 capture link: the task built here captures this `dry_run` and (if one is in scope) the byte counter `shard_bytes_uploaded`; assumed contract of vx_shard_task
//@ contract
        requires
            // "This must be called after all xorbs have completed their upload" (doc comment of the function)
            /*@C16,C01,C02*/ self.vx_xorbs_drained(),
        ensures
            /*@C16,C01,C02*/ ret is Ok ==> self.vx_shards_stored(),
            // the reported figure is the number of bytes handed to upload_shard, summed over all session shards
            /*@C14*/ ret matches Ok(n) ==> self.dry_run || self.vx_shard_bytes_handed(n as int),
            ret matches Ok(n) ==> n <= counter_bound(),   // frame for the caller's byte sum (assumed counter bound), not C16
//@ body-start
        // until a byte counter is declared, `shard_bytes_uploaded` names "no counter"
        let ghost shard_bytes_uploaded: VxNoCounter = arbitrary();
//@ before `for si in`
        let ghost n_shards = shard_list@.len() as int;
        let ghost mut n_sp: int = 0;
        let ghost dry0 = self.dry_run;
        let ghost hc0 = shard_bytes_uploaded.vx_is_shared();
//@ loop 1
            invariant
                n_shards == shard_list@.len(),
                dry0 == self.dry_run, hc0 == shard_bytes_uploaded.vx_is_shared(),
                /*@C14*/ shard_uploads.joined_v() == 0 && shard_uploads.joined_c() == 0 && shard_uploads.joined_h() == 0,
                /*@C14*/ forall|t: TaskRec<_>| #[trigger] shard_uploads.recs().count(t) > 0 ==> shard_rec_ok(dry0, hc0, t),
                /*@C16,C01,C02*/ n_sp == vx_it.index@,          // one task spawned per shard taken from the list so far
                /*@C16,C01,C02*/ shard_uploads@.len() == n_sp,
//@ after `shard_uploads.spawn(vx_shard_task(Ghost(dry_run), Ghost(shard_bytes_uploaded.vx_is_shared())));`
            proof { n_sp = n_sp + 1; }
//@ before `while let Some(jh)`
        let ghost pend0 = shard_uploads@;
        // every consolidated shard has its upload task in the set that is joined below
        assert(/*@C16,C01,C02*/ pend0.len() == n_shards);
//@ loop 2
            invariant /*@C16,C01,C02*/ drained_ok(pend0, shard_uploads@),
                /*@C14*/ forall|t: TaskRec<_>| #[trigger] shard_uploads.recs().count(t) > 0 ==> shard_rec_ok(dry0, hc0, t),
                /*@C14*/ !hc0 ==> shard_uploads.joined_c() == 0,
                // bytes handed to the store by the joined tasks == bytes they reported (value channel + counter channel)
                /*@C14*/ !dry0 ==> shard_uploads.joined_h() == shard_uploads.joined_v() + shard_uploads.joined_c(),
                // whatever local the function accumulates in holds exactly the value-channel bytes of the joined tasks
                /*@C14*/ shard_uploads.joined_v() == shard_bytes_uploaded.vx_local_value(),
                shard_uploads.ledger_bounded(),
            ensures /*@C16,C01,C02*/ shard_uploads@.len() == 0,
            decreases shard_uploads@.len(),
//@ before `Ok(shard_bytes_uploaded`
        // (c) Ok is returned only with the own task set drained and every result Ok(Ok(_))
        proof { /*@C16,C01,C02*/ vx_mark_shards_stored(self, pend0, shard_uploads@); lemma_drained_all(pend0, shard_uploads@); }
        proof {
            /*@C14*/ vx_counter_quiescent(&shard_bytes_uploaded, &shard_uploads);
            /*@C14*/ vx_mark_shard_bytes(self, &shard_uploads, shard_uploads.joined_h());
        }
        assert(/*@C16,C01,C02*/ shard_uploads@.len() == 0 && all_ok(pend0));
//@ end
}

// the body of the task spawned per shard by upload_and_register_session_shards (what R16 leaves out there)
//@ extract data/src/shard_interface.rs in `impl SessionShardInterface` region upload_and_register_session_shards
//@ block `shard_uploads.spawn(async move {`
//@ sig `fn upload_and_register_session_shards__task(si: Arc<MDBShardFile>, shard_prefix: String, shard_bytes_uploaded: &mut VxTaskCounter, dry_run: bool, shard_client: &mut VxTaskClient, salt: RepoSalt, upload_permit: OwnedSemaphorePermit, cache_shard_manager: Arc<ShardFileManager>) -> (ret: Result<impl VxTaskVal>)`
//@ subst `std::fs::read(&si.path)` => `vx_fs_read(&si.path)` :: R7 outline of the file read (std::fs / PathBuf are outside Verus); result arbitrary
//@ contract
        ensures
            // the task reports success only if the shard is in the store (or nothing was made visible: dry run)
            /*@C16,C01,C02*/ ret is Ok ==> dry_run || vx_shard_in_store(si.shard_hash),
            // bytes reported (return value + added to the shared counter) == bytes handed to upload_shard
            /*@C14*/ ret matches Ok(v) ==> shard_task_post(dry_run, v.val_bytes(),
                        final(shard_bytes_uploaded).added() - old(shard_bytes_uploaded).added(),
                        final(shard_client).handed() - old(shard_client).handed()),
//@ end

// the body of the xorb upload task spawned by register_new_xorb_for_upload
//@ extract data/src/file_upload_session.rs in `impl FileUploadSession` region register_new_xorb_for_upload
//@ block `self.xorb_upload_tasks.lock().await.spawn(async move {`
//@ sig `fn register_new_xorb_for_upload__task(session: Arc<FileUploadSession>, cas_prefix: String, xorb_hash: MerkleHash, xorb_data: Vec<u8>, chunks_and_boundaries: Vec<(MerkleHash, u32)>, upload_permit: OwnedSemaphorePermit, vx_client: &mut VxXorbTaskClient, vx_metrics: &mut VxTaskMetrics) -> (ret: Result<()>)`
//@ subst `session .client .put(` => `vx_client.put(` :: explicit ghost ledger: the task's view of the store client (books the n that `put` returns); same contract as VxClient::put otherwise
//@ subst `session.deduplication_metrics.lock()` => `vx_metrics.lock()` :: explicit ghost ledger: the task's view of the mutex-held session metrics (books what the task adds to xorb_bytes_uploaded under the guard)
//@ contract
        ensures
            /*@C16,C01,C02*/ ret is Ok ==> vx_xorb_in_store(xorb_hash),
            // C14: whatever the outcome, the task has added to the session's `xorb_bytes_uploaded` exactly the byte count `put` returned
            // to it (nothing if `put` failed, nothing twice, nothing before `put` succeeded)
            /*@C14*/ final(vx_metrics).added() - old(vx_metrics).added() == final(vx_client).handed() - old(vx_client).handed(),
//@ before `vx_metrics.lock()` #1
            // bytes are counted as uploaded only after a successful put
            assert(/*@C16,C01,C02*/ vx_xorb_in_store(xorb_hash));
//@ end

impl FileUploadSession {
    #[verifier::external_body]
    fn process_aggregated_data_as_xorb(&self, data_agg: DataAggregator) -> Result<()> { unimplemented!() }

//@ extract data/src/file_upload_session.rs in `impl FileUploadSession` region register_new_xorb_for_upload
//@ from-after `let mut upload_tasks = self.xorb_upload_tasks.lock().await;`
//@ to-before `} if xorb.num_bytes() == 0`
//@ sig `fn register_new_xorb_for_upload__drain(upload_tasks: &mut JoinSet<Result<()>>) -> (ret: Result<()>)`
//@ epilogue `Ok(())`
//@ contract
        ensures
            /*@C16,C01,C02*/ final(upload_tasks)@.subset_of(old(upload_tasks)@),
            /*@C16,C01,C02*/ ret is Ok ==> drained_ok(old(upload_tasks)@, final(upload_tasks)@),
//@ loop 1
            invariant /*@C16,C01,C02*/ drained_ok(old(upload_tasks)@, upload_tasks@),
            decreases upload_tasks@.len(),
//@ end

//@ extract data/src/file_upload_session.rs in `impl FileUploadSession` fn finalize_impl
//@ ret ret
//@ prefix
#[verifier::exec_allows_no_decreases_clause]
//@ subst `assert((Arc::strong_count(&self)) == (1));` => `` :: debug-only assertion about the Arc reference count: no ghost state for Arc counts in the technique, not part of C16; dropped and listed as not covered
//@ subst `prometheus_metrics::FILTER_CAS_BYTES_PRODUCED.inc_by` => `prometheus_metrics::FILTER_CAS_BYTES_PRODUCED().inc_by` :: R6/R11 global prometheus counter (lazy_static) -> stub accessor
//@ subst `prometheus_metrics::FILTER_BYTES_CLEANED.inc_by` => `prometheus_metrics::FILTER_BYTES_CLEANED().inc_by` :: R6/R11 global prometheus counter (lazy_static) -> stub accessor
//@ subst `self.deduplication_metrics.lock()` => `self.vx_lock_metrics(Ghost(pend0), Ghost(upload_tasks@))` :: explicit ghost ledger (C14): the lock of the session metrics gets the state of the session's xorb task set at the moment of the lock as ghost arguments; assumed contract of vx_lock_metrics (what is found when that set is drained)
//@ contract
        ensures
            /*@C16,C01,C02*/ ret is Ok ==> self.shard_interface.vx_xorbs_drained() && self.shard_interface.vx_shards_stored(),
            // the shard figure of the returned metrics is what upload_and_register_session_shards handed to the store
            /*@C14*/ ret matches Ok((m, _)) ==> self.shard_interface.dry_run || self.shard_interface.vx_shard_bytes_handed(m.shard_bytes_uploaded as int),
            /*@C14*/ ret matches Ok((m, _)) ==> m.total_bytes_uploaded == m.shard_bytes_uploaded + m.xorb_bytes_uploaded,
            // the xorb figure of the returned metrics is the sum of the byte counts `put` returned to ALL the session's upload tasks
            // (outside dry run: what was handed to the store) - none of them is lost by reading the metrics too early
            /*@C14*/ ret matches Ok((m, _)) ==> m.xorb_bytes_uploaded as int == self.vx_xorb_bytes_handed(),
//@ body-start
        // Until the session's task set has been taken out of the mutex its contents are unknown: `upload_tasks` names an
        // arbitrary set here, shadowed by the real one at the `take`.
        let ghost upload_tasks: JoinSet<Result<()>> = arbitrary();
        let ghost mut pend0: Multiset<TaskRes> = arbitrary();
//@ after `let mut upload_tasks = take(&mut *self.xorb_upload_tasks.lock());`
        proof { pend0 = upload_tasks@; }
//@ loop 1
            invariant /*@C16,C01,C02,C14*/ drained_ok(pend0, upload_tasks@),
            ensures /*@C16,C01,C02,C14*/ upload_tasks@.len() == 0,
            decreases upload_tasks@.len(),
//@ before `metrics.shard_bytes_uploaded =`
        // (b) shards are handed to the store only with the xorb task set fully drained and every drained result Ok(Ok(_))
        assert(/*@C16,C01,C02*/ upload_tasks@.len() == 0);
        assert(/*@C16,C01,C02*/ drained_ok(pend0, upload_tasks@));
        proof { /*@C16,C01,C02*/ vx_mark_xorbs_drained(&self.shard_interface, pend0, upload_tasks@); lemma_drained_all(pend0, upload_tasks@); }
        assert(/*@C16,C01,C02*/ all_ok(pend0));
//@ before `Ok((metrics, all_file_info))`
        // (a) Ok is returned only if every result removed from the set was Ok(Ok(_)), and nothing is left in it
        assert(/*@C16,C01,C02*/ upload_tasks@.len() == 0 && drained_ok(pend0, upload_tasks@));
//@ end
}

} // verus!
fn main() {}
