//@ unit U-JOIN
//@ props C16
//@ verus-args --rlimit 100 --triggers-mode silent
//@ config MDB_SHARD_MIN_TARGET_SIZE MDB_SHARD_LOCAL_CACHE_EXPIRATION_SECS
//@ gsubst `dyn Client + Send + Sync` => `VxClient` :: R11 stub type for the cas_client trait object (never called by the functions under proof)
//@ gsubst `dyn ProgressUpdater` => `VxProgressUpdater` :: R11 stub type for the progress trait object (never called by the functions under proof)
#![feature(allocator_api)]
#![allow(non_snake_case, unused)]
use vstd::prelude::*;
use vstd::multiset::*;
use std::sync::Arc;
use std::mem::take;
verus! {
global size_of usize == 8;

// =====================================================================================================================
// R11 stubs for tokio (same paths as in the code): JoinSet with a ghost multiset of the *outcomes of the pending tasks*
// (prophecy values: what each task will return when it is joined).  `join_next` hands back an ARBITRARY member, so a proof
// holds for every completion order; `try_join_next` may in addition answer `None` at any time.
// =====================================================================================================================
pub mod tokio {
    pub mod task {
        use vstd::prelude::*;
        use vstd::multiset::*;
        #[verifier::external_body]
        pub struct JoinError { _p: () }

        /// opaque future produced by R16 from an `async move { .. }` block; `outcome()` = what joining it will yield
        #[verifier::external_body]
        #[verifier::accept_recursive_types(T)]
        pub struct VxFuture<T> { _p: std::marker::PhantomData<T> }
        impl<T> VxFuture<T> {
            pub uninterp spec fn outcome(&self) -> Result<T, JoinError>;
        }

        #[verifier::external_body]
        #[verifier::accept_recursive_types(T)]
        pub struct JoinSet<T> { _p: std::marker::PhantomData<T> }
        impl<T> View for JoinSet<T> {
            type V = Multiset<Result<T, JoinError>>;
            uninterp spec fn view(&self) -> Multiset<Result<T, JoinError>>;
        }
        impl<T> JoinSet<T> {
            #[verifier::external_body]
            pub fn new() -> (r: Self)
                ensures r@ == Multiset::<Result<T, JoinError>>::empty()
            { unimplemented!() }

            #[verifier::external_body]
            pub fn spawn(&mut self, task: VxFuture<T>)
                ensures final(self)@ == old(self)@.insert(task.outcome())
            { unimplemented!() }

            /// tokio: "Returns None if the set is empty"; otherwise waits for *some* task
            #[verifier::external_body]
            pub fn join_next(&mut self) -> (r: Option<Result<T, JoinError>>)
                ensures match r {
                    None => old(self)@.len() == 0 && final(self)@ == old(self)@,
                    Some(x) => old(self)@.contains(x) && final(self)@ == old(self)@.remove(x),
                }
            { unimplemented!() }

            /// tokio: "Returns None if the set is empty or no task has completed yet"
            #[verifier::external_body]
            pub fn try_join_next(&mut self) -> (r: Option<Result<T, JoinError>>)
                ensures match r {
                    None => final(self)@ == old(self)@,
                    Some(x) => old(self)@.contains(x) && final(self)@ == old(self)@.remove(x),
                }
            { unimplemented!() }
        }
        impl<T> Default for JoinSet<T> {
            #[verifier::external_body]
            fn default() -> (r: Self)
                ensures r@ == Multiset::<Result<T, JoinError>>::empty()
            { unimplemented!() }
        }
    }
    pub mod sync {
        use vstd::prelude::*;
        /// lock invariant of a mutex-protected value (assumed when the lock is taken)
        pub trait VxLockInv { spec fn lock_inv(&self) -> bool; }
        #[verifier::external_body]
        #[verifier::accept_recursive_types(T)]
        pub struct Mutex<T> { _p: std::marker::PhantomData<T> }
        impl<T: VxLockInv> Mutex<T> {
            /// the guard is modelled as `&mut T`; the protected value is ARBITRARY (other tasks may have changed it) up to
            /// the lock invariant
            #[verifier::external_body]
            pub fn lock(&self) -> (r: &mut T)
                ensures r.lock_inv()
            { unimplemented!() }
        }
    }
}
use tokio::task::{JoinSet, JoinError, VxFuture};
use tokio::sync::{Mutex, VxLockInv};

#[verifier::external_body]
pub fn vx_async_block<T>() -> VxFuture<T> { unimplemented!() }

pub assume_specification<T: std::default::Default> [std::mem::take] (x: &mut T) -> (r: T)
    ensures r == *old(x), call_ensures(T::default, (), *final(x));

pub assume_specification<T> [std::mem::drop] (_0: T);

// std specs that the unchanged code does not need; they only keep "swallowing" edits of the source decidable (exit 1, not 2)
pub assume_specification<T, E> [std::result::Result::<T, E>::unwrap_or] (r: std::result::Result<T, E>, default: T) -> (o: T)
    ensures o == (match r { Ok(v) => v, Err(_) => default });
pub assume_specification<T: std::default::Default, E> [std::result::Result::<T, E>::unwrap_or_default] (r: std::result::Result<T, E>) -> (o: T)
    ensures match r { Ok(v) => o == v, Err(_) => call_ensures(T::default, (), o) };

// ---- error types: only Err-ness matters; the conversions used by `?` are what thiserror's #[from] generates ------------
#[verifier::external_body]
pub struct DataProcessingError { _p: () }
#[verifier::external_body]
pub struct MDBShardError { _p: () }
impl From<JoinError> for DataProcessingError {
    #[verifier::external_body]
    fn from(e: JoinError) -> DataProcessingError { unimplemented!() }
}
impl From<MDBShardError> for DataProcessingError {
    #[verifier::external_body]
    fn from(e: MDBShardError) -> DataProcessingError { unimplemented!() }
}
#[verifier::external_body]
pub struct CasClientError { _p: () }
/// stands for std::io::Error (result of the outlined `std::fs::read`)
#[verifier::external_body]
pub struct VxIoError { _p: () }
impl From<CasClientError> for DataProcessingError {
    #[verifier::external_body]
    fn from(e: CasClientError) -> DataProcessingError { unimplemented!() }
}
impl From<VxIoError> for DataProcessingError {
    #[verifier::external_body]
    fn from(e: VxIoError) -> DataProcessingError { unimplemented!() }
}
pub type Result<T> = std::result::Result<T, DataProcessingError>;

// ---- the C16 vocabulary ------------------------------------------------------------------------------------------------
pub type TaskRes = std::result::Result<Result<()>, JoinError>;
/// a joined task reported success: neither a JoinError (panic / cancel) nor an upload error
pub open spec fn task_ok(x: TaskRes) -> bool { x matches Ok(Ok(_)) }
/// `now` is what is left of `before` after removing only successful results
pub open spec fn drained_ok(before: Multiset<TaskRes>, now: Multiset<TaskRes>) -> bool {
    now.subset_of(before) && forall|x: TaskRes| before.count(x) > now.count(x) ==> #[trigger] task_ok(x)
}
pub open spec fn all_ok(s: Multiset<TaskRes>) -> bool {
    forall|x: TaskRes| s.count(x) > 0 ==> #[trigger] task_ok(x)
}
pub proof fn lemma_drained_all(before: Multiset<TaskRes>, now: Multiset<TaskRes>)
    requires drained_ok(before, now), now.len() == 0,
    ensures all_ok(before),
{
    assert forall|x: TaskRes| before.count(x) > 0 implies #[trigger] task_ok(x) by {
        if now.count(x) > 0 { assert(now.contains(x)); assert(now.len() > 0); }
    }
}

// ---- ghost event markers ----------------------------------------------------------------------------------------------
// Uninterpreted predicates that occur nowhere but here: the two introduction lemmas are the only way to obtain them, and each
// demands the drained-and-all-Ok fact at the place it is called.  (They are conservative: reading both markers as `true`
// satisfies the lemmas, so they add no logical strength; they only carry "this point was passed" into contracts.)
impl SessionShardInterface {
    /// the session's xorb upload task set has been taken, fully drained, and every drained result was Ok(Ok(_))
    pub uninterp spec fn vx_xorbs_drained(&self) -> bool;
    /// this interface's shard upload task set has been fully drained and every drained result was Ok(Ok(_))
    pub uninterp spec fn vx_shards_stored(&self) -> bool;
}
#[verifier::external_body]
proof fn vx_mark_xorbs_drained(si: &SessionShardInterface, taken: Multiset<TaskRes>, now: Multiset<TaskRes>)
    requires /*@C16*/ now.len() == 0, /*@C16*/ drained_ok(taken, now),
    ensures si.vx_xorbs_drained(), all_ok(taken),
{}
#[verifier::external_body]
proof fn vx_mark_shards_stored(si: &SessionShardInterface, spawned: Multiset<TaskRes>, now: Multiset<TaskRes>)
    requires /*@C16*/ now.len() == 0, /*@C16*/ drained_ok(spawned, now),
    ensures si.vx_shards_stored(), all_ok(spawned),
{}

// ---- store capabilities (task bodies) -------------------------------------------------------------------------------------
// Uninterpreted predicates used as capabilities: ONLY a successful `upload_shard` / `put` of the client stub establishes them,
// and the calls that make a shard visible to later sessions (export into the cache directory, `register_shards`) require
// them.  (Conservative for the same reason as the markers: reading them as `true` satisfies every assumed contract.)
pub struct MerkleHash(pub [u64; 4]);
/// the shard with this hash has been accepted by the store in this task
pub uninterp spec fn vx_shard_in_store(h: MerkleHash) -> bool;
/// the xorb with this hash has been accepted by the store in this task
pub uninterp spec fn vx_xorb_in_store(h: MerkleHash) -> bool;
pub struct VxClient { _p: () }
impl VxClient {
    /// cas_client::RegistrationClient::upload_shard
    #[verifier::external_body]
    pub fn upload_shard(&self, prefix: &str, hash: &MerkleHash, force_sync: bool, shard_data: &[u8], salt: &[u8; 32]) -> (r: std::result::Result<bool, CasClientError>)
        ensures r is Ok ==> vx_shard_in_store(*hash)
    { unimplemented!() }
    /// cas_client::UploadClient::put
    #[verifier::external_body]
    pub fn put(&self, prefix: &str, hash: &MerkleHash, data: Vec<u8>, chunk_and_boundaries: Vec<(MerkleHash, u32)>) -> (r: std::result::Result<usize, CasClientError>)
        ensures r matches Ok(n) ==> vx_xorb_in_store(*hash) && n <= counter_bound()
    { unimplemented!() }
}
pub struct VxPathBuf { _p: () }
pub struct MDBShardFile { pub shard_hash: MerkleHash, pub path: VxPathBuf }
impl MDBShardFile {
    /// writes a copy of the shard into `target_directory` (the local cache): from then on later sessions dedup against it
    #[verifier::external_body]
    pub fn export_with_expiration(&self, target_directory: &VxPath, shard_valid_for: Duration) -> (r: std::result::Result<Arc<MDBShardFile>, MDBShardError>)
        requires /*@C16*/ vx_shard_in_store(self.shard_hash),
        ensures r matches Ok(n) ==> n.shard_hash == self.shard_hash,
    { unimplemented!() }
}
pub struct Duration { _p: () }
impl Duration { #[verifier::external_body] pub fn from_secs(s: u64) -> Duration { unimplemented!() } }
/// outline (R7) of `std::fs::read(&si.path)`
#[verifier::external_body]
pub fn vx_fs_read(p: &VxPathBuf) -> std::result::Result<Vec<u8>, VxIoError> { unimplemented!() }
pub uninterp spec fn spec_MDB_SHARD_LOCAL_CACHE_EXPIRATION_SECS() -> u64;
#[verifier::external_body] pub fn MDB_SHARD_LOCAL_CACHE_EXPIRATION_SECS() -> (r: u64) ensures r == spec_MDB_SHARD_LOCAL_CACHE_EXPIRATION_SECS() { unimplemented!() }

// ---- other dependency stubs (R11), none has a contract unless stated -----------------------------------------------
pub struct VxProgressUpdater { _p: () }
impl VxProgressUpdater { #[verifier::external_body] pub fn update(&self, increment: u64) { unimplemented!() } }
pub struct ThreadPool { _p: () }
pub struct TempDir { _p: () }
pub struct VxPath { _p: () }
pub struct MDBFileInfo { _p: () }
pub struct OwnedSemaphorePermit { _p: () }
pub type RepoSalt = [u8; 32];
pub struct ShardConfig { pub prefix: String, pub repo_salt: RepoSalt }
pub struct DataConfig { pub prefix: String }
pub struct TranslatorConfig { pub shard_config: ShardConfig, pub data_config: DataConfig }
pub struct DataAggregator { _p: () }
impl Default for DataAggregator { #[verifier::external_body] fn default() -> Self { unimplemented!() } }
impl VxLockInv for DataAggregator { open spec fn lock_inv(&self) -> bool { true } }
impl VxLockInv for JoinSet<Result<()>> { open spec fn lock_inv(&self) -> bool { true } }

// byte counters: ASSUMED to stay below 2^62 (nothing to do with C16; keeps `shard + xorb` inside usize)
pub open spec fn counter_bound() -> usize { 0x4000_0000_0000_0000 }
impl VxLockInv for DeduplicationMetrics { closed spec fn lock_inv(&self) -> bool { self.xorb_bytes_uploaded <= counter_bound() } }
impl Default for DeduplicationMetrics { #[verifier::external_body] fn default() -> Self { unimplemented!() } }
pub enum Ordering { Relaxed }
#[verifier::external_body]
pub struct AtomicUsize { _p: () }
impl AtomicUsize {
    #[verifier::external_body] pub fn new(v: usize) -> Self { unimplemented!() }
    #[verifier::external_body] pub fn fetch_add(&self, v: usize, o: Ordering) -> usize { unimplemented!() }
    #[verifier::external_body] pub fn load(&self, o: Ordering) -> (r: usize) ensures r <= counter_bound() { unimplemented!() }
}

pub struct VxCounter { _p: () }
impl VxCounter { #[verifier::external_body] pub fn inc_by(&self, v: u64) { unimplemented!() } }
pub mod prometheus_metrics {
    use vstd::prelude::*;
    #[verifier::external_body] pub fn FILTER_CAS_BYTES_PRODUCED() -> super::VxCounter { unimplemented!() }
    #[verifier::external_body] pub fn FILTER_BYTES_CLEANED() -> super::VxCounter { unimplemented!() }
}

pub uninterp spec fn spec_MDB_SHARD_MIN_TARGET_SIZE() -> u64;
#[verifier::external_body] pub fn MDB_SHARD_MIN_TARGET_SIZE() -> (r: u64) ensures r == spec_MDB_SHARD_MIN_TARGET_SIZE() { unimplemented!() }

pub struct ShardFileManager { _p: () }
impl ShardFileManager {
    #[verifier::external_body] pub fn flush(&self) -> std::result::Result<Option<VxPath>, MDBShardError> { unimplemented!() }
    #[verifier::external_body] pub fn shard_directory(&self) -> &VxPath { unimplemented!() }
    /// makes the shards available for deduplication in this and (via the cache directory) later sessions
    #[verifier::external_body]
    pub fn register_shards(&self, new_shards: &[Arc<MDBShardFile>]) -> std::result::Result<(), MDBShardError>
        requires /*@C16*/ forall|i: int| 0 <= i < new_shards@.len() ==> vx_shard_in_store((#[trigger] new_shards@[i]).shard_hash),
    { unimplemented!() }
}
#[verifier::external_body]
pub fn consolidate_shards_in_directory(session_directory: &VxPath, target_max_size: u64) -> std::result::Result<Vec<Arc<MDBShardFile>>, MDBShardError> { unimplemented!() }
#[verifier::external_body]
pub fn acquire_upload_permit() -> Result<OwnedSemaphorePermit> { unimplemented!() }

//@ extract deduplication/src/dedup_metrics.rs struct DeduplicationMetrics
//@ end
//@ extract data/src/shard_interface.rs struct SessionShardInterface
//@ end
//@ extract data/src/file_upload_session.rs struct FileUploadSession
//@ end

impl SessionShardInterface {
    #[verifier::external_body]
    pub fn session_file_info_list(&self) -> Result<Vec<MDBFileInfo>> { unimplemented!() }

//@ extract data/src/shard_interface.rs in `impl SessionShardInterface` fn upload_and_register_session_shards
//@ ret ret
//@ rules R16 R17
//@ contract
        requires
            // "This must be called after all xorbs have completed their upload" (doc comment of the function)
            /*@C16*/ self.vx_xorbs_drained(),
        ensures
            /*@C16*/ ret is Ok ==> self.vx_shards_stored(),
            ret matches Ok(n) ==> n <= counter_bound(),   // frame for the caller's byte sum (assumed counter bound), not C16
//@ before `for si in`
        let ghost n_shards = shard_list@.len() as int;
        let ghost mut n_sp: int = 0;
//@ loop 1
            invariant
                n_shards == shard_list@.len(),
                /*@C16*/ n_sp == vx_it.index@,          // one task spawned per shard taken from the list so far
                /*@C16*/ shard_uploads@.len() == n_sp,
//@ after `shard_uploads.spawn(vx_async_block());`
            proof { n_sp = n_sp + 1; }
//@ before `while let Some(jh)`
        let ghost pend0 = shard_uploads@;
        // every consolidated shard has its upload task in the set that is joined below
        assert(/*@C16*/ pend0.len() == n_shards);
//@ loop 2
            invariant /*@C16*/ drained_ok(pend0, shard_uploads@),
            ensures /*@C16*/ shard_uploads@.len() == 0,
            decreases shard_uploads@.len(),
//@ before `Ok(shard_bytes_uploaded.load`
        // (c) Ok is returned only with the own task set drained and every result Ok(Ok(_))
        proof { /*@C16*/ vx_mark_shards_stored(self, pend0, shard_uploads@); lemma_drained_all(pend0, shard_uploads@); }
        assert(/*@C16*/ shard_uploads@.len() == 0 && all_ok(pend0));
//@ end
}

// the body of the task spawned per shard by upload_and_register_session_shards (what R16 leaves out there)
//@ extract data/src/shard_interface.rs in `impl SessionShardInterface` region upload_and_register_session_shards
//@ block `shard_uploads.spawn(async move {`
//@ sig `fn upload_and_register_session_shards__task(si: Arc<MDBShardFile>, shard_prefix: String, shard_bytes_uploaded: Arc<AtomicUsize>, dry_run: bool, shard_client: Arc<VxClient>, salt: RepoSalt, upload_permit: OwnedSemaphorePermit, cache_shard_manager: Arc<ShardFileManager>) -> (ret: Result<()>)`
//@ subst `std::fs::read(&si.path)` => `vx_fs_read(&si.path)` :: R7 outline of the file read (std::fs / PathBuf are outside Verus); result arbitrary
//@ contract
        ensures
            // the task reports success only if the shard is in the store (or nothing was made visible: dry run)
            /*@C16*/ ret is Ok ==> dry_run || vx_shard_in_store(si.shard_hash),
//@ end

// the body of the xorb upload task spawned by register_new_xorb_for_upload
//@ extract data/src/file_upload_session.rs in `impl FileUploadSession` region register_new_xorb_for_upload
//@ block `self.xorb_upload_tasks.lock().await.spawn(async move {`
//@ sig `fn register_new_xorb_for_upload__task(session: Arc<FileUploadSession>, cas_prefix: String, xorb_hash: MerkleHash, xorb_data: Vec<u8>, chunks_and_boundaries: Vec<(MerkleHash, u32)>, upload_permit: OwnedSemaphorePermit) -> (ret: Result<()>)`
//@ contract
        ensures
            /*@C16*/ ret is Ok ==> vx_xorb_in_store(xorb_hash),
//@ before `session.deduplication_metrics.lock()`
            // bytes are counted as uploaded only after a successful put
            assert(/*@C16*/ vx_xorb_in_store(xorb_hash));
//@ end

impl FileUploadSession {
    #[verifier::external_body]
    fn process_aggregated_data_as_xorb(&self, data_agg: DataAggregator) -> Result<()> { unimplemented!() }

//@ extract data/src/file_upload_session.rs in `impl FileUploadSession` region register_new_xorb_for_upload
//@ from-after `let mut upload_tasks = self.xorb_upload_tasks.lock().await;`
//@ to-before `} if xorb.num_bytes() == 0`
//@ sig `fn register_new_xorb_for_upload__drain(upload_tasks: &mut JoinSet<Result<()>>) -> (ret: Result<()>)`
//@ epilogue `Ok(())`
//@ contract
        ensures
            /*@C16*/ final(upload_tasks)@.subset_of(old(upload_tasks)@),
            /*@C16*/ ret is Ok ==> drained_ok(old(upload_tasks)@, final(upload_tasks)@),
//@ loop 1
            invariant /*@C16*/ drained_ok(old(upload_tasks)@, upload_tasks@),
            decreases upload_tasks@.len(),
//@ end

//@ extract data/src/file_upload_session.rs in `impl FileUploadSession` fn finalize_impl
//@ ret ret
//@ subst `assert((Arc::strong_count(&self)) == (1));` => `` :: debug-only assertion about the Arc reference count: no ghost state for Arc counts in the technique, not part of C16; dropped and listed as not covered
//@ subst `prometheus_metrics::FILTER_CAS_BYTES_PRODUCED.inc_by` => `prometheus_metrics::FILTER_CAS_BYTES_PRODUCED().inc_by` :: R6/R11 global prometheus counter (lazy_static) -> stub accessor
//@ subst `prometheus_metrics::FILTER_BYTES_CLEANED.inc_by` => `prometheus_metrics::FILTER_BYTES_CLEANED().inc_by` :: R6/R11 global prometheus counter (lazy_static) -> stub accessor
//@ contract
        ensures
            /*@C16*/ ret is Ok ==> self.shard_interface.vx_xorbs_drained() && self.shard_interface.vx_shards_stored(),
//@ body-start
        // Until the session's task set has been taken out of the mutex its contents are unknown: `upload_tasks` names an
        // arbitrary set here, shadowed by the real one at the `take`.
        let ghost upload_tasks: JoinSet<Result<()>> = arbitrary();
        let ghost mut pend0: Multiset<TaskRes> = arbitrary();
//@ after `let mut upload_tasks = take(&mut *self.xorb_upload_tasks.lock());`
        proof { pend0 = upload_tasks@; }
//@ loop 1
            invariant /*@C16*/ drained_ok(pend0, upload_tasks@),
            ensures /*@C16*/ upload_tasks@.len() == 0,
            decreases upload_tasks@.len(),
//@ before `metrics.shard_bytes_uploaded =`
        // (b) shards are handed to the store only with the xorb task set fully drained and every drained result Ok(Ok(_))
        assert(/*@C16*/ upload_tasks@.len() == 0);
        assert(/*@C16*/ drained_ok(pend0, upload_tasks@));
        proof { /*@C16*/ vx_mark_xorbs_drained(&self.shard_interface, pend0, upload_tasks@); lemma_drained_all(pend0, upload_tasks@); }
        assert(/*@C16*/ all_ok(pend0));
//@ before `Ok((metrics, all_file_info))`
        // (a) Ok is returned only if every result removed from the set was Ok(Ok(_)), and nothing is left in it
        assert(/*@C16*/ upload_tasks@.len() == 0 && drained_ok(pend0, upload_tasks@));
//@ end
}

} // verus!
fn main() {}
