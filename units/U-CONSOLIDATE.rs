//@ unit U-CONSOLIDATE
//@ props C10 C19
//@ verus-args --rlimit 100
//@ rules-from consolidate
#![allow(non_snake_case, unused)]
use vstd::prelude::*;
use vstd::std_specs::cmp::*;
use std::cmp::Ordering;
use std::collections::HashSet;
use std::mem::swap;
use std::sync::Arc;
verus! {
global size_of usize == 8;

//@ include prelude/setops_merklehash.rs
//@ include prelude/consolidate_fs.rs

//@ extract mdb_shard/src/shard_file_handle.rs struct MDBShardFile
//@ subst `PathBuf` => `VxPath` :: R11 stub type for std::path::PathBuf
//@ subst `SystemTime` => `VxTime` :: R11 stub type for std::time::SystemTime
//@ end

type Shards = Seq<Arc<MDBShardFile>>;

// what `load_all_valid` hands over: hash-named, existing, pairwise different files of plausible size
spec fn loaded_wf(dir: VxPath, s: Shards, exists_: Set<VxPath>) -> bool {
    &&& inputs_wf(dir, s)
    &&& forall|j: int| 0 <= j < s.len() ==> exists_.contains((#[trigger] s[j]).path)
}
spec fn inputs_wf(dir: VxPath, s: Shards) -> bool {
    &&& forall|i: int| 0 <= i < s.len() ==> (#[trigger] s[i]).path == path_of(dir, s[i].shard_hash)
    // configuration/size domain: keeps the u64 size additions of the grouping loop from overflowing
    &&& forall|i: int| 0 <= i < s.len() ==> (#[trigger] s[i]).shard.size < 0x8000_0000_0000_0000
    &&& forall|i: int, j: int| 0 <= i < j < s.len() ==> (#[trigger] s[i]).shard_hash != (#[trigger] s[j]).shard_hash
}

// the file under each loaded handle's (hash) name holds the shard with that hash
spec fn loaded_content(s: Shards, content: Map<VxPath, Set<int>>) -> bool {
    forall|j: int| 0 <= j < s.len() ==> content[(#[trigger] s[j]).path] == recs_of(s[j].shard_hash)
}
// files <-> records: every input file still on disk and every returned file holds the records of its hash
spec fn cont_ok(s: Shards, fin: Shards, exists_: Set<VxPath>, content: Map<VxPath, Set<int>>) -> bool {
    &&& forall|i: int| 0 <= i < s.len() && exists_.contains((#[trigger] s[i]).path) ==> content[s[i].path] == recs_of(s[i].shard_hash)
    &&& forall|k: int| 0 <= k < fin.len() ==> content[(#[trigger] fin[k]).path] == recs_of(fin[k].shard_hash)
}
// the precondition of `remove_file` for a group member, from `mid`: the returned shard that covers it is another existing file
proof fn lemma_remove_pre(dir: VxPath, s: Shards, fin: Shards, hashes: Set<MerkleHash>, fs: VxFs, cur: int, ub: int, removed0: Set<VxPath>, g: int)
    requires
        inputs_wf(dir, s), mid(dir, s, fin, hashes, fs.exists@, fs.removed@, cur, ub, removed0), cont_ok(s, fin, fs.exists@, fs.content@),
        cur <= g < ub, !hashes.contains(s[g].shard_hash), fs.exists@.contains(s[g].path),
    ensures covered_elsewhere(fs, s[g].path),
{
    assert(covered(s[g].shard_hash, fin));
    let k = choose|k: int| 0 <= k < fin.len() && recs_of(s[g].shard_hash).subset_of(recs_of((#[trigger] fin[k]).shard_hash));
    axiom_path_of_injective(dir, fin[k].shard_hash, s[g].shard_hash);
    let p2 = fin[k].path;
    assert(p2 != s[g].path && fs.exists@.contains(p2) && fs.content@[s[g].path].subset_of(fs.content@[p2]));
}
// cont_ok survives a removal and a write of hash-named content
proof fn lemma_cont_remove(s: Shards, fin: Shards, exists_: Set<VxPath>, content: Map<VxPath, Set<int>>, p: VxPath)
    requires cont_ok(s, fin, exists_, content),
    ensures cont_ok(s, fin, exists_.remove(p), content),
{}
proof fn lemma_cont_write(dir: VxPath, s: Shards, fin: Shards, exists_: Set<VxPath>, content: Map<VxPath, Set<int>>, f: Arc<MDBShardFile>)
    requires inputs_wf(dir, s), cont_ok(s, fin, exists_, content), f.path == path_of(dir, f.shard_hash),
        forall|k: int| 0 <= k < fin.len() ==> (#[trigger] fin[k]).path == path_of(dir, fin[k].shard_hash),
    ensures cont_ok(s, fin.push(f), exists_.insert(f.path), content.insert(f.path, recs_of(f.shard_hash))),
{
    let c2 = content.insert(f.path, recs_of(f.shard_hash));
    assert forall|i: int| 0 <= i < s.len() && exists_.insert(f.path).contains((#[trigger] s[i]).path) implies c2[s[i].path] == recs_of(s[i].shard_hash) by {
        if s[i].path == f.path { axiom_path_of_injective(dir, s[i].shard_hash, f.shard_hash); }
    }
    assert forall|k: int| 0 <= k < fin.push(f).len() implies c2[(#[trigger] fin.push(f)[k]).path] == recs_of(fin.push(f)[k].shard_hash) by {
        if k < fin.len() { assert(fin.push(f)[k] == fin[k]); if fin[k].path == f.path { axiom_path_of_injective(dir, fin[k].shard_hash, f.shard_hash); } }
    }
}

// the records of the shard with hash `h` are all present in one returned shard
spec fn covered(h: MerkleHash, fin: Shards) -> bool {
    exists|k: int| 0 <= k < fin.len() && recs_of(h).subset_of(recs_of((#[trigger] fin[k]).shard_hash))
}
// ---- the loop invariant of `while cur_idx < shards.len()` = C10's consolidation clause on the prefix [0, cur) ---------
spec fn inv(dir: VxPath, s: Shards, fin: Shards, hashes: Set<MerkleHash>, exists_: Set<VxPath>, removed: Set<VxPath>, cur: int) -> bool {
    &&& 0 <= cur <= s.len()
    // (a) every returned shard is hash-named, its hash is remembered in finished_shard_hashes, and its file exists
    &&& forall|k: int| 0 <= k < fin.len() ==> {
            let f = #[trigger] fin[k];
            f.path == path_of(dir, f.shard_hash) && hashes.contains(f.shard_hash) && exists_.contains(f.path)
        }
    // (c) every input shard handled so far is returned or merged into a returned shard
    &&& forall|i: int| 0 <= i < cur ==> covered((#[trigger] s[i]).shard_hash, fin)
    // (b) only files of input shards handled so far were removed (their records are covered by (c))
    &&& forall|p: VxPath| #[trigger] removed.contains(p) ==> exists|i: int| 0 <= i < cur && p == (#[trigger] s[i]).path
    // input shards not handled yet are still on disk
    &&& forall|j: int| cur <= j < s.len() ==> exists_.contains((#[trigger] s[j]).path)
    // an input shard handled so far is either (byte-identical to) a returned shard or gone from the directory
    &&& forall|i: int| 0 <= i < cur ==> gone_or_returned((#[trigger] s[i]), hashes, exists_)
}
spec fn gone_or_returned(f: Arc<MDBShardFile>, hashes: Set<MerkleHash>, exists_: Set<VxPath>) -> bool {
    hashes.contains(f.shard_hash) || !exists_.contains(f.path)
}

// C10 at function exit, from the invariant at cur == |shards| (the `while` condition is false)
proof fn lemma_exit(dir: VxPath, s: Shards, fin: Shards, hashes: Set<MerkleHash>, exists_: Set<VxPath>, removed: Set<VxPath>)
    requires inv(dir, s, fin, hashes, exists_, removed, s.len() as int),
    ensures
        // (a) returns only shard files that exist (no returned path is missing after this call's removals), named by their hash
        forall|k: int| 0 <= k < fin.len() ==> exists_.contains((#[trigger] fin[k]).path) && fin[k].path == path_of(dir, fin[k].shard_hash),
        // (b) deletes only input shards whose records are present in a returned shard
        forall|p: VxPath| #[trigger] removed.contains(p) ==> exists|i: int| 0 <= i < s.len() && p == (#[trigger] s[i]).path && covered(s[i].shard_hash, fin),
        // (c) no input shard is dropped: each is returned or merged into a returned shard
        forall|i: int| 0 <= i < s.len() ==> covered((#[trigger] s[i]).shard_hash, fin),
        // (e) the directory is consolidated: an input shard that is not (identical to) a returned shard is gone
        forall|i: int| 0 <= i < s.len() ==> gone_or_returned(#[trigger] s[i], hashes, exists_),
{
    assert forall|p: VxPath| #[trigger] removed.contains(p) implies exists|i: int| 0 <= i < s.len() && p == (#[trigger] s[i]).path && covered(s[i].shard_hash, fin) by {
        let i = choose|i: int| 0 <= i < s.len() && p == (#[trigger] s[i]).path;
        assert(covered(s[i].shard_hash, fin));
    }
}
// the invariant holds before the first iteration, whatever finished_shard_hashes holds
proof fn lemma_init(dir: VxPath, s: Shards, hashes: Set<MerkleHash>, exists_: Set<VxPath>)
    requires loaded_wf(dir, s, exists_),
    ensures inv(dir, s, Seq::empty(), hashes, exists_, Set::empty(), 0),
{}

// appending a returned shard keeps earlier inputs covered
proof fn lemma_covered_push(h: MerkleHash, fin: Shards, f: Arc<MDBShardFile>)
    requires covered(h, fin),
    ensures covered(h, fin.push(f)),
{
    let k = choose|k: int| 0 <= k < fin.len() && recs_of(h).subset_of(recs_of((#[trigger] fin[k]).shard_hash));
    assert(fin.push(f)[k] == fin[k]);
}
proof fn lemma_covered_last(h: MerkleHash, fin: Shards)
    requires fin.len() > 0, recs_of(h).subset_of(recs_of(fin.last().shard_hash)),
    ensures covered(h, fin),
{
    assert(fin[fin.len() - 1] == fin.last());
}

// state after the group has been merged / passed through and before its old files are removed
spec fn mid(dir: VxPath, s: Shards, fin: Shards, hashes: Set<MerkleHash>, exists_: Set<VxPath>, removed: Set<VxPath>, cur: int, ub: int, removed0: Set<VxPath>) -> bool {
    &&& 0 <= cur < ub <= s.len()
    &&& forall|k: int| 0 <= k < fin.len() ==> {
            let f = #[trigger] fin[k];
            f.path == path_of(dir, f.shard_hash) && hashes.contains(f.shard_hash) && exists_.contains(f.path)
        }
    &&& forall|i: int| 0 <= i < ub ==> covered((#[trigger] s[i]).shard_hash, fin)
    &&& forall|p: VxPath| #[trigger] removed.contains(p) ==> exists|i: int| 0 <= i < ub && p == (#[trigger] s[i]).path
    &&& forall|j: int| ub <= j < s.len() ==> exists_.contains((#[trigger] s[j]).path)
    &&& forall|i: int| 0 <= i < cur ==> gone_or_returned((#[trigger] s[i]), hashes, exists_)
}
// removing the file of a group member whose hash is NOT in finished_shard_hashes keeps `mid`
proof fn lemma_remove_step(dir: VxPath, s: Shards, fin: Shards, hashes: Set<MerkleHash>, exists_: Set<VxPath>, removed: Set<VxPath>, cur: int, ub: int, removed0: Set<VxPath>, g: int)
    requires
        inputs_wf(dir, s), mid(dir, s, fin, hashes, exists_, removed, cur, ub, removed0),
        cur <= g < ub, !hashes.contains(s[g].shard_hash),
    ensures mid(dir, s, fin, hashes, exists_.remove(s[g].path), removed.insert(s[g].path), cur, ub, removed0),
        gone_or_returned(s[g], hashes, exists_.remove(s[g].path)),
        forall|g2: int| cur <= g2 < ub && gone_or_returned(#[trigger] s[g2], hashes, exists_) ==> gone_or_returned(s[g2], hashes, exists_.remove(s[g].path)),
{
    let p = s[g].path;
    assert forall|k: int| 0 <= k < fin.len() implies exists_.remove(p).contains((#[trigger] fin[k]).path) by {
        axiom_path_of_injective(dir, fin[k].shard_hash, s[g].shard_hash);
    }
    assert forall|j: int| ub <= j < s.len() implies exists_.remove(p).contains((#[trigger] s[j]).path) by {
        axiom_path_of_injective(dir, s[j].shard_hash, s[g].shard_hash);
    }
    assert(gone_or_returned(s[g], hashes, exists_.remove(p)));
    assert forall|i: int| 0 <= i < cur implies gone_or_returned((#[trigger] s[i]), hashes, exists_.remove(p)) by {
        assert(gone_or_returned(s[i], hashes, exists_));
    }
    assert forall|q: VxPath| #[trigger] removed.insert(p).contains(q) implies exists|i: int| 0 <= i < ub && q == (#[trigger] s[i]).path by {
        if q == p { assert(s[g].path == q); } else { assert(removed.contains(q)); }
    }
}

// ---- before the loop: load the directory, order by modification time (R7 outline: the order is irrelevant to C10) -----
uninterp spec fn sort_perm(s: Shards) -> Seq<int>;
// ASSUMED std behaviour: `sort_unstable_by_key` permutes the vector
#[verifier::external_body]
fn vx_sort_by_mtime(v: &mut Vec<Arc<MDBShardFile>>)
    ensures
        final(v)@.len() == old(v)@.len(),
        forall|i: int| 0 <= i < old(v)@.len() ==> 0 <= #[trigger] sort_perm(old(v)@)[i] < old(v)@.len() && final(v)@[i] == old(v)@[sort_perm(old(v)@)[i]],
        forall|i: int, j: int| 0 <= i < j < old(v)@.len() ==> #[trigger] sort_perm(old(v)@)[i] != #[trigger] sort_perm(old(v)@)[j],
{ unimplemented!() } // outlined expression: v.sort_unstable_by_key(|si| si.last_modified_time)
proof fn lemma_perm_wf(dir: VxPath, a: Shards, b: Shards, exists_: Set<VxPath>)
    requires loaded_wf(dir, a, exists_), b.len() == a.len(),
        forall|i: int| 0 <= i < a.len() ==> 0 <= #[trigger] sort_perm(a)[i] < a.len() && b[i] == a[sort_perm(a)[i]],
        forall|i: int, j: int| 0 <= i < j < a.len() ==> #[trigger] sort_perm(a)[i] != #[trigger] sort_perm(a)[j],
    ensures loaded_wf(dir, b, exists_), forall|c: Map<VxPath, Set<int>>| loaded_content(a, c) ==> #[trigger] loaded_content(b, c),
{
    assert forall|c: Map<VxPath, Set<int>>| loaded_content(a, c) implies #[trigger] loaded_content(b, c) by {
        assert forall|j: int| 0 <= j < b.len() implies c[(#[trigger] b[j]).path] == recs_of(b[j].shard_hash) by { let pj = sort_perm(a)[j]; assert(b[j] == a[pj]); }
    }
    assert forall|i: int, j: int| 0 <= i < j < b.len() implies (#[trigger] b[i]).shard_hash != (#[trigger] b[j]).shard_hash by {
        let pi = sort_perm(a)[i]; let pj = sort_perm(a)[j];
        assert(b[i] == a[pi] && b[j] == a[pj]);
        if pi < pj { assert(a[pi].shard_hash != a[pj].shard_hash); } else { assert(pj < pi); assert(a[pj].shard_hash != a[pi].shard_hash); }
    }
    assert forall|i: int| 0 <= i < b.len() implies (#[trigger] b[i]).path == path_of(dir, b[i].shard_hash) && b[i].shard.size < 0x8000_0000_0000_0000 && exists_.contains(b[i].path) by {
        let pi = sort_perm(a)[i]; assert(b[i] == a[pi]);
    }
}
//@ extract mdb_shard/src/session_directory.rs region consolidate_shards_in_directory
//@ from `let mut shards = MDBShardFile::load_all_valid`
//@ to `let shards = shards;`
//@ sig `fn load_sorted(session_directory: &VxPath, vx_fs: &VxFs) -> (res: Result<Vec<Arc<MDBShardFile>>>)`
//@ epilogue `Ok(shards)`
//@ subst `MDBShardFile::load_all_valid` => `vx_fs.load_all_valid` :: R11 shard I/O stub with ghost state
//@ subst `shards.sort_unstable_by_key(|si| si.last_modified_time)` => `vx_sort_by_mtime(&mut shards)` :: R7 outline of the closure-keyed sort; assumed to permute the vector
//@ contract
    ensures
        // the loop starts from existing, hash-named, pairwise different files; with lemma_init this is the invariant at cur = 0
        res matches Ok(v) ==> /*@C10*/ loaded_wf(*session_directory, v@, vx_fs.exists@) && loaded_content(v@, vx_fs.content@),
//@ after `vx_sort_by_mtime(&mut shards);`
    proof { lemma_perm_wf(*session_directory, pre_sort, shards@, vx_fs.exists@); }
//@ before `vx_sort_by_mtime(&mut shards);`
    let ghost pre_sort = shards@;
//@ end

// ---- one iteration of the `while cur_idx < shards.len()` loop (R8: the loop body, parameters = the variables it uses) --
//@ extract mdb_shard/src/session_directory.rs region consolidate_shards_in_directory
//@ block `while cur_idx < shards.len() {`
//@ sig `fn consolidate_group(session_directory: &VxPath, target_max_size: u64, shards: &Vec<Arc<MDBShardFile>>, finished_shards: &mut Vec<Arc<MDBShardFile>>, finished_shard_hashes: &mut HashSet<MerkleHash>, mut cur_data: Vec<u8>, mut alt_data: Vec<u8>, mut out_data: Vec<u8>, mut cur_idx: usize, vx_fs: &mut VxFs) -> (res: Result<usize>)`
//@ epilogue `Ok(cur_idx)`
//@ rules R4j R4i
//@ optsubst `std::fs::File::open` => `vx_fs.open` :: R11 file-system stub with ghost state
//@ optsubst `std::fs::remove_file` => `vx_fs.remove_file` :: R11 file-system stub with ghost state
//@ optsubst `MDBShardFile::write_out_from_reader` => `vx_fs.write_out_from_reader` :: R11 shard I/O stub with ghost state
//@ optsubst `Cursor::new` => `VxCursor::new` :: R11 reader stub with ghost view
//@ optsubst `PathBuf` => `VxPath` :: R11 stub type for std::path::PathBuf
//@ contract
    requires
        inputs_wf(*session_directory, shards@),
        target_max_size <= 0x8000_0000_0000_0000,
        cur_idx < shards@.len(),
        inv(*session_directory, shards@, old(finished_shards)@, old(finished_shard_hashes)@, old(vx_fs).exists@, old(vx_fs).removed@, cur_idx as int),
        cont_ok(shards@, old(finished_shards)@, old(vx_fs).exists@, old(vx_fs).content@),
        // crash invariant at entry: what was retrievable when the operation started is on disk
        /*@C19,C10*/ ci(*old(vx_fs)),
    ensures
        // ... and at exit, on every path (it also holds between any two file-system operations: every mutating primitive
        // requires and re-establishes it, and `remove_file` additionally requires the victim's records to be in another file)
        /*@C19,C10*/ ci(*final(vx_fs)),
        /*@AUX*/ final(vx_fs).need@ == old(vx_fs).need@,
        res matches Ok(n) ==> {
            &&& cont_ok(shards@, final(finished_shards)@, final(vx_fs).exists@, final(vx_fs).content@)
            // (d) progress of the grouping loop
            &&& /*@C10*/ cur_idx < n <= shards@.len()
            // (a)(b)(c) the invariant is re-established for the longer prefix
            &&& /*@C10*/ inv(*session_directory, shards@, final(finished_shards)@, final(finished_shard_hashes)@, final(vx_fs).exists@, final(vx_fs).removed@, n as int)
        },
//@ body-start
    proof { axiom_merklehash_key_model(); assert(shards@.len() == shards.len()); }
    let ghost dir = *session_directory; let ghost s = shards@; let ghost fin0 = finished_shards@; let ghost removed0 = vx_fs.removed@; let ghost hs0 = finished_shard_hashes@; let ghost ex0 = vx_fs.exists@; let ghost ct0 = vx_fs.content@; let ghost need0 = vx_fs.need@; let ghost cur = cur_idx as int;
//@ loop 1
        invariant
            s == shards@, cur == cur_idx, inputs_wf(dir, s), cur_idx < s.len(), target_max_size <= 0x8000_0000_0000_0000,
            cur_idx + 1 <= idx <= s.len(), cur_idx + 1 <= ub_idx <= s.len(),
            current_size <= 0x8000_0000_0000_0000,
        decreases s.len() - idx,
//@ loop 2
                    invariant
                        s == shards@, cur == cur_idx, inputs_wf(dir, s), dir == *session_directory, cur_idx + 1 < ub_idx <= s.len(),
                        cur_idx + 1 <= i <= ub_idx,
                        finished_shards@ == fin0, finished_shard_hashes@ == hs0, vx_fs.exists@ == ex0, vx_fs.content@ == ct0, vx_fs.need@ == need0, need0 == old(vx_fs).need@, ci(*vx_fs), cont_ok(s, fin0, ex0, ct0), vx_fs.removed@ == removed0,
                        /*@C10,C19*/ forall|j: int| cur <= j < i ==> recs_of((#[trigger] s[j]).shard_hash).subset_of(data_recs(cur_data@)),   // the merged buffer holds the records of every group member read so far
//@ after `vx_fs.open(&cur_sfi.path)?.read_to_end(&mut cur_data)?;`
                proof {
                    assert(cur_sfi == s[cur] && vx_fs.exists@.contains(s[cur].path));
                    assert(cur_data@ =~= Seq::<u8>::empty() + cur_data@);
                    /*@C10*/ assert(data_recs(cur_data@) == recs_of(s[cur].shard_hash));   // tagged: what was read is the shard of that input
                }
//@ before `swap(&mut cur_data, &mut out_data);`
                    proof {
                        assert(sfi == s[i as int] && vx_fs.exists@.contains(s[i as int].path));
                        assert(alt_data@ =~= Seq::<u8>::empty() + alt_data@);
                        /*@C10*/ assert(data_recs(alt_data@) == recs_of(s[i as int].shard_hash));
                    }
//@ before `} else {`
                proof {
                    /*@C10*/ assert(finished_shards@.last().shard_hash == s[cur].shard_hash);   // tagged: the shard passed through is the input itself
                    lemma_covered_last(s[cur].shard_hash, finished_shards@);
                    assert forall|i2: int| 0 <= i2 < cur implies covered((#[trigger] s[i2]).shard_hash, finished_shards@) by { lemma_covered_push(s[i2].shard_hash, fin0, finished_shards@.last()); }
                    /*@C10,C19*/ assert(mid(dir, s, finished_shards@, finished_shard_hashes@, vx_fs.exists@, vx_fs.removed@, cur, ub_idx as int, removed0));
                    /*@C10,C19*/ assert(cont_ok(s, finished_shards@, vx_fs.exists@, vx_fs.content@)) by {
                        assert forall|k: int| 0 <= k < finished_shards@.len() implies vx_fs.content@[(#[trigger] finished_shards@[k]).path] == recs_of(finished_shards@[k].shard_hash) by {
                            if k < fin0.len() { assert(finished_shards@[k] == fin0[k]); } else { assert(finished_shards@[k] == s[cur]); }
                        }
                    }
                }
//@ before `; { let vx_s1 = &shards[cur_idx..ub_idx];`
                proof {
                    let f = finished_shards@.last();
                    lemma_cont_write(dir, s, fin0, ex0, ct0, f);
                    assert(finished_shards@ =~= fin0.push(f));
                    /*@C10,C19*/ assert(cont_ok(s, finished_shards@, vx_fs.exists@, vx_fs.content@));
                    assert forall|i2: int| 0 <= i2 < ub_idx implies covered((#[trigger] s[i2]).shard_hash, finished_shards@) by {
                        if i2 < cur { lemma_covered_push(s[i2].shard_hash, fin0, f); } else { lemma_covered_last(s[i2].shard_hash, finished_shards@); }
                    }
                    /*@C10*/ assert forall|k: int| 0 <= k < finished_shards@.len() implies vx_fs.exists@.contains((#[trigger] finished_shards@[k]).path) && finished_shard_hashes@.contains(finished_shards@[k].shard_hash) && finished_shards@[k].path == path_of(dir, finished_shards@[k].shard_hash) by {
                        if k < fin0.len() { assert(finished_shards@[k] == fin0[k]); }
                    }
                    assert forall|i2: int| 0 <= i2 < cur implies gone_or_returned(#[trigger] s[i2], finished_shard_hashes@, vx_fs.exists@) by {
                        assert(gone_or_returned(s[i2], hs0, ex0));
                        axiom_path_of_injective(dir, f.shard_hash, s[i2].shard_hash);
                    }
                    /*@C10,C19*/ assert(mid(dir, s, finished_shards@, finished_shard_hashes@, vx_fs.exists@, vx_fs.removed@, cur, ub_idx as int, removed0));
                }
//@ after `while vx_n1 < vx_s1.len()`
                    invariant
                        /*@C19,C10*/ ci(*vx_fs), vx_fs.need@ == need0, need0 == old(vx_fs).need@,
//@ after `vx_n1 < vx_s1.len()`
                        s == shards@, cur == cur_idx, cur_idx < ub_idx <= s.len(),
                        vx_s1@ == s.subrange(cur, ub_idx as int), vx_n1 <= vx_s1@.len(),
                        shards_to_remove@.len() == vx_n1,
                        /*@C10,C19*/ forall|m: int| 0 <= m < vx_n1 ==> #[trigger] shards_to_remove@[m] == (s[cur + m].shard_hash, s[cur + m].path),   // only group members are scheduled for removal
//@ after `< vx_s1.len()`
                    decreases vx_s1@.len() - vx_n1,
//@ after `while vx_n2 < vx_s2.len()`
                invariant
                    s == shards@, cur == cur_idx, dir == *session_directory, inputs_wf(dir, s), vx_s2@ == shards_to_remove@, vx_n2 <= vx_s2@.len(),
                    vstd::std_specs::hash::obeys_key_model::<MerkleHash>(),
                    shards_to_remove@.len() == ub_idx - cur || (shards_to_remove@.len() == 0 && ub_idx == cur + 1 && finished_shard_hashes@.contains(s[cur].shard_hash)),
                    /*@C10*/ forall|m: int| 0 <= m < vx_n2 ==> gone_or_returned(#[trigger] s[cur + m], finished_shard_hashes@, vx_fs.exists@),
                    /*@C10,C19*/ forall|m: int| 0 <= m < shards_to_remove@.len() ==> #[trigger] shards_to_remove@[m] == (s[cur + m].shard_hash, s[cur + m].path),
                    /*@C10,C19*/ mid(dir, s, finished_shards@, finished_shard_hashes@, vx_fs.exists@, vx_fs.removed@, cur, ub_idx as int, removed0),
                    cont_ok(s, finished_shards@, vx_fs.exists@, vx_fs.content@), /*@C19,C10*/ ci(*vx_fs), vx_fs.need@ == need0, need0 == old(vx_fs).need@,
//@ after `vx_n2 < vx_s2.len()`
                decreases vx_s2@.len() - vx_n2,
//@ before `vx_fs.remove_file(path)?;`
                proof {
                    let g = cur + vx_n2 - 1;
                    /*@C10,C19*/ assert(shards_to_remove@[vx_n2 - 1] == (s[g].shard_hash, s[g].path));   // tagged: the path removed belongs to group member g
                    lemma_remove_step(dir, s, finished_shards@, finished_shard_hashes@, vx_fs.exists@, vx_fs.removed@, cur, ub_idx as int, removed0, g);
                    if vx_fs.exists@.contains(s[g].path) { lemma_remove_pre(dir, s, finished_shards@, finished_shard_hashes@, *vx_fs, cur, ub_idx as int, removed0, g); }
                    lemma_cont_remove(s, finished_shards@, vx_fs.exists@, vx_fs.content@, s[g].path);
                    assert forall|m: int| 0 <= m < vx_n2 implies gone_or_returned(#[trigger] s[cur + m], finished_shard_hashes@, vx_fs.exists@.remove(s[g].path)) by {
                        if m < vx_n2 - 1 { assert(gone_or_returned(s[cur + m], finished_shard_hashes@, vx_fs.exists@)); }
                    }
                }
//@ before `cur_idx = ub_idx;`
            proof {
                assert forall|i2: int| 0 <= i2 < ub_idx implies gone_or_returned(#[trigger] s[i2], finished_shard_hashes@, vx_fs.exists@) by {
                    if i2 >= cur { let m = i2 - cur; assert(s[cur + m] == s[i2]); }
                }
            }
//@ end

// ---- composition check (HAND-WRITTEN control skeleton, not extracted): the function is `load_sorted`, then
// `while cur_idx < shards.len() { consolidate_group }`, then `Ok(finished_shards)`.  It only shows that the contracts of the
// two extracted regions chain (invariant initially, preserved, variant decreases) and give C10's clauses at exit; the two
// `with_capacity` buffers are scratch (cleared before every use) and are passed fresh.
fn vx_glue_consolidate(session_directory: &VxPath, target_max_size: u64, vx_fs: &mut VxFs) -> (res: Result<(Vec<Arc<MDBShardFile>>, Ghost<Shards>)>)
    requires target_max_size <= 0x8000_0000_0000_0000, old(vx_fs).removed@ == Set::<VxPath>::empty(), ci(*old(vx_fs)),
    ensures /*@C19,C10*/ ci(*final(vx_fs)), final(vx_fs).need@ == old(vx_fs).need@,
      res matches Ok((fin, inputs)) ==> {
        let dir = *session_directory; let s = inputs@; let ex = final(vx_fs).exists@; let rm = final(vx_fs).removed@;
        &&& loaded_wf(dir, s, old(vx_fs).exists@)
        // (a) returns only shard files that exist, named by their content hash
        &&& /*@C10*/ forall|k: int| 0 <= k < fin@.len() ==> ex.contains((#[trigger] fin@[k]).path) && fin@[k].path == path_of(dir, fin@[k].shard_hash)
        // (b) deletes only input shards whose records are present in a returned shard
        &&& /*@C10*/ forall|p: VxPath| #[trigger] rm.contains(p) ==> exists|i: int| 0 <= i < s.len() && p == (#[trigger] s[i]).path && covered(s[i].shard_hash, fin@)
        // (c) every input shard is returned or merged into a returned shard
        &&& /*@C10*/ forall|i: int| 0 <= i < s.len() ==> covered((#[trigger] s[i]).shard_hash, fin@)
    },
{
    let shards = load_sorted(session_directory, vx_fs)?;
    let mut finished_shards = Vec::<Arc<MDBShardFile>>::with_capacity(shards.len());
    let mut finished_shard_hashes = HashSet::<MerkleHash>::with_capacity(shards.len());
    let mut cur_idx = 0;
    proof { lemma_init(*session_directory, shards@, finished_shard_hashes@, vx_fs.exists@); assert(finished_shards@ =~= Seq::empty()); assert(cont_ok(shards@, finished_shards@, vx_fs.exists@, vx_fs.content@)); }
    while cur_idx < shards.len()
        invariant
            target_max_size <= 0x8000_0000_0000_0000, inputs_wf(*session_directory, shards@),
            inv(*session_directory, shards@, finished_shards@, finished_shard_hashes@, vx_fs.exists@, vx_fs.removed@, cur_idx as int),
            cont_ok(shards@, finished_shards@, vx_fs.exists@, vx_fs.content@), ci(*vx_fs), vx_fs.need@ == old(vx_fs).need@,
        decreases shards@.len() - cur_idx,
    {
        cur_idx = consolidate_group(session_directory, target_max_size, &shards, &mut finished_shards, &mut finished_shard_hashes, Vec::new(), Vec::new(), Vec::new(), cur_idx, vx_fs)?;
    }
    proof { lemma_exit(*session_directory, shards@, finished_shards@, finished_shard_hashes@, vx_fs.exists@, vx_fs.removed@); }
    Ok((finished_shards, Ghost(shards@)))
}

} // verus!
fn main() {}
