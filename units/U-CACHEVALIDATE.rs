//@ unit U-CACHEVALIDATE
//@ props C12
//@ verus-args --rlimit 100
//@ gsubst `VerificationCell<CacheItem>` => `CacheItem` :: R11 stub: the wrapper `VerificationCell<T>` derefs to its `T`; its verification flag is not part of what a hit returns. Verus has no user `Deref`, so the wrapper is erased to its payload
#![feature(allocator_api)]
#![allow(non_snake_case, unused)]
use vstd::prelude::*;
use std::sync::Arc;
verus! {
global size_of usize == 8;

// ---- stub types of dependencies (R11) ------------------------------------------------------------------------------
pub enum ChunkCacheError { General, IO, Parse, BadRange, CacheEmpty, Infallible, LockPoison, InvalidArguments }
impl ChunkCacheError {
    #[verifier::external_body]
    fn parse(value: &str) -> (r: ChunkCacheError) ensures r is Parse { unimplemented!() }
}
pub enum SeekFrom { Start(u64), End(i64), Current(i64) }

// little-endian u32 at a byte position
uninterp spec fn le32(b: Seq<u8>) -> u32;

// `std::io::Read + Seek` as traits over a ghost byte view and a ghost cursor.  The stubs return the error already
// converted to `ChunkCacheError::IO` (the code's `?` applies `From<io::Error>`, which yields exactly that variant).
pub trait Read {
    spec fn bytes(&self) -> Seq<u8>;
    spec fn pos(&self) -> nat;
    fn read_exact(&mut self, buf: &mut Vec<u8>) -> (r: Result<(), ChunkCacheError>)
        ensures
            final(self).bytes() == old(self).bytes(),
            final(buf)@.len() == old(buf)@.len(),
            match r {
                Ok(_) => old(self).pos() + old(buf)@.len() <= old(self).bytes().len()
                    && final(buf)@ == old(self).bytes().subrange(old(self).pos() as int, (old(self).pos() + old(buf)@.len()) as int)
                    && final(self).pos() == old(self).pos() + old(buf)@.len(),
                Err(e) => e is IO,
            };
}
pub trait Seek: Read {
    fn seek(&mut self, pos: SeekFrom) -> (r: Result<u64, ChunkCacheError>)
        ensures
            final(self).bytes() == old(self).bytes(),
            match r {
                Ok(_) => (pos matches SeekFrom::Start(p) ==> final(self).pos() == p),
                Err(e) => e is IO,
            };
}
// stub of utils::serialization_utils::read_u32 (read_exact of 4 bytes + u32::from_le_bytes)
#[verifier::external_body]
fn read_u32<R: Read>(reader: &mut R) -> (r: Result<u32, ChunkCacheError>)
    ensures
        final(reader).bytes() == old(reader).bytes(),
        match r {
            Ok(v) => old(reader).pos() + 4 <= old(reader).bytes().len()
                && v == le32(old(reader).bytes().subrange(old(reader).pos() as int, old(reader).pos() + 4 as int))
                && final(reader).pos() == old(reader).pos() + 4,
            Err(e) => e is IO,
        },
{ unimplemented!() }

pub assume_specification<T, A: std::alloc::Allocator + Clone> [<Arc<[T], A> as From<Vec<T, A>>>::from] (v: Vec<T, A>) -> (r: Arc<[T], A>)
    ensures r@ == v@;

//@ extract cas_types/src/lib.rs struct Range
//@ end
impl<Idx: Copy> Copy for Range<Idx> {}
impl<Idx: Copy> Clone for Range<Idx> {
    #[verifier::external_body]
    fn clone(&self) -> (r: Self) ensures r == *self { unimplemented!() }
}
//@ extract cas_types/src/lib.rs type ChunkRange
//@ end
//@ extract chunk_cache/src/disk/cache_item.rs struct CacheItem
//@ end
impl Clone for CacheItem {
    #[verifier::external_body]
    fn clone(&self) -> (r: Self) ensures r == *self { unimplemented!() }
}
//@ extract chunk_cache/src/lib.rs struct CacheRange
//@ end
//@ extract chunk_cache/src/disk/cache_file_header.rs struct CacheFileHeader
//@ end

// ---- specification ---------------------------------------------------------------------------------------------------
spec fn strictly_inc(s: Seq<u32>) -> bool { forall|i: int| 1 <= i < s.len() ==> s[i - 1] < #[trigger] s[i] }
spec fn hdr_ok(s: Seq<u32>) -> bool { strictly_inc(s) && (s.len() > 0 ==> s[0] == 0) }
proof fn lemma_inc_le(s: Seq<u32>, a: int, b: int)
    requires strictly_inc(s), 0 <= a <= b < s.len()
    ensures s[a] <= s[b], a < b ==> s[a] < s[b]
    decreases b - a
{ if a < b { lemma_inc_le(s, a, b - 1); } }

#[verifier::external_body]
fn vx_remove_item() -> Result<(), ChunkCacheError> { unimplemented!() }

spec fn span(item: CacheItem) -> int { item.range.end - item.range.start + 1 }
spec fn lens_match(range: ChunkRange, item: CacheItem, hdr: Seq<u32>, given: Seq<u32>) -> bool {
    forall|k: int| 0 <= k < range.end - range.start ==> {
        let o = (range.start - item.range.start) as int;
        hdr[o + k + 1] - hdr[o + k] == #[trigger] given[k + 1] - given[k] }
}
// C12: "entries that were damaged, truncated, RENAMED or planted while the cache was closed turn into misses or errors once it
// is re-opened, never into wrong data or a panic".  The stored header is ANY header that `CacheFileHeader::deserialize` accepts:
// nothing earlier in `validate_match` (range inside the item's range, file length == item.len, crc == item.checksum, header
// parses) relates the number of stored indices to the range the item's NAME claims.  The region starts right after the header
// is parsed, so it contains the check added by f3ea644; the bound needed by the index expressions must be DISCHARGED from it.
//@ extract chunk_cache/src/disk.rs in `impl DiskCache` region validate_match
//@ from-after `return Ok(false); };` #2
//@ to-before `let stored = get_range_from_cache_file(`
//@ sig `fn validate_match_lens(range: &ChunkRange, cache_item: &CacheItem, header: &CacheFileHeader, chunk_byte_indices: &[u32]) -> (r: Result<bool, ChunkCacheError>)`
//@ epilogue `Ok(true)`
//@ rules cacheacct.R18
//@ optsubst `self.remove_item(key, cache_item)` => `vx_remove_item()` :: R11 stub: removal of the item from state and disk (U-CACHEACCT remove_item_cs); may fail with any error
//@ contract
    requires
        cache_item.range.start <= range.start < range.end <= cache_item.range.end,   // checked at the top of validate_match
        cache_item.range.end < u32::MAX,
        hdr_ok(header.chunk_byte_indices@),                                          // deserialize accepted it
        strictly_inc(chunk_byte_indices@), chunk_byte_indices@.len() == range.end - range.start + 1,   // put_impl validated its arguments
    ensures
        // (no panic: every index / arithmetic obligation of the body is discharged)
        // a file whose header does not have one offset per chunk boundary of the NAMED range is never matched against
        /*@C12*/ r matches Ok(false) ==> header.chunk_byte_indices@.len() != span(*cache_item),
        /*@C12*/ r matches Ok(true) ==> header.chunk_byte_indices@.len() == span(*cache_item)
            && lens_match(*range, *cache_item, header.chunk_byte_indices@, chunk_byte_indices@),
        /*@C12*/ header.chunk_byte_indices@.len() == span(*cache_item) ==>
            (if lens_match(*range, *cache_item, header.chunk_byte_indices@, chunk_byte_indices@) { r matches Ok(true) } else { r matches Err(ChunkCacheError::InvalidArguments) }),
//@ loop 1
        invariant
            idx_start == range.start - cache_item.range.start, idx_end == range.end - cache_item.range.start + 1,
            cache_item.range.start <= range.start < range.end <= cache_item.range.end, cache_item.range.end < u32::MAX,
            hdr_ok(header.chunk_byte_indices@),
            strictly_inc(chunk_byte_indices@), chunk_byte_indices@.len() == range.end - range.start + 1,
            // what the index expressions `header.chunk_byte_indices[i + 1]` below need — discharged from the check above the loop
            /*@C12*/ idx_end <= header.chunk_byte_indices@.len(),
            header.chunk_byte_indices@.len() == span(*cache_item),
            forall|k: int| 0 <= k < vx_it1.index@ ==>
                header.chunk_byte_indices@[idx_start + k + 1] - header.chunk_byte_indices@[idx_start + k] == #[trigger] chunk_byte_indices@[k + 1] - chunk_byte_indices@[k],
//@ before `let stored_diff =`
        proof {
            lemma_inc_le(header.chunk_byte_indices@, i as int, i + 1);
            lemma_inc_le(chunk_byte_indices@, i - idx_start, i + 1 - idx_start);
        }
//@ end


// ---- `CacheFileHeader::deserialize` on ANY bytes: no panic (C12: planted / damaged files never cause a panic) -------------------
// The functional contract (Ok only for strictly increasing offsets from 0, parsed from the file) is in U-CACHESLICE and depends on
// the shape of the parsing loop.  This second extraction carries only what must survive any restructuring of that loop: every
// index / unwrap / arithmetic obligation of the body, for arbitrary reader contents — no loop invariant, so nothing here refers to
// the loop's variables.  (R4v turns a `windows(K).any(..)` chain, which Verus cannot take, into the equivalent while loop.)
#[verifier::external_body]
fn read_u32s<R: Read>(reader: &mut R, vs: &mut Vec<u32>) -> (r: Result<(), ChunkCacheError>)
    ensures final(reader).bytes() == old(reader).bytes(), final(vs)@.len() == old(vs)@.len(), r is Err ==> r matches Err(ChunkCacheError::IO),
{ unimplemented!() }
impl CacheFileHeader {
    // R12 generic narrowing: `new<T: Into<Vec<u32>>>` at the instantiation used (`T = Vec<u32>`, `into` is the identity)
    fn new(chunk_byte_indices: Vec<u32>) -> (r: Self) ensures r.chunk_byte_indices == chunk_byte_indices { Self { chunk_byte_indices } }
//@ extract chunk_cache/src/disk/cache_file_header.rs in `impl CacheFileHeader` fn deserialize
//@ ret r
//@ rules cacheacct.R4v
//@ optsubst `std::io::SeekFrom::Start(0)` => `SeekFrom::Start(0)` :: R11 stub type path
//@ prefix
    #[verifier::exec_allows_no_decreases_clause]
//@ contract
        ensures r is Ok || r is Err,    // the content of this contract is the body's own panic obligations (index, unwrap, arithmetic), for any file content
//@ end
}
} // verus!
fn main() {}
