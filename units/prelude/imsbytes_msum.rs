// ---- U-IMSBYTES prelude: a BTreeMap's entries in iteration order, and sums over the values of a map (msum) / along the key order
// (ssum).  Copied VERBATIM from units/U-SHWRITE.rs (lines 163-203 and 1156-1256 there: axiom_merklehash_total_order, iter_entries, own,
// is_entries, lemma_entries_from_iter, msum, ssum and their lemmas) so that the byte totals are sums of the same kind as U-SHWRITE's
// size counter invariant.  Check: every line below occurs unchanged in U-SHWRITE.rs.
// ASSUMED (trusted axiom): `Eq`/`PartialOrd`/`Ord` of DataHash satisfy vstd's ordering laws, i.e. std's BTreeMap behaves as an
// ordered map for this key type.  (`Ord::cmp` is `self.0.cmp(&other.0)`, lexicographic on four u64 words: a total order.)
#[verifier::external_body]
proof fn axiom_merklehash_total_order() ensures vstd::laws_cmp::obeys_cmp::<MerkleHash>() {}

// ---- a BTreeMap's entries in iteration order -----------------------------------------------------------------------------
// what vstd's specification of `BTreeMap::iter` gives for the sequence of items the iterator yields
spec fn iter_entries<V>(r: Seq<(&MerkleHash, &V)>, m: Map<MerkleHash, V>) -> bool {
    &&& r.len() == m.len()
    &&& increasing_seq(r.map_values(|kv: (&MerkleHash, &V)| *kv.0))
    &&& forall|i: int| 0 <= i < r.len() ==> m.contains_key(*(#[trigger] r[i]).0) && m[*r[i].0] == *r[i].1
    &&& forall|k: MerkleHash| m.contains_key(k) ==> exists|i: int| 0 <= i < r.len() && *(#[trigger] r[i]).0 == k
}
spec fn own<V>(r: Seq<(&MerkleHash, &V)>) -> Seq<(MerkleHash, V)> { Seq::new(r.len(), |i: int| (*r[i].0, *r[i].1)) }
// `s` lists the entries of `m` in strictly increasing hash order (lexicographic on the four words = `Ord for DataHash`)
spec fn is_entries<V>(s: Seq<(MerkleHash, V)>, m: Map<MerkleHash, V>) -> bool {
    &&& s.len() == m.len()
    &&& forall|i: int, j: int| 0 <= i < j < s.len() ==> hash_lt((#[trigger] s[i]).0, (#[trigger] s[j]).0)
    &&& forall|i: int| 0 <= i < s.len() ==> m.contains_key((#[trigger] s[i]).0) && m[s[i].0] == s[i].1
    &&& forall|k: MerkleHash| m.contains_key(k) ==> exists|i: int| 0 <= i < s.len() && (#[trigger] s[i]).0 == k
}
proof fn lemma_entries_from_iter<V>(r: Seq<(&MerkleHash, &V)>, m: Map<MerkleHash, V>)
    requires iter_entries(r, m),
    ensures is_entries(own(r), m),
{
    let s = own(r);
    let ks = r.map_values(|kv: (&MerkleHash, &V)| *kv.0);
    axiom_merklehash_total_order();
    axiom_increasing_seq_meaning::<MerkleHash>(ks);
    assert forall|i: int, j: int| 0 <= i < j < s.len() implies hash_lt((#[trigger] s[i]).0, (#[trigger] s[j]).0) by {
        assert(ks[i] == s[i].0 && ks[j] == s[j].0);
        assert(vstd::std_specs::cmp::OrdSpec::cmp_spec(&ks[i], &ks[j]) == Ordering::Less);
    }
    assert forall|i: int| 0 <= i < s.len() implies m.contains_key((#[trigger] s[i]).0) && m[s[i].0] == s[i].1 by {
        assert(m.contains_key(*r[i].0));
    }
    assert forall|k: MerkleHash| m.contains_key(k) implies exists|i: int| 0 <= i < s.len() && (#[trigger] s[i]).0 == k by {
        let i = choose|i: int| 0 <= i < r.len() && *(#[trigger] r[i]).0 == k;
        assert(s[i].0 == k);
    }
}
// sum of c over the values of a (finite) map
spec fn msum<V>(m: Map<MerkleHash, V>, c: spec_fn(V) -> int) -> int
    decreases m.len()
{
    if m.len() == 0 { 0 } else {
        let k = choose|k: MerkleHash| m.contains_key(k);
        if m.contains_key(k) { c(m[k]) + msum(m.remove(k), c) } else { 0 }
    }
}
// the sum does not depend on which key is taken out first
proof fn lemma_msum_remove<V>(m: Map<MerkleHash, V>, c: spec_fn(V) -> int, k: MerkleHash)
    requires m.contains_key(k),
    ensures msum(m, c) == c(m[k]) + msum(m.remove(k), c),
    decreases m.len(),
{
    assert(m.dom().contains(k));
    assert(m.len() > 0) by { if m.len() == 0 { m.dom().lemma_len0_is_empty(); assert(false); } }
    let k0 = choose|k0: MerkleHash| m.contains_key(k0);
    if k0 != k {
        lemma_msum_remove(m.remove(k0), c, k);
        lemma_msum_remove(m.remove(k), c, k0);
        assert(m.remove(k0).remove(k) =~= m.remove(k).remove(k0));
    }
}
proof fn lemma_msum_insert<V>(m: Map<MerkleHash, V>, c: spec_fn(V) -> int, k: MerkleHash, v: V)
    ensures msum(m.insert(k, v), c) == msum(m, c) + c(v) - (if m.contains_key(k) { c(m[k]) } else { 0 }),
{
    let m1 = m.insert(k, v);
    lemma_msum_remove(m1, c, k);
    if m.contains_key(k) {
        lemma_msum_remove(m, c, k);
        assert(m1.remove(k) =~= m.remove(k));
    } else {
        assert(m1.remove(k) =~= m);
    }
}
proof fn lemma_msum_ge<V>(m: Map<MerkleHash, V>, c: spec_fn(V) -> int, k: MerkleHash)
    requires m.contains_key(k), forall|v: V| #[trigger] c(v) >= 0,
    ensures msum(m, c) >= c(m[k]),
{
    lemma_msum_remove(m, c, k);
    lemma_msum_nonneg(m.remove(k), c);
}
proof fn lemma_msum_nonneg<V>(m: Map<MerkleHash, V>, c: spec_fn(V) -> int)
    requires forall|v: V| #[trigger] c(v) >= 0,
    ensures msum(m, c) >= 0,
    decreases m.len(),
{
    if m.len() != 0 {
        let k = choose|k: MerkleHash| m.contains_key(k);
        if m.contains_key(k) { lemma_msum_nonneg(m.remove(k), c); }
    }
}
// ... and equals the sum along the key order
spec fn ssum<V>(s: Seq<(MerkleHash, V)>, c: spec_fn(V) -> int, k: int) -> int decreases k {
    if k <= 0 { 0 } else { ssum(s, c, k - 1) + c(s[k - 1].1) }
}
proof fn lemma_ssum_prefix<V>(s1: Seq<(MerkleHash, V)>, s2: Seq<(MerkleHash, V)>, c: spec_fn(V) -> int, k: int)
    requires 0 <= k <= s1.len(), k <= s2.len(), forall|j: int| 0 <= j < k ==> s1[j] == s2[j],
    ensures ssum(s1, c, k) == ssum(s2, c, k),
    decreases k,
{
    if k > 0 { lemma_ssum_prefix(s1, s2, c, k - 1); }
}
proof fn lemma_ssum_mono<V>(s: Seq<(MerkleHash, V)>, c: spec_fn(V) -> int, a: int, b: int)
    requires 0 <= a <= b <= s.len(), forall|v: V| #[trigger] c(v) >= 0,
    ensures 0 <= ssum(s, c, a) <= ssum(s, c, b),
    decreases b,
{
    if a < b { lemma_ssum_mono(s, c, a, b - 1); } else if a > 0 { lemma_ssum_mono(s, c, a - 1, a - 1); }
}
proof fn lemma_msum_entries<V>(s: Seq<(MerkleHash, V)>, m: Map<MerkleHash, V>, c: spec_fn(V) -> int)
    requires is_entries(s, m),
    ensures msum(m, c) == ssum(s, c, s.len() as int),
    decreases s.len(),
{
    if s.len() == 0 {
    } else {
        let n = s.len() as int; let k = s[n - 1].0; let s2 = s.drop_last(); let m2 = m.remove(k);
        assert(m.contains_key(k));
        lemma_msum_remove(m, c, k);
        assert forall|i: int| 0 <= i < n - 1 implies (#[trigger] s[i]).0 != k by {
            assert(hash_lt(s[i].0, s[n - 1].0));
            lemma_hash_order_total(s[i].0, k);
        }
        assert(is_entries(s2, m2)) by {
            assert forall|i: int| 0 <= i < s2.len() implies m2.contains_key((#[trigger] s2[i]).0) && m2[s2[i].0] == s2[i].1 by {
                assert(s2[i] == s[i]);
            }
            assert forall|q: MerkleHash| m2.contains_key(q) implies exists|i: int| 0 <= i < s2.len() && (#[trigger] s2[i]).0 == q by {
                let i = choose|i: int| 0 <= i < s.len() && (#[trigger] s[i]).0 == q;
                assert(s2[i] == s[i]);
            }
            assert forall|i: int, j: int| 0 <= i < j < s2.len() implies hash_lt((#[trigger] s2[i]).0, (#[trigger] s2[j]).0) by {
                assert(s2[i] == s[i] && s2[j] == s[j]);
            }
        }
        lemma_msum_entries(s2, m2, c);
        lemma_ssum_prefix(s2, s, c, n - 1);
    }
}
