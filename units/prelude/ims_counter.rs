// ---- shared by U-SHWRITE and U-IMS: what `MDBInMemoryShard::add_cas_block` does to `cas_content` and to the size counter ------------
// (needs in scope: MerkleHash, the extracted structs CASChunkSequenceHeader / CASChunkSequenceEntry / MDBCASInfo, std::sync::Arc)
// bytes one xorb contributes to the serialized shard: its block (48-byte header + 48 per chunk), its cas-lookup entry (12) and one
// chunk-lookup entry (16) per chunk
spec fn cas_contrib(b: MDBCASInfo) -> int { (48 + 48 * b.chunks@.len() + 12 + 16 * b.chunks@.len()) as int }
// precondition on the counter: it holds at least the contribution of the block being replaced (true under the counter invariant)
spec fn add_cas_counter_pre(cas0: Map<MerkleHash, Arc<MDBCASInfo>>, size0: u64, block: MDBCASInfo) -> bool {
    let h = block.metadata.cas_hash;
    &&& block.chunks@.len() <= u32::MAX
    &&& cas0.contains_key(h) ==> cas0[h].chunks@.len() <= u32::MAX && size0 >= cas_contrib(*cas0[h])
    &&& size0 + cas_contrib(block) <= u64::MAX
}
// postcondition: the block is stored under its own hash (replacing a block with the same hash), every other entry is untouched,
// and the counter grows by the new block's contribution minus the contribution of the block it replaced
spec fn add_cas_counter_post(cas0: Map<MerkleHash, Arc<MDBCASInfo>>, size0: u64, cas1: Map<MerkleHash, Arc<MDBCASInfo>>, size1: u64,
        block: MDBCASInfo) -> bool {
    let h = block.metadata.cas_hash;
    &&& cas1.dom() =~= cas0.dom().insert(h) && *cas1[h] == block
    &&& forall|k: MerkleHash| k != h && #[trigger] cas0.contains_key(k) ==> cas1[k] == cas0[k]
    &&& size1 == size0 + cas_contrib(block) - (if cas0.contains_key(h) { cas_contrib(*cas0[h]) } else { 0 })
}
