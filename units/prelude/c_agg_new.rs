// contract of DataAggregator::new - ONE text, included by U-AGG (where it is proved for the extracted body) and by U-DEDUP (where
// FileDeduper::finalize is verified against it as a callee contract)
        requires
            // what FileDeduper::finalize hands over (U-DEDUP istruct)
            chunks_ok(chunks@), sum_len(hashes(chunks@)) <= usize::MAX,
            segs_ok(pending_file_info.segments@, hashes(chunks@)),
            ire_ok(internally_referencing_entries@, pending_file_info.segments@),
        ensures
            r.agg_wf(), r.chunks == chunks, r.num_bytes == sum_len(hashes(chunks@)),
            r.pending_file_info@ =~= seq![(pending_file_info, internally_referencing_entries)],
            /*@C01*/ r.den(0) == flatten(pending_file_info.segments@, hashes(chunks@)),
