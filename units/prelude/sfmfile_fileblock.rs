// ---- U-SFMFILE prelude: the file-info record that starts at a byte position of a serialized shard ---------------------------------
// Same vocabulary, same text as U-SHSCAN's (record decoders of prelude/shscan_io.rs; `has_verif`, `has_ext`, `following`,
// `file_block_ok` of U-SHSCAN.rs, where `MDBFileInfo::deserialize` is PROVED to return a record satisfying `file_block_ok`).
// It is a fragment of its own because prelude/shscan_io.rs ties the decoders to its reader stub `VxSR` and to a unit-struct
// `MDBShardError`, which cannot live next to the reader trait of prelude/isearch_specs.rs that the lookup functions need.
// Requires: structs FileDataSequenceHeader / FileDataSequenceEntry / FileVerificationEntry / FileMetadataExt / MDBFileInfo,
// consts MDB_FILE_FLAG_VERIFICATION_MASK / MDB_FILE_FLAG_METADATA_EXT_MASK, type MerkleHash, `bookend_hash()` (prelude/shq_vocab.rs).
// decoders of a 48-byte record (field order checked against `serialize` by Kani unit K-ENTRYCODEC); the record that starts at
// byte p of `data` is the decoding of those 48 bytes — a decoder depends on nothing but the record's own bytes
uninterp spec fn dec_file_hdr(b: Seq<u8>) -> FileDataSequenceHeader;
uninterp spec fn dec_file_entry(b: Seq<u8>) -> FileDataSequenceEntry;
uninterp spec fn dec_verif(b: Seq<u8>) -> FileVerificationEntry;
uninterp spec fn dec_ext(b: Seq<u8>) -> FileMetadataExt;
spec fn file_hdr_at(data: Seq<u8>, p: int) -> FileDataSequenceHeader { dec_file_hdr(data.subrange(p, p + 48)) }
spec fn file_entry_at(data: Seq<u8>, p: int) -> FileDataSequenceEntry { dec_file_entry(data.subrange(p, p + 48)) }
spec fn verif_at(data: Seq<u8>, p: int) -> FileVerificationEntry { dec_verif(data.subrange(p, p + 48)) }
spec fn ext_at(data: Seq<u8>, p: int) -> FileMetadataExt { dec_ext(data.subrange(p, p + 48)) }
// the all-ones hash that ends a section: `bookend_hash()` of prelude/shq_vocab.rs (include that fragment first)

spec fn has_verif(h: FileDataSequenceHeader) -> bool { h.file_flags & MDB_FILE_FLAG_VERIFICATION_MASK != 0 }
spec fn has_ext(h: FileDataSequenceHeader) -> bool { h.file_flags & MDB_FILE_FLAG_METADATA_EXT_MASK != 0 }
// number of 48-byte records after the header of a file block: entries, verification entries, metadata-ext
spec fn following(h: FileDataSequenceHeader) -> int {
    (if has_verif(h) { 2 * h.num_entries } else { h.num_entries as int }) + (if has_ext(h) { 1int } else { 0 })
}
// the full file block at p: header, data entries, verification entries (iff flagged), metadata-ext (iff flagged)
spec fn file_block_ok(data: Seq<u8>, p: int, f: MDBFileInfo) -> bool {
    let n = f.metadata.num_entries as int;
    &&& f.metadata == file_hdr_at(data, p)
    &&& f.segments@.len() == n && forall|j: int| 0 <= j < n ==> #[trigger] f.segments@[j] == file_entry_at(data, p + 48 + 48 * j)
    &&& f.verification@.len() == (if has_verif(f.metadata) { n } else { 0 })
    &&& forall|j: int| 0 <= j < f.verification@.len() ==> #[trigger] f.verification@[j] == verif_at(data, p + 48 + 48 * n + 48 * j)
    &&& f.metadata_ext == (if has_ext(f.metadata) { Some(ext_at(data, p + 48 + 48 * (following(f.metadata) - 1))) } else { None::<FileMetadataExt> })
}
