// shared by U-SFMQ (requires it) and U-SHREG (proves register_shards preserves it)
// registration invariant of a collection (established by `register_shards`: proved preserved in U-SHREG): every table entry names a
// shard of THIS collection, that shard's footer key is the collection's key, and the position is one the shard's own
// chunk lookup table may name (U-SHQ `valid_pos`)
spec fn coll_wf(c: KeyedShardCollection) -> bool {
    forall|k: u64| c.chunk_lookup@.contains_key(k) ==> {
        let e = #[trigger] c.chunk_lookup@[k];
        &&& (e.shard_index as int) < c.shard_list@.len()
        &&& c.shard_list@[e.shard_index as int].shard.metadata.chunk_hash_hmac_key == c.hmac_key
        &&& direct_pre(file_bytes(*c.shard_list@[e.shard_index as int]), c.shard_list@[e.shard_index as int].shard, e.cas_start_index, e.cas_chunk_offset as u32)
    }
}
// the invariant over the whole bookkeeper's collection list
spec fn colls_wf(cs: Seq<KeyedShardCollection>) -> bool {
    forall|i: int| 0 <= i < cs.len() ==> coll_wf(#[trigger] cs[i])
}
