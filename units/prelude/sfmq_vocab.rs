// shared by U-SFMQ (requires it) and U-SHREG (proves register_shards preserves it)
// registration invariant of a collection (established by `register_shards`: proved preserved in U-SHREG): every table entry names a
// shard of THIS collection, that shard's footer key is the collection's key, and the position is one the shard's own
// chunk lookup table may name (U-SHQ `valid_pos`)
spec fn coll_wf(c: KeyedShardCollection) -> bool { coll_wf_parts(c.hmac_key, c.shard_list@, c.chunk_lookup@) }
spec fn coll_wf_parts(key: MerkleHash, shards: Seq<Arc<MDBShardFile>>, lookup: Map<u64, ChunkCacheElement>) -> bool {
    forall|k: u64| lookup.contains_key(k) ==> {
        let e = #[trigger] lookup[k];
        &&& (e.shard_index as int) < shards.len()
        &&& shards[e.shard_index as int].shard.metadata.chunk_hash_hmac_key == key
        &&& direct_pre(file_bytes(*shards[e.shard_index as int]), shards[e.shard_index as int].shard, e.cas_start_index, e.cas_chunk_offset as u32)
    }
}
// the invariant over the whole bookkeeper's collection list
spec fn colls_wf(cs: Seq<KeyedShardCollection>) -> bool {
    forall|i: int| 0 <= i < cs.len() ==> coll_wf(#[trigger] cs[i])
}
