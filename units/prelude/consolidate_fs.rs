// ---- U-CONSOLIDATE prelude: hash-set key model, paths, file system with ghost state, shard I/O stubs -----------------
impl std::hash::Hash for MerkleHash {
    #[verifier::external_body]
    fn hash<H: std::hash::Hasher>(&self, state: &mut H) { unimplemented!() }
}
// ASSUMED: `Hash`/`Eq` of DataHash are consistent and deterministic (Hash uses word 0, Eq all words; K-HASHBYTES)
#[verifier::external_body]
pub proof fn axiom_merklehash_key_model() ensures vstd::std_specs::hash::obeys_key_model::<MerkleHash>() {}

// stands for std::path::{Path, PathBuf}; SystemTime is opaque
pub struct VxPath { pub id: int }
impl VxPath {
    #[verifier::external_body]
    pub fn to_path_buf(&self) -> (r: VxPath) ensures r == *self { unimplemented!() }
}
pub struct VxTime { pub t: u64 }

// the file of the shard with content hash `h` in directory `dir`:  dir / (hex(h) + ".mdb")
pub uninterp spec fn path_of(dir: VxPath, h: MerkleHash) -> VxPath;
// ASSUMED: the hex file name is injective in the hash
#[verifier::external_body]
pub proof fn axiom_path_of_injective(dir: VxPath, h1: MerkleHash, h2: MerkleHash)
    ensures path_of(dir, h1) == path_of(dir, h2) ==> h1 == h2 {}

// records (file and xorb entries, as abstract ids) of the shard whose content hash is `h`, and of a serialized shard
pub uninterp spec fn recs_of(h: MerkleHash) -> Set<int>;
pub uninterp spec fn data_recs(bytes: Seq<u8>) -> Set<int>;
// a file found under a hash name holds the shard of that hash (C10's "names equal their content hash", as an input fact)
pub open spec fn named_content(p: VxPath, bytes: Seq<u8>) -> bool {
    forall|dir: VxPath, h: MerkleHash| p == #[trigger] path_of(dir, h) ==> data_recs(bytes) == recs_of(h)
}

pub struct MDBShardError;
pub type Result<T> = std::result::Result<T, MDBShardError>;

// file system: which paths exist, and the log of paths removed through this handle
pub struct VxFs { pub exists: Ghost<Set<VxPath>>, pub removed: Ghost<Set<VxPath>> }
pub struct VxFile { pub path: Ghost<VxPath>, pub bytes: Ghost<Seq<u8>> }
pub struct VxCursor { pub data: Ghost<Seq<u8>> }
impl VxCursor {
    #[verifier::external_body]
    pub fn new(d: &Vec<u8>) -> (r: VxCursor) ensures r.data@ == d@ { unimplemented!() }
}
impl VxFile {
    // std::io::Read::read_to_end: appends the whole file
    #[verifier::external_body]
    pub fn read_to_end(&mut self, buf: &mut Vec<u8>) -> (r: Result<usize>)
        ensures r is Ok ==> final(buf)@ == old(buf)@ + old(self).bytes@
    { unimplemented!() }
}
impl VxFs {
    // std::fs::File::open
    #[verifier::external_body]
    fn open(&self, p: &VxPath) -> (r: Result<VxFile>)
        ensures r matches Ok(f) ==> self.exists@.contains(*p) && f.path@ == *p && named_content(*p, f.bytes@)
    { unimplemented!() }
    // std::fs::remove_file
    #[verifier::external_body]
    fn remove_file(&mut self, p: &VxPath) -> (r: Result<()>)
        ensures
            r is Ok ==> final(self).exists@ == old(self).exists@.remove(*p) && final(self).removed@ == old(self).removed@.insert(*p),
            r is Err ==> final(self).exists@ == old(self).exists@ && final(self).removed@ == old(self).removed@,
    { unimplemented!() }
    // MDBShardFile::write_out_from_reader: writes the bytes to a temp file, renames it to its content-hash name, loads it
    #[verifier::external_body]
    fn write_out_from_reader(&mut self, target_directory: &VxPath, reader: &mut VxCursor) -> (r: Result<Arc<MDBShardFile>>)
        ensures
            final(self).removed@ == old(self).removed@,
            r matches Ok(f) ==> f.path == path_of(*target_directory, f.shard_hash)
                && recs_of(f.shard_hash) == data_recs(old(reader).data@)
                && final(self).exists@ == old(self).exists@.insert(f.path),
            r is Err ==> final(self).exists@ == old(self).exists@,
    { unimplemented!() }
    // MDBShardFile::load_all_valid: handles of the hash-named shard files present in the directory, each file once
    #[verifier::external_body]
    fn load_all_valid(&self, path: &VxPath) -> (r: Result<Vec<Arc<MDBShardFile>>>)
        ensures r matches Ok(v) ==> loaded_wf(*path, v@, self.exists@)
    { unimplemented!() }
}
// set_operations::shard_set_union (U-SETOPS covers its per-record decisions, not the streaming loop): ASSUMED to produce a
// shard holding exactly the records of both inputs
#[verifier::external_body]
pub fn shard_set_union(s1: &MDBShardInfo, r1: &mut VxCursor, s2: &MDBShardInfo, r2: &mut VxCursor, out: &mut Vec<u8>) -> (r: Result<MDBShardInfo>)
    ensures r is Ok ==> data_recs(final(out)@) == data_recs(old(r1).data@).union(data_recs(old(r2).data@))
{ unimplemented!() }

pub struct MDBShardInfo { pub size: u64 }
impl Clone for MDBShardInfo {
    #[verifier::external_body]
    fn clone(&self) -> (r: MDBShardInfo) ensures r == *self { unimplemented!() }
}
impl MDBShardInfo {
    #[verifier::external_body]
    pub fn num_bytes(&self) -> (r: u64) ensures r == self.size { unimplemented!() }
}
