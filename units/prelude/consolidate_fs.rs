// ---- U-CONSOLIDATE prelude: hash-set key model, paths, file system with ghost state, shard I/O stubs -----------------
impl std::hash::Hash for MerkleHash {
    #[verifier::external_body]
    fn hash<H: std::hash::Hasher>(&self, state: &mut H) { unimplemented!() }
}
// ASSUMED: `Hash`/`Eq` of DataHash are consistent and deterministic (Hash uses word 0, Eq all words; K-HASHBYTES)
#[verifier::external_body]
pub proof fn axiom_merklehash_key_model() ensures vstd::std_specs::hash::obeys_key_model::<MerkleHash>() {}

// stands for std::path::{Path, PathBuf}; SystemTime is opaque
pub struct VxPath { pub id: int }
impl Clone for VxPath { #[verifier::external_body] fn clone(&self) -> (r: VxPath) ensures r == *self { unimplemented!() } }
impl Copy for VxPath {}  // only so that ghost code may name a path twice; the extracted code copies paths with to_path_buf()
impl VxPath {
    #[verifier::external_body]
    pub fn to_path_buf(&self) -> (r: VxPath) ensures r == *self { unimplemented!() }
}
pub struct VxTime { pub t: u64 }

// the file of the shard with content hash `h` in directory `dir`:  dir / (hex(h) + ".mdb")
pub uninterp spec fn path_of(dir: VxPath, h: MerkleHash) -> VxPath;
// ASSUMED: the hex file name is injective in the hash
#[verifier::external_body]
pub proof fn axiom_path_of_injective(dir: VxPath, h1: MerkleHash, h2: MerkleHash)
    ensures path_of(dir, h1) == path_of(dir, h2) ==> h1 == h2 {}

// records (file and xorb entries, as abstract ids) of the shard whose content hash is `h`, and of a serialized shard
pub uninterp spec fn recs_of(h: MerkleHash) -> Set<int>;
pub uninterp spec fn data_recs(bytes: Seq<u8>) -> Set<int>;
// merklehash::compute_data_hash (the name HashedWrite derives for what was written)
pub uninterp spec fn data_hash(bytes: Seq<u8>) -> MerkleHash;
// the complete file with these bytes now stands under `p`; no other file of the final-name view changed
pub open spec fn written(a: VxFs, b: VxFs, p: VxPath, bytes: Seq<u8>) -> bool {
    b.exists@ == a.exists@.insert(p) && b.content@ == a.content@.insert(p, data_recs(bytes))
}
pub struct MDBShardError;
pub type Result<T> = std::result::Result<T, MDBShardError>;

// file system (final names only): which paths exist, the records stored in each file, the log of paths removed through this
// handle, and `need` = the records that were retrievable when the operation started (C19's reference set)
pub struct VxFs { pub exists: Ghost<Set<VxPath>>, pub content: Ghost<Map<VxPath, Set<int>>>, pub removed: Ghost<Set<VxPath>>, pub need: Ghost<Set<int>> }
pub struct VxFile { pub path: Ghost<VxPath>, pub bytes: Ghost<Seq<u8>> }
pub struct VxCursor { pub data: Ghost<Seq<u8>> }
// CRASH INVARIANT (process-crash model: a crash happens between two file-system operations): every record that was retrievable
// before the operation is stored in some existing file.  Every mutating primitive below requires and re-establishes it, so it
// holds at every crash point of any code that touches the file system only through them.
pub open spec fn ci(fs: VxFs) -> bool {
    forall|rec: int| #[trigger] fs.need@.contains(rec) ==> exists|p: VxPath| fs.exists@.contains(p) && #[trigger] fs.content@[p].contains(rec)
}
// the records of the file at `p` are, right now, all stored in ANOTHER existing file
pub open spec fn covered_elsewhere(fs: VxFs, p: VxPath) -> bool {
    exists|p2: VxPath| p2 != p && fs.exists@.contains(p2) && fs.content@[p].subset_of(#[trigger] fs.content@[p2])
}
// the two `ensures ci(final)` below are consequences of the stated state change and preconditions (proved here, not assumed)
pub proof fn lemma_remove_keeps_ci(fs: VxFs, fs2: VxFs, p: VxPath)
    requires ci(fs), covered_elsewhere(fs, p), fs2.exists@ == fs.exists@.remove(p), fs2.content@ == fs.content@, fs2.need@ == fs.need@,
    ensures ci(fs2),
{
    let p2 = choose|p2: VxPath| p2 != p && fs.exists@.contains(p2) && fs.content@[p].subset_of(#[trigger] fs.content@[p2]);
    assert forall|rec: int| #[trigger] fs2.need@.contains(rec) implies exists|q: VxPath| fs2.exists@.contains(q) && #[trigger] fs2.content@[q].contains(rec) by {
        let q = choose|q: VxPath| fs.exists@.contains(q) && #[trigger] fs.content@[q].contains(rec);
        if q == p { assert(fs2.exists@.contains(p2) && fs2.content@[p2].contains(rec)); } else { assert(fs2.exists@.contains(q) && fs2.content@[q].contains(rec)); }
    }
}
pub proof fn lemma_write_keeps_ci(fs: VxFs, fs2: VxFs, p: VxPath, recs: Set<int>)
    requires ci(fs), fs2.exists@ == fs.exists@.insert(p), fs2.content@ == fs.content@.insert(p, recs), fs2.need@ == fs.need@,
        fs.exists@.contains(p) ==> fs.content@[p].subset_of(recs),
    ensures ci(fs2),
{
    assert forall|rec: int| #[trigger] fs2.need@.contains(rec) implies exists|q: VxPath| fs2.exists@.contains(q) && #[trigger] fs2.content@[q].contains(rec) by {
        let q = choose|q: VxPath| fs.exists@.contains(q) && #[trigger] fs.content@[q].contains(rec);
        if q == p { assert(fs2.content@[p].contains(rec)); } else { assert(fs2.exists@.contains(q) && fs2.content@[q].contains(rec)); }
    }
}
impl VxCursor {
    #[verifier::external_body]
    pub fn new(d: &Vec<u8>) -> (r: VxCursor) ensures r.data@ == d@ { unimplemented!() }
}
impl VxFile {
    // std::io::Read::read_to_end: appends the whole file
    #[verifier::external_body]
    pub fn read_to_end(&mut self, buf: &mut Vec<u8>) -> (r: Result<usize>)
        ensures r is Ok ==> final(buf)@ == old(buf)@ + old(self).bytes@
    { unimplemented!() }
}
impl VxFs {
    // std::fs::File::open
    #[verifier::external_body]
    fn open(&self, p: &VxPath) -> (r: Result<VxFile>)
        ensures r matches Ok(f) ==> self.exists@.contains(*p) && f.path@ == *p && data_recs(f.bytes@) == self.content@[*p]
    { unimplemented!() }
    // std::fs::remove_file
    #[verifier::external_body]
    fn remove_file(&mut self, p: &VxPath) -> (r: Result<()>)
        requires
            /*@C19,C10*/ ci(*old(self)),
            // a shard file may be deleted only while its records are held by another existing shard file
            // (removing a path that does not exist is a NotFound error and changes nothing)
            /*@C19,C10*/ old(self).exists@.contains(*p) ==> covered_elsewhere(*old(self), *p),
        ensures
            final(self).content@ == old(self).content@, final(self).need@ == old(self).need@, ci(*final(self)),
            r is Ok ==> final(self).exists@ == old(self).exists@.remove(*p) && final(self).removed@ == old(self).removed@.insert(*p),
            r is Err ==> final(self).exists@ == old(self).exists@ && final(self).removed@ == old(self).removed@,
    { unimplemented!() }
    // MDBShardFile::write_out_from_reader: writes the bytes to a temp file, renames it to its content-hash name, loads it.
    // This is the contract PROVED for the real function in U-SHWRITEOUT, restated in this unit's final-name view
    // (`path_of(dir, h)` = abs(dir / shard_name(h)); `exists`/`content` = the hash-named files and the records of their bytes):
    //   Ok(f):  f.shard_hash = data_hash(bytes), f.path = path_of(dir, f.shard_hash), the file f.path EXISTS and holds exactly the bytes,
    //           no other hash-named file appears, disappears or changes;
    //   Err:    nothing changes in the final-name view, or the only change is that the complete file stands under its hash name
    //           (a failure of the final load comes after the rename).
    // ASSUMED on top of it: `recs_of(data_hash(b)) == data_recs(b)` (the records of "the shard with hash h" are those of the bytes hashing
    // to h: no hash collision), and ci(final) (follows with lemma_write_keeps_ci when a file already standing under that hash name holds
    // the same records - again no collision).
    #[verifier::external_body]
    fn write_out_from_reader(&mut self, target_directory: &VxPath, reader: &mut VxCursor) -> (r: Result<Arc<MDBShardFile>>)
        requires /*@C19,C10*/ ci(*old(self)),
        ensures
            final(self).removed@ == old(self).removed@, final(self).need@ == old(self).need@, ci(*final(self)),
            recs_of(data_hash(old(reader).data@)) == data_recs(old(reader).data@),
            r matches Ok(f) ==> f.shard_hash == data_hash(old(reader).data@) && f.path == path_of(*target_directory, f.shard_hash)
                && written(*old(self), *final(self), f.path, old(reader).data@),
            r is Err ==> (final(self).exists@ == old(self).exists@ && final(self).content@ == old(self).content@)
                || written(*old(self), *final(self), path_of(*target_directory, data_hash(old(reader).data@)), old(reader).data@),
    { unimplemented!() }
    // MDBShardFile::load_all_valid: handles of the hash-named shard files present in the directory, each file once; the file
    // under a hash name holds the shard with that hash (C10's "names equal their content hash", as an input fact)
    #[verifier::external_body]
    fn load_all_valid(&self, path: &VxPath) -> (r: Result<Vec<Arc<MDBShardFile>>>)
        ensures r matches Ok(v) ==> loaded_wf(*path, v@, self.exists@) && loaded_content(v@, self.content@)
    { unimplemented!() }
}
// set_operations::shard_set_union (U-SETOPS covers its per-record decisions, not the streaming loop): ASSUMED to produce a
// shard holding exactly the records of both inputs
#[verifier::external_body]
pub fn shard_set_union(s1: &MDBShardInfo, r1: &mut VxCursor, s2: &MDBShardInfo, r2: &mut VxCursor, out: &mut Vec<u8>) -> (r: Result<MDBShardInfo>)
    ensures r is Ok ==> data_recs(final(out)@) == data_recs(old(r1).data@).union(data_recs(old(r2).data@))
{ unimplemented!() }

pub struct MDBShardInfo { pub size: u64 }
impl Clone for MDBShardInfo {
    #[verifier::external_body]
    fn clone(&self) -> (r: MDBShardInfo) ensures r == *self { unimplemented!() }
}
impl MDBShardInfo {
    #[verifier::external_body]
    pub fn num_bytes(&self) -> (r: u64) ensures r == self.size { unimplemented!() }
}
