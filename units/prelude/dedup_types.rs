// ---- shared prelude of the deduplication units (U-DEDUP, U-AGG): stub types, universe, spec functions, lemmas --------------------
global size_of usize == 8;

#[verifier::external_body] pub fn vx_abort() ensures false { panic!() }
// R12: `x.try_into().unwrap()` at the usize -> u32 instantiation; the possible panic is a precondition
pub fn vx_usize_to_u32(x: usize) -> (r: u32) requires x <= u32::MAX ensures r == x { x as u32 }

// MerkleHash: R11 stub of merklehash::MerkleHash ([u64;4] newtype; Copy, Eq, Hash, Default = all zero). What is assumed about it
// (equality is structural, default is the zero hash) is checked on the real crate by the Kani unit K-HASHBYTES.
#[derive(Clone, Copy, Eq, Hash)]
pub struct MerkleHash(pub [u64;4]);
impl vstd::std_specs::cmp::PartialEqSpecImpl for MerkleHash {
    open spec fn obeys_eq_spec() -> bool { true }
    open spec fn eq_spec(&self, other: &Self) -> bool { *self == *other }
}
impl PartialEq for MerkleHash {
    #[verifier::external_body]
    fn eq(&self, other: &Self) -> (r: bool) { unimplemented!() }
}
pub uninterp spec fn zero_hash() -> MerkleHash;
impl Default for MerkleHash {
    #[verifier::external_body]
    fn default() -> (r: MerkleHash) ensures r == zero_hash() { unimplemented!() }
}
pub mod keymodel {
    use vstd::prelude::*;
    use super::MerkleHash;
    // assumed: the derived Hash/Eq of the [u64;4] newtype obey vstd's key model (deterministic hashing, eq = structural equality)
    pub broadcast proof fn axiom_merklehash_key_model()
        ensures #[trigger] vstd::std_specs::hash::obeys_key_model::<MerkleHash>()
    { admit(); }
}
broadcast use keymodel::axiom_merklehash_key_model;

// ---- content addressing (assumed; collision freedom of the chunk hash and of the xorb hash) -------------------------------------
// a chunk's length is a function of its hash; a xorb hash names one chunk-hash list
pub uninterp spec fn len_of(h: MerkleHash) -> nat;
pub uninterp spec fn xorb_chunks(x: MerkleHash) -> Seq<MerkleHash>;

// ---- configuration (R6): arbitrary values constrained only by the predicate below ------------------------------------------------
pub uninterp spec fn spec_MAX_XORB_BYTES() -> usize;
pub uninterp spec fn spec_MAX_XORB_CHUNKS() -> usize;
#[verifier::external_body] pub fn MAX_XORB_BYTES() -> (r: usize) ensures r == spec_MAX_XORB_BYTES() { unimplemented!() }
#[verifier::external_body] pub fn MAX_XORB_CHUNKS() -> (r: usize) ensures r == spec_MAX_XORB_CHUNKS() { unimplemented!() }
// the xorb limits must fit the u32 fields of the shard format (outside this the code's own try_into().unwrap() panics);
// at least one chunk per xorb
pub open spec fn xorb_config_ok() -> bool {
    1 <= spec_MAX_XORB_CHUNKS() <= u32::MAX && 1 <= spec_MAX_XORB_BYTES() <= u32::MAX
}

pub open spec fn sum_len(s: Seq<MerkleHash>) -> nat decreases s.len() {
    if s.len() == 0 { 0 } else { sum_len(s.drop_last()) + len_of(s.last()) }
}
pub proof fn lemma_sum_len_append(a: Seq<MerkleHash>, b: Seq<MerkleHash>)
    ensures sum_len(a + b) == sum_len(a) + sum_len(b)
    decreases b.len()
{
    if b.len() == 0 { assert(a + b =~= a); }
    else {
        lemma_sum_len_append(a, b.drop_last());
        assert((a + b).drop_last() =~= a + b.drop_last());
        assert((a + b).last() == b.last());
    }
}
pub proof fn lemma_sum_len_push(a: Seq<MerkleHash>, h: MerkleHash)
    ensures sum_len(a.push(h)) == sum_len(a) + len_of(h)
{ assert(a.push(h).drop_last() =~= a); }
pub proof fn lemma_sum_len_subrange(s: Seq<MerkleHash>, a: int, b: int)
    requires 0 <= a <= b <= s.len()
    ensures sum_len(s.subrange(a, b)) <= sum_len(s)
{
    assert(s =~= s.subrange(0, a) + s.subrange(a, b) + s.subrange(b, s.len() as int));
    lemma_sum_len_append(s.subrange(0, a) + s.subrange(a, b), s.subrange(b, s.len() as int));
    lemma_sum_len_append(s.subrange(0, a), s.subrange(a, b));
}
pub proof fn lemma_sum_len_split(s: Seq<MerkleHash>, a: int, m: int, b: int)
    requires 0 <= a <= m <= b <= s.len()
    ensures sum_len(s.subrange(a, b)) == sum_len(s.subrange(a, m)) + sum_len(s.subrange(m, b))
{
    assert(s.subrange(a, b) =~= s.subrange(a, m) + s.subrange(m, b));
    lemma_sum_len_append(s.subrange(a, m), s.subrange(m, b));
}
pub proof fn lemma_sum_len_one(s: Seq<MerkleHash>, i: int)
    requires 0 <= i < s.len()
    ensures sum_len(s.subrange(i, i + 1)) == len_of(s[i])
{
    assert(s.subrange(i, i + 1).drop_last() =~= Seq::<MerkleHash>::empty());
    assert(s.subrange(i, i + 1).last() == s[i]);
    assert(sum_len(Seq::<MerkleHash>::empty()) == 0);
}
