// ---- shared by U-CHUNKSER and U-CHUNKDEC: the codec as spec functions (so that decode(serialize(c)) == c composes) ----
// same variants and discriminants as cas_object/src/compression_scheme.rs (`#[repr(u8)]`; Copy)
#[derive(Clone, Copy)]
pub enum CompressionScheme { None = 0, LZ4 = 1, ByteGrouping4LZ4 = 2 }
pub open spec fn scheme_byte(s: CompressionScheme) -> u8 { match s { CompressionScheme::None => 0, CompressionScheme::LZ4 => 1, CompressionScheme::ByteGrouping4LZ4 => 2 } }
pub open spec fn scheme_of_byte(b: u8) -> Option<CompressionScheme> {
    if b == 0 { Some(CompressionScheme::None) } else if b == 1 { Some(CompressionScheme::LZ4) } else if b == 2 { Some(CompressionScheme::ByteGrouping4LZ4) } else { None }
}
pub uninterp spec fn compress_spec(s: CompressionScheme, c: Seq<u8>) -> Seq<u8>;
pub uninterp spec fn decode_compressed(s: CompressionScheme, x: Seq<u8>) -> Seq<u8>;
// what a decoder returns for payload x under scheme s: scheme `None` is the identity (compression_scheme.rs:72)
pub open spec fn decode_spec(s: CompressionScheme, x: Seq<u8>) -> Seq<u8> { if s is None { x } else { decode_compressed(s, x) } }
// how many of the available payload bytes x a READER-based decoder has consumed when it returns Ok (U-CODEC: `None` copies to EOF; the lz4 / bg4
// paths stop at the end mark of the lz4 frame and do not look at bytes behind it).  The slice-based decoder is handed exactly x and ignores such a tail.
pub uninterp spec fn consumed_compressed(s: CompressionScheme, x: Seq<u8>) -> nat;
pub open spec fn consumed_spec(s: CompressionScheme, x: Seq<u8>) -> nat { if s is None { x.len() } else { consumed_compressed(s, x) } }
// the payload is exactly one encoded unit: nothing behind what the reader-based decoder consumes.  Holds for scheme None by definition and for every
// compressor output (U-CODEC: compress_from_slice ensures consumed_spec(s, c) == |c|), hence for every chunk serialize_chunk writes (U-CHUNKSER)
pub open spec fn frame_exact(s: CompressionScheme, x: Seq<u8>) -> bool { consumed_spec(s, x) == x.len() }
pub uninterp spec fn spec_choose(c: Seq<u8>) -> CompressionScheme;
// 3-byte little-endian field
pub open spec fn le3(s: Seq<u8>, o: int) -> nat { (s[o] as nat) + 256 * (s[o + 1] as nat) + 65536 * (s[o + 2] as nat) }
