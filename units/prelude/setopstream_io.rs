// ---- U-SETOPSTREAM prelude: readers that return arbitrary records, a writer that logs the KIND of every record --------
pub struct MDBShardError;
pub type Result<T> = std::result::Result<T, MDBShardError>;
pub enum SeekFrom { Start(u64), End(i64), Current(i64) }

// Reader over a serialized shard.  What it HOLDS is the pair of header lists of its two info sections (`files`, `cas`, each up to
// its bookend — the views of U-SHSCAN / U-SETOPWRAP); `fi` / `ci` count the block headers of each section handed out so far.
// A header read returns the next block header of its section, or the bookend once the list is exhausted; everything else that is
// read (entries, verification, metadata-ext, chunk entries) is an arbitrary value, so every shard content is covered.
// ASSUMED and not modelled: that the seeks / entry reads between two header reads consume exactly one block (the input-side
// counterpart of the output byte accounting proved here).
// `info`: the header + footer stored in that shard (what `load_from_reader` returns for it)
struct VxReader { files: Ghost<Seq<FileDataSequenceHeader>>, fi: Ghost<int>, cas: Ghost<Seq<CASChunkSequenceHeader>>, ci: Ghost<int>, info: Ghost<MDBShardInfo> }
spec fn same_reader(a: VxReader, b: VxReader) -> bool { a.files@ == b.files@ && a.fi@ == b.fi@ && a.cas@ == b.cas@ && a.ci@ == b.ci@ && a.info@ == b.info@ }
impl VxReader {
    // std::io::Seek::rewind: back to the start of the shard
    #[verifier::external_body]
    fn rewind(&mut self) -> (r: Result<()>) ensures final(self).files@ == old(self).files@ && final(self).cas@ == old(self).cas@ && final(self).info@ == old(self).info@ && final(self).fi@ == 0 && final(self).ci@ == 0 { unimplemented!() }
    #[verifier::external_body]
    fn seek(&mut self, pos: SeekFrom) -> (r: Result<u64>) ensures same_reader(*old(self), *final(self)) { unimplemented!() }
}
// the all-ones hash that marks a bookend record; block headers of a section never carry it
uninterp spec fn bookend_hash() -> MerkleHash;
spec fn reader_wf(r: VxReader) -> bool {
    &&& 0 <= r.fi@ <= r.files@.len() && 0 <= r.ci@ <= r.cas@.len()
    &&& forall|k: int| 0 <= k < r.files@.len() ==> (#[trigger] r.files@[k]).file_hash != bookend_hash() && hdr_small(r.files@[k])
    &&& forall|k: int| 0 <= k < r.cas@.len() ==> (#[trigger] r.cas@[k]).cas_hash != bookend_hash()
}

// what a write call put into the output: 48-byte shard header, 48-byte record of the file-info section (header, entry,
// verification entry, metadata-ext, bookend), 48-byte record of the CAS section (header, chunk entry, bookend), one u64,
// one u32, the footer (with the value written)
enum Kind { Hdr, File, Cas, U64, U32, Footer(MDBShardFileFooter) }
// `limit`: capacity of the writer in records — a write that would exceed it fails.  (Environment assumption that bounds the
// output; needed for the u32 index counters and the u64 offsets, see the contract's precondition.)
// `fhdrs` / `chdrs`: the block headers (bookends excluded) written to the file-info / CAS section, in order
struct VxWriter { log: Ghost<Seq<Kind>>, limit: Ghost<nat>, fhdrs: Ghost<Seq<FileDataSequenceHeader>>, chdrs: Ghost<Seq<CASChunkSequenceHeader>> }
spec fn wrote(old_w: VxWriter, new_w: VxWriter, k: Kind) -> bool {
    new_w.log@ == old_w.log@.push(k) && new_w.limit@ == old_w.limit@ && new_w.log@.len() <= new_w.limit@
}
// a write that is not a block header leaves the header logs alone
spec fn same_hdrs(old_w: VxWriter, new_w: VxWriter) -> bool { new_w.fhdrs@ == old_w.fhdrs@ && new_w.chdrs@ == old_w.chdrs@ }

#[verifier::external_body]
fn write_u64(writer: &mut VxWriter, v: u64) -> (r: Result<()>)
    ensures final(writer).limit@ == old(writer).limit@, same_hdrs(*old(writer), *final(writer)), r is Ok ==> wrote(*old(writer), *final(writer), Kind::U64)
{ unimplemented!() }
#[verifier::external_body]
fn write_u32(writer: &mut VxWriter, v: u32) -> (r: Result<()>)
    ensures final(writer).limit@ == old(writer).limit@, same_hdrs(*old(writer), *final(writer)), r is Ok ==> wrote(*old(writer), *final(writer), Kind::U32)
{ unimplemented!() }
#[verifier::external_body]
fn truncate_hash(hash: &MerkleHash) -> (r: u64) { unimplemented!() }
#[verifier::external_body]
fn vx_sort_chunk_lookup(v: &mut Vec<(u64, (u32, u32))>) ensures final(v)@.len() == old(v)@.len() { unimplemented!() }

pub struct MDBShardFileHeader { pub tag: [u8; 32], pub version: u64, pub footer_size: u64 }
impl MDBShardFileHeader {
    #[verifier::external_body]
    fn default() -> (r: Self) { unimplemented!() }
    // writes tag (32) + version (8) + footer_size (8) and returns size_of::<Self>() = 48
    #[verifier::external_body]
    fn serialize(&self, writer: &mut VxWriter) -> (r: Result<usize>)
        ensures final(writer).limit@ == old(writer).limit@, same_hdrs(*old(writer), *final(writer)), r matches Ok(n) ==> n == 48 && wrote(*old(writer), *final(writer), Kind::Hdr)
    { unimplemented!() }
}
impl MDBShardFileFooter {
    // ASSUMED from `impl Default for MDBShardFileFooter` (shard_format.rs:135-157): the three totals start at 0
    #[verifier::external_body]
    fn default() -> (r: Self) ensures r.materialized_bytes == 0, r.stored_bytes == 0, r.stored_bytes_on_disk == 0 { unimplemented!() }
    #[verifier::external_body]
    fn serialize(&self, writer: &mut VxWriter) -> (r: Result<usize>)
        ensures final(writer).limit@ == old(writer).limit@, same_hdrs(*old(writer), *final(writer)), r is Ok ==> wrote(*old(writer), *final(writer), Kind::Footer(*self))
    { unimplemented!() }
}

// input domain: a file block of an input shard has fewer than 2^31 entries (so `num_entries * 2 + 1` fits u32)
spec fn hdr_small(h: FileDataSequenceHeader) -> bool { h.num_entries <= 0x7FFF_FFFF }
impl FileDataSequenceHeader {
    #[verifier::external_body]
    // the next block header of the file section, or the bookend once all have been handed out
    #[verifier::external_body]
    fn deserialize(reader: &mut VxReader) -> (r: Result<Self>)
        requires reader_wf(*old(reader)),
        ensures
            final(reader).files@ == old(reader).files@ && final(reader).cas@ == old(reader).cas@ && final(reader).ci@ == old(reader).ci@ && final(reader).info@ == old(reader).info@,
            r matches Ok(h) ==> hdr_small(h) && (if old(reader).fi@ < old(reader).files@.len() { h == old(reader).files@[old(reader).fi@] && final(reader).fi@ == old(reader).fi@ + 1 }
                else { h.file_hash == bookend_hash() && final(reader).fi@ == old(reader).fi@ }),
            r is Err ==> final(reader).fi@ == old(reader).fi@,
    { unimplemented!() }
    // a block header (not the bookend) is recorded in `fhdrs`
    #[verifier::external_body]
    fn serialize(&self, writer: &mut VxWriter) -> (r: Result<usize>)
        ensures final(writer).limit@ == old(writer).limit@, final(writer).chdrs@ == old(writer).chdrs@,
            r matches Ok(n) ==> n == 48 && wrote(*old(writer), *final(writer), Kind::File)
                && final(writer).fhdrs@ == (if self.file_hash != bookend_hash() { old(writer).fhdrs@.push(*self) } else { old(writer).fhdrs@ }),
            r is Err ==> final(writer).fhdrs@ == old(writer).fhdrs@,
    { unimplemented!() }
    #[verifier::external_body]
    fn bookend() -> (r: Self) ensures r.file_hash == bookend_hash() { unimplemented!() }
    #[verifier::external_body]
    fn is_bookend(&self) -> (r: bool) ensures r == (self.file_hash == bookend_hash()) { unimplemented!() }
    // contract proved for the real function in U-SETOPS (instance I = u32)
    #[verifier::external_body]
    fn new(file_hash: MerkleHash, num_entries: u32, contains_verification: bool, contains_metadata_ext: bool) -> (r: Self)
        ensures r.file_hash == file_hash, r.num_entries == num_entries, r._unused == 0,   // (`_unused: 0` outside cfg(test))
            r.file_flags == (MDB_DEFAULT_FILE_FLAG | (if contains_verification { MDB_FILE_FLAG_WITH_VERIFICATION } else { 0u32 })) | (if contains_metadata_ext { MDB_FILE_FLAG_WITH_METADATA_EXT } else { 0u32 }),
    { unimplemented!() }
    // the two `debug_assert_eq!`s of the real function are taken as an INPUT FACT: two records of the same file have the
    // same number of entries (see notes: release builds do not check it)
    #[verifier::external_body]
    fn verify_same_file(header1: &Self, header2: &Self)
        ensures header1.num_entries == header2.num_entries
    { unimplemented!() }
}
impl FileDataSequenceEntry {
    #[verifier::external_body]
    fn deserialize(reader: &mut VxReader) -> (r: Result<Self>) ensures same_reader(*old(reader), *final(reader)) { unimplemented!() }
    #[verifier::external_body]
    fn serialize(&self, writer: &mut VxWriter) -> (r: Result<usize>)
        ensures final(writer).limit@ == old(writer).limit@, same_hdrs(*old(writer), *final(writer)), r matches Ok(n) ==> n == 48 && wrote(*old(writer), *final(writer), Kind::File)
    { unimplemented!() }
}
impl FileVerificationEntry {
    #[verifier::external_body]
    fn deserialize(reader: &mut VxReader) -> (r: Result<Self>) ensures same_reader(*old(reader), *final(reader)) { unimplemented!() }
    #[verifier::external_body]
    fn serialize(&self, writer: &mut VxWriter) -> (r: Result<usize>)
        ensures final(writer).limit@ == old(writer).limit@, same_hdrs(*old(writer), *final(writer)), r matches Ok(n) ==> n == 48 && wrote(*old(writer), *final(writer), Kind::File)
    { unimplemented!() }
}
impl FileMetadataExt {
    #[verifier::external_body]
    fn deserialize(reader: &mut VxReader) -> (r: Result<Self>) ensures same_reader(*old(reader), *final(reader)) { unimplemented!() }
    #[verifier::external_body]
    fn serialize(&self, writer: &mut VxWriter) -> (r: Result<usize>)
        ensures final(writer).limit@ == old(writer).limit@, same_hdrs(*old(writer), *final(writer)), r matches Ok(n) ==> n == 48 && wrote(*old(writer), *final(writer), Kind::File)
    { unimplemented!() }
}
impl CASChunkSequenceHeader {
    #[verifier::external_body]
    fn deserialize(reader: &mut VxReader) -> (r: Result<Self>)
        requires reader_wf(*old(reader)),
        ensures
            final(reader).files@ == old(reader).files@ && final(reader).cas@ == old(reader).cas@ && final(reader).fi@ == old(reader).fi@ && final(reader).info@ == old(reader).info@,
            r matches Ok(h) ==> (if old(reader).ci@ < old(reader).cas@.len() { h == old(reader).cas@[old(reader).ci@] && final(reader).ci@ == old(reader).ci@ + 1 }
                else { h.cas_hash == bookend_hash() && final(reader).ci@ == old(reader).ci@ }),
            r is Err ==> final(reader).ci@ == old(reader).ci@,
    { unimplemented!() }
    #[verifier::external_body]
    fn serialize(&self, writer: &mut VxWriter) -> (r: Result<usize>)
        ensures final(writer).limit@ == old(writer).limit@, final(writer).fhdrs@ == old(writer).fhdrs@,
            r matches Ok(n) ==> n == 48 && wrote(*old(writer), *final(writer), Kind::Cas)
                && final(writer).chdrs@ == (if self.cas_hash != bookend_hash() { old(writer).chdrs@.push(*self) } else { old(writer).chdrs@ }),
            r is Err ==> final(writer).chdrs@ == old(writer).chdrs@,
    { unimplemented!() }
    #[verifier::external_body]
    fn bookend() -> (r: Self) ensures r.cas_hash == bookend_hash() { unimplemented!() }
    #[verifier::external_body]
    fn is_bookend(&self) -> (r: bool) ensures r == (self.cas_hash == bookend_hash()) { unimplemented!() }
}
impl CASChunkSequenceEntry {
    #[verifier::external_body]
    fn deserialize(reader: &mut VxReader) -> (r: Result<Self>) ensures same_reader(*old(reader), *final(reader)) { unimplemented!() }
    #[verifier::external_body]
    fn serialize(&self, writer: &mut VxWriter) -> (r: Result<usize>)
        ensures final(writer).limit@ == old(writer).limit@, same_hdrs(*old(writer), *final(writer)), r matches Ok(n) ==> n == 48 && wrote(*old(writer), *final(writer), Kind::Cas)
    { unimplemented!() }
}

// std::io::copy from a rewound shard reader: the writer receives that very shard, so its block headers land in the header logs
#[verifier::external_body]
fn vx_io_copy(r: &mut VxReader, w: &mut VxWriter) -> (res: Result<u64>)
    requires old(r).fi@ == 0 && old(r).ci@ == 0,
    ensures final(r).files@ == old(r).files@ && final(r).cas@ == old(r).cas@ && final(r).info@ == old(r).info@,
        res is Ok ==> final(w).fhdrs@ == old(w).fhdrs@ + old(r).files@ && final(w).chdrs@ == old(w).chdrs@ + old(r).cas@,
{ unimplemented!() }
// precondition of `set_operation`: both readers are at the start of well-formed shards and each info is the one of its reader's
// shard (the function seeks with the section offsets of s[i] in reader r[i])
spec fn setop_pre(s0: MDBShardInfo, r0: VxReader, s1: MDBShardInfo, r1: VxReader) -> bool {
    reader_wf(r0) && reader_wf(r1) && r0.fi@ == 0 && r0.ci@ == 0 && r1.fi@ == 0 && r1.ci@ == 0 && s0 == r0.info@ && s1 == r1.info@
}
