// ---- U-SETOPSTREAM prelude: readers that return arbitrary records, a writer that logs the KIND of every record --------
pub struct MDBShardError;
pub type Result<T> = std::result::Result<T, MDBShardError>;
pub enum SeekFrom { Start(u64), End(i64), Current(i64) }

// Readers are stateless here: every read returns an arbitrary value (so the proof covers every input content), seeks are
// no-ops.  What is read never matters for the byte accounting of the OUTPUT.
pub struct VxReader { pub id: u64 }
impl VxReader {
    #[verifier::external_body]
    fn seek(&self, pos: SeekFrom) -> (r: Result<u64>) { unimplemented!() }
}

// what a write call put into the output: 48-byte shard header, 48-byte record of the file-info section (header, entry,
// verification entry, metadata-ext, bookend), 48-byte record of the CAS section (header, chunk entry, bookend), one u64,
// one u32, the footer (with the value written)
enum Kind { Hdr, File, Cas, U64, U32, Footer(MDBShardFileFooter) }
// `limit`: capacity of the writer in records — a write that would exceed it fails.  (Environment assumption that bounds the
// output; needed for the u32 index counters and the u64 offsets, see the contract's precondition.)
struct VxWriter { pub log: Ghost<Seq<Kind>>, pub limit: Ghost<nat> }
spec fn wrote(old_w: VxWriter, new_w: VxWriter, k: Kind) -> bool {
    new_w.log@ == old_w.log@.push(k) && new_w.limit@ == old_w.limit@ && new_w.log@.len() <= new_w.limit@
}

#[verifier::external_body]
fn write_u64(writer: &mut VxWriter, v: u64) -> (r: Result<()>)
    ensures final(writer).limit@ == old(writer).limit@, r is Ok ==> wrote(*old(writer), *final(writer), Kind::U64)
{ unimplemented!() }
#[verifier::external_body]
fn write_u32(writer: &mut VxWriter, v: u32) -> (r: Result<()>)
    ensures final(writer).limit@ == old(writer).limit@, r is Ok ==> wrote(*old(writer), *final(writer), Kind::U32)
{ unimplemented!() }
#[verifier::external_body]
fn truncate_hash(hash: &MerkleHash) -> (r: u64) { unimplemented!() }
#[verifier::external_body]
fn vx_sort_chunk_lookup(v: &mut Vec<(u64, (u32, u32))>) ensures final(v)@.len() == old(v)@.len() { unimplemented!() }

pub struct MDBShardFileHeader { pub tag: [u8; 32], pub version: u64, pub footer_size: u64 }
impl MDBShardFileHeader {
    #[verifier::external_body]
    fn default() -> (r: Self) { unimplemented!() }
    // writes tag (32) + version (8) + footer_size (8) and returns size_of::<Self>() = 48
    #[verifier::external_body]
    fn serialize(&self, writer: &mut VxWriter) -> (r: Result<usize>)
        ensures final(writer).limit@ == old(writer).limit@, r matches Ok(n) ==> n == 48 && wrote(*old(writer), *final(writer), Kind::Hdr)
    { unimplemented!() }
}
impl MDBShardFileFooter {
    // ASSUMED from `impl Default for MDBShardFileFooter` (shard_format.rs:135-157): the three totals start at 0
    #[verifier::external_body]
    fn default() -> (r: Self) ensures r.materialized_bytes == 0, r.stored_bytes == 0, r.stored_bytes_on_disk == 0 { unimplemented!() }
    #[verifier::external_body]
    fn serialize(&self, writer: &mut VxWriter) -> (r: Result<usize>)
        ensures final(writer).limit@ == old(writer).limit@, r is Ok ==> wrote(*old(writer), *final(writer), Kind::Footer(*self))
    { unimplemented!() }
}

// input domain: a file block of an input shard has fewer than 2^31 entries (so `num_entries * 2 + 1` fits u32)
spec fn hdr_small(h: FileDataSequenceHeader) -> bool { h.num_entries <= 0x7FFF_FFFF }
impl FileDataSequenceHeader {
    #[verifier::external_body]
    fn deserialize(reader: &VxReader) -> (r: Result<Self>) ensures r matches Ok(h) ==> hdr_small(h) { unimplemented!() }
    #[verifier::external_body]
    fn serialize(&self, writer: &mut VxWriter) -> (r: Result<usize>)
        ensures final(writer).limit@ == old(writer).limit@, r matches Ok(n) ==> n == 48 && wrote(*old(writer), *final(writer), Kind::File)
    { unimplemented!() }
    #[verifier::external_body]
    fn bookend() -> (r: Self) { unimplemented!() }
    #[verifier::external_body]
    fn is_bookend(&self) -> (r: bool) { unimplemented!() }
    // contract proved for the real function in U-SETOPS (instance I = u32)
    #[verifier::external_body]
    fn new(file_hash: MerkleHash, num_entries: u32, contains_verification: bool, contains_metadata_ext: bool) -> (r: Self)
        ensures r.file_hash == file_hash, r.num_entries == num_entries,
            r.file_flags == (MDB_DEFAULT_FILE_FLAG | (if contains_verification { MDB_FILE_FLAG_WITH_VERIFICATION } else { 0u32 })) | (if contains_metadata_ext { MDB_FILE_FLAG_WITH_METADATA_EXT } else { 0u32 }),
    { unimplemented!() }
    // the two `debug_assert_eq!`s of the real function are taken as an INPUT FACT: two records of the same file have the
    // same number of entries (see notes: release builds do not check it)
    #[verifier::external_body]
    fn verify_same_file(header1: &Self, header2: &Self)
        ensures header1.num_entries == header2.num_entries
    { unimplemented!() }
}
impl FileDataSequenceEntry {
    #[verifier::external_body]
    fn deserialize(reader: &VxReader) -> (r: Result<Self>) { unimplemented!() }
    #[verifier::external_body]
    fn serialize(&self, writer: &mut VxWriter) -> (r: Result<usize>)
        ensures final(writer).limit@ == old(writer).limit@, r matches Ok(n) ==> n == 48 && wrote(*old(writer), *final(writer), Kind::File)
    { unimplemented!() }
}
impl FileVerificationEntry {
    #[verifier::external_body]
    fn deserialize(reader: &VxReader) -> (r: Result<Self>) { unimplemented!() }
    #[verifier::external_body]
    fn serialize(&self, writer: &mut VxWriter) -> (r: Result<usize>)
        ensures final(writer).limit@ == old(writer).limit@, r matches Ok(n) ==> n == 48 && wrote(*old(writer), *final(writer), Kind::File)
    { unimplemented!() }
}
impl FileMetadataExt {
    #[verifier::external_body]
    fn deserialize(reader: &VxReader) -> (r: Result<Self>) { unimplemented!() }
    #[verifier::external_body]
    fn serialize(&self, writer: &mut VxWriter) -> (r: Result<usize>)
        ensures final(writer).limit@ == old(writer).limit@, r matches Ok(n) ==> n == 48 && wrote(*old(writer), *final(writer), Kind::File)
    { unimplemented!() }
}
impl CASChunkSequenceHeader {
    #[verifier::external_body]
    fn deserialize(reader: &VxReader) -> (r: Result<Self>) { unimplemented!() }
    #[verifier::external_body]
    fn serialize(&self, writer: &mut VxWriter) -> (r: Result<usize>)
        ensures final(writer).limit@ == old(writer).limit@, r matches Ok(n) ==> n == 48 && wrote(*old(writer), *final(writer), Kind::Cas)
    { unimplemented!() }
    #[verifier::external_body]
    fn bookend() -> (r: Self) { unimplemented!() }
    #[verifier::external_body]
    fn is_bookend(&self) -> (r: bool) { unimplemented!() }
}
impl CASChunkSequenceEntry {
    #[verifier::external_body]
    fn deserialize(reader: &VxReader) -> (r: Result<Self>) { unimplemented!() }
    #[verifier::external_body]
    fn serialize(&self, writer: &mut VxWriter) -> (r: Result<usize>)
        ensures final(writer).limit@ == old(writer).limit@, r matches Ok(n) ==> n == 48 && wrote(*old(writer), *final(writer), Kind::Cas)
    { unimplemented!() }
}
