// ---- U-SHSTREAM prelude (on top of shscan_io.rs): encoders, streaming copy, callbacks with a ghost log ---------------------
uninterp spec fn enc_file_hdr(h: FileDataSequenceHeader) -> Seq<u8>;
uninterp spec fn enc_cas_hdr(h: CASChunkSequenceHeader) -> Seq<u8>;
// ASSUMED (K-ENTRYCODEC): a header serializes to 48 bytes that deserialize to the same header
#[verifier::external_body]
proof fn axiom_codec_file_hdr(h: FileDataSequenceHeader) ensures enc_file_hdr(h).len() == 48, dec_file_hdr(enc_file_hdr(h)) == h {}
#[verifier::external_body]
proof fn axiom_codec_cas_hdr(h: CASChunkSequenceHeader) ensures enc_cas_hdr(h).len() == 48, dec_cas_hdr(enc_cas_hdr(h)) == h {}

impl FileDataSequenceHeader {
    // `serialize::<Vec<u8>>`: appends the 48-byte encoding
    #[verifier::external_body]
    fn serialize(&self, writer: &mut Vec<u8>) -> (r: Result<usize>)
        ensures r matches Ok(n) ==> n == 48 && final(writer)@ == old(writer)@ + enc_file_hdr(*self)
    { unimplemented!() }
    // all-ones hash, every other field Default (num_entries = 0, flags = 0)
    #[verifier::external_body]
    fn bookend() -> (r: Self) ensures r.file_hash == bookend_hash(), r.num_entries == 0, r.file_flags == 0 { unimplemented!() }
}
impl CASChunkSequenceHeader {
    #[verifier::external_body]
    fn serialize(&self, writer: &mut Vec<u8>) -> (r: Result<usize>)
        ensures r matches Ok(n) ==> n == 48 && final(writer)@ == old(writer)@ + enc_cas_hdr(*self)
    { unimplemented!() }
    #[verifier::external_body]
    fn bookend() -> (r: Self) ensures r.cas_hash == bookend_hash(), r.num_entries == 0 { unimplemented!() }
}
// R7 outline of `copy(&mut reader.take(n), &mut buf)` (std::io::copy from a `Take`): appends the next min(n, remaining) bytes of the
// stream to the buffer and returns how many — a short stream is NOT an error here
#[verifier::external_body]
fn vx_copy_take(reader: &mut VxSR, n: u64, out: &mut Vec<u8>) -> (r: Result<u64>)
    ensures final(reader).data@ == old(reader).data@,
        r matches Ok(c) ==> c <= n && old(reader).pos@ + c <= old(reader).data@.len()
            && final(out)@ == old(out)@ + old(reader).data@.subrange(old(reader).pos@, old(reader).pos@ + c)
            && final(reader).pos@ == old(reader).pos@ + c,
{ unimplemented!() }

// the callbacks handed to the streaming functions (instance `FileFunc = &mut VxFileCb`): the log of the views they were called with
struct VxFileCb { log: Ghost<Seq<MDBFileInfoView>> }
impl VxFileCb {
    #[verifier::external_body]
    fn call(&mut self, v: MDBFileInfoView) -> (r: Result<()>)
        ensures r is Ok ==> final(self).log@ == old(self).log@.push(v)
    { unimplemented!() }
}
struct VxCasCb { log: Ghost<Seq<MDBCASInfoView>> }
impl VxCasCb {
    #[verifier::external_body]
    fn call(&mut self, v: MDBCASInfoView) -> (r: Result<()>)
        ensures r is Ok ==> final(self).log@ == old(self).log@.push(v)
    { unimplemented!() }
}
