// ---- U-SHSTREAM prelude (on top of shscan_io.rs): encoders, streaming copy, callbacks with a ghost log ---------------------
uninterp spec fn enc_file_hdr(h: FileDataSequenceHeader) -> Seq<u8>;
uninterp spec fn enc_cas_hdr(h: CASChunkSequenceHeader) -> Seq<u8>;
// ASSUMED (K-ENTRYCODEC): a header serializes to 48 bytes that deserialize to the same header
#[verifier::external_body]
proof fn axiom_codec_file_hdr(h: FileDataSequenceHeader) ensures enc_file_hdr(h).len() == 48, dec_file_hdr(enc_file_hdr(h)) == h {}
#[verifier::external_body]
proof fn axiom_codec_cas_hdr(h: CASChunkSequenceHeader) ensures enc_cas_hdr(h).len() == 48, dec_cas_hdr(enc_cas_hdr(h)) == h {}

// the bookend records: all-ones hash, every other field Default (no entries, no flags)
uninterp spec fn file_bookend_hdr() -> FileDataSequenceHeader;
uninterp spec fn cas_bookend_hdr() -> CASChunkSequenceHeader;
#[verifier::external_body]
proof fn axiom_bookends() ensures file_bookend_hdr().file_hash == bookend_hash(), file_bookend_hdr().num_entries == 0, file_bookend_hdr().file_flags == 0, cas_bookend_hdr().cas_hash == bookend_hash(), cas_bookend_hdr().num_entries == 0 {}
impl FileDataSequenceHeader {
    // `serialize::<Vec<u8>>`: appends the 48-byte encoding
    #[verifier::external_body]
    fn serialize(&self, writer: &mut Vec<u8>) -> (r: Result<usize>)
        ensures r matches Ok(n) ==> n == 48 && final(writer)@ == old(writer)@ + enc_file_hdr(*self)
    { unimplemented!() }
    // all-ones hash, every other field Default (num_entries = 0, flags = 0)
    #[verifier::external_body]
    fn bookend() -> (r: Self) ensures r == file_bookend_hdr() { unimplemented!() }
}
impl CASChunkSequenceHeader {
    #[verifier::external_body]
    fn serialize(&self, writer: &mut Vec<u8>) -> (r: Result<usize>)
        ensures r matches Ok(n) ==> n == 48 && final(writer)@ == old(writer)@ + enc_cas_hdr(*self)
    { unimplemented!() }
    #[verifier::external_body]
    fn bookend() -> (r: Self) ensures r == cas_bookend_hdr() { unimplemented!() }
}
// R7 outline of `copy(&mut reader.take(n), &mut buf)` (std::io::copy from a `Take`): appends the next min(n, remaining) bytes of the
// stream to the buffer and returns how many — a short stream is NOT an error here
#[verifier::external_body]
fn vx_copy_take(reader: &mut VxSR, n: u64, out: &mut Vec<u8>) -> (r: Result<u64>)
    ensures final(reader).data@ == old(reader).data@,
        r matches Ok(c) ==> c <= n && old(reader).pos@ + c <= old(reader).data@.len()
            && final(out)@ == old(out)@ + old(reader).data@.subrange(old(reader).pos@, old(reader).pos@ + c)
            && final(reader).pos@ == old(reader).pos@ + c,
{ unimplemented!() }

// the callbacks handed to the streaming functions (instance `FileFunc = &mut VxFileCb`): a callback that records the views it is
// called with (an ordinary, verified implementation — nothing assumed)
struct VxFileCb { log: Vec<MDBFileInfoView> }
impl VxFileCb {
    fn call(&mut self, v: MDBFileInfoView) -> (r: Result<()>)
        ensures r is Ok ==> final(self).log@ == old(self).log@.push(v)
    { self.log.push(v); Ok(()) }
}
struct VxCasCb { log: Vec<MDBCASInfoView> }
impl VxCasCb {
    fn call(&mut self, v: MDBCASInfoView) -> (r: Result<()>)
        ensures r is Ok ==> final(self).log@ == old(self).log@.push(v)
    { self.log.push(v); Ok(()) }
}

// decoding a record from an in-memory slice (`X::deserialize(&mut Cursor::new(slice))`): fails only when the slice is shorter than
// the 48-byte record
#[verifier::external_body]
fn vx_file_hdr_from_slice(b: &[u8]) -> (r: Result<FileDataSequenceHeader>)
    ensures b@.len() >= 48 ==> r is Ok, r matches Ok(h) ==> b@.len() >= 48 && h == dec_file_hdr(b@.subrange(0, 48))
{ unimplemented!() }
#[verifier::external_body]
fn vx_cas_hdr_from_slice(b: &[u8]) -> (r: Result<CASChunkSequenceHeader>)
    ensures b@.len() >= 48 ==> r is Ok, r matches Ok(h) ==> b@.len() >= 48 && h == dec_cas_hdr(b@.subrange(0, 48))
{ unimplemented!() }
#[verifier::external_body]
fn vx_file_entry_from_slice(b: &[u8]) -> (r: Result<FileDataSequenceEntry>)
    ensures b@.len() >= 48 ==> r is Ok, r matches Ok(h) ==> b@.len() >= 48 && h == dec_file_entry(b@.subrange(0, 48))
{ unimplemented!() }
impl std::fmt::Debug for MDBShardError {
    #[verifier::external_body]
    fn fmt(&self, f: &mut std::fmt::Formatter<'_>) -> std::fmt::Result { unimplemented!() }
}
uninterp spec fn enc_shard_hdr() -> Seq<u8>;
uninterp spec fn enc_footer(f: MDBShardFileFooter) -> Seq<u8>;
#[verifier::external_body]
proof fn axiom_shard_hdr_len() ensures enc_shard_hdr().len() == 48 {}
impl MDBShardFileHeader {
    #[verifier::external_body]
    fn default() -> (r: Self) { unimplemented!() }
    // writes tag + version + footer size = 48 bytes (the same bytes for every shard)
    #[verifier::external_body]
    fn serialize(&self, writer: &mut Vec<u8>) -> (r: Result<usize>)
        ensures r matches Ok(n) ==> n == 48 && final(writer)@ == old(writer)@ + enc_shard_hdr()
    { unimplemented!() }
}
impl Default for MDBShardFileFooter {
    #[verifier::external_body]
    fn default() -> (r: Self) { unimplemented!() }
}
impl MDBShardFileFooter {
    #[verifier::external_body]
    fn serialize(&self, writer: &mut Vec<u8>) -> (r: Result<usize>)
        ensures r is Ok ==> final(writer)@ == old(writer)@ + enc_footer(*self)
    { unimplemented!() }
}
// R7 outline of `copy(&mut Cursor::new(&self.data), writer)`: appends the whole buffer
#[verifier::external_body]
fn vx_copy_all(data: &Arc<[u8]>, w: &mut Vec<u8>) -> (r: Result<u64>)
    ensures r is Ok ==> final(w)@ == old(w)@ + data@
{ unimplemented!() }
