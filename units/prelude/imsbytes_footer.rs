// ---- U-IMSBYTES prelude: the part of serialize_from's postcondition (U-SHWRITE `shard_post`) that the footer getters read ------------
// Needs in scope: MDBInMemoryShard, MDBShardInfo (extracted structs) and prelude/imsbytes_totals.rs.
// What `MDBShardInfo::serialize_from(writer, mdb)` establishes about the footer `sh.metadata` it returns and writes, as far as the
// getters below read it.  Every conjunct is a conjunct of U-SHWRITE's postcondition `shard_post` (there: nf = sf.len(), nc = sc.len()
// for entry lists of the two maps, i.e. the map sizes; fsz / csz = byte sizes of the file / xorb section including the bookend,
// `file_pos(48, fsec, nf) + 48 - 48` and `cas_pos(.., csec, nc) + 48 - cas_info_offset` there; nh = number of chunk-lookup entries =
// total number of chunks; data_len = number of bytes written), with the three totals now DEFINED (spec_* above).
spec fn footer_written(mdb: MDBInMemoryShard, sh: MDBShardInfo, data_len: int, fsz: int, csz: int, nh: int) -> bool {
    let md = sh.metadata; let nf = mdb.file_content@.len() as int; let nc = mdb.cas_content@.len() as int;
    &&& fsz >= 48 && csz >= 48 && nh >= 0
    &&& md.file_info_offset == 48
    &&& md.cas_info_offset == 48 + fsz
    &&& md.file_lookup_offset == md.cas_info_offset + csz
    &&& md.file_lookup_num_entry == nf
    &&& md.cas_lookup_offset == md.file_lookup_offset + 12 * nf
    &&& md.cas_lookup_num_entry == nc
    &&& md.chunk_lookup_offset == md.cas_lookup_offset + 12 * nc
    &&& md.chunk_lookup_num_entry == nh
    &&& md.footer_offset == md.chunk_lookup_offset + 16 * nh
    &&& data_len == md.footer_offset + 200
    &&& md.stored_bytes_on_disk == spec_stored_bytes_on_disk(mdb)
    &&& md.materialized_bytes == spec_materialized_bytes(mdb)
    &&& md.stored_bytes == spec_stored_bytes(mdb)
}
