// ---- U-AGG / U-SESSCUT: the aggregator's abstract view and the lemmas about appending chunk lists and finalizing ---------------------
// One pending file = (file record, indices of its zero-hash segments).  Everything is stated over the segment list and ref list.
spec fn segs_ok(fi: Seq<FileDataSequenceEntry>, nd: Seq<MerkleHash>) -> bool {
    forall|i: int| 0 <= i < fi.len() ==> seg_ok(#[trigger] fi[i], nd)
}
spec fn sum_data_len(s: Seq<Chunk>) -> nat decreases s.len() {
    if s.len() == 0 { 0 } else { sum_data_len(s.drop_last()) + s.last().data@.len() }
}
proof fn lemma_sum_data_len(s: Seq<Chunk>)
    requires chunks_ok(s),
    ensures sum_data_len(s) == sum_len(hashes(s)),
    decreases s.len()
{
    if s.len() > 0 {
        assert forall|i: int| 0 <= i < s.drop_last().len() implies chunk_ok(#[trigger] s.drop_last()[i]) by { assert(s.drop_last()[i] == s[i]); }
        lemma_sum_data_len(s.drop_last());
        assert(hashes(s).drop_last() =~= hashes(s.drop_last()));
        assert(hashes(s).last() == s.last().hash);
        assert(chunk_ok(s[s.len() - 1]));
    } else {
        assert(hashes(s) =~= Seq::<MerkleHash>::empty());
    }
}
proof fn lemma_hashes_append(a: Seq<Chunk>, b: Seq<Chunk>)
    ensures hashes(a + b) == hashes(a) + hashes(b),
        chunks_ok(a) && chunks_ok(b) ==> chunks_ok(a + b),
        sum_len(hashes(a + b)) == sum_len(hashes(a)) + sum_len(hashes(b)),
{
    assert(hashes(a + b) =~= hashes(a) + hashes(b));
    lemma_sum_len_append(hashes(a), hashes(b));
    if chunks_ok(a) && chunks_ok(b) {
        assert forall|i: int| 0 <= i < (a + b).len() implies chunk_ok(#[trigger] (a + b)[i]) by {
            if i < a.len() { assert((a + b)[i] == a[i]); } else { assert((a + b)[i] == b[i - a.len()]); }
        }
    }
}

// ---- merge_in: the receiver's files keep their segments; the chunk list grows at the end -------------------------------------------
proof fn lemma_append_keep(fi: Seq<FileDataSequenceEntry>, nd: Seq<MerkleHash>, od: Seq<MerkleHash>)
    requires segs_ok(fi, nd), sum_len(nd) + sum_len(od) <= u32::MAX,
    ensures segs_ok(fi, nd + od), flatten(fi, nd + od) == flatten(fi, nd),
        forall|i: int| 0 <= i < fi.len() ==> seg_den(#[trigger] fi[i], nd + od) == seg_den(fi[i], nd),
    decreases fi.len()
{
    lemma_sum_len_append(nd, od);
    assert forall|i: int| 0 <= i < fi.len() implies seg_ok(#[trigger] fi[i], nd + od) && seg_den(fi[i], nd + od) == seg_den(fi[i], nd) by {
        assert(seg_ok(fi[i], nd));
        if fi[i].cas_hash == zero_hash() {
            assert((nd + od).subrange(fi[i].chunk_index_start as int, fi[i].chunk_index_end as int) =~= nd.subrange(fi[i].chunk_index_start as int, fi[i].chunk_index_end as int));
        }
    }
    if fi.len() > 0 {
        assert forall|i: int| 0 <= i < fi.drop_last().len() implies seg_ok(#[trigger] fi.drop_last()[i], nd) by { assert(fi.drop_last()[i] == fi[i]); }
        lemma_append_keep(fi.drop_last(), nd, od);
        assert(seg_den(fi[fi.len() - 1], nd + od) == seg_den(fi[fi.len() - 1], nd));
    }
}
// the merged-in files: zero-hash segments are moved up by |nd| (the receiver's chunk count), everything else is untouched
spec fn shifted(a: FileDataSequenceEntry, b: FileDataSequenceEntry, sh: int) -> bool {
    &&& b.cas_hash == a.cas_hash && b.cas_flags == a.cas_flags && b.unpacked_segment_bytes == a.unpacked_segment_bytes
    &&& if a.cas_hash == zero_hash() { b.chunk_index_start == a.chunk_index_start + sh && b.chunk_index_end == a.chunk_index_end + sh }
        else { b.chunk_index_start == a.chunk_index_start && b.chunk_index_end == a.chunk_index_end }
}
spec fn segs_shifted(fi0: Seq<FileDataSequenceEntry>, fi1: Seq<FileDataSequenceEntry>, sh: int) -> bool {
    fi0.len() == fi1.len() && forall|i: int| 0 <= i < fi0.len() ==> shifted(#[trigger] fi0[i], fi1[i], sh)
}
proof fn lemma_shift(fi0: Seq<FileDataSequenceEntry>, fi1: Seq<FileDataSequenceEntry>, nd: Seq<MerkleHash>, od: Seq<MerkleHash>)
    requires segs_shifted(fi0, fi1, nd.len() as int), segs_ok(fi0, od), sum_len(nd) + sum_len(od) <= u32::MAX,
    ensures segs_ok(fi1, nd + od), flatten(fi1, nd + od) == flatten(fi0, od),
    decreases fi0.len()
{
    lemma_sum_len_append(nd, od);
    assert forall|i: int| 0 <= i < fi1.len() implies seg_ok(#[trigger] fi1[i], nd + od) && seg_den(fi1[i], nd + od) == seg_den(fi0[i], od) by {
        assert(seg_ok(fi0[i], od)); assert(shifted(fi0[i], fi1[i], nd.len() as int));
        if fi0[i].cas_hash == zero_hash() {
            assert((nd + od).subrange(fi1[i].chunk_index_start as int, fi1[i].chunk_index_end as int) =~= od.subrange(fi0[i].chunk_index_start as int, fi0[i].chunk_index_end as int));
        }
    }
    if fi0.len() > 0 {
        let n = fi0.len() - 1;
        assert forall|i: int| 0 <= i < fi0.drop_last().len() implies shifted(#[trigger] fi0.drop_last()[i], fi1.drop_last()[i], nd.len() as int) && seg_ok(fi0.drop_last()[i], od) by {
            assert(fi0.drop_last()[i] == fi0[i]); assert(shifted(fi0[i], fi1[i], nd.len() as int));
        }
        lemma_shift(fi0.drop_last(), fi1.drop_last(), nd, od);
        assert(seg_den(fi1[n], nd + od) == seg_den(fi0[n], od));
    }
}
proof fn lemma_ire_same_hashes(ire: Seq<usize>, fi0: Seq<FileDataSequenceEntry>, fi1: Seq<FileDataSequenceEntry>)
    requires ire_ok(ire, fi0), fi0.len() == fi1.len(), forall|i: int| 0 <= i < fi0.len() ==> (#[trigger] fi1[i]).cas_hash == fi0[i].cas_hash,
    ensures ire_ok(ire, fi1),
{
    assert forall|j: int| 0 <= j < ire.len() implies (#[trigger] ire[j]) < fi1.len() && fi1[ire[j] as int].cas_hash == zero_hash() by {
        assert(fi1[ire[j] as int].cas_hash == fi0[ire[j] as int].cas_hash);
    }
    assert forall|i: int| 0 <= i < fi1.len() && (#[trigger] fi1[i]).cas_hash == zero_hash() implies exists|j: int| 0 <= j < ire.len() && #[trigger] ire[j] == i by {
        assert(fi0[i].cas_hash == zero_hash());
    }
}

// ---- finalize: every zero-hash segment is re-pointed at the xorb X built from the chunk list nd0 ------------------------------------
// lemma_cut_flatten (dedup_segments.rs) for a possibly EMPTY chunk list: cas_node_hash(&[]) is the zero hash, but then there is no
// zero-hash segment to patch (seg_ok needs start < end <= 0)
proof fn lemma_finalize_flatten(fi0: Seq<FileDataSequenceEntry>, fi1: Seq<FileDataSequenceEntry>, nd0: Seq<MerkleHash>, x: MerkleHash)
    requires fi0.len() == fi1.len(), nd0.len() > 0 ==> x != zero_hash() && xorb_chunks(x) == nd0, sum_len(nd0) <= u32::MAX,
        forall|i: int| 0 <= i < fi0.len() ==> patched(#[trigger] fi0[i], fi1[i], x) && fi1[i].cas_hash != zero_hash() && seg_ok(fi0[i], nd0),
    ensures flatten(fi1, Seq::<MerkleHash>::empty()) == flatten(fi0, nd0),
        segs_ok(fi1, Seq::<MerkleHash>::empty()),
        forall|i: int| 0 <= i < fi1.len() ==> seg_den(#[trigger] fi1[i], Seq::<MerkleHash>::empty()) == seg_den(fi0[i], nd0),
    decreases fi0.len()
{
    let e = Seq::<MerkleHash>::empty();
    assert forall|i: int| 0 <= i < fi1.len() implies seg_ok(#[trigger] fi1[i], e) && seg_den(fi1[i], e) == seg_den(fi0[i], nd0) by {
        assert(patched(fi0[i], fi1[i], x)); assert(seg_ok(fi0[i], nd0));
        assert(seg_src(fi1[i], e) == seg_src(fi0[i], nd0));
    }
    if fi0.len() > 0 {
        let n = fi0.len() - 1;
        assert forall|i: int| 0 <= i < fi0.drop_last().len() implies patched(#[trigger] fi0.drop_last()[i], fi1.drop_last()[i], x)
            && fi1.drop_last()[i].cas_hash != zero_hash() && seg_ok(fi0.drop_last()[i], nd0) by { assert(fi0.drop_last()[i] == fi0[i]); assert(patched(fi0[i], fi1[i], x)); }
        lemma_finalize_flatten(fi0.drop_last(), fi1.drop_last(), nd0, x);
        assert(seg_den(fi1[n], e) == seg_den(fi0[n], nd0));
    }
}
// after the patch loop no segment carries the zero hash (the ref list names every zero-hash segment)
proof fn lemma_all_patched(ire: Seq<usize>, fi0: Seq<FileDataSequenceEntry>, fi1: Seq<FileDataSequenceEntry>, nd0: Seq<MerkleHash>, x: MerkleHash)
    requires ire_ok(ire, fi0), fi0.len() == fi1.len(), segs_ok(fi0, nd0), nd0.len() > 0 ==> x != zero_hash(),
        forall|i: int| 0 <= i < fi0.len() ==> patched(#[trigger] fi0[i], fi1[i], x),
        forall|j: int| 0 <= j < ire.len() ==> fi1[(#[trigger] ire[j]) as int].cas_hash == x,
    ensures forall|i: int| 0 <= i < fi1.len() ==> (#[trigger] fi1[i]).cas_hash != zero_hash(),
{
    assert forall|i: int| 0 <= i < fi1.len() implies (#[trigger] fi1[i]).cas_hash != zero_hash() by {
        assert(patched(fi0[i], fi1[i], x)); assert(seg_ok(fi0[i], nd0));
        if fi0[i].cas_hash == zero_hash() {
            let j = choose|j: int| 0 <= j < ire.len() && #[trigger] ire[j] == i;
            assert(fi1[ire[j] as int].cas_hash == x);
        }
    }
}
